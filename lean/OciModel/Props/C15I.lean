/-
C15I (sub-check of C15) — the composite upload ID of `ociunify` with its REAL encoding.

A chunked upload through the unifier runs on both members; it is named by
`base64url(JSON [id0, id1])` (`unifiedBlobWriter.ID`), and `PushBlobChunkedResume` takes every
resumed call back to member `i`'s session `ids[i]`. C15's "members that start equal stay equal" rests,
for chunked uploads, on this ID: here the encoder (`encoding/json`'s string encoder, byte for byte) and
the decoder (base64url without padding, the JSON reader, `[]string` decoding, the length check) are the
model, and the properties are proved for ALL byte strings.

Trusted base of this file: that `UnifyID.lean` transcribes `writer.go` and the two standard-library
codecs (checked on every run by differential execution against `ociunify.New` over recording members,
`harness/c15i.go`); the JSON reader `Json.lean` and base64url `B64Url.lean` are shared with C02J / C03.
Only statements and short proofs live here; lemmas are in `UnifyIDLemmas.lean`, `UnifyIDStandin.lean`.
-/
import OciModel.UnifyID
import OciModel.UnifyIDLemmas
import OciModel.UnifyIDStandin
import OciModel.UnifyIDSim
import OciModel.UnifyIDResp
import OciModel.ReqCodecLemmas
import OciModel.Props.C15
import OciModel.Generated.UnifyID

namespace OciModel.Props.C15I
open OciModel OciModel.Json OciModel.UnifyID OciModel.Unify OciModel.ReqCodec

/-! ### 1. Resuming with the reported ID reaches the two member sessions -/

/-- For ANY two member IDs: the ID the unified writer reports is accepted on resumption, and member `i`
is resumed with the image of its ID under `sanitize` (every byte that is not part of a well-formed
UTF-8 sequence replaced by U+FFFD) — nothing else is lost, whatever the bytes (`"`, `\`, `<`, `&`,
control characters, U+2028/9, `/`, `?`, the empty string, any length). -/
theorem decode_encode (a b : Bytes) : decodeID (encodeID a b) = some (sanitize a, sanitize b) :=
  decodeID_encodeID a b

/-- `sanitize` is the identity exactly on well-formed UTF-8; its image is well-formed; it is idempotent. -/
theorem sanitize_spec (s : Bytes) :
    (sanitize s = s ↔ ValidUtf8 s) ∧ ValidUtf8 (sanitize s) ∧ sanitize (sanitize s) = sanitize s :=
  ⟨sanitize_eq_iff s, valid_sanitize s, sanitize_idem s⟩

/-- Member IDs that are well-formed UTF-8 (what registries issue) survive unchanged. -/
theorem decode_encode_valid (a b : Bytes) (ha : ValidUtf8 a) (hb : ValidUtf8 b) :
    decodeID (encodeID a b) = some (a, b) := by
  rw [decode_encode, sanitize_valid a ha, sanitize_valid b hb]

/-- … and ONLY those: the resumed call goes back to the sessions `(a, b)` iff both IDs are well-formed
UTF-8. (A member that hands out an ID that is not UTF-8 cannot be resumed through the unifier.) -/
theorem roundtrip_exact_iff (a b : Bytes) :
    decodeID (encodeID a b) = some (a, b) ↔ ValidUtf8 a ∧ ValidUtf8 b := by
  rw [decode_encode]
  constructor
  · intro h
    simp only [Option.some.injEq, Prod.mk.injEq] at h
    exact ⟨(sanitize_eq_iff a).mp h.1, (sanitize_eq_iff b).mp h.2⟩
  · rintro ⟨ha, hb⟩
    rw [sanitize_valid a ha, sanitize_valid b hb]

/-- The hypotheses are satisfiable by IDs full of characters the encoder escapes. -/
example : ValidUtf8 (strBytes "a\"b\\c<d>&e/f?g\n") ∧ ValidUtf8 [0xE2, 0x80, 0xA8, 0xC3, 0xA9, 0xF0, 0x9F, 0x98, 0x80] := by decide
example : decodeID (encodeID (strBytes "a\"b\\c<d>&e/f?g\n") [0xE2, 0x80, 0xA8, 0xC3, 0xA9]) =
    some (strBytes "a\"b\\c<d>&e/f?g\n", [0xE2, 0x80, 0xA8, 0xC3, 0xA9]) := by decide
/-- What is lost: `FF 41` comes back as `U+FFFD A`, a truncated sequence `E2 80` as two U+FFFD. -/
example : decodeID (encodeID [0xFF, 0x41] [0xE2, 0x80]) =
    some ([0xEF, 0xBF, 0xBD, 0x41], [0xEF, 0xBF, 0xBD, 0xEF, 0xBF, 0xBD]) := by decide
example : encodeID (strBytes "a") (strBytes "b") = strBytes "WyJhIiwiYiJd" := by decide

/-! ### 2. Two different pairs of sessions never share an ID -/

/-- Equal IDs name the same pair up to `sanitize` … -/
theorem encodeID_eq_imp (a b a' b' : Bytes) (h : encodeID a b = encodeID a' b') :
    sanitize a = sanitize a' ∧ sanitize b = sanitize b' := by
  have h1 := decode_encode a b
  rw [h, decode_encode] at h1
  simpa [eq_comm] using h1

/-- … so on well-formed UTF-8 the encoding is injective. -/
theorem encodeID_injective (a b a' b' : Bytes) (ha : ValidUtf8 a) (hb : ValidUtf8 b)
    (ha' : ValidUtf8 a') (hb' : ValidUtf8 b') (h : encodeID a b = encodeID a' b') : a = a' ∧ b = b' := by
  have := encodeID_eq_imp a b a' b' h
  rwa [sanitize_valid a ha, sanitize_valid b hb, sanitize_valid a' ha', sanitize_valid b' hb'] at this

example : ValidUtf8 (strBytes "a,b") ∧ ValidUtf8 (strBytes "\",\"") ∧ encodeID (strBytes "a\",\"b") [] ≠ encodeID (strBytes "a") (strBytes "b") := by
  decide

/-- The hypothesis cannot be dropped: two IDs that are not UTF-8 collide. -/
theorem encodeID_collision : encodeID [0xFF] [] = encodeID [0xFE] [] ∧ ([0xFF] : Bytes) ≠ [0xFE] := by decide

/-! ### 3. The decoder is total and accepts nothing but two-element arrays of strings -/

/-- Every byte string has an answer (`decodeIDE` says why an ID is refused). -/
theorem decodeID_total (id : Bytes) : ∃ r : Except IDErr (Bytes × Bytes), decodeIDE id = r ∧
    decodeID id = (match r with | .ok p => some p | .error _ => none) :=
  ⟨_, rfl, rfl⟩

/-- An ID is accepted iff it is base64url (no padding) of a JSON document that is an array of exactly
two elements, each a string (taken as it is read) or `null` (taken as the empty string, as
`encoding/json` leaves the zero value). -/
theorem decodeID_accepts_iff (id a b : Bytes) :
    decodeID id = some (a, b) ↔
      ∃ data x y, B64Url.decode id = some data ∧ Json.parse data = some (.arr [x, y]) ∧
        elemStr x = some a ∧ elemStr y = some b :=
  decodeID_some_iff id a b

/-- The refusals, check by check. -/
theorem decodeID_refuses (id : Bytes) :
    (B64Url.decode id = none → decodeIDE id = .error .base64) ∧
    (∀ data, B64Url.decode id = some data →
      (Json.parse data = none → decodeIDE id = .error .json) ∧
      (∀ v, Json.parse data = some v → (∀ xs, v ≠ .arr xs) → v ≠ .null → decodeIDE id = .error .json) ∧
      (Json.parse data = some .null → decodeIDE id = .error .length) ∧
      (∀ xs, Json.parse data = some (.arr xs) → (∃ x ∈ xs, elemStr x = none) → decodeIDE id = .error .json) ∧
      (∀ xs, Json.parse data = some (.arr xs) → (∀ x ∈ xs, elemStr x ≠ none) → xs.length ≠ 2 →
        decodeIDE id = .error .length)) := by
  refine ⟨fun h => by simp [decodeIDE, h], fun data hd => ⟨?_, ?_, ?_, ?_, ?_⟩⟩
  · intro hp; simp [decodeIDE, hd, decodeStrList, hp]
  · intro v hp hna hnn
    cases v with
    | arr xs => exact absurd rfl (hna xs)
    | null => exact absurd rfl hnn
    | _ => simp [decodeIDE, hd, decodeStrList, hp]
  · intro hp; simp [decodeIDE, hd, decodeStrList, hp]
  · intro xs hp hex
    simp [decodeIDE, hd, decodeStrList, hp, mapM_elemStr_none xs hex]
  · intro xs hp hall hlen
    obtain ⟨l, hm⟩ := mapM_elemStr_some xs hall
    have hl := mapM_elemStr_length xs l hm
    simp only [decodeIDE, hd, decodeStrList, hp, hm]
    match l, hl with
    | [], _ => rfl
    | [_], _ => rfl
    | [_, _], hl => exact absurd hl.symm hlen
    | _ :: _ :: _ :: _, _ => rfl

/-- Whatever the members are resumed with is well-formed UTF-8, and resuming with the ID the new
unified writer reports leads to the same two sessions again. -/
theorem decodeID_stable (id a b : Bytes) (h : decodeID id = some (a, b)) :
    ValidUtf8 a ∧ ValidUtf8 b ∧ decodeID (encodeID a b) = some (a, b) :=
  have hv := decodeID_valid h
  ⟨hv.1, hv.2, decode_encode_valid a b hv.1 hv.2⟩

/-- Each refusal happens. (`WyJhIl0` is `["a"]`, `WyJhIiwiYiIsImMiXQ` is `["a","b","c"]`, `WyJhIiwxXQ` is
`["a",1]`, `eyJhIjoiYiJ9` is `{"a":"b"}`, `bnVsbA` is `null`, `WyJhIiwiYiJd=` is a padded ID, `WyJhIiwiYiJ` is
truncated base64 of a truncated document, `W251bGwsImEiXQ` is `[null,"a"]`.) -/
example : decodeIDE (strBytes "WyJhIl0") = .error .length ∧
    decodeIDE (strBytes "WyJhIiwiYiIsImMiXQ") = .error .length ∧
    decodeIDE (strBytes "WyJhIiwxXQ") = .error .json ∧
    decodeIDE (strBytes "eyJhIjoiYiJ9") = .error .json ∧
    decodeIDE (strBytes "bnVsbA") = .error .length := by decide
example : decodeIDE (strBytes "WyJhIiwiYiJd=") = .error .base64 ∧
    decodeIDE (strBytes "WyJhIiwiYiJ") = .error .json ∧
    decodeIDE (strBytes "myid") = .error .json ∧
    decodeIDE [] = .error .json := by decide
example : decodeIDE (strBytes "W251bGwsImEiXQ") = .ok ([], strBytes "a") ∧
    decodeIDE (strBytes "WyJhIiwiYiJd") = .ok (strBytes "a", strBytes "b") := by decide

/-! ### 4. The ID survives the HTTP layer -/

/-- A composite ID is a non-empty string over `A–Z a–z 0–9 - _`: a URL path segment as it stands (no
`/`, `?`, `#`, `%`, no padding `=`), and well-formed UTF-8. -/
theorem encodeID_path_segment (a b : Bytes) :
    encodeID a b ≠ [] ∧ (∀ c ∈ encodeID a b, isB64UrlChar c = true) ∧ (47 : UInt8) ∉ encodeID a b ∧
    B64Url.validUTF8 (encodeID a b) = true :=
  ⟨B64Url.encode_ne_nil _ (goStrList_ne_nil _), encode_alphabet _, B64Url.encode_no_slash _,
    validUTF8_ascii _ (fun c hc => isB64UrlChar_ascii (encode_alphabet _ c hc))⟩

/-- It is an upload ID the request codec accepts (`ValidReq` of C03) for the three upload routes … -/
theorem encodeID_valid_request (repo a b dig : Bytes) (hr : Ref.isRepo repo = true) (hd : Ref.isDigest dig = true) :
    ValidReq B64Url.validUTF8 { kind := .blobUploadInfo, repo := repo, uploadID := encodeID a b } ∧
    ValidReq B64Url.validUTF8 { kind := .blobUploadChunk, repo := repo, uploadID := encodeID a b } ∧
    ValidReq B64Url.validUTF8 { kind := .blobCompleteUpload, repo := repo, uploadID := encodeID a b, digest := dig } := by
  obtain ⟨hne, _, _, hv⟩ := encodeID_path_segment a b
  exact ⟨⟨hr, hne, hv, rfl⟩, ⟨hr, hne, hv, rfl⟩, ⟨hr, hne, hv, hd, rfl⟩⟩

/-- … so (C03 `construct_parse`, with the real base64url codec) the server classifies the request the
client built as the same request, hands the unifier the same composite ID, and the unifier resumes the
two member sessions: the whole chain client → server → unifier → members, for every upload route. -/
theorem encodeID_survives_http (r : Request) (a b : Bytes) (hk : r.kind.isUpload = true)
    (hid : r.uploadID = encodeID a b) (hv : ValidReq B64Url.validUTF8 r) :
    ∃ r', parse B64Url.decode B64Url.validUTF8 (construct B64Url.encode r).1 (construct B64Url.encode r).2.1
        (qget (construct B64Url.encode r).2.2) = .ok r' ∧ r' = r ∧
      decodeID r'.uploadID = some (sanitize a, sanitize b) := by
  have hN : r.listN ≤ maxInt64 := by
    cases hkind : r.kind <;> simp [hkind, Kind.isUpload] at hk <;> simp only [ValidReq, hkind] at hv
    · rw [hv.2.2.2]; exact (by decide : (0 : Int) ≤ maxInt64)
    · rw [hv.2.2.2]; exact (by decide : (0 : Int) ≤ maxInt64)
    · rw [hv.2.2.2.2]; exact (by decide : (0 : Int) ≤ maxInt64)
  exact ⟨r, construct_parse_aux B64Url.encode B64Url.decode B64Url.validUTF8 B64Url.decode_encode
    B64Url.encode_ne_nil B64Url.encode_no_slash r hv hN, rfl, by rw [hid, decode_encode]⟩

/-- The hypotheses are satisfiable: a repository made of routing words, member IDs with `/`, `?`, `"`. -/
def exChunk : Request :=
  { kind := .blobUploadChunk, repo := strBytes "foo/blobs/uploads", uploadID := encodeID (strBytes "a/b?c") (strBytes "\"") }

example : Ref.isRepo (strBytes "foo/blobs/uploads") = true ∧ ValidReq B64Url.validUTF8 exChunk ∧
    exChunk.kind.isUpload = true :=
  ⟨by decide, (encodeID_valid_request _ _ _ (Ref.sha256 ++ Ref.cColon :: List.replicate 64 97) (by decide) (by decide)).2.1, rfl⟩

/-! ### 5. The stand-in codec of the C15 protocol and the real one -/

/-- The real codec IS an instance of the abstract `Codec` of `Unify.lean`: every C15 theorem stated for
an arbitrary codec (`step_members`, `mem_members_stay_equal_partial`, `fresh_upload_id_diagonal`, …) holds
for the model with the real encoding. -/
theorem real_codec_is_the_model (a b id : Bytes) :
    joinID realCodec a b = encodeID a b ∧ splitID realCodec id = decodeID id :=
  ⟨joinID_real a b, splitID_real id⟩

/-- C15's hypothesis `CodecLawful` does NOT hold of the real codec (ill-formed UTF-8 does not come back) … -/
theorem real_codec_not_lawful : ¬ C15.CodecLawful realCodec := by
  intro h
  have := h.2 [[0xFF]]
  revert this
  decide

/-- … it holds on well-formed UTF-8, which is where C15's `split_join` is used. -/
theorem real_codec_lawful_on_valid :
    (∀ x, realCodec.b64dec (realCodec.b64enc x) = some x) ∧
    (∀ l : List Bytes, (∀ p ∈ l, ValidUtf8 p) → realCodec.jsonDec (realCodec.jsonEnc l) = some l) := by
  refine ⟨B64Url.decode_encode, fun l hl => ?_⟩
  show decodeStrList (goStrList l) = some l
  rw [decodeStrList_goStrList, map_sanitize_valid l hl]

/-- C15 `split_join` for the real codec. -/
theorem real_split_join (a b : Bytes) (ha : ValidUtf8 a) (hb : ValidUtf8 b) :
    splitID realCodec (joinID realCodec a b) = some (a, b) := by
  rw [joinID_real, splitID_real, decode_encode_valid a b ha hb]

/-- The stand-in (`&a&b`) is lawful on `&`-free IDs. -/
theorem standin_split_join (a b : Bytes) (ha : NoAmp a) (hb : NoAmp b) :
    splitID standin (joinID standin a b) = some (a, b) := by
  have h := standin_dec_enc [a, b] (by intro p hp; simp at hp; rcases hp with rfl | rfl <;> assumption) (by simp)
  have e : joinID standin a b = standin.jsonEnc [a, b] := rfl
  rw [e, splitID_standin_of_dec h]; rfl

/-- The harness's translation `toReal` (`c15Composite`: `&a&b…` ↦ base64url(JSON [a,b,…])) commutes with
splitting, on every stand-in ID whose parts are well-formed UTF-8 — two parts or not. -/
theorem translation_commutes_split (x : Bytes) (hx : Dom x) : decodeID (toReal x) = splitID standin x :=
  toReal_split hx

/-- … and with joining. -/
theorem translation_commutes_join (a b : Bytes) (ha : NoAmp a) (hb : NoAmp b) :
    toReal (joinID standin a b) = encodeID a b :=
  toReal_join a b ha hb

/-- It is injective there … -/
theorem translation_injective (x y : Bytes) (hx : Dom x) (hy : Dom y) (h : toReal x = toReal y) : x = y :=
  toReal_inj hx hy h

/-- … and onto the real IDs of `&`-free well-formed pairs: a bijection between the IDs of the protocol
and the IDs of the real unifier, under which split and join correspond. -/
theorem translation_onto (a b : Bytes) (ha : NoAmp a) (hb : NoAmp b) (hva : ValidUtf8 a) (hvb : ValidUtf8 b) :
    ∃ x, Dom x ∧ toReal x = encodeID a b ∧ splitID standin x = some (a, b) := by
  have h := standin_dec_enc [a, b] (by intro p hp; simp at hp; rcases hp with rfl | rfl <;> assumption) (by simp)
  refine ⟨joinID standin a b, ⟨[a, b], h, ?_⟩, toReal_join a b ha hb, standin_split_join a b ha hb⟩
  intro p hp; simp at hp; rcases hp with rfl | rfl <;> assumption

/-- Every operation of a C15 history fans out to the same two member calls under either reading. -/
theorem translation_fan (op : Mem.Op) (h : ∀ id, opID op = some id → Dom id) :
    fan realCodec (UnifyID.mapID toReal op) = fan standin op :=
  fan_toReal op h

/-- ONE STEP of the unifier model under both readings (`Good`: a protocol ID without NUL; `Rel`: the
same two member states, and tables of live writers that correspond under the translation): the real
reading of the translated operation gives the translated output and related states. With
`run_translation` below this is what makes the C15 correspondence check (which runs the real code on
`toReal` of the protocol's IDs and the model on the protocol's IDs) a check of the real encoding. -/
theorem translation_step (H : Bytes → Bytes) (pol : Policy) (f : Bool) (s s' : UState) (op : Mem.Op)
    (hrel : Rel s s') (hop : ∀ id, opID op = some id → Good id) :
    Rel (step H standin pol f s op).1 (step H realCodec pol f s' (UnifyID.mapID toReal op)).1 ∧
    (step H realCodec pol f s' (UnifyID.mapID toReal op)).2 = trOutFor op (step H standin pol f s op).2 :=
  step_translation H pol f s s' op hrel hop

/-- A whole history: the members end in the SAME states under both readings (so every C15 statement
about the members — observable equality above all — holds of one reading iff it holds of the other). -/
theorem translation_run (H : Bytes → Bytes) (pol : Policy) (imm : Bool) (ops : List Mem.Op)
    (hg : ∀ op ∈ ops, ∀ id, opID op = some id → Good id) :
    (run H realCodec pol (uinit imm) (ops.map (UnifyID.mapID toReal))).m0 = (run H standin pol (uinit imm) ops).m0 ∧
    (run H realCodec pol (uinit imm) (ops.map (UnifyID.mapID toReal))).m1 = (run H standin pol (uinit imm) ops).m1 :=
  have h := run_translation H pol ops _ _ (rel_refl_init imm) hg
  ⟨h.m0, h.m1⟩

/-- The hypotheses are satisfiable: the composite IDs of the C15 generator, and a fresh `ocimem` ID. -/
example : Good (strBytes "&myid&other-id") ∧ Good (strBytes "&@0&@0") ∧ Plain (Mem.freshID 17) ∧
    Rel (uinit false) (uinit false) :=
  ⟨⟨⟨_, rfl, by decide⟩, by decide⟩, ⟨⟨_, rfl, by decide⟩, by decide⟩, freshID_plain 17, rel_refl_init false⟩

/-- The IDs of the C15 generator are in the domain; the malformed ones it uses are malformed under both
readings. -/
example : Dom (strBytes "&myid&other-id") ∧ Dom (strBytes "&x&x") ∧ Dom (strBytes "&solo") ∧ Dom (strBytes "&a&b&c") ∧
    Dom (strBytes "&@0&@0") :=
  ⟨⟨_, rfl, by decide⟩, ⟨_, rfl, by decide⟩, ⟨_, rfl, by decide⟩, ⟨_, rfl, by decide⟩, ⟨_, rfl, by decide⟩⟩
example : (∀ x ∈ [strBytes "myid", [], strBytes "%%"], toReal x = x ∧ decodeID x = none ∧ splitID standin x = none) ∧
    decodeID (toReal (strBytes "&solo")) = none ∧ decodeID (toReal (strBytes "&a&b&c")) = none ∧
    decodeID (toReal (strBytes "&myid&other-id")) = some (strBytes "myid", strBytes "other-id") := by decide
example : NoAmp (strBytes "@17") ∧ ValidUtf8 (strBytes "@17") := by decide

/-! ### 6. C15 for the model with the real encoding -/

/-- An ID the unified writer of equal members reports (`encodeID id id`, `id` well-formed) is diagonal:
both members receive the same call. -/
theorem real_reported_id_diagonal (r id d dg : Bytes) (off : Int) (hv : ValidUtf8 id) :
    C15.Diagonal realCodec (.wWrite r (encodeID id id) d) ∧ C15.Diagonal realCodec (.resume r (encodeID id id) off) ∧
    C15.Diagonal realCodec (.wCommit r (encodeID id id) dg) ∧ C15.Diagonal realCodec (.wCancel r (encodeID id id)) := by
  have h := real_split_join id id hv hv
  rw [joinID_real] at h
  refine ⟨?_, ?_, ?_, ?_⟩ <;> intro x y hf <;> simp [fan, h] at hf <;> rw [← hf.1, ← hf.2]

/-- C15 `mem_members_stay_equal_partial` with the real encoding: two equal `ocimem` members remain equal
under any history through the unifier whose composite IDs name the same upload in both members. -/
theorem real_members_stay_equal (H : Bytes → Bytes) (pol : Policy) (s : UState) (hs : s.m0 = s.m1)
    (ops : List Mem.Op) (hd : ∀ op ∈ ops, C15.Diagonal realCodec op) :
    (run H realCodec pol s ops).m0 = (run H realCodec pol s ops).m1 :=
  C15.mem_members_stay_equal_partial H realCodec pol s hs ops hd

/-- … and the ID of a fresh upload over equal members has that form. -/
theorem real_fresh_id (H : Bytes → Bytes) (pol : Policy) (f : Bool) (s : UState) (hs : s.m0 = s.m1) (r id : Bytes)
    (h : (step H realCodec pol f s (.pushChunked r)).2 = .out (.okWriter id)) : ∃ a, id = encodeID a a := by
  obtain ⟨a, ha⟩ := C15.fresh_upload_id_diagonal H realCodec pol f s hs r id h
  exact ⟨a, by rw [ha, joinID_real]⟩

/-! ### 7. The string encoder and the one of the response codec -/

/-- `goStr` agrees with `RespCodec.jsonStr` (C03R: tag and repository lists) on every string of bytes
below 0x80 — one encoder for both sub-checks, generalised here to all byte strings. -/
theorem goStr_extends_jsonStr (s : Bytes) (h : ∀ c ∈ s, c.toNat < 0x80) : goStr s = RespCodec.jsonStr s :=
  goStr_eq_jsonStr s h

/-- Beyond ASCII they differ where Go escapes: U+2028, and bytes that are not UTF-8. -/
example : goStr [0xE2, 0x80, 0xA8] ≠ RespCodec.jsonStr [0xE2, 0x80, 0xA8] ∧ goStr [0xFF] ≠ RespCodec.jsonStr [0xFF] ∧
    goStr (strBytes "a<\"") = RespCodec.jsonStr (strBytes "a<\"") := by decide

/-! ### 8. Obligation on the facts regenerated from `ociunify/writer.go` -/

/-- The choices `UnifyID.lean` transcribes are the ones in the source: the ID is
`base64.RawURLEncoding` of `json.Marshal([]string{w.w[0].ID(), w.w[1].ID()})` and nothing else; a
resumption decodes with the same encoding, unmarshals into a `[]string`, insists on exactly two
elements — each failing check returns an error before any member is called, in this order — and calls
member `i` with `ids[i]`. -/
theorem generated_id_codec :
    Generated.UnifyID.idShape = true ∧
    Generated.UnifyID.idMarshalArg = "[]string{w.w[0].ID(), w.w[1].ID()}" ∧
    Generated.UnifyID.idEncoding = "RawURLEncoding" ∧
    Generated.UnifyID.resumeHead =
      ["data, err := base64.RawURLEncoding.DecodeString(id)", "if err != nil => return-error",
       "var ids []string", "if err := json.Unmarshal(data, &ids); err != nil => return-error",
       "if len(ids) != 2 => return-error"] ∧
    Generated.UnifyID.resumeMemberArgs = ["ctx", "repo", "ids[i]", "offset", "chunkSize"] := by decide

end OciModel.Props.C15I
