/-
C03C — the client half of the wire model, tied to ociclient's source (sub-check of C03, beside C03W).

`Wire.Call.request1` (and the initial request of the three listings in `Wire.clientCallS`) say which
`ocirequest.Request` the client builds for each `ociregistry.Interface` call. `plan_site` (C03W) ties the
SERVER half to the regenerated handler table; here the CLIENT half is tied to the regenerated table of
request literals `Generated/ClientReq.lean` (translator/clientreq.go): one row per
`ocirequest.Request{…}` literal of package ociclient — function, `Kind`, and the provenance of every field.

* `siteRequest cfg c` — the request denoted by the literal of the method `c` models (`fnOf c`), when that
  method is called with `c`'s arguments (`argsOf c`, indexed like the Go parameters).
* `c.rreq cfg` — the request of the model, as a record (every field).
* `c.proceeds`, `c.decorate` — the method's own refusal before / additions after `newRequest`.

Covered: the 7 reads, the 3 deletes, `PushManifest`, `MountBlob`, the POST of `PushBlob`, `PushBlobChunked`
(`covered`), and the first request of `Tags`, `Repositories`, `Referrers` (`coveredList`).
NOT covered (not built from a literal in the source): `uploadInfo` / `uploadChunk` / `uploadCommit` (built
from the `Location` the writer was given), the second request of the two-request flows (`Call.request2`:
the PUT of `PushBlob` goes to a `Location`, the HEAD fallback of `read` re-uses its request with `Kind`
overwritten), and the follow-up pages of a listing (`nextLink`: a `Link` target, or a copy of the initial
request with `ListLast` overwritten).

Statements and short proofs only; definitions and lemmas are in `OciModel/WireClientSource.lean`.
-/
import OciModel.Wire
import OciModel.WireClientSource
import OciModel.Generated.ClientReq
namespace OciModel.Props.C03C
open OciModel OciModel.Ref OciModel.ReqCodec OciModel.RespCodec OciModel.Wire

/-! ## Part 0 — the table -/

/-- **The regenerated table has the shape the model accounts for**: every `ocirequest.Request` literal of
package ociclient was understood (keyed, with a constant `Kind`), stands in one of the 17 methods of `*client`
the model knows, each of these has exactly one, every `Kind` is a kind of `ocirequest`, and every field's value
has a known provenance (a parameter, a field of the receiver, a conversion of these). -/
theorem generated_clientreq_ok :
    Generated.ClientReq.shapeKnown = true ∧ tableOk Generated.ClientReq.requests = true := by decide

/-- `argsOf` follows the regenerated signatures: for every covered call, the method has exactly one literal and
the arguments the model passes have the arity and the type shapes of its Go parameters. -/
theorem args_match_params (c : Wire.Call) (h : covered c = true ∨ coveredList c = true) :
    ∃ row ∈ Generated.ClientReq.requests, rowsOf (fnOf c) = [row] ∧ argsTyped row.params (argsOf c) = true := by
  obtain ⟨row, h1, h2⟩ := argsOf_typed c h
  have hm : row ∈ rowsOf (fnOf c) := by rw [h1]; exact List.mem_singleton.2 rfl
  exact ⟨row, (List.mem_filter.1 hm).1, h1, h2⟩

/-! ## Part 1 — the request of every call is the one the source's literal denotes -/

/-- **Field by field**: for all arguments, the regenerated literal of the method a call models denotes exactly
the request of the model — the same kind, and every field from the same parameter. -/
theorem client_request_literal (cfg : Cfg) (c : Wire.Call) (h : covered c = true ∨ coveredList c = true) :
    siteRequest cfg c = some (c.rreq cfg) :=
  siteRequest_eq cfg c h

/-- **The request the model sends for a call is `newRequest` of the regenerated literal**, with the headers
and body the method adds afterwards — unless the method refuses first (`PushManifest`, empty media type). -/
theorem client_request_site (cfg : Cfg) (c : Wire.Call) (h : covered c = true) :
    Call.request1 cfg c =
      if c.proceeds then ((siteRequest cfg c).bind mkReq?).map c.decorate else none := by
  rw [siteRequest_eq cfg c (Or.inl h), request1_eq cfg c h]; rfl

/-- The digest `read` / `resolve` take as known from the request they were given (`rreq.Digest`) is the
`Digest` of the literal: empty for the by-tag calls. (This is what tells `Tag:` from `Digest:`, which
`construct` prints in the same place.) -/
theorem client_known_digest (cfg : Cfg) (c : Wire.Call) (h : (knownDigest (c.dec cfg)).isSome = true) :
    (siteRequest cfg c).map (·.digest) = knownDigest (c.dec cfg) := by
  cases c <;> first | (simp [Call.dec, knownDigest] at h; done) | rfl

/-! ## Part 2 — the listings -/

/-- `Tags` starts its pager with the request the literal denotes. -/
theorem tags_request_site {σ : Type} (cfg : Cfg) (fuel : Nat) (send : σ → HttpRequest → σ × HttpResponse) (s : σ)
    (repo start : Bytes) :
    ∃ r, siteRequest cfg (.tags repo start) = some r ∧
      clientCallS cfg fuel send s (.tags repo start) = listCallS cfg cfg.decTags send fuel s r :=
  ⟨_, siteRequest_eq cfg _ (Or.inr rfl), rfl⟩

/-- `Repositories` starts its pager with the request the literal denotes. -/
theorem repositories_request_site {σ : Type} (cfg : Cfg) (fuel : Nat) (send : σ → HttpRequest → σ × HttpResponse) (s : σ)
    (start : Bytes) :
    ∃ r, siteRequest cfg (.repositories start) = some r ∧
      clientCallS cfg fuel send s (.repositories start) = listCallS cfg cfg.decCatalog send fuel s r :=
  ⟨_, siteRequest_eq cfg _ (Or.inr rfl), rfl⟩

/-- `Referrers` sends the request the literal denotes: the model leaves `ListN` out (`-1`), the source sets
it to the page size — `construct` prints no query for a referrers request, so both are the same request. -/
theorem referrers_request_site {σ : Type} (cfg : Cfg) (fuel : Nat) (send : σ → HttpRequest → σ × HttpResponse) (s : σ)
    (repo dg : Bytes) :
    ∃ r, siteRequest cfg (.referrers repo dg) = some r ∧
      clientCallS cfg fuel send s (.referrers repo dg) = referrersCallS cfg send s r.repo r.digest ∧
      mkReq? r = mkReq? { kind := .referrersList, repo := r.repo, digest := r.digest, listN := -1 } ∧
      mkReq r = mkReq { kind := .referrersList, repo := r.repo, digest := r.digest, listN := -1 } :=
  ⟨_, siteRequest_eq cfg _ (Or.inr rfl), rfl, mkReq?_referrers_listN .., mkReq_referrers_listN ..⟩

/-! ## Instances -/

def exDigest : Bytes := sha256 ++ cColon :: List.replicate 64 97

example : covered (.mountBlob (strBytes "src") (strBytes "dst") exDigest) = true := rfl

/-- `MountBlob(ctx, "src", "dst", d)`: the literal puts parameter 2 in `Repo`, parameter 1 in `FromRepo` -/
example (cfg : Cfg) : siteRequest cfg (.mountBlob (strBytes "src") (strBytes "dst") exDigest) =
    some { kind := .blobMount, repo := strBytes "dst", fromRepo := strBytes "src", digest := exDigest } := rfl

/-- … and that is what goes on the wire -/
example (cfg : Cfg) : Call.request1 cfg (.mountBlob (strBytes "src") (strBytes "dst") exDigest) =
    some { method := mPOST, path := strBytes "/v2/dst/blobs/uploads/",
           query := [(qMount, exDigest), (qFrom, strBytes "src")] } := by
  rw [client_request_site cfg _ rfl]; rfl

/-- `ResolveTag` sets `Tag`, not `Digest` -/
example (cfg : Cfg) : siteRequest cfg (.resolveTag (strBytes "r") (strBytes "latest")) =
    some { kind := .manifestHead, repo := strBytes "r", tag := strBytes "latest" } := rfl

/-- `PushManifest` sets both `Tag` and `Digest` (of the contents) -/
example (cfg : Cfg) (content : Bytes) : siteRequest cfg (.pushManifest (strBytes "r") (strBytes "t") content (strBytes "m")) =
    some { kind := .manifestPut, repo := strBytes "r", tag := strBytes "t", digest := cfg.H content } := rfl

/-- the order of the keys of a literal does not matter … -/
example (cfg : Cfg) (a b d : Bytes) :
    rowRequest (clientEnv cfg)
      { recv := "client", fn := "MountBlob", params := [], kind := "ReqBlobMount",
        fields := [("Digest", .app "string" (.param 3)), ("FromRepo", .param 1), ("Repo", .param 2)] }
      (argsOf (.mountBlob a b d)) = some ((Call.mountBlob a b d).rreq cfg) := rfl

/-- … but which parameter goes where does: the literal with `Repo` and `FromRepo` swapped denotes another request -/
example (cfg : Cfg) (a b d : Bytes) :
    rowRequest (clientEnv cfg)
      { recv := "client", fn := "MountBlob", params := [], kind := "ReqBlobMount",
        fields := [("Repo", .param 1), ("FromRepo", .param 2), ("Digest", .app "string" (.param 3))] }
      (argsOf (.mountBlob a b d)) = some { kind := .blobMount, repo := a, fromRepo := b, digest := d } := rfl

/-- a value the translator could not trace denotes nothing -/
example (cfg : Cfg) (a b : Bytes) :
    rowRequest (clientEnv cfg)
      { recv := "client", fn := "GetTag", params := [], kind := "ReqManifestGet",
        fields := [("Repo", .param 1), ("Tag", .other "f(x)")] } (argsOf (.getTag a b)) = none := rfl

end OciModel.Props.C03C
