/-
C04W — the client's chunked writer (`ociclient.blobWriter`, writer.go) as a state machine
under faults. Sub-check of C04 (exact bytes) and C18 (never stuck).

The model (`OciModel/ClientWriter.lean`) makes every method a total function of the writer's
state and of the answer the transport gives to the one request the method may make: any status,
`Location` / `Range` / `OCI-Chunk-Min-Length` present, absent or malformed, or no response at all.
`net/url` is a parameter (`UrlEnv`): every theorem holds for every `env`.

All theorems quantify over ALL answers, ALL writer states (or all states satisfying the stated
invariant), ALL write partitions and ALL scripts. Helper lemmas: `OciModel/ClientWriterLemmas.lean`.
-/
import OciModel.ClientWriter
import OciModel.ClientWriterLemmas
import OciModel.Generated.WriterFacts

namespace OciModel.Props.C04W
open OciModel OciModel.ClientWriter OciModel.ReqCodec

/-! ### W1 — what is sent does not depend on the answer; one request per call -/

/-- The request a call makes is a function of the writer and the arguments: the answer cannot
change what has been sent. -/
theorem requests_independent_of_answer (env : UrlEnv) (w : W) (c : Call) (a a' : Answer) :
    (step env w c a).2.reqs = (step env w c a').2.reqs := by
  rw [step_reqs, step_reqs]

/-- Totality, part 1: a call makes at most one request whatever it is answered — there is no
retry loop inside the writer that an answer sequence could keep spinning. -/
theorem at_most_one_request (env : UrlEnv) (w : W) (c : Call) (a : Answer) :
    (step env w c a).2.reqs.length ≤ 1 := by
  rw [step_reqs]; cases stepReq env w c <;> simp

theorem open_at_most_one_request (env : UrlEnv) (u : Loc) (id : Bytes) (off hint : Int) (a : Answer) :
    (start env u hint a).2.1.length ≤ 1 ∧ (resume env id off hint a).2.length ≤ 1 := by
  constructor
  · unfold start; simp only; split
    · simp
    · split <;> simp
  · unfold resume
    repeat' split
    all_goals simp

/-- Totality, part 2: every script runs to its end — one observation per call, for every
sequence of answers. (The methods are total functions; this states it on scripts.) -/
theorem run_total (env : UrlEnv) (w : W) (g : Ghost) (script : List (Call × Answer)) :
    (runG env w g script).2.2.length = script.length :=
  runG_length env script w g

/-! ### W2 — a refused call leaves the writer as it was -/

/-- A `Write` that returns an error has changed nothing: not the chunk, not `flushed`, not `size`,
not the location. -/
theorem write_refused_unchanged (env : UrlEnv) (w : W) (buf : Bytes) (a : Answer) (e : WErr)
    (h : (write env w buf a).out = .error e) : (write env w buf a).w = w := by
  unfold write at h ⊢
  split
  · rename_i hc
    rw [if_pos hc] at h
    cases hf : flush env w buf [] a with
    | mk o rs => cases o with
      | error e' => rfl
      | ok w1 => rw [hf] at h; cases h
  · rename_i hc; rw [if_neg hc] at h; cases h

/-- The same for `Commit`. -/
theorem commit_refused_unchanged (env : UrlEnv) (w : W) (d : Bytes) (a : Answer) (e : WErr)
    (h : (commit env w d a).out = .error e) : (commit env w d a).w = w := by
  unfold commit at h ⊢
  split
  · rfl
  · rename_i hd
    rw [if_neg hd] at h
    cases hf : flush env w [] d a with
    | mk o rs => cases o with
      | error e' => rfl
      | ok w1 => rw [hf] at h; cases h

/-- A `Close` that returns an error keeps every byte: only `closed` and `closeErr` change. -/
theorem close_refused_keeps_data (env : UrlEnv) (w : W) (a : Answer) (e : WErr)
    (hc : w.closed = false) (h : (close env w a).out = .error e) :
    (close env w a).w = { w with closed := true, closeErr := some e } := by
  cases hf : flush env w [] [] a with
  | mk o rs => cases o with
    | error e' =>
      rw [close_flush_err hc hf] at h ⊢
      cases h; rfl
    | ok w1 => rw [close_flush_ok hc hf] at h; cases h

/-- Retry safety, call by call: repeating a refused `Write` or `Commit` sends exactly the same
request again (same URL, same `Content-Range`, same body), whatever the second answer is. -/
theorem retry_sends_same (env : UrlEnv) (w : W) (c : Call) (a a' : Answer) (e : WErr)
    (hc : c ≠ .close) (h : (step env w c a).2.result = .error e) :
    (step env (step env w c a).1 c a').2.reqs = (step env w c a).2.reqs := by
  have hw : (step env w c a).1 = w := by
    cases c with
    | close => exact absurd rfl hc
    | cancel => rfl
    | write buf =>
      simp only [step] at h ⊢
      cases ho : (write env w buf a).out with
      | ok n => rw [ho] at h; cases h
      | error e' => exact write_refused_unchanged env w buf a e' ho
    | commit d =>
      simp only [step] at h ⊢
      exact commit_refused_unchanged env w d a e h
  rw [hw]; exact requests_independent_of_answer env w c a' a

/-! ### W3 — the invariant: acknowledged ++ buffered = accepted -/

/-- `ClientWriter.Inv off w g`, in words: the bodies the server has acknowledged, followed by the bytes the
writer still holds, are exactly the bytes of the Writes that returned success; `flushed` counts
the former and `Size()` the latter, both from the offset the writer started at. -/
example (off : Int) (w : W) (g : Ghost) :
    ClientWriter.Inv off w g ↔ (g.acked ++ w.chunk = g.accepted ∧ w.flushed = off + (g.acked.length : Int) ∧
      w.size = off + (g.accepted.length : Int)) := Iff.rfl

/-- A writer fresh from `PushBlobChunked` satisfies the invariant at offset 0, whatever the
registry answered. -/
theorem start_inv (env : UrlEnv) (u : Loc) (hint : Int) (a : Answer) (w : W)
    (h : (start env u hint a).1 = .ok w) : ClientWriter.Inv 0 w {} := by
  unfold start at h
  simp only at h
  split at h
  · cases h
  · split at h
    · cases h
    · cases h; simp [ClientWriter.Inv]

/-- A writer fresh from `PushBlobChunkedResume` satisfies it at the offset it adopted: the
caller's, or the one read from the registry's `Range` answer. -/
theorem resume_inv (env : UrlEnv) (id : Bytes) (off hint : Int) (a : Answer) (w : W)
    (h : (resume env id off hint a).1 = .ok w) : ClientWriter.Inv w.size w {} ∧ (off ≠ -1 → w.size = off) := by
  unfold resume at h
  repeat' split at h
  all_goals first | cases h | skip
  all_goals refine ⟨by simp [ClientWriter.Inv], fun hne => ?_⟩
  all_goals first | rfl | (exfalso; exact hne (by assumption))

/-- **Retry safety** (one call): whatever the call and whatever the answer — success, 4xx, 5xx,
429, an unexpected 2xx, a missing or malformed `Location`, no response — the invariant survives.
Nothing is dropped and nothing is duplicated. -/
theorem inv_step (env : UrlEnv) (off : Int) (w : W) (g : Ghost) (c : Call) (a : Answer)
    (h : ClientWriter.Inv off w g) : ClientWriter.Inv off (stepG env w g c a).1 (stepG env w g c a).2.1 :=
  inv_stepG env off w g c a h

/-- **Retry safety** (all scripts): for every sequence of calls — any partition into writes,
closes, commits, retries — and every sequence of answers. -/
theorem inv_run (env : UrlEnv) (off : Int) (script : List (Call × Answer)) (w : W) (g : Ghost)
    (h : ClientWriter.Inv off w g) : ClientWriter.Inv off (runG env w g script).1 (runG env w g script).2.1 :=
  inv_runG env off script w g h

/-- Every request a call makes carries exactly the next unacknowledged bytes, at exactly the
offset of the acknowledged ones: `acknowledged ++ body = accepted ++ (this Write's bytes)` and
`Content-Range` is `RangeString(off + |acknowledged|, off + |acknowledged| + |body|)`. -/
theorem request_exact (env : UrlEnv) (off : Int) (w : W) (g : Ghost) (c : Call) (a : Answer)
    (h : ClientWriter.Inv off w g) (r : Req) (hr : r ∈ (step env w c a).2.reqs) :
    g.acked ++ r.body = g.accepted ++ argBytes c ∧
    r.contentRange = some (rangeString (off + (g.acked.length : Int))
      (off + (g.acked.length : Int) + (r.body.length : Int))) := by
  rw [step_reqs] at hr
  cases hs : stepReq env w c with
  | none => rw [hs] at hr; cases hr
  | some r' =>
    rw [hs] at hr
    simp only [Option.toList_some, List.mem_singleton] at hr
    subst hr
    obtain ⟨d, hd⟩ := stepReq_flush env w c r hs
    have hb := flushReq_body env w (argBytes c) d r hd
    have hrg := flushReq_range env w (argBytes c) d r hd
    obtain ⟨h1, h2, -⟩ := h
    refine ⟨?_, ?_⟩
    · rw [hb, ← h1]; simp
    · rw [hrg, h2]

/-- `Size()` is the offset the writer started at plus the bytes of the Writes that returned
success — after any script, under any answers. -/
theorem size_is_accepted (env : UrlEnv) (off : Int) (script : List (Call × Answer)) (w : W) (g : Ghost)
    (h : ClientWriter.Inv off w g) :
    (runG env w g script).1.size = off + ((runG env w g script).2.1.accepted.length : Int) :=
  (inv_runG env off script w g h).2.2

/-- A `Commit` that succeeds has delivered everything: all accepted bytes are acknowledged, the
chunk is empty, and the descriptor's size is `Size()`. -/
theorem commit_ok_delivers_all (env : UrlEnv) (off : Int) (w : W) (g : Ghost) (d : Bytes) (a : Answer)
    (n : Int) (h : ClientWriter.Inv off w g) (hok : (stepG env w g (.commit d) a).2.2.result = .ok n) :
    (stepG env w g (.commit d) a).2.1.acked = (stepG env w g (.commit d) a).2.1.accepted ∧
    (stepG env w g (.commit d) a).1.chunk = [] ∧
    n = off + ((stepG env w g (.commit d) a).2.1.accepted.length : Int) := by
  have hinv := inv_stepG env off w g (.commit d) a h
  have hd : d ≠ [] := by
    intro hd; subst hd
    simp [stepG, step, commit] at hok
  have hchunk : (stepG env w g (.commit d) a).1.chunk = [] ∧ n = (stepG env w g (.commit d) a).1.size := by
    rcases flush_cases env w [] d a with ⟨hn, hf⟩ | ⟨r, hr, ⟨hack, loc, hf⟩ | ⟨hack, e, hf⟩⟩
    · exact absurd (flushReq_none_empty hn).1 hd
    · simp only [stepG, step, commit_flush_ok hd hf] at hok ⊢
      cases hok
      exact ⟨rfl, rfl⟩
    · simp only [stepG, step, commit_flush_err hd hf] at hok
      cases hok
  obtain ⟨h1, -, h3⟩ := hinv
  rw [hchunk.1, List.append_nil] at h1
  exact ⟨h1, hchunk.1, by rw [hchunk.2, h3]⟩

/-! ### W4 — after `Close` -/

/-- After a `Close` that failed, every later `Close` returns that same error without sending
anything, whatever the transport would have answered: **`Close` is not retryable.** -/
theorem close_error_sticky (env : UrlEnv) (w : W) (a a' : Answer) (e : WErr)
    (hc : w.closed = false) (h : (close env w a).out = .error e) :
    (close env (close env w a).w a').out = .error e ∧ (close env (close env w a).w a').reqs = [] ∧
    (close env (close env w a).w a').w = (close env w a).w := by
  rw [close_refused_keeps_data env w a e hc h]
  simp [close, closedResult]

/-- After a `Close` that succeeded, later `Close`s return success and send nothing. -/
theorem close_ok_sticky (env : UrlEnv) (w : W) (a a' : Answer)
    (h : (close env w a).out = .ok ()) :
    (close env (close env w a).w a').out = .ok () ∧ (close env (close env w a).w a').reqs = [] := by
  cases hc : w.closed with
  | true =>
    rw [close_closed hc] at h ⊢
    simp only at h ⊢
    rw [close_closed hc]; exact ⟨h, rfl⟩
  | false =>
    cases hf : flush env w [] [] a with
    | mk o rs => cases o with
      | error e' => rw [close_flush_err hc hf] at h; cases h
      | ok w1 => rw [close_flush_ok hc hf]; simp [close, closedResult]

/-- Surprising but so in the code: `Write` does not look at `closed` — a closed writer (closed
with or without error) accepts and sends data exactly like an open one. -/
theorem write_ignores_closed (env : UrlEnv) (w : W) (buf : Bytes) (a : Answer) (cl : Bool) (ce : Option WErr) :
    (write env (setClosed w cl ce) buf a).out = (write env w buf a).out ∧
    (write env (setClosed w cl ce) buf a).reqs = (write env w buf a).reqs ∧
    (write env (setClosed w cl ce) buf a).w = setClosed (write env w buf a).w cl ce := by
  by_cases hcond : ((w.chunk.length + buf.length : Nat) : Int) > w.chunkSize
  · have hcond' : (((setClosed w cl ce).chunk.length + buf.length : Nat) : Int) > (setClosed w cl ce).chunkSize := hcond
    have hfs := flush_setClosed env w buf [] a cl ce
    cases hf : flush env w buf [] a with
    | mk o rs =>
      rw [hf] at hfs
      cases o with
      | ok w1 => rw [write_flush_ok hcond hf, write_flush_ok hcond' hfs]; exact ⟨rfl, rfl, rfl⟩
      | error e => rw [write_flush_err hcond hf, write_flush_err hcond' hfs]; exact ⟨rfl, rfl, rfl⟩
  · have hcond' : ¬ (((setClosed w cl ce).chunk.length + buf.length : Nat) : Int) > (setClosed w cl ce).chunkSize := hcond
    rw [write_buffered hcond, write_buffered hcond']; exact ⟨rfl, rfl, rfl⟩

/-- … and so does `Commit`: after a failed `Close` the bytes it could not deliver are still in
the chunk, and a `Commit` sends exactly the body and `Content-Range` the `Close` had sent. -/
theorem commit_after_failed_close_resends (env : UrlEnv) (w : W) (a a' : Answer) (e : WErr) (d : Bytes)
    (hc : w.closed = false) (hd : d ≠ []) (h : (close env w a).out = .error e) :
    ∃ r r', (close env w a).reqs = [r] ∧ (commit env (close env w a).w d a').reqs = [r'] ∧
      r'.body = r.body ∧ r'.contentRange = r.contentRange := by
  rw [close_refused_keeps_data env w a e hc h]
  rcases flush_cases env w [] [] a with ⟨hn, hf⟩ | ⟨r, hr, ⟨hack, loc, hf⟩ | ⟨hack, e', hf⟩⟩
  · rw [close_flush_ok hc hf] at h; cases h
  · rw [close_flush_ok hc hf] at h; cases h
  · have hreq : (commit env { w with closed := true, closeErr := some e } d a').reqs
        = (flushReq env { w with closed := true, closeErr := some e } [] d).toList := by
      have := step_reqs env { w with closed := true, closeErr := some e } (.commit d) a'
      simpa [step, stepReq, hd] using this
    cases hr' : flushReq env { w with closed := true, closeErr := some e } [] d with
    | none => exact absurd (flushReq_none_empty hr').1 hd
    | some r' =>
      refine ⟨r, r', by rw [close_flush_err hc hf], by rw [hreq, hr']; rfl, ?_, ?_⟩
      · rw [flushReq_body _ _ _ _ _ hr', flushReq_body _ _ _ _ _ hr]
      · rw [flushReq_range _ _ _ _ _ hr', flushReq_range _ _ _ _ _ hr,
          flushReq_body _ _ _ _ _ hr', flushReq_body _ _ _ _ _ hr]

/-! ### W5 — allocation is bounded by the caller, never by the registry -/

/-- `Write` allocates at most once, and never more than `defaultChunkSize` (64 KiB), however
large a chunk size the registry dictated. -/
theorem write_alloc_bounded (env : UrlEnv) (w : W) (buf : Bytes) (a : Answer) :
    ∀ n ∈ (write env w buf a).allocs, n ≤ defaultChunkSize ∧ n ≤ w.chunkSize := by
  intro n hn
  unfold write at hn
  split at hn
  · cases hf : flush env w buf [] a with
    | mk o rs => rw [hf] at hn; cases o <;> simp at hn
  · simp only at hn
    split at hn
    · simp at hn
    · simp only [List.mem_singleton] at hn
      subst hn
      exact ⟨Int.min_le_right _ _, Int.min_le_left _ _⟩

/-- `PushBlobChunked` allocates the caller's chunk size (or the default), but never more than the default (fix F38:
the hint is only a hint - before the fix the allocation WAS the hint, and `math.MaxInt` panicked `makeslice`); the
`OCI-Chunk-Min-Length` of the answer has no influence. -/
theorem start_alloc_is_callers (env : UrlEnv) (u : Loc) (hint : Int) (a : Answer) :
    ∀ n ∈ (start env u hint a).2.2, n = min (if hint ≤ 0 then defaultChunkSize else hint) defaultChunkSize := by
  intro n hn
  unfold start at hn
  simp only at hn
  split at hn
  · simp at hn
  · split at hn
    · simp at hn
    · simpa using hn

/-- **Every allocation of the writer is bounded by the default chunk size**, whatever hint the caller passes and
whatever the registry answers (F18 for the resumed writer, F38 for the fresh one). -/
theorem start_alloc_bounded (env : UrlEnv) (u : Loc) (hint : Int) (a : Answer) :
    ∀ n ∈ (start env u hint a).2.2, n ≤ defaultChunkSize := by
  intro n hn
  rw [start_alloc_is_callers env u hint a n hn]
  exact Int.min_le_right _ _

/-- No other call allocates. -/
theorem other_calls_do_not_allocate (env : UrlEnv) (w : W) (c : Call) (a : Answer)
    (hc : ∀ buf, c ≠ .write buf) : (step env w c a).2.allocs = [] := by
  cases c with
  | write buf => exact absurd rfl (hc buf)
  | cancel => rfl
  | commit d =>
    simp only [step, commit]
    split
    · rfl
    · cases flush env w [] d a with
      | mk o rs => cases o <;> rfl
  | close =>
    simp only [step, close]
    split
    · rfl
    · cases flush env w [] [] a with
      | mk o rs => cases o <;> rfl

/-- The chunk size of a new writer is positive and at least what the caller asked for. -/
theorem chunkSize_at_least_hint (a : Answer) (hint : Int) :
    (if hint ≤ 0 then defaultChunkSize else hint) ≤
      chunkSizeFromResponse a (if hint ≤ 0 then defaultChunkSize else hint) ∧
    0 < chunkSizeFromResponse a (if hint ≤ 0 then defaultChunkSize else hint) := by
  unfold chunkSizeFromResponse defaultChunkSize
  repeat' split
  all_goals omega

/-! ### W6 — with a server that accepts everything the model refines `Upload.lean`'s writer -/

open OciModel.Upload in
/-- `flush`: composed with the idealised server of `Upload.lean`, the request this model sends
(`Content-Range`, body) and the client state it reaches are exactly those of `Upload.flush`. -/
theorem flush_refines_upload (H : Bytes → Bytes) (env : UrlEnv) (w : W) (sv : Srv) (buf c : Bytes) (a : Answer)
    (hf : 0 ≤ w.flushed) (ha : Accepting env (if c = [] then 202 else 201) a) :
    Upload.flush H (toCW w) sv buf (optDigest c) =
      viaIdeal H sv (optDigest c) (flush env w buf c a).2
        (match (flush env w buf c a).1 with
         | .ok w1 => toCW w1
         | .error _ => toCW w) :=
  flush_refines H env w sv buf c a hf ha

open OciModel.Upload in
/-- `Write` -/
theorem write_refines_upload (H : Bytes → Bytes) (env : UrlEnv) (w : W) (sv : Srv) (data : Bytes) (a : Answer)
    (hf : 0 ≤ w.flushed) (hs : 0 ≤ w.size) (hcs : 0 ≤ w.chunkSize) (ha : Accepting env 202 a) :
    Upload.write H (toCW w) sv data =
      viaIdeal H sv none (write env w data a).reqs (toCW (write env w data a).w) := by
  have hcond : (toCW w).chunk.length + data.length > (toCW w).chunkSize ↔
      ((w.chunk.length + data.length : Nat) : Int) > w.chunkSize := by
    show w.chunk.length + data.length > w.chunkSize.toNat ↔ _
    omega
  by_cases hc : ((w.chunk.length + data.length : Nat) : Int) > w.chunkSize
  · have hr := flush_refines H env w sv data [] a hf (by simpa using ha)
    simp only [optDigest, if_true] at hr
    unfold Upload.write
    rw [if_pos (hcond.mpr hc), hr]
    cases hfl : flush env w data [] a with
    | mk o rs =>
      cases o with
      | ok w1 =>
        have h1 : 0 ≤ w1.size := by
          rcases flush_cases env w data [] a with ⟨_, hf'⟩ | ⟨r', _, ⟨_, loc, hf'⟩ | ⟨_, e, hf'⟩⟩
          · rw [hf'] at hfl; cases hfl; exact hs
          · rw [hf'] at hfl; cases hfl; exact hs
          · rw [hf'] at hfl; cases hfl
        clear hcond
        rw [write_flush_ok hc hfl]
        simp only [viaIdeal]
        cases rs with
        | nil => simp only [toCW]; congr 3 <;> omega
        | cons r rest =>
          simp only
          cases serverChunk H sv (r.contentRange.getD (0, 0)) r.body none with
          | error e => rfl
          | ok p =>
            obtain ⟨sv1, log⟩ := p
            simp only [toCW]
            congr 3 <;> omega
      | error e =>
        -- an accepting answer never fails a flush
        rcases flush_cases env w data [] a with ⟨_, hf'⟩ | ⟨r', hr', ⟨_, loc, hf'⟩ | ⟨_, e', hf'⟩⟩
        · rw [hf'] at hfl; cases hfl
        · rw [hf'] at hfl; cases hfl
        · obtain ⟨loc, hacc⟩ := flush_accepting env w data [] a (by simpa using ha) r' hr'
          rw [hacc] at hfl; cases hfl
  · unfold Upload.write
    rw [if_neg (fun h => hc (hcond.mp h)), write_buffered hc]
    clear hcond
    simp only [viaIdeal, toCW]
    congr 3 <;> omega

open OciModel.Upload in
/-- `Commit` -/
theorem commit_refines_upload (H : Bytes → Bytes) (env : UrlEnv) (w : W) (sv : Srv) (d : Bytes) (a : Answer)
    (hf : 0 ≤ w.flushed) (hd : d ≠ []) (ha : Accepting env 201 a) :
    Upload.commit H (toCW w) sv d =
      match viaIdeal H sv (some d) (commit env w d a).reqs (toCW (commit env w d a).w) with
      | .error e => .error e
      | .ok (_, sv1, log) => .ok (sv1, log) := by
  have hr := flush_refines H env w sv [] d a hf (by simpa [hd] using ha)
  simp only [optDigest, hd, if_false] at hr
  unfold Upload.commit
  rw [hr]
  cases hfl : flush env w [] d a with
  | mk o rs =>
    cases o with
    | ok w1 =>
      rw [commit_flush_ok hd hfl]
      simp only [viaIdeal]
      cases rs with
      | nil => rfl
      | cons r rest =>
        simp only
        cases serverChunk H sv (r.contentRange.getD (0, 0)) r.body (some d) with
        | error e => rfl
        | ok p => obtain ⟨sv1, log⟩ := p; rfl
    | error e =>
      rw [commit_flush_err hd hfl]
      simp only [viaIdeal]
      cases rs with
      | nil => rfl
      | cons r rest =>
        simp only
        cases serverChunk H sv (r.contentRange.getD (0, 0)) r.body (some d) with
        | error e => rfl
        | ok p => obtain ⟨sv1, log⟩ := p; rfl

open OciModel.Upload in
/-- `Close`, then `PushBlobChunkedResume(ID(), Size(), ChunkSize())`: `Upload.lean`'s
`closeResumeExplicit`. (When the offset is asked of the registry instead, the new writer adopts
what the `Range` answer says — `resume_inv`; that this is the registry's true offset except after
exactly one byte is C04's `askedOffset_eq` / `askedOffset_one`.) -/
theorem close_resume_refines_upload (H : Bytes → Bytes) (env : UrlEnv) (w : W) (sv : Srv) (a a' : Answer)
    (id : Bytes) (u : Loc)
    (hc : w.closed = false) (hf : 0 ≤ w.flushed) (hs : 0 ≤ w.size) (hcs : 0 < w.chunkSize)
    (ha : Accepting env 202 a) (hid : id ≠ []) (hp : env.parseID id = some (u, true)) :
    ∃ w2, resume env id (close env w a).w.size w.chunkSize a' = (.ok w2, []) ∧
      Upload.step H (toCW w) sv .closeResumeExplicit =
        viaIdeal H sv none (close env w a).reqs (toCW w2) := by
  have hr := flush_refines H env w sv [] [] a hf (by simpa using ha)
  simp only [optDigest, if_true] at hr
  cases hfl : flush env w [] [] a with
  | mk o rs =>
    cases o with
    | error e =>
      rcases flush_cases env w [] [] a with ⟨_, hf'⟩ | ⟨r', hr', ⟨_, loc, hf'⟩ | ⟨_, e', hf'⟩⟩
      · rw [hf'] at hfl; cases hfl
      · rw [hf'] at hfl; cases hfl
      · obtain ⟨loc, hacc⟩ := flush_accepting env w [] [] a (by simpa using ha) r' hr'
        rw [hacc] at hfl; cases hfl
    | ok w1 =>
      have h1 : w1.size = w.size ∧ w1.chunkSize = w.chunkSize := by
        rcases flush_cases env w [] [] a with ⟨_, hf'⟩ | ⟨r', _, ⟨_, loc, hf'⟩ | ⟨_, e, hf'⟩⟩
        · rw [hf'] at hfl; cases hfl; exact ⟨rfl, rfl⟩
        · rw [hf'] at hfl; cases hfl; exact ⟨rfl, rfl⟩
        · rw [hf'] at hfl; cases hfl
      rw [close_flush_ok hc hfl]
      rw [hfl] at hr
      simp only at hr
      have hne1 : ¬ (w1.size = -1) := by omega
      have hnlt : ¬ (w1.size < 0) := by omega
      have hcsn : ¬ (w.chunkSize ≤ 0) := by omega
      refine ⟨{ chunkSize := w.chunkSize, size := w1.size, flushed := w1.size, location := u }, ?_, ?_⟩
      · simp [resume, hid, hne1, hnlt, hcsn, hp]
      · unfold Upload.step
        simp only [hr, viaIdeal]
        cases rs with
        | nil => simp only [toCW]; congr 3 <;> omega
        | cons r rest =>
          simp only
          cases serverChunk H sv (r.contentRange.getD (0, 0)) r.body none with
          | error e => rfl
          | ok p =>
            obtain ⟨sv1, log⟩ := p
            simp only [toCW]
            congr 3 <;> omega

/-- Non-vacuity of `close_resume_refines_upload`: an ID that parses to an absolute path. -/
example : toyEnv.parseID (strBytes "/u/1") = some ({ path := strBytes "/u/1" }, true) := rfl

/-- The hypotheses of the refinement theorems are satisfiable: a concrete accepting answer. -/
example : Accepting toyEnv 202 { status := 202, location := strBytes "/u/1" } := by
  refine ⟨rfl, by decide, fun _ => rfl⟩

/-! ### W7 — facts extracted from writer.go (regenerated on every run) -/

open OciModel.Generated.WriterFacts in
/-- The F18 class: no `make` (or `Grow`) in writer.go sizes its result by a value that came from
the registry (`OCI-Chunk-Min-Length` through `chunkSizeFromResponse`, the `chunkSize` field) or by
a value of unknown origin: only constants, the caller's arguments, and `min(…)` of something
that is one of those. -/
theorem generated_allocs_bounded :
    shapeKnown = true ∧
    allocs.all (fun s => (s.lenProv == .const || s.lenProv == .caller) &&
                         (s.capProv == .const || s.capProv == .caller)) = true := by decide

open OciModel.Generated.WriterFacts in
/-- The taint analysis is not vacuous: it does see the registry's value arrive in the writer. -/
theorem generated_chunkSize_is_servers : chunkSizeFieldProv = .server := by decide

open OciModel.Generated.WriterFacts in
/-- `flush` touches the writer only after the request has succeeded and its `Location` has been
read: every assignment to a field of the receiver comes after the last error return. -/
theorem generated_flush_assigns_after_success :
    flushDoFound = true ∧ flushAssigns ≠ [] ∧ flushAssigns.all (·.afterLastGuard) = true ∧
    "flushed" ∈ flushAssigns.map (·.field) ∧ "chunk" ∈ flushAssigns.map (·.field) := by decide

open OciModel.Generated.WriterFacts in
/-- `Write` adds to `size` only after `flush` has been checked, and the chunk never aliases the
caller's slice: it is only ever made, re-sliced from itself, or appended to. -/
theorem generated_write_copies :
    writeSizeAfterFlushCheck = true ∧ chunkAssigns ≠ [] ∧ chunkAssigns.all (fun s => !s.aliasesParam) = true := by
  decide

open OciModel.Generated.WriterFacts in
/-- `flush` sends the buffered chunk before the new bytes: `concatBody(w.chunk, buf)`, and
`concatBody` reads its first argument first. -/
theorem generated_body_order :
    flushBodyArgs = ["recv.chunk", "param:0"] ∧ multiReaderParamOrder = [0, 1] ∧
    concatSingles = [(0, 1), (1, 0)] := by decide

/-! ### Concrete scripts (toy `net/url`) -/

/-- chunk size 4: `abc` is buffered; `de` overflows and is refused twice (500, then no response):
the same five bytes go out each time; the third attempt is acknowledged; `Size()` follows the
accepted Writes only. -/
example :
    let w0 : W := { chunkSize := 4, allocated := true, location := { path := strBytes "/u/0" } }
    let ok : Answer := { status := 202, location := strBytes "/u/1" }
    let r := runG toyEnv w0 {} [(.write [1, 2, 3], ok), (.write [4, 5], ⟨500, [], [], []⟩),
      (.write [4, 5], ⟨0, [], [], []⟩), (.write [4, 5], ok)]
    r.1.size = 5 ∧ r.1.flushed = 5 ∧ r.1.chunk = [] ∧ r.2.1 = ⟨[1, 2, 3, 4, 5], [1, 2, 3, 4, 5]⟩ ∧
    r.2.2.map (fun o => o.reqs.map (·.body)) = [[], [[1, 2, 3, 4, 5]], [[1, 2, 3, 4, 5]], [[1, 2, 3, 4, 5]]] := by
  decide

/-- Non-vacuity of W2/W4: a `Close` with bytes in the chunk that is answered 500 fails, keeps the
bytes, and records the error; a `Write` that overflows and is answered 429 fails. -/
example :
    let w0 : W := { chunkSize := 4, chunk := [1, 2], size := 2, location := { path := strBytes "/u/0" } }
    (close toyEnv w0 ⟨500, [], [], []⟩).w = { w0 with closed := true, closeErr := some (.http 500) } ∧
    (close toyEnv w0 ⟨500, [], [], []⟩).reqs.map (·.body) = [[1, 2]] ∧
    (write toyEnv w0 [3, 4, 5] ⟨429, [], [], []⟩).w = w0 ∧
    (write toyEnv w0 [3, 4, 5] ⟨429, [], [], []⟩).reqs.map (·.body) = [[1, 2, 3, 4, 5]] := by decide

/-- Non-vacuity of `start_inv` / `resume_inv`: both ways of opening a writer can succeed. -/
example :
    ((start toyEnv { path := strBytes "/s" } 0 { status := 202, location := strBytes "/u/1" }).1.toOption.map
      fun w => (w.chunkSize, w.size, w.flushed)) = some (65536, 0, 0) ∧
    ((resume toyEnv (strBytes "/u/1") 7 3 ⟨0, [], [], []⟩).1.toOption.map
      fun w => (w.chunkSize, w.size, w.flushed)) = some (3, 7, 7) := by decide

/-- a 202 without `Location` is a refusal too: nothing moves -/
example :
    let w0 : W := { chunkSize := 2, chunk := [7], size := 1, location := { path := strBytes "/u/0" } }
    (write toyEnv w0 [8, 9] { status := 202 }).w = w0 := by decide

/-- a huge `OCI-Chunk-Min-Length` is adopted as chunk size, but the first `Write` of a resumed
writer still allocates 64 KiB at most -/
example :
    ((resume toyEnv (strBytes "/u/0") (-1) 4
        { status := 204, location := strBytes "/u/1", range := strBytes "0-9",
          chunkMin := strBytes "9223372036854775807" }).1.toOption.map
      fun w => (w.chunkSize, w.size, (write toyEnv w [1] ⟨0, [], [], []⟩).allocs))
    = some (9223372036854775807, 10, [65536]) := by decide

end OciModel.Props.C04W
