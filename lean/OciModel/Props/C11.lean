/-
C11 — Credentials stay confined and the auth flow is bounded and non-intrusive.

Theorems about the model of `ociauth`'s transport (`OciModel/AuthTransport.lean`)
and of its `Www-Authenticate` parser (`OciModel/Challenge.lean`); the proofs
assemble the lemmas of `OciModel/AuthLemmas.lean` and `ChallengeLemmas.lean`.

Every theorem is for ALL environments (registry and token-server answers, realm
validity), times, requests and states satisfying the invariant `J`. `J` holds
initially (`invariant_init`) and is preserved by each critical section
(`invariant_section1`, `invariant_section2`), so the per-section statements hold
under every interleaving of the sections of concurrent calls; `Reach`
(`reachable_invariant`) makes that explicit. Statements about `roundTrip` are
about one call whose two sections run back to back.

Secrets are atoms tagged with the host they belong to and with their kind
(`Atom`), challenges with the host that sent them; `MsgOwn h m` says that message
`m` goes to registry `h` or to a realm named by `h`, carries only atoms of `h`,
and that each kind of atom sits where it belongs.

"Leaves the caller's request unmodified and closes the request body on every
path" is not a statement about this model (the model has no request object): it
is checked by the correspondence oracles `caller_request_unmodified` and
`request_body_closed_on_every_path` on the real code, and `shape_RoundTrip` pins
the `req.Clone` / `needBodyClose` skeleton the argument rests on.
-/
import OciModel.AuthLemmas
import OciModel.ChallengeLemmas
import OciModel.AuthShape
namespace OciModel.Props.C11
open OciModel OciModel.Auth OciModel.Scope

/-! ### The challenge parser -/

/-- `parseWWWAuthenticate` is total: no header value makes it panic (the only
allocation/indexing site, the escape buffer of `expectTokenOrQuoted`, is modelled
with its capacity and never overflows). -/
theorem parse_total (header : Bytes) : ∃ r, Challenge.parseWWWAuthenticate header = .ok r :=
  Challenge.parse_ok header

/-- `challengeFromResponse` is total and selects, among the header values that
parse and whose scheme is Basic or Bearer, the first Basic one if there is any
and otherwise the first (Bearer) one; unknown schemes and unparsable values are
ignored. -/
theorem challenge_select (values : List Bytes) :
    Challenge.challengeFromResponse values =
      .ok (((values.filterMap fun v => (Challenge.parse? v).filter Challenge.usable).find?
              fun h => h.scheme = Challenge.sBasic).or
           (values.filterMap fun v => (Challenge.parse? v).filter Challenge.usable).head?) := by
  unfold Challenge.challengeFromResponse
  rw [Challenge.accepted_eq]
  simp only []
  rw [Challenge.selectLoop_spec]
  intro h hh
  obtain ⟨v, _, hv⟩ := List.mem_filterMap.mp hh
  cases hp : Challenge.parse? v with
  | none => simp [hp] at hv
  | some h' =>
    simp only [hp, Option.filter] at hv
    split at hv
    · rename_i hu; cases hv; exact hu
    · cases hv

theorem challenge_total (values : List Bytes) : ∃ r, Challenge.challengeFromResponse values = .ok r :=
  ⟨_, challenge_select values⟩

/-- A challenge the transport acts on was sent by the host it is stored for. -/
theorem challenge_sender {host : Bytes} {values : List Bytes} {ch : Chal}
    (h : chalOf host values = some ch) : ch.sender = host := chalOf_sender h

/-! ### The invariant -/

theorem invariant_init (host : Bytes) (e : ConfigEntry) : J (initSt host e) := J_init host e

theorem invariant_section1 (env : Env) (now : Nat) (st : HostSt) (req : ReqInfo) (hJ : J st)
    (hr : WF req.required) (hw : WF req.want) :
    J (section1 env now st req).1 ∧ (section1 env now st req).1.host = st.host :=
  ⟨section1_J env now st req hJ hr hw, section1_host env now st req⟩

theorem invariant_section2 (env : Env) (now : Nat) (st : HostSt) (ch : Chal) (req : ReqInfo) (hJ : J st)
    (hc : ch.sender = st.host) (hr : WF req.required) (hw : WF req.want) :
    J (section2 env now st ch req).1 ∧ (section2 env now st ch req).1.host = st.host :=
  ⟨section2_J env now st ch req hJ hc hr hw, section2_host env now st ch req⟩

theorem invariant_roundTrip (env : Env) (now : Nat) (st : HostSt) (req : ReqInfo) (hJ : J st)
    (hr : WF req.required) (hw : WF req.want) :
    J (roundTrip env now st req).1 ∧ (roundTrip env now st req).1.host = st.host :=
  ⟨roundTrip_J env now st req hJ hr hw, roundTrip_host env now st req⟩

/-- Every state reachable by any interleaving of critical sections (any
environments, times, requests, challenges sent by this host) satisfies `J`. -/
theorem reachable_invariant {host : Bytes} {e : ConfigEntry} {st : HostSt} {envs : List Env}
    (h : Reach host e st envs) : J st ∧ st.host = host := reach_J h

/-! ### Host isolation -/

/-- Per section: whatever `setAuthorization` sends or sets is this host's. -/
theorem host_isolation_section1 (env : Env) (now : Nat) (st : HostSt) (req : ReqInfo) (hJ : J st) :
    (∀ m ∈ (section1 env now st req).2.1, MsgOwn st.host m) ∧
    (∀ h, (section1 env now st req).2.2 = some h → AuthOwn st.host h) := section1_own env now st req hJ

/-- Per section: whatever `setAuthorizationFromChallenge` sends or sets, for a
challenge sent by this host, is this host's. -/
theorem host_isolation_section2 (env : Env) (now : Nat) (st : HostSt) (ch : Chal) (req : ReqInfo)
    (hJ : J st) (hc : ch.sender = st.host) :
    (∀ m ∈ (section2 env now st ch req).2.1, MsgOwn st.host m) ∧
    (∀ h acq, (section2 env now st ch req).2.2 = .added h acq → AuthOwn st.host h) :=
  section2_own env now st ch req hJ hc

/-- Every message of a call is this host's. -/
theorem host_isolation (env : Env) (now : Nat) (st : HostSt) (req : ReqInfo) (hJ : J st)
    (hr : WF req.required) (hw : WF req.want) :
    ∀ m ∈ (roundTrip env now st req).2.1, MsgOwn st.host m := roundTrip_own env now st req hJ hr hw

/-- Over any sequence of calls to any hosts (per-host states behind the
`registries` map, configuration consulted at first use), every message sent
during a call to host `h` is `h`'s: no credential or token of another host, no
realm another host named. A call touches only its own host's state. -/
theorem host_isolation_history (cfg : Config) (calls : List Call)
    (hwf : ∀ c ∈ calls, WF c.req.required ∧ WF c.req.want) :
    ∀ e ∈ (run cfg [] calls).2, ∀ m ∈ e.2.1, MsgOwn e.1 m := run_own cfg [] calls sysJ_nil hwf

theorem call_touches_only_its_host (cfg : Config) (env : Env) (now : Nat) (sys : Sys) (host : Bytes)
    (req : ReqInfo) {h : Bytes} (hne : h ≠ host) :
    (sysStep cfg env now sys host req).1.lookup h = sys.lookup h := sysStep_frame cfg env now sys host req hne

/-- A failing configuration lookup yields an error and sends nothing. -/
theorem config_failure_sends_nothing (cfg : Config) (env : Env) (now : Nat) (sys : Sys) (host : Bytes)
    (req : ReqInfo) (hl : sys.lookup host = none) (hc : cfg host = none) :
    sysStep cfg env now sys host req = (sys, [], .err) := sysStep_config_error cfg env now sys host req hl hc

/-! ### Passwords and refresh tokens -/

/-- A Bearer challenge naming this realm is known: stored from an earlier 401 of
this host, or carried by the first response of this call. -/
def RealmNamed (env : Env) (st : HostSt) (realm : Bytes) : Prop :=
  (∃ ch, st.challenge = some ch ∧ ch.scheme = .bearer ∧ ch.realm = realm ∧ ch.sender = st.host) ∨
  (∃ hdrs ch, env.reg 0 = .resp 401 hdrs ∧ chalOf st.host hdrs = some ch ∧ ch.scheme = .bearer ∧
    ch.realm = realm ∧ ch.sender = st.host)

/-- This host has issued a Basic challenge: stored, or in the first response of this call. -/
def BasicChallenged (env : Env) (st : HostSt) : Prop :=
  (∃ ch, st.challenge = some ch ∧ ch.scheme = .basic) ∨
  (∃ hdrs ch, env.reg 0 = .resp 401 hdrs ∧ chalOf st.host hdrs = some ch ∧ ch.scheme = .basic)

/-- Every token request goes to the non-empty realm of a Bearer challenge this host sent. -/
theorem token_requests_go_to_named_realms (env : Env) (now : Nat) (st : HostSt) (req : ReqInfo) (hJ : J st)
    {m : Msg} {realm namedBy : Bytes} (hm : m ∈ (roundTrip env now st req).2.1)
    (hr : m.realm? = some (realm, namedBy)) : realm ≠ [] ∧ namedBy = st.host ∧ RealmNamed env st realm := by
  obtain ⟨hne, h⟩ := roundTrip_token_realm env now st req hm hr
  rcases h with ⟨ch, hc, hs, hrealm, hsend⟩ | ⟨hdrs, ch, hreg, hch, hs, hrealm, hsend⟩
  · have := hJ.chal_own ch hc
    exact ⟨hne, by rw [← hsend, this], Or.inl ⟨ch, hc, hs, hrealm, this⟩⟩
  · have := chalOf_sender hch
    exact ⟨hne, by rw [← hsend, this], Or.inr ⟨hdrs, ch, hreg, hch, hs, hrealm, this⟩⟩

/-- A password leaves only (a) on the GET to a realm named by a Bearer challenge
of this host, or (b) as Basic auth to this registry after it issued a Basic
challenge. -/
theorem password_confined (env : Env) (now : Nat) (st : HostSt) (req : ReqInfo) (hJ : J st)
    (hr : WF req.required) (hw : WF req.want) {m : Msg} (hm : m ∈ (roundTrip env now st req).2.1)
    {pl : Place} {a : Atom} (ha : (pl, a) ∈ m.atoms) (hk : a.kind = .password) :
    a.origin = st.host ∧
    ((∃ realm u sc sv, m = .tokenGET realm st.host (some (u, a)) sc sv ∧ RealmNamed env st realm) ∨
     (∃ u, m = .registry st.host (.basic u a) ∧ BasicChallenged env st)) := by
  have hown := roundTrip_own env now st req hJ hr hw m hm
  have hat := msgOwn_atoms hown (pl, a) ha
  refine ⟨hat.1, ?_⟩
  cases m with
  | registry host h =>
    cases h with
    | none => simp [Msg.atoms] at ha
    | bearer t =>
      simp [Msg.atoms] at ha; obtain ⟨rfl, rfl⟩ := ha
      have := hat.2; simp [Place.fits, hk] at this
    | basic u p =>
      simp [Msg.atoms] at ha
      rcases ha with ⟨rfl, rfl⟩ | ⟨rfl, rfl⟩
      · have := hat.2; simp [Place.fits, hk] at this
      · right
        obtain ⟨rfl, _⟩ := hown
        exact ⟨u, rfl, roundTrip_basic_needs_basic_challenge env now st req hm⟩
  | tokenPOST realm nb rt sc sv =>
    simp [Msg.atoms] at ha; obtain ⟨rfl, rfl⟩ := ha
    have := hat.2; simp [Place.fits, hk] at this
  | tokenGET realm nb b sc sv =>
    cases b with
    | none => simp [Msg.atoms] at ha
    | some up =>
      obtain ⟨u, p⟩ := up
      simp [Msg.atoms] at ha
      rcases ha with ⟨rfl, rfl⟩ | ⟨rfl, rfl⟩
      · have := hat.2; simp [Place.fits, hk] at this
      · left
        obtain ⟨_, hnb, hnamed⟩ := token_requests_go_to_named_realms env now st req hJ hm rfl
        subst hnb
        exact ⟨realm, u, sc, sv, rfl, hnamed⟩

/-- A refresh token leaves only in the POST to a realm named by a Bearer
challenge of this host. -/
theorem refresh_confined (env : Env) (now : Nat) (st : HostSt) (req : ReqInfo) (hJ : J st)
    (hr : WF req.required) (hw : WF req.want) {m : Msg} (hm : m ∈ (roundTrip env now st req).2.1)
    {pl : Place} {a : Atom} (ha : (pl, a) ∈ m.atoms) (hk : a.kind = .refresh) :
    a.origin = st.host ∧
    ∃ realm sc sv, m = .tokenPOST realm st.host a sc sv ∧ RealmNamed env st realm := by
  have hown := roundTrip_own env now st req hJ hr hw m hm
  have hat := msgOwn_atoms hown (pl, a) ha
  refine ⟨hat.1, ?_⟩
  cases m with
  | registry host h =>
    cases h with
    | none => simp [Msg.atoms] at ha
    | bearer t =>
      simp [Msg.atoms] at ha; obtain ⟨rfl, rfl⟩ := ha
      have := hat.2; simp [Place.fits, hk] at this
    | basic u p =>
      simp [Msg.atoms] at ha
      rcases ha with ⟨rfl, rfl⟩ | ⟨rfl, rfl⟩ <;> (have := hat.2; simp [Place.fits, hk] at this)
  | tokenPOST realm nb rt sc sv =>
    simp [Msg.atoms] at ha; obtain ⟨rfl, rfl⟩ := ha
    obtain ⟨_, hnb, hnamed⟩ := token_requests_go_to_named_realms env now st req hJ hm rfl
    subst hnb
    exact ⟨realm, sc, sv, rfl, hnamed⟩
  | tokenGET realm nb b sc sv =>
    cases b with
    | none => simp [Msg.atoms] at ha
    | some up =>
      obtain ⟨u, p⟩ := up
      simp [Msg.atoms] at ha
      rcases ha with ⟨rfl, rfl⟩ | ⟨rfl, rfl⟩ <;> (have := hat.2; simp [Place.fits, hk] at this)

/-- Before this host has sent any challenge, a call starts with the forwarded
request carrying nothing or a cached access token: never a password, never Basic
auth, and no token request (hence no refresh token) precedes it. The per-section
form: `setAuthorization` sends nothing and sets at most a cached token. -/
theorem never_basic_before_challenge (env : Env) (now : Nat) (st : HostSt) (req : ReqInfo)
    (hc : st.challenge = none) :
    ((section1 env now st req).2.1 = [] ∧
      ((section1 env now st req).2.2 = some .none ∨
        ∃ t ∈ st.toks, (section1 env now st req).2.2 = some (.bearer t.tok))) ∧
    ∃ h1 rest, (roundTrip env now st req).2.1 = Msg.registry st.host h1 :: rest ∧
      (h1 = .none ∨ ∃ t ∈ st.toks, h1 = .bearer t.tok) := by
  obtain ⟨h1, _, h3⟩ := section1_no_challenge env now st req hc
  exact ⟨⟨h1, h3⟩, roundTrip_first_unauthenticated env now st req hc⟩

/-- Per section: Basic credentials are set only against a Basic challenge (the
stored one in the first section, the answered one in the second). -/
theorem basic_only_against_basic_challenge (env : Env) (now : Nat) (st : HostSt) (req : ReqInfo) :
    (∀ u p, (section1 env now st req).2.2 = some (.basic u p) →
      ∃ ch, st.challenge = some ch ∧ ch.scheme = .basic ∧ st.basic = some (u, p)) ∧
    (∀ ch u p acq, (section2 env now st ch req).2.2 = .added (.basic u p) acq →
      ch.scheme = .basic ∧ st.basic = some (u, p)) := by
  refine ⟨fun u p h => ?_, fun ch u p acq h => ?_⟩
  · obtain ⟨ch, h1, h2, h3, _⟩ := section1_basic env now st req h
    exact ⟨ch, h1, h2, h3⟩
  · obtain ⟨h1, _, h3, _⟩ := section2_basic env now st ch req h
    exact ⟨h1, h3⟩

/-! ### Bounded: at most two attempts; a 401 to a fresh token becomes 403 -/

/-- At most two requests are forwarded to the registry per call. -/
theorem attempts_le_two (env : Env) (now : Nat) (st : HostSt) (req : ReqInfo) :
    attempts (roundTrip env now st req).2.1 ≤ 2 := roundTrip_attempts env now st req

/-- The caller sees the synthesized 403 DENIED exactly when the retry, made with a
token acquired in answer to the challenge of the first response, is answered 401. -/
theorem fresh_401_becomes_403 (env : Env) (now : Nat) (st : HostSt) (req : ReqInfo) :
    (roundTrip env now st req).2.2 = .denied ↔
      ∃ h1 hdrs ch a hd2, (section1 env now st req).2.2 = some h1 ∧
        env.reg 0 = .resp 401 hdrs ∧ chalOf st.host hdrs = some ch ∧
        (section2 env now (section1 env now st req).1 ch req).2.2 = .added (.bearer a) true ∧
        env.reg 1 = .resp 401 hd2 := roundTrip_denied_iff env now st req

/-! ### Facts regenerated from the source -/

/-- The tokenizer's character classes are the ones in `challenge.go`. -/
theorem token_classes_match_source :
    Challenge.separators = strBytes Generated.AuthFacts.separatorChars ∧
    Challenge.spaces = strBytes Generated.AuthFacts.spaceChars := by decide

theorem shape_known : Generated.AuthFacts.shapeKnown = true := by decide
theorem shape_challenge_init : AuthShape.fingerprint "challenge.init" = some AuthShape.challenge_init := by decide
theorem shape_challengeFromResponse :
    AuthShape.fingerprint "challengeFromResponse" = some AuthShape.challengeFromResponse := by decide
theorem shape_parseWWWAuthenticate :
    AuthShape.fingerprint "parseWWWAuthenticate" = some AuthShape.parseWWWAuthenticate := by decide
theorem shape_expectToken : AuthShape.fingerprint "expectToken" = some AuthShape.expectToken := by decide
theorem shape_expectTokenOrQuoted :
    AuthShape.fingerprint "expectTokenOrQuoted" = some AuthShape.expectTokenOrQuoted := by decide
theorem shape_skipSpace : AuthShape.fingerprint "skipSpace" = some AuthShape.skipSpace := by decide
theorem shape_RoundTrip :
    AuthShape.fingerprint "stdTransport.RoundTrip" = some AuthShape.stdTransport_RoundTrip := by decide
theorem shape_init : AuthShape.fingerprint "registry.init" = some AuthShape.registry_init := by decide
theorem shape_setAuthorization :
    AuthShape.fingerprint "registry.setAuthorization" = some AuthShape.registry_setAuthorization := by decide
theorem shape_setAuthorizationFromChallenge :
    AuthShape.fingerprint "registry.setAuthorizationFromChallenge" =
      some AuthShape.registry_setAuthorizationFromChallenge := by decide
theorem shape_acquireToken :
    AuthShape.fingerprint "registry.acquireToken" = some AuthShape.registry_acquireToken := by decide
theorem shape_doTokenRequest :
    AuthShape.fingerprint "registry.doTokenRequest" = some AuthShape.registry_doTokenRequest := by decide

/-! ### The hypotheses are satisfiable; the parser on concrete headers -/

/-- Host "r" configured with user "u", password "p" and refresh token "t". -/
def exSt : HostSt := initSt [114] ⟨[116], [], [117], [112]⟩

example : J exSt := J_init _ _
example : exSt.basic = some (⟨[114], .username, [117]⟩, ⟨[114], .password, [112]⟩) ∧
    exSt.refresh = some ⟨[114], .refresh, [116]⟩ ∧ exSt.challenge = none := by decide
example : WF Scope.empty := wf_empty

/-- `Bearer realm="a\"b",service=x` : a quoted string with an escape, and a token. -/
example : Challenge.parse? (strBytes "Bearer realm=\"a\\\"b\",service=x") =
    some ⟨Challenge.sBearer, [(Challenge.kService, [120]), (Challenge.kRealm, [97, 34, 98])]⟩ := by decide
/-- A trailing comma is accepted, a comma followed by a blank is not, an unterminated quote is not. -/
example : (Challenge.parse? (strBytes "Basic realm=x,")).isSome = true ∧
    Challenge.parse? (strBytes "Basic realm=x, ") = none ∧
    Challenge.parse? (strBytes "Basic realm=\"x") = none := by decide
/-- Basic is preferred over Bearer, unknown schemes are ignored. -/
example : (chalOf [114] [strBytes "Digest realm=d", strBytes "Bearer realm=b", strBytes "Basic realm=c"]).map (·.scheme) =
    some .basic := by decide

/-- Against `exSt` (no challenge seen yet) a registry that answers 401 with a
Bearer challenge, a token server that grants "T": the password goes out only on
the GET … here the refresh token is used instead, on a POST to the named realm. -/
def exEnv : Env :=
  { reg := fun n => if n = 0 then .resp 401 [strBytes "Bearer realm=b"] else .resp 401 []
    tok := fun _ _ _ => .json [84] [] [] 0
    realmOk := fun _ => true }

example : (roundTrip exEnv 0 exSt ⟨Scope.empty, Scope.empty⟩).2 =
    ([Msg.registry [114] .none,
      Msg.tokenPOST [98] [114] ⟨[114], .refresh, [116]⟩ [] [],
      Msg.registry [114] (.bearer ⟨[114], .access, [84]⟩)], .denied) := by decide

end OciModel.Props.C11
