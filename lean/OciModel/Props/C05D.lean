/-
C05D — the `ocidebug` wrapper is transparent and the iterator helpers of
`ociregistry/iter.go` follow the iterator protocol (part of C05: "through any number of
… list-transforming wrappers (select, sub, unify, debug)", "every iterator stops calling
its consumer as soon as the consumer declines further items or an error has been
delivered").

The model is `OciModel.Iter`; the facts about debug.go and iter.go it relies on are
regenerated on every run (`OciModel.Generated.Debug`) and checked by the `generated_…`
obligations below. All statements are for every event list, every consumer (an arbitrary
step function over an arbitrary state type) and every initial state.
-/
import OciModel.IterLemmas

namespace OciModel.Props.C05D
open OciModel.Iter OciModel.Generated.Debug

variable {σ α ε : Type}

/-- After the consumer has declined, or after an error event has been delivered, the
consumer is not called again: every call but the last one was answered `true` and carried
no error. -/
def StopsProperly (tr : Trace α ε) : Prop :=
  ∀ i x, tr[i]? = some x → i + 1 < tr.length → x.2 = true ∧ x.1.err = none

/-- The weaker half: no call follows a call that was answered `false`. -/
def StopsWhenDeclined (tr : Trace α ε) : Prop :=
  ∀ i x, tr[i]? = some x → i + 1 < tr.length → x.2 = true

/-! ### (a) every helper and the debug iterator deliver exactly the underlying events, in order -/

/-- `SliceSeq(xs)` calls its consumer with `(x, nil)` for the elements of `xs` in order, up to and
including the first one the consumer declines. -/
theorem sliceSeq_delivers (xs : List α) (cb : Cons σ α ε) (s : σ) :
    trace (sliceSeq xs) cb s = delivered cb (itemEvents xs) s := by
  simp [trace, sliceSeq, sliceLoop_eq_feed, feed_traced]

/-- `ErrorSeq[T](err)` calls its consumer exactly once, with `(zero, err)`. -/
theorem errorSeq_delivers (zero : α) (e : Option ε) (cb : Cons σ α ε) (s : σ) :
    trace (errorSeq zero e) cb s = [(⟨zero, e⟩, (cb s ⟨zero, e⟩).2)] := by
  simp [trace, errorSeq, traced]

/-- A delegating loop `for x, err := range it { if !yield(x, err) { return } }` delivers what `it` delivers. -/
theorem delegate_delivers (evs : List (Ev α ε)) (cb : Cons σ α ε) (s : σ) :
    trace (delegate (ofEvents evs)) cb s = delivered cb evs s := by
  simp only [trace, delegate, ofEvents, delegate_cb_eq, feed_traced, List.nil_append]

/-- The debug wrapper's iterator delivers the wrapped sequence's events in order up to and including
its first error event (with the zero item beside the error), for every consumer. -/
theorem debug_iter_delivers (zero : α) (evs : List (Ev α ε)) (cb : Cons σ α ε) (s : σ) :
    trace (logIter zero (ofEvents evs)) cb s = delivered cb (cut zero evs) s := by
  simp [trace, logIter_eq_ofEvents, ofEvents, feed_traced]

/-- … and it leaves the consumer in the state the wrapped sequence would have left it in. -/
theorem debug_iter_state (zero : α) (evs : List (Ev α ε)) (cb : Cons σ α ε) (s : σ) :
    logIter zero (ofEvents evs) σ cb s = feed cb (cut zero evs) s := by
  simp [logIter_eq_ofEvents, ofEvents]

/-- On a sequence that follows `Seq`'s convention (an error event carries the zero item and is the
last event) the debug wrapper's iterator is indistinguishable from the sequence it wraps. -/
theorem debug_iter_transparent [DecidableEq α] [DecidableEq ε] (zero : α) (evs : List (Ev α ε))
    (hw : WellFormed zero evs = true) (cb : Cons σ α ε) (s : σ) :
    trace (logIter zero (ofEvents evs)) cb s = trace (ofEvents evs) cb s := by
  have : cut zero evs = evs := by simpa [WellFormed] using hw
  simp [trace, logIter_eq_ofEvents, this]

/-- non-vacuity: a well-formed list with items and a final error, and one that is not -/
example : WellFormed (α := Nat) (ε := Nat) 0 [⟨3, none⟩, ⟨5, none⟩, ⟨0, some 7⟩] = true := by decide
example : WellFormed (α := Nat) (ε := Nat) 0 [⟨3, none⟩, ⟨9, some 7⟩, ⟨5, none⟩] = false := by decide

/-- Nothing is lost: a consumer that never declines is given every event. -/
theorem delivered_complete (cb : Cons σ α ε) (hc : ∀ s e, (cb s e).2 = true) (evs : List (Ev α ε)) (s : σ) :
    (delivered cb evs s).map (·.1) = evs := by
  induction evs generalizing s with
  | nil => simp [delivered]
  | cons e es ih => simp [delivered, hc, ih]

theorem sliceSeq_complete (xs : List α) (cb : Cons σ α ε) (hc : ∀ s e, (cb s e).2 = true) (s : σ) :
    (trace (sliceSeq xs) cb s).map (·.1) = itemEvents xs := by
  rw [sliceSeq_delivers, delivered_complete cb hc]

theorem debug_iter_complete (zero : α) (evs : List (Ev α ε)) (cb : Cons σ α ε)
    (hc : ∀ s e, (cb s e).2 = true) (s : σ) :
    (trace (logIter zero (ofEvents evs)) cb s).map (·.1) = cut zero evs := by
  rw [debug_iter_delivers, delivered_complete cb hc]

example : ∀ (s : Nat) (e : Ev Nat Nat), ((fun n _ => (n + 1, true) : Cons Nat Nat Nat) s e).2 = true := by
  intro s e; rfl

/-! ### (b) no call after a decline or after an error -/

theorem sliceSeq_stops (xs : List α) (cb : Cons σ α ε) (s : σ) :
    StopsProperly (trace (sliceSeq xs) cb s) := by
  rw [sliceSeq_delivers]
  exact disciplined_index (delivered_disciplined cb _ s (errLast_itemEvents xs))

theorem errorSeq_stops (zero : α) (e : Option ε) (cb : Cons σ α ε) (s : σ) :
    StopsProperly (trace (errorSeq zero e) cb s) := by
  rw [errorSeq_delivers]
  intro i x _ hlen
  simp at hlen

/-- The debug wrapper's iterator stops after a decline *and* after the first error, whatever the
wrapped sequence would have gone on to deliver and whatever the consumer answers to the error. -/
theorem debug_iter_stops (zero : α) (evs : List (Ev α ε)) (cb : Cons σ α ε) (s : σ) :
    StopsProperly (trace (logIter zero (ofEvents evs)) cb s) := by
  rw [debug_iter_delivers]
  exact disciplined_index (delivered_disciplined cb _ s (errLast_cut zero evs))

/-- A plain delegating loop stops when declined; it stops after an error when the sequence it
ranges over has nothing after its error events. -/
theorem delegate_stops_when_declined (evs : List (Ev α ε)) (cb : Cons σ α ε) (s : σ) :
    StopsWhenDeclined (trace (delegate (ofEvents evs)) cb s) := by
  rw [delegate_delivers]
  exact declineLast_index (delivered_declineLast cb evs s)

theorem delegate_stops (evs : List (Ev α ε)) (hl : ErrLast evs) (cb : Cons σ α ε) (s : σ) :
    StopsProperly (trace (delegate (ofEvents evs)) cb s) := by
  rw [delegate_delivers]
  exact disciplined_index (delivered_disciplined cb evs s hl)

example : ErrLast ([⟨3, none⟩, ⟨0, some 7⟩] : List (Ev Nat Nat)) := by simp [ErrLast]

/-- The statement is not vacuous: a trace in which the consumer is called after declining is rejected. -/
example : ¬ StopsProperly ([(⟨1, none⟩, false), (⟨2, none⟩, true)] : Trace Nat Nat) := by
  intro h
  have := h 0 (⟨1, none⟩, false) (by simp) (by simp)
  simp at this

/-! ### (c) iterating twice gives the same trace -/

/-- An iterator value that never assigns a captured variable. -/
def Reiterable {κ : Type} (c : Closure κ α ε) : Prop :=
  ∀ (σ : Type) (k : κ) (cb : Cons σ α ε) (s : σ), (c.run σ k cb s).1 = k

/-- Two successive iterations of such a value give the same trace (that of the sequence it denotes). -/
theorem twice_of_reiterable {κ : Type} (c : Closure κ α ε) (h : Reiterable c) (k : κ) (cb : Cons σ α ε) (s : σ) :
    c.twice k cb s = (trace (c.seqAt k) cb s, trace (c.seqAt k) cb s) := by
  simp [Closure.twice, trace, Closure.seqAt, h _ k (traced cb) (s, [])]

theorem sliceSeq_reiterable : Reiterable (sliceClosure : Closure (List α) α ε) := by
  intro σ k cb s; rfl

theorem sliceSeq_twice (xs : List α) (cb : Cons σ α ε) (s : σ) :
    (sliceClosure (ε := ε)).twice xs cb s =
      (delivered cb (itemEvents xs) s, delivered cb (itemEvents xs) s) := by
  rw [twice_of_reiterable _ sliceSeq_reiterable]
  have : trace ((sliceClosure (ε := ε)).seqAt xs) cb s = trace (sliceSeq xs) cb s := rfl
  rw [this, sliceSeq_delivers]

/-- `ErrorSeq` "always returns the given error". -/
theorem errorSeq_reiterable (zero : α) : Reiterable (errorClosure zero : Closure (Option ε) α ε) := by
  intro σ k cb s; rfl

theorem errorSeq_twice (zero : α) (e : Option ε) (cb : Cons σ α ε) (s : σ) :
    (errorClosure zero).twice e cb s =
      ([(⟨zero, e⟩, (cb s ⟨zero, e⟩).2)], [(⟨zero, e⟩, (cb s ⟨zero, e⟩).2)]) := by
  rw [twice_of_reiterable _ (errorSeq_reiterable zero)]
  simp [Closure.seqAt, errorClosure, trace, errorSeq, traced]

/-- The debug wrapper's iterator keeps no memory of its own: it is re-iterable when the sequence it
wraps is. -/
theorem debug_iter_reiterable {κ : Type} (zero : α) (c : Closure κ α ε) (h : Reiterable c) :
    Reiterable (logClosure zero c) := by
  intro σ k cb s
  simp only [logClosure]
  exact h _ k _ _

/-- non-vacuity: the wrapper over a `SliceSeq` value; a backend that counts its iterations is not re-iterable -/
example (zero : α) : Reiterable (logClosure zero (sliceClosure : Closure (List α) α ε)) :=
  debug_iter_reiterable zero _ sliceSeq_reiterable
example : ¬ Reiterable (countingSource (fun _ => []) : Closure Nat Nat Nat) := by
  intro h
  have := h Nat 0 (fun n _ => (n, true)) 0
  simp [countingSource] at this

/-- Iterating the wrapper twice iterates the wrapped value twice, once per iteration, and each time
delivers that iteration's events (a backend whose `n`-th iteration produces `f n`). -/
theorem debug_iter_twice (zero : α) (f : Nat → List (Ev α ε)) (cb : Cons σ α ε) (s : σ) :
    (logClosure zero (countingSource f)).twice 0 cb s =
      (delivered cb (cut zero (f 0)) s, delivered cb (cut zero (f 1)) s) := by
  have key : ∀ (n : Nat), (feed (logCb zero (traced cb)) (f n) ⟨(s, []), [], none⟩).s
      = (feed cb (cut zero (f n)) s, delivered cb (cut zero (f n)) s) := by
    intro n
    rw [feed_logCb]
    simp [feed_traced]
  simp [Closure.twice, logClosure, countingSource, key]

/-! ### (e) `All` -/

/-- `All` returns the items before the first error, and that error (nil when there is none). -/
theorem all_ofEvents (evs : List (Ev α ε)) :
    all (ofEvents evs) = (itemsBefore evs, firstErr evs) := by
  simp [all, ofEvents, feed_allCb]

theorem all_sliceSeq (xs : List α) : all (sliceSeq xs : Seq α ε) = (xs, none) := by
  have := all_ofEvents (itemEvents xs : List (Ev α ε))
  simp [all, ofEvents] at this
  simp [all, sliceSeq, sliceLoop_eq_feed, this, itemsBefore_itemEvents, firstErr_itemEvents]

theorem all_errorSeq (zero : α) (e : ε) : all (errorSeq zero (some e) : Seq α ε) = ([], some e) := by
  simp [all, errorSeq, allCb]

/-- `ErrorSeq[T](nil)` is a sequence of one zero item. -/
theorem all_errorSeq_nil (zero : α) : all (errorSeq zero none : Seq α ε) = ([zero], none) := by
  simp [all, errorSeq, allCb]

/-- `All` through the debug wrapper is `All` of the wrapped sequence. -/
theorem all_debug_iter (zero : α) (evs : List (Ev α ε)) :
    all (logIter zero (ofEvents evs)) = all (ofEvents evs) := by
  have h1 : all (logIter zero (ofEvents evs)) = all (ofEvents (cut zero evs)) := by
    simp [all, logIter_eq_ofEvents]
  rw [h1, all_ofEvents, all_ofEvents, itemsBefore_cut, firstErr_cut]

/-! ### (d) the logging methods -/

/-- A well-formed row makes exactly one call on the wrapped value: its own method, with the caller's
ctx and the caller's arguments in order; and hands back that call's results (`Transparent`). -/
theorem debug_call_transparent {V E : Type} (recv : String) (r : Row) (h : RowOk recv r = true)
    (backend : Call V → Res V E) (env : String → V) :
    ∃ o, call backend env r = some o ∧
      Transparent ⟨recv, r.method, recv == "r.r", r.params.map env⟩
        (backend ⟨recv, r.method, recv == "r.r", r.params.map env⟩) o := by
  simp only [RowOk, Bool.and_eq_true, Bool.or_eq_true, beq_iff_eq] at h
  obtain ⟨⟨⟨⟨⟨⟨hk, hrecv⟩, hn⟩, hcallee⟩, hargs⟩, hctx⟩, hres⟩ := h
  have hc : (⟨r.recv, r.callee, r.ctxFirst, r.callArgs.map env⟩ : Call V)
      = ⟨recv, r.method, recv == "r.r", r.params.map env⟩ := by
    simp [hrecv, hcallee, hargs, hctx]
  generalize hres' : backend ⟨recv, r.method, recv == "r.r", r.params.map env⟩ = res
  rcases hres with ((⟨⟨hv, hg⟩, he⟩ | ⟨⟨hv, hg⟩, he⟩) | ⟨⟨hv, hg⟩, he⟩) | ⟨hv, hge⟩
  · simp [call, hk, hn, hc, hres', hv, he, Transparent]
  · rcases he with he | he <;> simp [call, hk, hn, hc, hres', hv, hg, he, Transparent]
  · simp [call, hk, hn, hc, hv, hg, he, Transparent]
  · rcases hge with ⟨hg, he⟩ | ⟨hg, he⟩
    · rcases he with he | he
      · cases hre : res.err <;> simp [call, hk, hn, hc, hres', hv, hg, he, hre, Transparent]
      · cases hre : res.err <;> simp [call, hk, hn, hc, hres', hv, hg, he, hre, Transparent]
    · cases hrv : res.val <;> simp [call, hk, hn, hc, hres', hv, hg, he, hrv, Transparent]

/-- non-vacuity: rows of the regenerated tables meet the hypothesis -/
example : ∃ r ∈ table, r.method = "GetBlob" ∧ RowOk "r.r" r = true := by decide
example : ∃ r ∈ writerTable, r.method = "Commit" ∧ RowOk "w.w" r = true := by decide

/-- With either modelled shape of `logIterReturn`, a listing through the debug wrapper stops when
declined, stops after an error whenever the wrapped listing has nothing after its errors, and is the
wrapped listing, call for call, when that listing follows `Seq`'s convention. -/
theorem wrapIter_protocol (kind : String) (hk : kind = "logcb" ∨ kind = "range") (zero : α)
    (evs : List (Ev α ε)) :
    ∃ it, wrapIter kind zero (ofEvents evs) = some it ∧
      ∀ (σ : Type) (cb : Cons σ α ε) (s : σ),
        StopsWhenDeclined (trace it cb s) ∧
        (ErrLast evs → StopsProperly (trace it cb s)) ∧
        (cut zero evs = evs → trace it cb s = delivered cb evs s) := by
  rcases hk with hk | hk
  · refine ⟨logIter zero (ofEvents evs), by simp [wrapIter, hk], ?_⟩
    intro σ cb s
    refine ⟨?_, fun _ => debug_iter_stops zero evs cb s, ?_⟩
    · intro i x hx hlen
      exact (debug_iter_stops zero evs cb s i x hx hlen).1
    · intro hcut
      rw [debug_iter_delivers, hcut]
  · refine ⟨delegate (ofEvents evs), by simp [wrapIter, hk], ?_⟩
    intro σ cb s
    exact ⟨delegate_stops_when_declined evs cb s, fun hl => delegate_stops evs hl cb s,
      fun _ => delegate_delivers evs cb s⟩

example : cut (0 : Nat) ([⟨3, none⟩, ⟨0, some 7⟩] : List (Ev Nat Nat)) = [⟨3, none⟩, ⟨0, some 7⟩] := by
  simp [cut]

/-! ### Obligations on the regenerated facts -/

/-- Every method of `*logger`: one call of the same method on the wrapped registry with ctx and the
parameters in order; results returned as they are, a blob writer wrapped only when there is one. -/
theorem generated_debug_transparent_ok : TableOk "r.r" table = true := by decide

/-- Every method of the `blobWriter` handed out by the chunked-upload methods delegates likewise. -/
theorem generated_writer_transparent_ok : TableOk "w.w" writerTable = true := by decide

/-- `*logger` declares every method of `ociregistry.Interface` itself (none is left to the embedded
nil `*Funcs`), each once. -/
theorem generated_debug_covers_interface :
    (table.map (·.method)).Nodup ∧
    (∀ m ∈ interfaceMethods, m ∈ table.map (·.method)) ∧
    (∀ m ∈ table.map (·.method), m ∈ interfaceMethods) ∧
    interfaceMethods.length = 18 := by decide

/-- `New` stores the registry it is given, and `logIterReturn` has one of the modelled shapes. -/
theorem generated_debug_iter_ok : newShapeKnown = true ∧ (iterKind = "logcb" ∨ iterKind = "range") := by decide

/-- `SliceSeq`, `ErrorSeq` and `All` still have the bodies `OciModel.Iter` mirrors. -/
theorem generated_iter_helpers_ok :
    sliceSeqShapeKnown = true ∧ errorSeqShapeKnown = true ∧ allShapeKnown = true := by decide

/-- The three listing methods return the logging iterator over the wrapped call's sequence. -/
theorem generated_debug_listings_wrapped :
    ∀ m ∈ ["Repositories", "Tags", "Referrers"],
      ∃ r ∈ table, r.method = m ∧ (r.retVal = "logIter(call)" ∨ r.retVal = "res0") := by decide

/-- The property for the code as it is now: every method of the debug wrapper is transparent, and a
listing through it is the wrapped listing, delivered in order, complete, and never continued after a
decline or an error. -/
theorem C05D_holds {V E : Type} (r : Row) (hr : r ∈ table) (backend : Call V → Res V E) (env : String → V)
    (zero : α) (evs : List (Ev α ε)) :
    (∃ o, call backend env r = some o ∧
      Transparent ⟨"r.r", r.method, true, r.params.map env⟩ (backend ⟨"r.r", r.method, true, r.params.map env⟩) o) ∧
    (∃ it, debugIter zero (ofEvents evs) = some it ∧
      ∀ (σ : Type) (cb : Cons σ α ε) (s : σ),
        StopsWhenDeclined (trace it cb s) ∧
        (ErrLast evs → StopsProperly (trace it cb s)) ∧
        (cut zero evs = evs → trace it cb s = delivered cb evs s)) := by
  constructor
  · have h : RowOk "r.r" r = true := by
      have := generated_debug_transparent_ok
      simp [TableOk, List.all_eq_true] at this
      exact this r hr
    simpa using debug_call_transparent "r.r" r h backend env
  · exact wrapIter_protocol iterKind generated_debug_iter_ok.2 zero evs

end OciModel.Props.C05D
