/-
C02 — reference semantics of the in-memory registry model (`OciModel/Mem.lean`):
the association lists are maps, listings are exact and sorted, tags resolve to
the last accepted push, a manifest is accepted only when its references are
sane, and the error-code table.

R7 is the umbrella sentence itself: `Mem` (the model of the code) refines `MemSpec` (the simple
reference registry: per repository three partial maps as functions), for all 22 operations and
every history — same outputs, same abstract state.

`H : Bytes → Bytes` is a parameter; nothing is assumed about it.
-/
import OciModel.MemLemmas
import OciModel.MemSpecLemmas

namespace OciModel.Props.C02
open OciModel OciModel.Mem

variable (H : Bytes → Bytes)

/-! ### R1. Key uniqueness -/

/-- No duplicate keys in an association list. -/
def NoDupKeys {β : Type} (m : List (Bytes × β)) : Prop := (m.map (·.1)).Nodup

/-- The repository list and every repository's four maps have no duplicate keys. -/
def KeysUnique (s : State) : Prop :=
  NoDupKeys s.repos ∧
  ∀ p ∈ s.repos, NoDupKeys p.2.tags ∧ NoDupKeys p.2.manifests ∧ NoDupKeys p.2.blobs ∧ NoDupKeys p.2.uploads

theorem keysUnique_iff (s : State) : KeysUnique s ↔ Mem.KeysUnique s := Iff.rfl

theorem keysUnique_init (imm : Bool) : KeysUnique (init imm) := Mem.ku_init imm

theorem keysUnique_step (s : State) (op : Op) : KeysUnique s → KeysUnique (step H s op).1 :=
  Mem.ku_step H s op

theorem keysUnique_run (s : State) (ops : List Op) : KeysUnique s → KeysUnique (run H s ops).1 :=
  Mem.ku_run H s ops

/-- Under key uniqueness, membership in a map and lookup agree. -/
theorem mem_iff_lookup {β : Type} {m : List (Bytes × β)} (hm : NoDupKeys m) (k : Bytes) (v : β) :
    (k, v) ∈ m ↔ alookup k m = some v := Mem.mem_iff_alookup (show KU m from hm)

/-! ### R2. Listings -/

/-- Strictly ascending w.r.t. `compare` on byte strings (bytewise lexicographic). -/
def StrictAscB (l : List Bytes) : Prop := l.Pairwise (fun a b => compare a b = .lt)

theorem strictAscB_iff (l : List Bytes) : StrictAscB l ↔ Mem.StrictAscB l := Iff.rfl

theorem strictAscB_nodup {l : List Bytes} (h : StrictAscB l) : l.Nodup := Mem.strictAsc_nodup h

theorem keysAfter_sorted {β : Type} {m : List (Bytes × β)} (hm : NoDupKeys m) (start : Bytes) :
    StrictAscB (keysAfter m start) := Mem.keysAfter_sorted (show KU m from hm) start

theorem mem_keysAfter {β : Type} (m : List (Bytes × β)) (start k : Bytes) :
    k ∈ keysAfter m start ↔ (k ∈ m.map (·.1) ∧ compare start k = .lt) := Mem.mem_keysAfter

/-- Each key strictly after `start` is listed exactly once. -/
theorem count_keysAfter {β : Type} {m : List (Bytes × β)} (hm : NoDupKeys m) (start k : Bytes) :
    (keysAfter m start).count k = if k ∈ m.map (·.1) ∧ compare start k = .lt then 1 else 0 := by
  rw [(strictAscB_nodup (keysAfter_sorted hm start)).count]
  simp only [mem_keysAfter]

/-- `Repositories(start)`: exactly the existing repositories strictly after
`start`, each once, ascending; the state is unchanged. -/
theorem repositories_listing {s : State} (hs : KeysUnique s) (start : Bytes) :
    ∃ l, step H s (.repositories start) = (s, .okList l) ∧ StrictAscB l ∧ l.Nodup ∧
      ∀ r, r ∈ l ↔ ((getRepo s r).isSome = true ∧ compare start r = .lt) := by
  refine ⟨keysAfter s.repos start, rfl, keysAfter_sorted hs.1 start,
    strictAscB_nodup (keysAfter_sorted hs.1 start), fun r => ?_⟩
  rw [mem_keysAfter, getRepo, alookup_isSome_iff]

/-- `Tags(r, start)` on a known repository: exactly its tags strictly after
`start`, each once, ascending. -/
theorem tags_listing {s : State} (hs : KeysUnique s) {r : Bytes} {rp : Repo} (hg : getRepo s r = some rp)
    (start : Bytes) :
    ∃ l, step H s (.tags r start) = (s, .okList l) ∧ StrictAscB l ∧ l.Nodup ∧
      ∀ t, t ∈ l ↔ ((alookup t rp.tags).isSome = true ∧ compare start t = .lt) := by
  have hk := (ku_getRepo hs hg).1
  refine ⟨keysAfter rp.tags start, by simp [step, hg], keysAfter_sorted hk start,
    strictAscB_nodup (keysAfter_sorted hk start), fun t => ?_⟩
  rw [mem_keysAfter, alookup_isSome_iff]

theorem tags_unknown_repo {s : State} {r : Bytes} (hg : getRepo s r = none) (start : Bytes) :
    step H s (.tags r start) = (s, .err "NAME_UNKNOWN") := by
  simp [step, hg]

/-! ### R3. Referrers -/

/-- Ascending by digest, possibly with equal neighbours. -/
def AscDesc (l : List Desc) : Prop := l.Pairwise (fun a b => compare a.digest b.digest ≠ .gt)
/-- Strictly ascending by digest. -/
def StrictAscDesc (l : List Desc) : Prop := l.Pairwise (fun a b => compare a.digest b.digest = .lt)

/-- `Referrers(r, d)` on a known repository: exactly the descriptors of the
stored manifests whose subject is `d`, ascending by digest. -/
theorem referrers_exact {s : State} {r : Bytes} {rp : Repo} (hg : getRepo s r = some rp) (d : Bytes) :
    ∃ l, step H s (.referrers r d) = (s, .okDescs l) ∧ AscDesc l ∧
      ∀ x, x ∈ l ↔ ∃ k b, (k, b) ∈ rp.manifests ∧ b.subject = d ∧ x = descOf H b :=
  ⟨referrersOf H rp d, by simp [step, hg, referrersOf], referrersOf_asc H rp d, fun _ => mem_referrersOf H⟩

/-- With the digest invariant and key uniqueness the result is strictly
ascending: no digest is reported twice. -/
theorem referrers_strict {s : State} (hinv : Mem.Inv H s) (hs : KeysUnique s) {r : Bytes} {rp : Repo}
    (hg : getRepo s r = some rp) (d : Bytes) :
    ∃ l, step H s (.referrers r d) = (s, .okDescs l) ∧ StrictAscDesc l :=
  ⟨referrersOf H rp d, by simp [step, hg, referrersOf],
    referrersOf_strict H d (hinv r rp hg).2 (ku_getRepo hs hg).2.1⟩

theorem referrers_unknown_repo {s : State} {r : Bytes} (hg : getRepo s r = none) (d : Bytes) :
    step H s (.referrers r d) = (s, .err "NAME_UNKNOWN") := by
  simp [step, hg]

/-! ### R4. A tag resolves to the last accepted push -/

theorem tag_resolves_last_push {s s1 : State} {r t data mt : Bytes} {dec : Decoded} {dd : Desc}
    (h : step H s (.pushManifest r t data mt dec) = (s1, .okDesc dd)) (ht : t ≠ []) :
    step H s1 (.resolveTag r t) = (s1, .okDesc dd) ∧ dd.digest = H data :=
  Mem.tag_resolves_last_push H h ht

/-- When the push really stored (mutable tags, or the tag was new) `getTag`
returns exactly the pushed bytes. -/
theorem tag_gets_last_push {s s1 : State} {r t data mt : Bytes} {dec : Decoded} {dd : Desc}
    (h : step H s (.pushManifest r t data mt dec) = (s1, .okDesc dd)) (ht : t ≠ [])
    (hfresh : s.immutableTags = false ∨ ∀ rp, getRepo s r = some rp → alookup t rp.tags = none) :
    step H s1 (.getTag r t) = (s1, .okRead ⟨mt, H data, data.length⟩ data) :=
  Mem.tag_gets_last_push H h ht hfresh

/-! ### R5. What an accepted manifest push implies -/

/-- Either the push was the idempotent re-push under an immutable tag (nothing
stored, the existing descriptor is returned), or the manifest decoded and every
referenced descriptor looks sane, every referenced blob (kind 0) and manifest
(kind 1) already existed in the repository; a subject (kind 2) may dangle; and
in immutable-tags mode the push did not re-type content reachable from a tag
(`retyped … = false`, see `retyped_def`). -/
theorem manifest_accepted_only_if {s s1 : State} {r t data mt : Bytes} {dec : Decoded} {dd : Desc}
    (h : step H s (.pushManifest r t data mt dec) = (s1, .okDesc dd)) :
    Ref.isRepo r = true ∧ (t = [] ∨ Ref.isTag t = true) ∧
    ((s1 = s ∧ t ≠ [] ∧ s.immutableTags = true ∧
        ∃ rp, getRepo s r = some rp ∧ alookup t rp.tags = some dd ∧ dd.digest = H data ∧ dd.mediaType = mt)
     ∨ (dd = ⟨mt, H data, data.length⟩ ∧ Ref.isDigest (H data) = true ∧ mt ≠ [] ∧ dec ≠ .malformed ∧
        retyped s.immutableTags ((getRepo s r).getD emptyRepo) (H data) mt = false ∧
        ∃ rs, decRefs dec = some rs ∧
          ∀ ref ∈ rs, checkDescNil ref.desc = true ∧
            (ref.kind = 0 → (alookup ref.desc.digest ((getRepo s r).getD emptyRepo).blobs).isSome = true) ∧
            (ref.kind = 1 → (alookup ref.desc.digest ((getRepo s r).getD emptyRepo).manifests).isSome = true))) :=
  Mem.manifest_accepted_only_if H h

theorem retyped_def (imm : Bool) (rp : Repo) (dig mt : Bytes) :
    retyped imm rp dig mt = (imm && (match alookup dig rp.manifests with
      | some b => b.mediaType != mt && taggedRefersTo rp dig
      | none => false)) := rfl

/-- In immutable-tags mode, re-storing tagged content under another media type is refused. -/
theorem retype_denied {s : State} {r t data mt : Bytes} {dec : Decoded} {dd : Desc} {rp : Repo}
    (hg : getRepo s r = some rp) (hre : retyped s.immutableTags rp (H data) mt = true) :
    (step H s (.pushManifest r t data mt dec)).2 ≠ .okDesc dd ∨
      (t ≠ [] ∧ ∃ cur, alookup t rp.tags = some cur ∧ cur.digest = H data ∧ cur.mediaType = mt ∧ dd = cur) := by
  cases hst : step H s (.pushManifest r t data mt dec) with
  | mk s1 o =>
    by_cases ho : o = .okDesc dd
    · subst ho
      obtain ⟨_, _, h | h⟩ := Mem.manifest_accepted_only_if H hst
      · obtain ⟨_, ht, _, rp', hg', hl, hd, hm⟩ := h
        rw [hg] at hg'; cases hg'
        exact Or.inr ⟨ht, dd, hl, hd, hm, rfl⟩
      · rw [hg] at h; simp only [Option.getD_some] at h
        rw [hre] at h; exact absurd h.2.2.2.2.1 (by simp)
    · exact Or.inl ho

/-- The refusal applies in particular whenever some tag points directly at the digest. -/
theorem retyped_of_tag {imm : Bool} {rp : Repo} {t' dig mt : Bytes} {td : Desc} {b : Blob}
    (himm : imm = true) (ht : alookup t' rp.tags = some td) (hd : td.digest = dig)
    (hb : alookup dig rp.manifests = some b) (hmt : b.mediaType ≠ mt) :
    retyped imm rp dig mt = true := Mem.retyped_of_tag himm ht hd hb hmt

theorem decRefs_def : decRefs .opaque = some [] ∧ decRefs .malformed = none ∧
    ∀ rs, decRefs (.refs rs) = some rs := ⟨rfl, rfl, fun _ => rfl⟩

/-! ### R6. The error-code table -/

/-- Read, resolve, delete and list operations on an unknown repository. -/
theorem name_unknown {s : State} {r : Bytes} (hg : getRepo s r = none) (d : Bytes) (o0 o1 : Int) (op : Op)
    (hop : op ∈ [Op.getBlob r d, .getBlobRange r d o0 o1, .getManifest r d, .getTag r d,
      .resolveBlob r d, .resolveManifest r d, .resolveTag r d,
      .deleteBlob r d, .deleteManifest r d, .deleteTag r d, .tags r d, .referrers r d]) :
    step H s op = (s, .err "NAME_UNKNOWN") := by
  simp only [List.mem_cons, List.not_mem_nil, or_false] at hop
  rcases hop with rfl | rfl | rfl | rfl | rfl | rfl | rfl | rfl | rfl | rfl | rfl | rfl <;>
    simp [step, blobFor, manifestFor, hg]

/-- Known repository, missing blob. -/
theorem blob_unknown {s : State} {r d : Bytes} {rp : Repo} (hg : getRepo s r = some rp)
    (hl : alookup d rp.blobs = none) (o0 o1 : Int) (op : Op)
    (hop : op ∈ [Op.getBlob r d, .getBlobRange r d o0 o1, .resolveBlob r d, .deleteBlob r d]) :
    step H s op = (s, .err "BLOB_UNKNOWN") := by
  simp only [List.mem_cons, List.not_mem_nil, or_false] at hop
  rcases hop with rfl | rfl | rfl | rfl <;> simp [step, blobFor, hg, hl]

/-- Known repository, missing manifest. -/
theorem manifest_unknown {s : State} {r d : Bytes} {rp : Repo} (hg : getRepo s r = some rp)
    (hl : alookup d rp.manifests = none) (op : Op)
    (hop : op ∈ [Op.getManifest r d, .resolveManifest r d, .deleteManifest r d]) :
    step H s op = (s, .err "MANIFEST_UNKNOWN") := by
  simp only [List.mem_cons, List.not_mem_nil, or_false] at hop
  rcases hop with rfl | rfl | rfl <;> simp [step, manifestFor, hg, hl]

/-- Known repository, missing tag. -/
theorem tag_unknown {s : State} {r t : Bytes} {rp : Repo} (hg : getRepo s r = some rp)
    (hl : alookup t rp.tags = none) (op : Op)
    (hop : op ∈ [Op.getTag r t, .resolveTag r t, .deleteTag r t]) :
    step H s op = (s, .err "MANIFEST_UNKNOWN") := by
  simp only [List.mem_cons, List.not_mem_nil, or_false] at hop
  rcases hop with rfl | rfl | rfl <;> simp [step, hg, hl]

/-- A tag whose manifest has been deleted reads as `MANIFEST_UNKNOWN`. -/
theorem tag_dangling {s : State} {r t : Bytes} {rp : Repo} {td : Desc} (hg : getRepo s r = some rp)
    (ht : alookup t rp.tags = some td) (hl : alookup td.digest rp.manifests = none) :
    step H s (.getTag r t) = (s, .err "MANIFEST_UNKNOWN") := by
  simp [step, hg, ht, hl]

/-- An invalid repository name: `pushBlob` with a well-formed descriptor, and
the other creating operations; the state is unchanged. -/
theorem name_invalid {s : State} {r : Bytes} (hr : Ref.isRepo r = false) :
    (∀ desc data, checkDescData H desc data = none →
        step H s (.pushBlob r desc data) = (s, .err "NAME_INVALID")) ∧
    step H s (.pushChunked r) = (s, .err "NAME_INVALID") ∧
    (∀ id off, step H s (.resume r id off) = (s, .err "NAME_INVALID")) ∧
    (∀ fromR d, step H s (.mount fromR r d) = (s, .err "NAME_INVALID")) ∧
    (∀ t data mt dec, step H s (.pushManifest r t data mt dec) = (s, .err "NAME_INVALID")) := by
  have hm : makeRepo s r = none := makeRepo_eq_none.mpr hr
  refine ⟨fun desc data hc => ?_, ?_, fun _ _ => ?_, fun _ _ => ?_, fun _ _ _ _ => ?_⟩ <;>
    simp [step, *]

/-- A chunk written at the wrong offset is refused and changes nothing. -/
theorem write_wrong_offset {s : State} {r id : Bytes} {rp : Repo} {b : Buffer}
    (hb : getBuffer s r id = some (rp, b)) (h1 : b.checkStart ≠ -1) (h2 : (b.buf.length : Int) ≠ b.checkStart)
    (data : Bytes) : step H s (.wWrite r id data) = (s, .err "RANGE_INVALID") := by
  simp [step, hb, h1, h2]

/-- Committing under a digest that is not the hash of the uploaded bytes.
(The upload must not already have failed or been cancelled: a sticky earlier
error is reported instead, see `commit_error_sticky`.) -/
theorem commit_wrong_digest {s : State} {r id dig : Bytes} {rp : Repo} {b : Buffer}
    (hb : getBuffer s r id = some (rp, b)) (hc : b.commitErr = none) (hne : H b.buf ≠ dig) :
    (step H s (.wCommit r id dig)).2 = .err "DIGEST_INVALID" := by
  simp [step, hb, hc, hne]

theorem commit_error_sticky {s : State} {r id dig : Bytes} {rp : Repo} {b : Buffer} {e : String}
    (hb : getBuffer s r id = some (rp, b)) (hc : b.commitErr = some e) :
    step H s (.wCommit r id dig) = (s, .err e) := by
  simp [step, hb, hc]

/-! ### The hypotheses are satisfiable: a concrete run with a toy hash -/

/-- A toy hash with well-formed digest text, depending on the length only. -/
def toyH : Bytes → Bytes := fun b =>
  Ref.sha256 ++ [58] ++ List.replicate 64 (48 + (b.length % 10).toUInt8)

def repoA : Bytes := [97]
def repoB : Bytes := [98]
def mtX : Bytes := [120]
def blob1 : Bytes := [1]
def man1 : Bytes := [1, 2]      -- refers to `blob1`
def man2 : Bytes := [1, 2, 3]   -- refers to `man1` as subject
def tagV1 : Bytes := [118, 49]
def tagV2 : Bytes := [118, 50]

def demoOps : List Op :=
  [ .pushBlob repoB ⟨mtX, toyH blob1, 1⟩ blob1,
    .pushBlob repoA ⟨mtX, toyH blob1, 1⟩ blob1,
    .pushManifest repoA tagV2 man1 mtX (.refs [⟨0, ⟨mtX, toyH blob1, 1⟩⟩]),
    .pushManifest repoA tagV1 man2 mtX (.refs [⟨2, ⟨mtX, toyH man1, 2⟩⟩]) ]

def demoState : State := (run toyH (init false) demoOps).1

example : KeysUnique demoState := keysUnique_run toyH _ _ (keysUnique_init false)

example : (run toyH (init false) demoOps).2 =
    [.okDesc ⟨mtX, toyH blob1, 1⟩, .okDesc ⟨mtX, toyH blob1, 1⟩,
     .okDesc ⟨mtX, toyH man1, 2⟩, .okDesc ⟨mtX, toyH man2, 3⟩] := by decide

/-- Listings are sorted although the insertion order was not. -/
example : (step toyH demoState (.repositories [])).2 = .okList [repoA, repoB] := by decide
example : (step toyH demoState (.tags repoA [])).2 = .okList [tagV1, tagV2] := by decide
example : (step toyH demoState (.tags repoA tagV1)).2 = .okList [tagV2] := by decide

example : (step toyH demoState (.referrers repoA (toyH man1))).2 = .okDescs [⟨mtX, toyH man2, 3⟩] := by decide

example : step toyH demoState (.getTag repoA tagV1) = (demoState, .okRead ⟨mtX, toyH man2, 3⟩ man2) := by decide

/-- A manifest naming a blob that is not in the repository is refused … -/
example : (step toyH demoState (.pushManifest repoB [] man1 mtX (.refs [⟨0, ⟨mtX, toyH man2, 3⟩⟩]))).2
    = .err "ERR" := by decide
/-- … but a dangling subject is accepted. -/
example : (step toyH demoState (.pushManifest repoB [] man1 mtX (.refs [⟨2, ⟨mtX, toyH man2, 3⟩⟩]))).2
    = .okDesc ⟨mtX, toyH man1, 2⟩ := by decide

/-- Observation: a *failed* `mount` (unknown source) or `pushManifest` still
creates the empty destination repository, which then shows up in listings. -/
example : (step toyH (init false) (.mount repoB repoA (toyH blob1))).2 = .err "NAME_UNKNOWN" ∧
    (step toyH (step toyH (init false) (.mount repoB repoA (toyH blob1))).1 (.repositories [])).2
      = .okList [repoA] := by decide

example : (step toyH (init false) (.pushManifest repoA [] man1 mtX .malformed)).2 = .err "ERR" ∧
    (step toyH (step toyH (init false) (.pushManifest repoA [] man1 mtX .malformed)).1 (.repositories [])).2
      = .okList [repoA] := by decide

/-- Observation: mounting within one not-yet-existing repository reports `BLOB_UNKNOWN`, not
`NAME_UNKNOWN`, because the destination is created before the source is looked up. -/
example : (step toyH (init false) (.mount repoA repoA (toyH blob1))).2 = .err "BLOB_UNKNOWN" := by decide

/-! The freshness hypothesis of `tag_gets_last_push` is still needed for a hash with collisions:
in immutable-tags mode, push `[1,2]` under tag `v1`, push the colliding `[3,4]` untagged with the
same media type (it overwrites the entry under the shared digest), re-push `[1,2]` under `v1`
(accepted, idempotent): `getTag v1` now returns `[3,4]`. With an injective `H` this cannot happen. -/
example :
    let s := (run toyH (init true)
      [.pushManifest repoA tagV1 [1, 2] mtX .opaque, .pushManifest repoA [] [3, 4] mtX .opaque]).1
    step toyH s (.pushManifest repoA tagV1 [1, 2] mtX .opaque) = (s, .okDesc ⟨mtX, toyH [1, 2], 2⟩) ∧
    (step toyH s (.getTag repoA tagV1)).2 = .okRead ⟨mtX, toyH [1, 2], 2⟩ [3, 4] := by decide

/-- The new refusal in action: in immutable-tags mode tagged content cannot be re-stored under
another media type (here with the very same bytes), while in mutable mode it can.
(`refersTo` is defined by well-founded recursion, so this one goes through the theorems, not `decide`.) -/
example (dd : Desc) :
    let s := (run toyH (init true) [.pushManifest repoA tagV1 [1, 2] mtX .opaque]).1
    (step toyH s (.pushManifest repoA [] [1, 2] [121] .opaque)).2 ≠ .okDesc dd := by
  intro s
  have hg : getRepo s repoA = some ((getRepo s repoA).getD emptyRepo) := by decide
  have hre : retyped s.immutableTags ((getRepo s repoA).getD emptyRepo) (toyH [1, 2]) [121] = true :=
    retyped_of_tag (t' := tagV1) (td := ⟨mtX, toyH [1, 2], 2⟩) (b := ⟨mtX, [1, 2], [], []⟩)
      (by decide) (by decide) rfl (by decide) (by decide)
  rcases retype_denied toyH (t := []) (dec := .opaque) (dd := dd) hg hre with h | ⟨h, _⟩
  · exact h
  · exact absurd rfl h

example : (run toyH (init false)
      [.pushManifest repoA tagV1 [1, 2] mtX .opaque, .pushManifest repoA [] [1, 2] [121] .opaque]).2
    = [.okDesc ⟨mtX, toyH [1, 2], 2⟩, .okDesc ⟨[121], toyH [1, 2], 2⟩] := by decide

/-! ### R7. The umbrella sentence: every result is the one the reference registry predicts

`MemSpec` (`OciModel/MemSpec.lean`) is the reference model of the property text: per repository
name three partial maps as functions (blobs by digest, manifests by digest, tags to descriptors),
upload sessions as a function from ids, the set of known repositories, the immutable-tags flag;
`MemSpec.step` is written from the property's sentences and never mentions an association list.
`MemSpec.abs` reads a state of the code's model as such a registry (`abs_reads`). -/

/-- What `abs` means: lookups of the association lists as functions (first match), the key
lists as domains; the buffers' `committed` flag is dropped. -/
theorem abs_reads (s : State) (r : Bytes) (rp : Repo) (k : Bytes) :
    (MemSpec.abs s).immutableTags = s.immutableTags ∧ (MemSpec.abs s).nextID = s.nextID ∧
    (MemSpec.abs s).repos.get r = (getRepo s r).map MemSpec.absRepo ∧
    (MemSpec.abs s).repos.dom = s.repos.map (·.1) ∧
    (MemSpec.absRepo rp).blobs k = (alookup k rp.blobs).map (fun b => ⟨b.mediaType, b.data⟩) ∧
    (MemSpec.absRepo rp).manifests.get k =
      (alookup k rp.manifests).map (fun b => ⟨b.mediaType, b.data, b.subject, b.refs⟩) ∧
    (MemSpec.absRepo rp).manifests.dom = rp.manifests.map (·.1) ∧
    (MemSpec.absRepo rp).tags.get k = alookup k rp.tags ∧
    (MemSpec.absRepo rp).tags.dom = rp.tags.map (·.1) ∧
    (MemSpec.absRepo rp).uploads k = (alookup k rp.uploads).map (fun b => ⟨b.buf, b.checkStart, b.commitErr⟩) :=
  ⟨rfl, rfl, rfl, rfl, rfl, rfl, rfl, by simp [MemSpec.absRepo], rfl, rfl⟩

/-- One step, any of the 22 operations, from any state whose association lists have unique keys
(every reachable state: `keysUnique_run`): the code's model answers what the reference registry
answers, and the two successor states denote the same registry. Equality of `MemSpec.State`s is
equality of their map fields as functions, i.e. extensional equality of the maps. -/
theorem mem_refines_spec_step {s : State} (hs : KeysUnique s) (op : Op) :
    (MemSpec.step H (MemSpec.abs s) op).2 = (step H s op).2 ∧
    MemSpec.abs (step H s op).1 = (MemSpec.step H (MemSpec.abs s) op).1 :=
  ⟨MemSpec.step_out H hs op, (MemSpec.step_state H hs op).symm⟩

/-- Any history from any such state. -/
theorem mem_refines_spec_from {s : State} (hs : KeysUnique s) (ops : List Op) :
    (MemSpec.run H (MemSpec.abs s) ops).2 = (run H s ops).2 ∧
    MemSpec.abs (run H s ops).1 = (MemSpec.run H (MemSpec.abs s) ops).1 := by
  rw [MemSpec.run_abs H hs ops]; exact ⟨rfl, rfl⟩

/-- C02's umbrella sentence: over every finite history of operations from the empty registry, in
both configurations, every result the model of ocimem returns is the result the reference
registry predicts. No hypothesis. -/
theorem mem_refines_spec (imm : Bool) (ops : List Op) :
    (run H (init imm) ops).2 = (MemSpec.run H (MemSpec.init imm) ops).2 := by
  rw [MemSpec.run_init]

/-- … and the states stay related: after every history the code's state denotes the reference state. -/
theorem mem_refines_spec_state (imm : Bool) (ops : List Op) :
    MemSpec.abs (run H (init imm) ops).1 = (MemSpec.run H (MemSpec.init imm) ops).1 := by
  rw [MemSpec.run_init]

/-- The reference registry's own invariant along every history: each enumerated domain
(repositories, a repository's manifests, its tags) is exactly the set of bound keys, each once … -/
theorem spec_domains_exact (imm : Bool) (ops : List Op) :
    (MemSpec.run H (MemSpec.init imm) ops).1.WF := MemSpec.run_wf H imm ops

/-- … so a listing of the reference registry is exactly the bound keys strictly after `start`. -/
theorem spec_listing_exact {β : Type} {p : MemSpec.PMap β} (h : p.WF) (start k : Bytes) :
    k ∈ p.keysAfter start ↔ ((p.get k).isSome = true ∧ compare start k = .lt) := by
  simp [MemSpec.PMap.keysAfter, Mem.mem_sortBytes, h.2 k]

/-! The hypotheses are satisfiable, and the two machines computed side by side. -/

example : (MemSpec.step toyH (MemSpec.abs demoState) (.tags repoA tagV1)).2 = .okList [tagV2] ∧
    MemSpec.abs (step toyH demoState (.deleteTag repoA tagV1)).1
      = (MemSpec.step toyH (MemSpec.abs demoState) (.deleteTag repoA tagV1)).1 :=
  ⟨by decide, (mem_refines_spec_step toyH (keysUnique_run toyH _ _ (keysUnique_init false)) _).2⟩

example : (MemSpec.run toyH (MemSpec.abs demoState) [.deleteTag repoA tagV1, .tags repoA []]).2
    = (run toyH demoState [.deleteTag repoA tagV1, .tags repoA []]).2 :=
  (mem_refines_spec_from toyH (keysUnique_run toyH _ _ (keysUnique_init false)) _).1

example : (MemSpec.abs demoState).repos.WF ∧ ∀ k, k ∈ (MemSpec.abs demoState).repos.keysAfter [] ↔
    (((MemSpec.abs demoState).repos.get k).isSome = true ∧ compare [] k = .lt) :=
  have h := (MemSpec.abs_wf (keysUnique_run toyH (init false) demoOps (keysUnique_init false))).1
  ⟨h, spec_listing_exact h []⟩

/-- Push blobs, push a manifest under a tag, a referrer of it, list, delete tag / manifest / blob,
read what was deleted, list again. -/
def refineOps : List Op :=
  demoOps ++
  [ .tags repoA [], .referrers repoA (toyH man1), .getTag repoA tagV1,
    .pushManifest repoB [] man1 mtX (.refs [⟨0, ⟨mtX, toyH man2, 3⟩⟩]),   -- names a missing blob
    .deleteTag repoA tagV1, .resolveTag repoA tagV1, .tags repoA [],
    .deleteManifest repoA (toyH man2), .getManifest repoA (toyH man2), .referrers repoA (toyH man1),
    .deleteBlob repoA (toyH blob1), .getBlob repoA (toyH blob1), .getBlob repoB (toyH blob1),
    .getBlobRange repoB (toyH blob1) 0 (-1), .repositories [], .repositories repoA ]

def refineOut : List Out :=
  [ .okDesc ⟨mtX, toyH blob1, 1⟩, .okDesc ⟨mtX, toyH blob1, 1⟩,
    .okDesc ⟨mtX, toyH man1, 2⟩, .okDesc ⟨mtX, toyH man2, 3⟩,
    .okList [tagV1, tagV2], .okDescs [⟨mtX, toyH man2, 3⟩], .okRead ⟨mtX, toyH man2, 3⟩ man2,
    .err "ERR",
    .okUnit, .err "MANIFEST_UNKNOWN", .okList [tagV2],
    .okUnit, .err "MANIFEST_UNKNOWN", .okDescs [],
    .okUnit, .err "BLOB_UNKNOWN", .okRead ⟨mtX, toyH blob1, 1⟩ blob1,
    .okRead ⟨mtX, toyH blob1, 1⟩ blob1, .okList [repoA, repoB], .okList [repoB] ]

/-- The reference registry's outputs, computed … -/
example : (MemSpec.run toyH (MemSpec.init false) refineOps).2 = refineOut := by decide
/-- … the outputs of the model of the code, computed … -/
example : (run toyH (init false) refineOps).2 = refineOut := by decide
/-- … and they agree (also computed; `mem_refines_spec` says so for every history). -/
example : (run toyH (init false) refineOps).2 = (MemSpec.run toyH (MemSpec.init false) refineOps).2 := by decide

/-- Chunked upload and mount go through the refinement too. -/
example :
    let ops : List Op := [.pushChunked repoA, .wWrite repoA (freshID 0) blob1, .wSize repoA (freshID 0),
      .wCommit repoA (freshID 0) (toyH blob1), .mount repoA repoB (toyH blob1), .getBlob repoB (toyH blob1),
      .resume repoA (freshID 0) 5, .wWrite repoA (freshID 0) blob1, .wCancel repoA (freshID 0),
      .wCommit repoA (freshID 0) (toyH blob1)]
    (MemSpec.run toyH (MemSpec.init false) ops).2 = (run toyH (init false) ops).2 ∧
    (run toyH (init false) ops).2 =
      [.okWriter (freshID 0), .okN 1, .okN 1, .okDesc ⟨octetStream, toyH blob1, 1⟩,
       .okDesc ⟨octetStream, toyH blob1, 1⟩, .okRead ⟨octetStream, toyH blob1, 1⟩ blob1,
       .okWriter (freshID 0), .err "RANGE_INVALID", .okUnit, .err "ERR"] := by decide

/-- Immutable-tags mode: the reference registry's reachability test is structurally recursive, so
its answers compute; by `mem_refines_spec` they are the answers of the model of the code (whose
`refersTo` is defined by well-founded recursion and does not reduce under `decide`). -/
example :
    (run toyH (init true)
      [.pushManifest repoA tagV1 man1 mtX .opaque, .deleteManifest repoA (toyH man1),
       .deleteTag repoA tagV1, .pushManifest repoA [] man1 [121] .opaque,
       .pushManifest repoA tagV1 man1 mtX .opaque, .pushManifest repoA tagV1 man2 mtX .opaque]).2
    = [.okDesc ⟨mtX, toyH man1, 2⟩, .err "DENIED", .err "DENIED", .err "DENIED",
       .okDesc ⟨mtX, toyH man1, 2⟩, .err "DENIED"] := by
  rw [mem_refines_spec]; decide

end OciModel.Props.C02
