import OciModel.Mem
namespace OciModel.Props.C02
open OciModel.Mem

/-- Looking up a key just inserted finds the inserted value. -/
theorem alookup_ainsert {β} (k : Bytes) (v : β) (m : List (Bytes × β)) : alookup k (ainsert k v m) = some v := by
  simp [ainsert, alookup]

end OciModel.Props.C02
