import OciModel.ReqCodec
namespace OciModel.Props.C06
open OciModel.ReqCodec

/-- `0-0` is read as the empty range. -/
theorem parseRange_zero : parseRange 0 0 = (0, 0) := by decide

end OciModel.Props.C06
