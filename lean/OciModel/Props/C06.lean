/-
C06 — the Content-Range / Range codec (`RangeString`, `ParseRange`, `chunkRange`)
on integers: which half-open ranges survive the wire format, and how
Content-Length disambiguates the shared wire form `0-0`.
-/
import OciModel.Wire
import OciModel.ErrCodecInst
import OciModel.ReqCodec
import OciModel.Props.C03
import OciModel.Props.C07
namespace OciModel.Props.C06
open OciModel.ReqCodec

/-! ### R3 -/

/-- `0-0` is read as the empty range. -/
theorem parseRange_zero : parseRange 0 0 = (0, 0) := by decide

/-! ### R1: which ranges survive `RangeString` then `ParseRange` -/

/-- Every half-open range `[s, e)` with `0 ≤ s ≤ e` survives the codec, except `[0, 1)`. -/
theorem rangeString_parseRange (s e : Int) (hs : 0 ≤ s) (he : s ≤ e) (hne : (s, e) ≠ (0, 1)) :
    parseRange (rangeString s e).1 (rangeString s e).2 = (s, e) := by
  have hne' : ¬ (s = 0 ∧ e = 1) := fun h => hne (by rw [h.1, h.2])
  unfold rangeString parseRange
  simp only [Prod.mk.injEq, true_and]
  split <;> split <;> omega

/-- The one exception: `[0, 1)` is printed as `0-0`, which is read back as the empty
range `[0, 0)` (the wire form `0-0` is shared by `[0,0)` and `[0,1)`). -/
theorem rangeString_parseRange_zero_one :
    parseRange (rangeString 0 1).1 (rangeString 0 1).2 = (0, 0) := by decide

/-- `[0,0)` and `[0,1)` have the same wire form. -/
theorem rangeString_zero_zero_eq_zero_one : rangeString 0 0 = rangeString 0 1 := by decide

/-- The exact characterisation in one statement. -/
theorem rangeString_parseRange_iff (s e : Int) (hs : 0 ≤ s) (he : s ≤ e) :
    parseRange (rangeString s e).1 (rangeString s e).2 = (s, e) ↔ (s, e) ≠ (0, 1) := by
  constructor
  · intro h hse
    simp only [Prod.mk.injEq] at hse
    obtain ⟨rfl, rfl⟩ := hse
    revert h; decide
  · exact rangeString_parseRange s e hs he

example : parseRange (rangeString 5 5).1 (rangeString 5 5).2 = (5, 5) := by decide
example : parseRange (rangeString 0 0).1 (rangeString 0 0).2 = (0, 0) := by decide
example : parseRange (rangeString 0 2).1 (rangeString 0 2).2 = (0, 2) := by decide

/-! ### R2: `chunkRange` -/

/-- With the right Content-Length every range `[s, e)`, `0 ≤ s ≤ e`, reaches the backend
exactly — including `[0,1)` (Content-Length 1 disambiguates `0-0`) and the empty ranges. -/
theorem chunkRange_exact (s e : Int) (hs : 0 ≤ s) (he : s ≤ e) :
    chunkRange (some (rangeString s e)) (e - s) = some (s, e) := by
  unfold chunkRange rangeString parseRange
  simp only
  split <;> split <;> split <;> split <;>
    first
      | omega
      | (simp only [Option.some.injEq, Prod.mk.injEq, true_and] at *; omega)

example : chunkRange (some (rangeString 0 1)) 1 = some (0, 1) := by decide
example : chunkRange (some (rangeString 0 0)) 0 = some (0, 0) := by decide
example : chunkRange (some (rangeString 7 7)) 0 = some (7, 7) := by decide

/-- A Content-Range whose implied length differs from a known Content-Length is
rejected (400), except for the `0-0` header with Content-Length 1. -/
theorem chunkRange_mismatch (a b s' e' cl : Int) (hp : parseRange a b = (s', e'))
    (hcl : 0 ≤ cl) (hne : e' - s' ≠ cl) (hz : ¬ (cl = 1 ∧ s' = 0 ∧ e' = 0)) :
    chunkRange (some (a, b)) cl = none := by
  unfold chunkRange
  simp only [hp]
  rw [if_neg hz]
  rw [if_pos ⟨hcl, hne⟩]

example : parseRange 3 9 = (3, 10) ∧ chunkRange (some (3, 9)) 5 = none := by decide

/-- The `0-0` header with Content-Length 1 is the first byte. -/
theorem chunkRange_zero_zero_one : chunkRange (some (0, 0)) 1 = some (0, 1) := by decide

/-- A consistent header is passed on as parsed. -/
theorem chunkRange_match (a b s' e' : Int) (hp : parseRange a b = (s', e'))
    (hz : ¬ (e' - s' = 1 ∧ s' = 0 ∧ e' = 0)) :
    chunkRange (some (a, b)) (e' - s') = some (s', e') := by
  unfold chunkRange
  simp only [hp]
  rw [if_neg hz]
  simp

/-- Unknown Content-Length (`-1`): the header is trusted. -/
theorem chunkRange_unknown_length (a b : Int) :
    chunkRange (some (a, b)) (-1) = some (parseRange a b) := by
  unfold chunkRange
  simp only
  rw [if_neg (by omega), if_neg (by omega)]

/-- Without a Content-Range the chunk is `[0, Content-Length)`. -/
theorem chunkRange_none (cl : Int) : chunkRange none cl = some (0, max cl 0) := by
  unfold chunkRange
  simp only [Option.some.injEq, Prod.mk.injEq, true_and]
  split <;> omega

/-! ### Server side of the request codec (proved in `Props/C03.lean`, restated here because
they carry C06's clause "no request causes a backend call with a syntactically invalid
repository name, tag or digest") -/

/-- **server_args_valid.** Whatever method, path and query the classifier accepts, every name it
hands to a handler (and hence to the backend) is syntactically valid. -/
theorem server_args_valid (unb64 : Bytes → Option Bytes) (validUTF8 : Bytes → Bool)
    (m p : Bytes) (q : Bytes → Bytes) (r : Request)
    (h : parse unb64 validUTF8 m p q = .ok r) :
    (r.kind ≠ .ping → r.kind ≠ .catalogList → OciModel.Ref.isRepo r.repo = true) ∧
    (r.digest ≠ [] → OciModel.Ref.isDigest r.digest = true) ∧
    (r.tag ≠ [] → OciModel.Ref.isTag r.tag = true) ∧
    (r.fromRepo ≠ [] → OciModel.Ref.isRepo r.fromRepo = true) :=
  have hs := OciModel.Props.C03.parse_sound unb64 validUTF8 m p q r h
  ⟨hs.1, hs.2.1, hs.2.2.1, hs.2.2.2.1⟩

/-- **server_total (classifier).** The classifier is a total function of method, path and query:
every request is classified or rejected with one of the nine parse errors. (In Lean this is true by construction —
the statement below is only that; what it MEANS for the server is `rejected_request_answer` further down: every
rejection is answered with an error status, and which ones with 500.) -/
theorem classifier_total (unb64 : Bytes → Option Bytes) (validUTF8 : Bytes → Bool)
    (m p : Bytes) (q : Bytes → Bytes) :
    ∃ res : Except PErr Request, parse unb64 validUTF8 m p q = res :=
  OciModel.Props.C03.parse_total unb64 validUTF8 m p q

/-- **What a rejected request is answered with.** Every one of the nine ways the classifier can reject a request
is turned (`handlerErrorForRequestParseError`, then `MarshalError` with the regenerated status table) into an error
answer: the status is an error status, it is 4xx except for an undecodable upload ID and an unparsable query string,
which are answered 500 (code UNKNOWN: status and code agree, which is what the property asks), and no backend is
involved (the answer is a function of the parse error alone). -/
theorem rejected_request_answer (pe : OciModel.ReqCodec.PErr) :
    let st := OciModel.ErrCodec.wireStatus OciModel.ErrCodec.genTable (OciModel.Wire.perrErr pe)
    400 ≤ st ∧ st ≤ 599 ∧
      (st = 500 ↔ pe = .badUploadID ∨ pe = .badQuery) ∧
      (pe = .methodNotAllowed → st = 405) ∧ (pe = .notFound → st = 404) := by
  cases pe <;> decide

/-- **server_error_shape (status).** A failure written by `WriteError` has the status the table
assigns to its code, else the error's own HTTP status, else 500 (C07's `hop_status`). -/
theorem error_status (S : Nat → Bytes) (C compact : Bytes → Bytes) (table : List (Bytes × Nat))
    (stdMsg : Bytes → Bytes) (e : OciModel.ErrCodec.Err) :
    OciModel.ErrCodec.asHTTP (OciModel.ErrCodec.hop S C compact table stdMsg false e) =
      some (OciModel.ErrCodec.wireStatus table e) :=
  OciModel.Props.C07.hop_status S C compact table stdMsg e

end OciModel.Props.C06
