/-
C17R — ociref's hand-written recognisers (`OciModel/Ref.lean`) accept exactly the languages of
the regular expressions regenerated from ociref/reference.go (`Generated/RefRe.lean`).
Only property statements live here; every proof assembles lemmas from
`OciModel/RegexLemmas.lean` and `OciModel/RefReLemmas.lean`.
-/
import OciModel.Ref
import OciModel.Regex
import OciModel.RegexLemmas
import OciModel.RefReLemmas
import OciModel.Generated.RefRe
namespace OciModel.Props.C17R
open OciModel.Regex OciModel.Ref OciModel.Generated.RefRe

/-! ### 1. The derivative matcher decides the language -/

theorem matcher_correct (r : Re) (s : Bytes) : r.matches s = true ↔ lang r s :=
  matches_iff_lang r s

/-! ### 7. The translator recognised the shape of all three patterns -/

theorem generated_refre_ok : Generated.RefRe.shapeKnown = true := by decide

/-! ### 2. `isRepo` is `repoPat` -/

theorem isRepo_iff_repoPat (s : Bytes) : Ref.isRepo s = true ↔ lang Generated.RefRe.repoPatRe s :=
  RefRe.isRepo_iff s

/-- Both sides are inhabited: `a/b-c` is a repository, `a//b` is not. -/
example : Ref.isRepo [97, 47, 98, 45, 99] = true ∧ lang repoPatRe [97, 47, 98, 45, 99] := by decide
example : Ref.isRepo [97, 47, 47, 98] = false ∧ ¬ lang repoPatRe [97, 47, 47, 98] := by decide

/-! ### 4. `referencePat` is built from `hostPat` and `repoPat` -/

/-- `(?:(hostPat)/)?(repoPat)(?::([^@]+))?(?:@(.+))?` — the host and repository groups are
literally the other two regenerated trees. -/
theorem referencePat_structure : referencePatRe =
    .cat (.opt (.cat (.grp 1 hostPatRe) (.cls [(47, 47)])))
      (.cat (.grp 2 repoPatRe)
        (.cat (.opt (.cat (.cls [(58, 58)]) (.grp 3 (.plus (.cls [(0, 63), (65, 255)])))))
          (.opt (.cat (.cls [(64, 64)]) (.grp 4 (.plus (.cls [(0, 9), (11, 255)]))))))) := by
  decide

/-! ### 3. `isHost` is `hostPat` -/

theorem isHost_iff_hostPat (s : Bytes) : Ref.isHost s = true ↔ lang Generated.RefRe.hostPatRe s :=
  RefRe.isHost_iff s

/-- `foo.com:5000` -/
def exHost : Bytes := [102, 111, 111, 46, 99, 111, 109, 58, 53, 48, 48, 48]
/-- `[::1]:80` -/
def exHost6 : Bytes := [91, 58, 58, 49, 93, 58, 56, 48]
/-- Both sides are inhabited: `foo.com:5000` and `[::1]:80` are hosts, `foo` (no dot, no port)
is not. -/
example : Ref.isHost exHost = true ∧ lang hostPatRe exHost := by decide
example : Ref.isHost exHost6 = true ∧ lang hostPatRe exHost6 := by decide
example : Ref.isHost [102, 111, 111] = false ∧ ¬ lang hostPatRe [102, 111, 111] := by decide

/-! ### 5. `matchRef` succeeds exactly on the language of `referencePat` -/

theorem matchRef_isSome_iff_referencePat (s : Bytes) :
    (Ref.matchRef s).isSome = true ↔ lang Generated.RefRe.referencePatRe s :=
  RefRe.matchRef_isSome_iff s

/-- `foo.com:5000/a/b-c:v1@x` -/
def exRefStr : Bytes :=
  exHost ++ [47, 97, 47, 98, 45, 99, 58, 118, 49, 64, 120]
def exRef : Reference := ⟨exHost, [97, 47, 98, 45, 99], [118, 49], [120]⟩
/-- Both sides are inhabited: a full reference matches; `a:` (empty tag) and `A` do not. -/
example : (Ref.matchRef exRefStr).isSome = true ∧ lang referencePatRe exRefStr := by decide
example : (Ref.matchRef [97, 58]).isSome = false ∧ ¬ lang referencePatRe [97, 58] := by decide
example : (Ref.matchRef [65]).isSome = false ∧ ¬ lang referencePatRe [65] := by decide

/-! ### 6. The fields `matchRef` returns are a decomposition along the pattern's groups

Which decomposition leftmost-first matching picks when several exist is a statement about Go's
matching *priorities*, not about the language: `lang` has no priorities. For this pattern the
only freedom is the greedy optional host (`foo.com/bar` is both host `foo.com` + repository
`bar`, and the repository `foo.com/bar`); `matchRef_prefers_host` below proves that the model
takes the host whenever that is possible, which is what greedy `(?:(host)/)?` means. That Go's
`regexp` implements that priority rule stays tied by differential testing (C17 oracle). -/

theorem matchRef_groups (s : Bytes) (r : Reference) (h : Ref.matchRef s = some r) :
    s = (if r.host ≠ [] then r.host ++ [47] else []) ++ r.repo ++
          (if r.tag ≠ [] then 58 :: r.tag else []) ++
          (if r.digest ≠ [] then 64 :: r.digest else []) ∧
    (r.host = [] ∨ lang hostPatRe r.host) ∧
    lang repoPatRe r.repo ∧
    (r.tag = [] ∨ lang (.plus (.cls [(0, 63), (65, 255)])) r.tag) ∧
    (r.digest = [] ∨ lang (.plus (.cls [(0, 9), (11, 255)])) r.digest) :=
  let ⟨hp, hh, hr, ht, hd⟩ := RefRe.matchRef_groups h
  ⟨hp.symm, hh, hr, ht, hd⟩

/-- The hypothesis is satisfiable with every group present. -/
example : Ref.matchRef exRefStr = some exRef := by decide
example : exRef.host ≠ [] ∧ exRef.tag ≠ [] ∧ exRef.digest ≠ [] := by decide

/-- The priority rule of the greedy optional host: if the string can be split as
`host "/" rest` with `host` in `hostPat` and `rest` in the remainder of `referencePat`, then the
host `matchRef` reports is that `host` (in particular it is non-empty) — even when the whole
string would also match without a host. -/
theorem matchRef_prefers_host (s : Bytes) (r : Reference) (hst rest : Bytes)
    (h : Ref.matchRef s = some r) (hs : s = hst ++ 47 :: rest) (hh : lang hostPatRe hst)
    (hrest : lang
      (.cat (.grp 2 repoPatRe)
        (.cat (.opt (.cat (.cls [(58, 58)]) (.grp 3 (.plus (.cls [(0, 63), (65, 255)])))))
          (.opt (.cat (.cls [(64, 64)]) (.grp 4 (.plus (.cls [(0, 9), (11, 255)])))))))
      rest) :
    r.host = hst ∧ r.host ≠ [] :=
  RefRe.matchRef_prefers_host h hs hh hrest

/-- `foo.com/bar` -/
def exAmbiguous : Bytes := [102, 111, 111, 46, 99, 111, 109, 47, 98, 97, 114]
/-- The hypotheses are satisfiable on a genuinely ambiguous string: `foo.com/bar` splits as host
`foo.com` and repository `bar`, and is also a repository as a whole; `matchRef` reports the
host. -/
example : exAmbiguous = [102, 111, 111, 46, 99, 111, 109] ++ 47 :: [98, 97, 114] ∧
    lang hostPatRe [102, 111, 111, 46, 99, 111, 109] ∧
    lang
      (.cat (.grp 2 repoPatRe)
        (.cat (.opt (.cat (.cls [(58, 58)]) (.grp 3 (.plus (.cls [(0, 63), (65, 255)])))))
          (.opt (.cat (.cls [(64, 64)]) (.grp 4 (.plus (.cls [(0, 9), (11, 255)])))))))
      [98, 97, 114] ∧
    lang repoPatRe exAmbiguous ∧
    Ref.matchRef exAmbiguous = some ⟨[102, 111, 111, 46, 99, 111, 109], [98, 97, 114], [], []⟩ := by
  decide

end OciModel.Props.C17R
