/-
C18 — client totality of the list pager (`ociclient.pager`).

The pager loop, with its page size defaulted by `ociclient.New`, run against ANY
finite script of server answers (short pages, empty pages, full pages, missing or
malformed Link headers, failures) and ANY consumer (one that declines upon its
j-th item, or never):

* T1 never reaches the Go panic site `items[len(items)-1]` on an empty page
  (`pager_no_panic`, `pager_no_panic_configured`); without the defaulting of
  non-positive page sizes it does (`pager_panics_on_nonpositive`, the former defect).
* T2 terminates: one request per answer consumed (`pager_terminates`,
  `pager_exhausted_all_consumed`, `pager_exhausted_or_final`).
* T3 makes progress: a request that is followed by another request delivered a full
  page of at least `n ≥ 1` items (`pager_progress`, `pager_progress_at`, `pager_yield_lower_bound`).
* T4 honours the consumer protocol: nothing is delivered after the consumer declines
  (`deliver_budget`, `pager_respects_consumer`, `pager_stopped_exact`,
  `pager_never_stopped`), and nothing after an error (`pager_nothing_after_error`).
-/
import OciModel.Pager
import OciModel.PagerLemmas
namespace OciModel.Props.C18
open OciModel.Pager

/-- A non-positive configured page size is replaced by the default. -/
theorem effectivePageSize_pos (n : Int) : 1 ≤ effectivePageSize n := by
  unfold effectivePageSize; split <;> omega

/-! ### T1: no panic -/

/-- With a positive page size the pager never indexes an empty page. -/
theorem pager_no_panic (n : Int) (as : List Answer) (k : Option Nat) (hn : 1 ≤ n) :
    (pagerScript n as k).fin ≠ .panic := by
  induction as generalizing k with
  | nil => simp [pagerScript_nil]
  | cons a rest ih =>
    cases a with
    | fail => simp [pagerScript_fail]
    | page items link =>
      rw [pagerScript_page]
      split
      · simp
      split
      · simp
      split
      · rename_i hlen hnil
        subst hnil
        exact absurd (show ((([] : List Bytes).length : Nat) : Int) < n by simp; omega) hlen
      split
      · simp
      · exact ih _

/-- For every configured page size — negative, zero or positive — the pager as set up
by `ociclient.New` never panics. -/
theorem pager_no_panic_configured (n : Int) (as : List Answer) (k : Option Nat) :
    (pagerScript (effectivePageSize n) as k).fin ≠ .panic :=
  pager_no_panic _ as k (effectivePageSize_pos n)

/-- The guard matters: a non-defaulted negative page size panics on an empty page
(the defect that `effectivePageSize` repairs: only `0` used to be defaulted). -/
theorem pager_panics_on_nonpositive :
    (pagerScript (-1) [.page [] none] none).fin = .panic := by decide

/-- Likewise for page size zero. -/
theorem pager_panics_on_zero :
    (pagerScript 0 [.page [] (some true)] none).fin = .panic := by decide

/-! ### T2: termination -/

/-- One answer is consumed per request: against finitely many answers the loop ends. -/
theorem pager_terminates (n : Int) (as : List Answer) (k : Option Nat) :
    (pagerScript n as k).requests ≤ as.length := by
  induction as generalizing k with
  | nil => simp [pagerScript_nil]
  | cons a rest ih =>
    cases a with
    | fail => simp [pagerScript_fail]
    | page items link =>
      rw [pagerScript_page]
      have := ih (deliver items k).2.1
      repeat' split
      all_goals simp
      exact this

/-- The run ends `exhausted` (the next request would block on the peer) only when every
scripted answer was consumed. -/
theorem pager_exhausted_all_consumed (n : Int) (as : List Answer) (k : Option Nat) :
    (pagerScript n as k).fin = .exhausted → (pagerScript n as k).requests = as.length := by
  induction as generalizing k with
  | nil => simp [pagerScript_nil]
  | cons a rest ih =>
    cases a with
    | fail => simp [pagerScript_fail]
    | page items link =>
      rw [pagerScript_page]
      have := ih (deliver items k).2.1
      repeat' split
      all_goals simp
      exact this

/-- Whenever the run did not use up the script, it ended for a definite reason:
complete, error delivered, consumer declined (or the Go panic, excluded by T1). -/
theorem pager_final_of_unconsumed (n : Int) (as : List Answer) (k : Option Nat)
    (h : (pagerScript n as k).requests < as.length) :
    (pagerScript n as k).fin ≠ .exhausted := by
  intro he
  have := pager_exhausted_all_consumed n as k he
  omega

/-- Either the run ended for a definite reason, or it consumed the whole script. -/
theorem pager_exhausted_or_final (n : Int) (as : List Answer) (k : Option Nat) :
    (pagerScript n as k).fin ≠ .exhausted ∨ (pagerScript n as k).requests = as.length := by
  by_cases h : (pagerScript n as k).fin = .exhausted
  · exact .inr (pager_exhausted_all_consumed n as k h)
  · exact .inl h

/-- Every request but the first was preceded by a request: at least one request is made
as soon as there is an answer to consume. -/
theorem pager_requests_pos (n : Int) (a : Answer) (rest : List Answer) (k : Option Nat) :
    1 ≤ (pagerScript n (a :: rest) k).requests := by
  cases a with
  | fail => simp [pagerScript_fail]
  | page items link =>
    rw [pagerScript_page]
    repeat' split
    all_goals simp

/-! ### T3: progress -/

/-- A first request that is followed by another request delivered a full page: at least
`n` items, a non-empty page, and a usable (absent or well-formed) Link; and the consumer
had not declined. (No hypothesis on `n` is needed for this direction: for `n ≤ 0` an empty
page leads to the panic end instead of a further request.) -/
theorem pager_progress (n : Int) (items : List Bytes) (link : Option Bool)
    (rest : List Answer) (k : Option Nat)
    (h : 1 < (pagerScript n (.page items link :: rest) k).requests) :
    n ≤ (items.length : Int) ∧ items ≠ [] ∧ link ≠ some false ∧
      (deliver items k).2.2 = false := by
  rw [pagerScript_page] at h
  split at h
  · simp at h
  split at h
  · simp at h
  split at h
  · simp at h
  split at h
  · simp at h
  · rename_i h1 h2 h3 h4
    refine ⟨by omega, h3, h4, by simpa using h1⟩

/-- A failing first answer is never followed by another request. -/
theorem pager_fail_single (n : Int) (rest : List Answer) (k : Option Nat) :
    (pagerScript n (.fail :: rest) k).requests = 1 := rfl

/-- Progress along the whole script: if the pager goes on to make a request after
consuming the answer at position `pre.length`, that answer was a full, non-empty page. -/
theorem pager_progress_at (n : Int) (pre : List Answer) (a : Answer)
    (post : List Answer) (k : Option Nat)
    (h : pre.length + 1 < (pagerScript n (pre ++ a :: post) k).requests) :
    ∃ items link, a = .page items link ∧ n ≤ (items.length : Int) ∧ items ≠ [] := by
  induction pre generalizing k with
  | nil =>
    cases a with
    | fail => simp [pagerScript_fail] at h
    | page items link =>
      have := pager_progress n items link post k (by simpa using h)
      exact ⟨items, link, rfl, this.1, this.2.1⟩
  | cons b pre ih =>
    cases b with
    | fail => simp [pagerScript_fail] at h
    | page items link =>
      rw [List.cons_append, pagerScript_page] at h
      split at h
      · simp at h
      split at h
      · simp at h
      split at h
      · simp at h
      split at h
      · simp at h
      · exact ih (deliver items k).2.1 (by simpa using h)

/-- With `1 ≤ n`, a request that is followed by another delivered at least one item. -/
theorem pager_progress_pos (n : Int) (hn : 1 ≤ n) (items : List Bytes) (link : Option Bool)
    (rest : List Answer) (k : Option Nat)
    (h : 1 < (pagerScript n (.page items link :: rest) k).requests) :
    1 ≤ items.length := by
  have := (pager_progress n items link rest k h).1
  omega

/-- No looping without progress, quantitatively: a consumer that never declines has
received at least `n` items for every request but the last. -/
theorem pager_yield_lower_bound (n : Int) (hn : 0 ≤ n) (as : List Answer) :
    n * (((pagerScript n as none).requests : Int) - 1)
      ≤ ((pagerScript n as none).yielded.length : Int) := by
  induction as with
  | nil =>
    simp only [pagerScript_nil, List.length_nil, Int.mul_sub, Int.mul_one]
    simp; omega
  | cons a rest ih =>
    cases a with
    | fail => simp [pagerScript_fail]
    | page items link =>
      rw [pagerScript_page]
      simp only [deliver_none]
      rw [if_neg (by simp)]
      split
      · simp
      split
      · simp
      split
      · simp
      · rename_i h1 _ _
        simp only [Int.mul_sub, Int.mul_one, Int.natCast_add, Int.mul_add, List.length_append]
          at ih ⊢
        omega

/-! ### T4: consumer protocol -/

/-- A consumer that will decline upon its `(j+1)`-th item receives the first `j+1` items
of the page and no more; it declines iff the page had that many; otherwise its remaining
budget stays positive. -/
theorem deliver_budget (items : List Bytes) (j : Nat) :
    (deliver items (some (j + 1))).1 = items.take (j + 1) ∧
    (deliver items (some (j + 1))).1.length ≤ j + 1 ∧
    (deliver items (some (j + 1))).1 <+: items ∧
    ((deliver items (some (j + 1))).2.2 = true ↔
      (deliver items (some (j + 1))).1.length = j + 1) ∧
    ((deliver items (some (j + 1))).2.2 = false →
      (deliver items (some (j + 1))).1 = items ∧
      (deliver items (some (j + 1))).2.1 = some (j + 1 - items.length) ∧
      items.length < j + 1) := by
  rw [deliver_succ]
  refine ⟨rfl, ?_, List.take_prefix _ _, ?_, ?_⟩
  · simp [List.length_take]; omega
  · simp [List.length_take]; omega
  · intro h
    have : items.length < j + 1 := by simpa using h
    exact ⟨List.take_of_length_le (by omega), rfl, this⟩

/-- A consumer that never declines receives the whole page. -/
theorem deliver_unbounded (items : List Bytes) :
    deliver items none = (items, none, false) := deliver_none items

/-- The pager never delivers more than the consumer accepts. -/
theorem pager_respects_consumer (n : Int) (as : List Answer) (j : Nat) :
    (pagerScript n as (some (j + 1))).yielded.length ≤ j + 1 := by
  induction as generalizing j with
  | nil => simp [pagerScript_nil]
  | cons a rest ih =>
    cases a with
    | fail => simp [pagerScript_fail]
    | page items link =>
      rw [pagerScript_page]
      have hb := deliver_budget items j
      split
      · exact hb.2.1
      · rename_i hs
        have hs' : (deliver items (some (j + 1))).2.2 = false := by simpa using hs
        obtain ⟨hd, hk, hlt⟩ := hb.2.2.2.2 hs'
        split
        · exact hb.2.1
        split
        · exact hb.2.1
        split
        · exact hb.2.1
        · simp only [List.length_append, hd, hk]
          obtain ⟨m, hm⟩ : ∃ m, j + 1 - items.length = m + 1 := ⟨j - items.length, by omega⟩
          rw [hm]
          have := ih m
          omega

/-- When the run ends because the consumer declined, the consumer received exactly the
number of items it was willing to take (so: it declined on its last accepted item and
was never called again). -/
theorem pager_stopped_exact (n : Int) (as : List Answer) (j : Nat) :
    (pagerScript n as (some (j + 1))).fin = .stopped →
      (pagerScript n as (some (j + 1))).yielded.length = j + 1 := by
  induction as generalizing j with
  | nil => simp [pagerScript_nil]
  | cons a rest ih =>
    cases a with
    | fail => simp [pagerScript_fail]
    | page items link =>
      rw [pagerScript_page]
      have hb := deliver_budget items j
      split
      · rename_i hs
        intro _
        exact hb.2.2.2.1.mp hs
      · rename_i hs
        have hs' : (deliver items (some (j + 1))).2.2 = false := by simpa using hs
        obtain ⟨hd, hk, hlt⟩ := hb.2.2.2.2 hs'
        split
        · simp
        split
        · simp
        split
        · simp
        · simp only [List.length_append, hd, hk]
          obtain ⟨m, hm⟩ : ∃ m, j + 1 - items.length = m + 1 := ⟨j - items.length, by omega⟩
          rw [hm]
          intro h
          have := ih m h
          omega

/-- A consumer that never declines never causes the run to end `stopped`. -/
theorem pager_never_stopped (n : Int) (as : List Answer) :
    (pagerScript n as none).fin ≠ .stopped := by
  induction as with
  | nil => simp [pagerScript_nil]
  | cons a rest ih =>
    cases a with
    | fail => simp [pagerScript_fail]
    | page items link =>
      rw [pagerScript_page]
      simp only [deliver_none]
      repeat' split
      all_goals first | exact ih | simp_all

/-- Everything the pager delivers comes, in order, from the pages of the script. -/
def pagesOf : List Answer → List Bytes
  | [] => []
  | .fail :: rest => pagesOf rest
  | .page items _ :: rest => items ++ pagesOf rest

theorem pager_yields_prefix (n : Int) (as : List Answer) (k : Option Nat) (hk : k ≠ some 0) :
    (pagerScript n as k).yielded <+: pagesOf as := by
  induction as generalizing k with
  | nil => simp [pagerScript_nil, pagesOf]
  | cons a rest ih =>
    cases a with
    | fail => simp [pagerScript_fail]
    | page items link =>
      rw [pagerScript_page]
      have hpre : (deliver items k).1 <+: items ∧
          ((deliver items k).2.2 = false →
            (deliver items k).1 = items ∧ (deliver items k).2.1 ≠ some 0) := by
        cases k with
        | none => simp [deliver_none]
        | some j =>
          cases j with
          | zero => exact absurd rfl hk
          | succ j =>
            have hb := deliver_budget items j
            refine ⟨hb.2.2.1, fun h => ?_⟩
            obtain ⟨hd, hk', hlt⟩ := hb.2.2.2.2 h
            refine ⟨hd, ?_⟩
            rw [hk']; simp; omega
      have h1 : (deliver items k).1 <+: pagesOf (.page items link :: rest) :=
        List.IsPrefix.trans hpre.1 (List.prefix_append _ _)
      split
      · exact h1
      · rename_i hs
        have hs' : (deliver items k).2.2 = false := by simpa using hs
        obtain ⟨hd, hk'⟩ := hpre.2 hs'
        split
        · exact h1
        split
        · exact h1
        split
        · exact h1
        · simp only [pagesOf, hd]
          exact (List.prefix_append_right_inj items).mpr (ih _ hk')

/-- The `error` end is final: whatever the script holds after a failing answer is never
requested, and nothing is delivered after the error. -/
theorem pager_nothing_after_error (n : Int) (pre post : List Answer) (k : Option Nat) :
    pagerScript n (pre ++ .fail :: post) k = pagerScript n (pre ++ [.fail]) k := by
  induction pre generalizing k with
  | nil => rfl
  | cons a pre ih =>
    cases a with
    | fail => rfl
    | page items link =>
      simp only [List.cons_append, pagerScript_page, ih]

/-- More generally the run only depends on the answers it consumed. -/
theorem pager_ignores_unconsumed (n : Int) (as post : List Answer) (k : Option Nat)
    (h : (pagerScript n as k).fin ≠ .exhausted) :
    pagerScript n (as ++ post) k = pagerScript n as k := by
  induction as generalizing k with
  | nil => simp [pagerScript_nil] at h
  | cons a rest ih =>
    cases a with
    | fail => rfl
    | page items link =>
      rw [pagerScript_page] at h
      simp only [List.cons_append, pagerScript_page]
      split
      · rfl
      · rename_i h1
        rw [if_neg h1] at h
        split
        · rfl
        · rename_i h2
          rw [if_neg h2] at h
          split
          · rfl
          · rename_i h3
            rw [if_neg h3] at h
            split
            · rfl
            · rename_i h4
              rw [if_neg h4] at h
              rw [ih _ h]

/-- A malformed Link header on a full page ends the run with `error` after delivering
that page (the items are delivered before the Link is examined). -/
theorem pager_bad_link_is_error (n : Int) (items : List Bytes) (rest : List Answer)
    (hfull : n ≤ (items.length : Int)) (hne : items ≠ []) :
    pagerScript n (.page items (some false) :: rest) none = ⟨items, 1, .error⟩ := by
  rw [pagerScript_page]
  simp only [deliver_none]
  simp [hne]; omega

/-! ### Examples (evaluated) -/

-- three full pages of size 2 then a short page: complete after four requests
example :
    pagerScript 2
      [.page [[1], [2]] (some true), .page [[3], [4]] none, .page [[5], [6]] (some true),
       .page [[7]] none, .page [[9]] none] none
      = ⟨[[1], [2], [3], [4], [5], [6], [7]], 4, .done⟩ := by decide

-- exact multiple: the final page is empty
example :
    pagerScript 2 [.page [[1], [2]] (some true), .page [] none] none
      = ⟨[[1], [2]], 2, .done⟩ := by decide

-- the consumer declines on its third item, in the middle of the second page
example :
    pagerScript 2
      [.page [[1], [2]] (some true), .page [[3], [4]] (some true), .page [[5]] none] (some 3)
      = ⟨[[1], [2], [3]], 2, .stopped⟩ := by decide

-- a failure on the second request: the first page was delivered, then the error, then nothing
example :
    pagerScript 2 [.page [[1], [2]] (some true), .fail, .page [[3]] none] none
      = ⟨[[1], [2]], 2, .error⟩ := by decide

-- malformed Link on a full page
example :
    pagerScript 2 [.page [[1], [2]] (some false), .page [[3]] none] none
      = ⟨[[1], [2]], 1, .error⟩ := by decide

-- a server that keeps sending full pages: the run is bounded by the script
example :
    pagerScript 1 [.page [[1]] none, .page [[1]] none, .page [[1]] none] none
      = ⟨[[1], [1], [1]], 3, .exhausted⟩ := by decide

-- an over-long page (more than n items) is delivered whole and the loop continues
example :
    pagerScript 2 [.page [[1], [2], [3]] none, .page [] none] none
      = ⟨[[1], [2], [3]], 2, .done⟩ := by decide

-- default page size in effect for n = -5: an empty page is a short page
example : (pagerScript (effectivePageSize (-5)) [.page [] none] none).fin = .done := by decide

end OciModel.Props.C18
