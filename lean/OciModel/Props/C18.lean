import OciModel.Pager
namespace OciModel.Props.C18
open OciModel.Pager

/-- A non-positive configured page size is replaced by the default. -/
theorem effectivePageSize_pos (n : Int) : 1 ≤ effectivePageSize n := by
  unfold effectivePageSize; split <;> omega

end OciModel.Props.C18
