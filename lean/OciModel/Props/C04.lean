/-
C04 — chunked upload through client, server and buffer.

For every chunk size, every partition of the content into writes and every
admissible pattern of close-and-resume (explicit offset or asked offset), the
buffer behind the server ends up holding exactly the concatenation of the
written bytes, and the commit with the digest of that content succeeds; a chunk
at a wrong offset and a commit with a wrong digest are refused.

The exclusion (`Admissible`): the client does not ask the registry for the offset
(`closeResumeAsk`) at the moment exactly one byte has been received — the answer
`0-0` then reads as "nothing received" (`askedOffset_one`), and
`excluded_case_counterexample` shows that the upload then fails.

`H` (the content hash) is a parameter: nothing is assumed about it.
Proofs of the helper lemmas are in `OciModel/UploadLemmas.lean`.
-/
import OciModel.Upload
import OciModel.UploadLemmas
namespace OciModel.Props.C04
open OciModel.Upload OciModel.ReqCodec

/-! ### U0 — the Content-Range codec is exact on what the writer sends -/

/-- The server recovers `(s, s+n)` from the header the client prints for the chunk
`[s, s+n)` and a Content-Length of `n`: for all `s, n ≥ 0`, including the first single
byte (`0-0`, Content-Length 1) and empty chunks. -/
theorem chunkRange_exact {s n : Int} (hs : 0 ≤ s) (hn : 0 ≤ n) :
    chunkRange (some (rangeString s (s + n))) n = some (s, s + n) :=
  Upload.chunkRange_exact hs hn

/-- Asking for the offset returns the number of bytes received, except after exactly one byte. -/
theorem askedOffset_eq {n : Nat} (h : n ≠ 1) : askedOffset n = n := Upload.askedOffset_eq h

/-- Asking for the offset after exactly one byte yields 0: the exclusion in the property. -/
theorem askedOffset_one : askedOffset 1 = 0 := by decide

/-! ### U1 — one flush under the invariant -/

/-- `Inv w sv`: the server buffer holds exactly the bytes the writer has flushed; no sticky error. -/
example (w : CW) (sv : Srv) : Inv w sv ↔ (sv.buf.length = w.flushed ∧ sv.poisoned = false) := Iff.rfl

/-- A non-empty flush appends exactly `w.chunk ++ extra` to the server buffer, advances
`flushed` by its length, and re-establishes the invariant. -/
theorem flush_exact (H : Bytes → Bytes) {w : CW} {sv : Srv} (h : Inv w sv) (extra : Bytes)
    (hne : w.chunk ++ extra ≠ []) :
    flush H w sv extra none =
      .ok ({ w with flushed := w.flushed + (w.chunk ++ extra).length, chunk := [] },
           { sv with buf := sv.buf ++ w.chunk ++ extra },
           [BOp.resume w.flushed, BOp.write (w.chunk ++ extra).length]) ∧
    Inv { w with flushed := w.flushed + (w.chunk ++ extra).length, chunk := [] }
        { sv with buf := sv.buf ++ w.chunk ++ extra } := by
  refine ⟨?_, inv_flushed h extra⟩
  rw [flush_none_nonempty H h extra hne]; simp [flushedW, flushedS, flushLog, hne]

/-- A flush with nothing to send makes no request. -/
theorem flush_empty (H : Bytes → Bytes) (w : CW) (sv : Srv) (extra : Bytes)
    (he : w.chunk ++ extra = []) : flush H w sv extra none = .ok (w, sv, []) :=
  flush_none_empty H w sv extra he

/-! ### U2 — admissible scripts run to completion and deliver exactly the written bytes -/

/-- `Admissible` from the initial state, in words: before each `closeResumeAsk`, the total
number of bytes written so far is not 1. -/
theorem admissible_start_iff (c : Nat) (ops : List Op) :
    Admissible (start c) ⟨[], false⟩ ops ↔
      ∀ pre post, ops = pre ++ Op.closeResumeAsk :: post → (written pre).length ≠ 1 := by
  simpa [Admissible, received, start] using admFrom_iff ops 0

/-- From any state in which the invariant holds and `Size()` is the number of bytes written,
an admissible script succeeds; afterwards the invariant holds, server buffer plus pending
chunk have grown by exactly the written bytes, and `Size()` is still the number of bytes written. -/
theorem run_ok (H : Bytes → Bytes) {w : CW} {sv : Srv} (ops : List Op)
    (hinv : Inv w sv) (hsize : w.size = sv.buf.length + w.chunk.length)
    (hadm : Admissible w sv ops) :
    ∃ w' sv' log, run H w sv ops = .ok (w', sv', log) ∧ Inv w' sv' ∧
      sv'.buf ++ w'.chunk = sv.buf ++ w.chunk ++ written ops ∧
      w'.size = sv'.buf.length + w'.chunk.length ∧ w'.chunkSize = w.chunkSize := by
  obtain ⟨w', sv', log, hr, hg, hk, hb⟩ := run_spec H ops ⟨hinv, hsize⟩ hadm
  exact ⟨w', sv', log, hr, hg.1, hb, hg.2, hk⟩

/-- The hypothesis on `Size()` in `run_ok` is needed: a writer whose size is off resumes
at a wrong offset and its next chunk is refused. -/
example : Inv ⟨[], 5, 0, 4⟩ ⟨[], false⟩ ∧
    run (fun b => b) ⟨[], 5, 0, 4⟩ ⟨[], false⟩ [.closeResumeExplicit, .write [1, 2, 3, 4, 5]]
      = .error .rangeInvalid := by decide

/-! ### U3 — the property -/

/-- Every chunk size, every partition of the content into writes, every admissible pattern of
close-and-resume in either mode: the run succeeds, the commit with the digest of the written
bytes succeeds, and the server buffer is then exactly the written bytes. -/
theorem chunked_commit_exact (H : Bytes → Bytes) (c : Nat) (ops : List Op)
    (hadm : Admissible (start c) ⟨[], false⟩ ops) :
    ∃ w' sv' log sv'' log', run H (start c) ⟨[], false⟩ ops = .ok (w', sv', log) ∧
      commit H w' sv' (H (written ops)) = .ok (sv'', log') ∧
      sv''.buf = written ops ∧ w'.size = (written ops).length := by
  obtain ⟨w', sv', log, hr, hg, -, hb⟩ := run_spec H ops (good_start c) hadm
  have hb' : sv'.buf ++ w'.chunk = written ops := by simpa [start] using hb
  refine ⟨w', sv', log, { sv' with buf := sv'.buf ++ w'.chunk }, flushLog w' [] ++ [BOp.commit],
    hr, ?_, hb', ?_⟩
  · rw [commit_spec H hg.1, hb', if_pos rfl]
  · rw [← hb', List.length_append]; exact hg.2

/-- Scripts that never ask for the offset are always admissible (so the property covers every
partition and every pattern of explicit resumes without exception). -/
theorem admissible_of_no_ask (w : CW) (sv : Srv) (ops : List Op)
    (h : Op.closeResumeAsk ∉ ops) : Admissible w sv ops := by
  refine (admFrom_iff ops _).mpr ?_
  intro pre post heq
  exact absurd (heq ▸ List.mem_append_right pre List.mem_cons_self) h

/-! ### U4 — a chunk at a wrong offset is refused -/

theorem wrong_offset_refused (H : Bytes → Bytes) (sv : Srv) (hdr : Int × Int) (body : Bytes)
    (commit : Option Bytes) {st e : Int} (hb : body ≠ [])
    (hr : chunkRange (some hdr) body.length = some (st, e)) (hne : (sv.buf.length : Int) ≠ st) :
    serverChunk H sv hdr body commit = .error .rangeInvalid :=
  serverChunk_wrong_offset H sv hdr body commit hb hr hne

/-- In client terms: a writer whose `flushed` is not what the server holds fails its next
non-empty flush (PATCH or final PUT). -/
theorem stale_writer_refused (H : Bytes → Bytes) (w : CW) (sv : Srv) (extra : Bytes)
    (commit : Option Bytes) (hne : w.chunk ++ extra ≠ []) (hoff : sv.buf.length ≠ w.flushed) :
    flush H w sv extra commit = .error .rangeInvalid :=
  flush_wrong_offset H w sv extra commit hne hoff

/-! ### U5 — a commit with a wrong digest is refused -/

theorem wrong_digest_refused (H : Bytes → Bytes) {w : CW} {sv : Srv} (h : Inv w sv) (d : Bytes)
    (hd : d ≠ H (sv.buf ++ w.chunk)) : commit H w sv d = .error .digestInvalid := by
  rw [commit_spec H h, if_neg (fun e => hd e.symm)]

/-- and with the right one it succeeds, storing buffer plus pending chunk -/
theorem right_digest_accepted (H : Bytes → Bytes) {w : CW} {sv : Srv} (h : Inv w sv) :
    ∃ log, commit H w sv (H (sv.buf ++ w.chunk)) = .ok ({ sv with buf := sv.buf ++ w.chunk }, log) := by
  rw [commit_spec H h, if_pos rfl]; exact ⟨_, rfl⟩

/-! ### U6 — the exclusion is necessary -/

/-- One byte, ask for the offset (the registry says `0-0`, read as 0), one more byte: refused. -/
theorem excluded_case_counterexample :
    run (fun b => b) (start 4) ⟨[], false⟩
      [.write [1], .closeResumeAsk, .write [2], .closeResumeExplicit] = .error .rangeInvalid := by
  decide

example : ¬ Admissible (start 4) ⟨[], false⟩
    [.write [1], .closeResumeAsk, .write [2], .closeResumeExplicit] := by decide

/-! ### U7 — every resume names the number of bytes received so far -/

/-- In the backend log of an admissible run from the initial state, every `Resume(o)` with a
definite offset names exactly the number of bytes handed to the buffer before it, and the
buffer holds exactly the bytes the log wrote. -/
theorem resume_offsets_exact (H : Bytes → Bytes) (c : Nat) (ops : List Op)
    (hadm : Admissible (start c) ⟨[], false⟩ ops) {w' : CW} {sv' : Srv} {log : List BOp}
    (hr : run H (start c) ⟨[], false⟩ ops = .ok (w', sv', log)) :
    LogExact 0 log ∧ sv'.buf.length = logBytes log := by
  simpa using run_log H ops (good_start c) hadm hr

/-! ### Concrete scripts (toy hash: identity) -/

/-- chunk size 4, writes of 3+3+1+2 bytes with an explicit and an asked resume in between -/
example :
    run (fun b => b) (start 4) ⟨[], false⟩
      [.write [1, 2, 3], .write [4, 5, 6], .write [7], .closeResumeExplicit, .write [8, 9],
       .closeResumeAsk]
    = .ok (⟨[], 9, 9, 4⟩, ⟨[1, 2, 3, 4, 5, 6, 7, 8, 9], false⟩,
        [.resume 0, .write 6, .resume 6, .write 1, .resume 7, .write 2, .resume (-1)]) := by decide

/-- chunk size 0: every write is sent at once; the final PUT is empty -/
example :
    (run (fun b => b) (start 0) ⟨[], false⟩ [.write [1], .write [2, 3], .closeResumeExplicit]).toOption.map
      (fun r => (r.2.1.buf, commit (fun b => b) r.1 r.2.1 [1, 2, 3]))
    = some ([1, 2, 3], .ok (⟨[1, 2, 3], false⟩, [.resume 3, .commit])) := by decide

/-- asking after 0 and after 2 bytes is fine; the content is committed from the pending chunk -/
example :
    (run (fun b => b) (start 8) ⟨[], false⟩
      [.closeResumeAsk, .write [9], .write [8], .closeResumeAsk, .write [7]]).toOption.map
      (fun r => commit (fun b => b) r.1 r.2.1 [9, 8, 7])
    = some (.ok (⟨[9, 8, 7], false⟩, [.resume 2, .write 1, .commit])) := by decide

/-- a wrong digest is refused -/
example :
    commit (fun b => b) ⟨[3], 3, 2, 4⟩ ⟨[1, 2], false⟩ [1, 2, 4] = .error .digestInvalid := by decide

end OciModel.Props.C04
