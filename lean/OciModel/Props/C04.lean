import OciModel.Upload
namespace OciModel.Props.C04
open OciModel.Upload OciModel.ReqCodec

/-- Asking for the offset after exactly one byte yields 0: the exclusion in the property. -/
theorem askedOffset_one : askedOffset 1 = 0 := by decide

end OciModel.Props.C04
