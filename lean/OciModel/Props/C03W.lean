/-
C03W — the client, the wire and the server, composed (sub-check of C03).

`Props/C03.lean` proves the request codec (`construct` / `parse`), `Props/C03R.lean` the response codec
(`serverResp` / `clientDecode`), `Props/C07.lean` the error codec (`hop`). Here they are put end to end
(`OciModel/Wire.lean`: glue only) and ONE statement per interface call says what the property says:

  the client, talking through the wire to the server in front of an ARBITRARY backend, gives its caller the
  backend's answer (up to what the wire carries), and the backend receives exactly the call.

* `hopS cfg fuel B st c` — one call `c` on the client, whose transport is the server in front of the
  (stateful) backend `B`; `st` = the backend's state and the calls it has received so far.
* `onWire c` — the call as the backend receives it: `c` itself, but chunk-size hints are not sent.
* `expect cfg c a` — the backend's answer `a` as the caller gets it (Part 1 says it is *equivalent* to `a`
  in the property's sense as soon as `a` agrees with the request).

Part 0: the facts of the source the composition rests on (regenerated on every run).
Part 1: every call that is one request: exactness and equivalence.
Part 2: the multi-request flows (POST-then-PUT, tag GET with HEAD fallback, paging) and every call.
Part 3: histories over a stateful backend.
Part 4: the exceptions that are real: F3 (empty range), F11 (HEAD errors), F24 (error bodies over 8 KiB),
        and F29 (an error written with a success status; fixed).
Part 5: two hops.
Part 6: F31 (fixed): a call by digest reports the digest that was asked for, over any transport.

F31 (ociclient `descriptorFromResponse`: the digest asked for wins over the `Docker-Content-Digest` header): `expect`
(`WireSpec.expectOk`) now gives `GetManifest`, `ResolveBlob`, `ResolveManifest` and `MountBlob` the digest of the CALL,
as it already did for `GetBlob` / `GetBlobRange`; accordingly `Faithful` — the hypothesis of the transparency theorems —
now asks of every one of these calls that the backend's answer carries the digest asked for. The exactness theorems
(`wire_call_exact`, `wire_exact`, histories, two hops) are unconditional as before.

Statements and short proofs only; lemmas are in `OciModel/WireLemmas.lean` and `OciModel/WireSource.lean`.
-/
import OciModel.Wire
import OciModel.WireSpec
import OciModel.WireLemmas
import OciModel.WireSource
import OciModel.WireHops
import OciModel.ErrCodecInst
import OciModel.Generated.WireFacts
import OciModel.Generated.ErrorTable
namespace OciModel.Props.C03W
open OciModel OciModel.Ref OciModel.ReqCodec OciModel.RespCodec OciModel.Wire
open OciModel.ErrCodec (Err)

/-! ### Concrete witnesses for the satisfiability `example`s -/

def exDigest : Bytes := sha256 ++ cColon :: List.replicate 64 97
def exRepo : Bytes := strBytes "foo/blobs/uploads"

/-- a configuration with the concrete error codec, error table and list decoders -/
def exCfg : Cfg :=
  { H := fun _ => exDigest, S := ErrCodec.S, C := ErrCodec.C, compact := ErrCodec.compactJSON,
    table := ErrCodec.genTable, stdMsg := ErrCodec.stdMsg, errBody := errBodyJSON,
    decTags := decTagsImage, decCatalog := decCatalogImage, decIndex := fun _ => none }

def exDesc : Desc := { mediaType := mtImageManifest, digest := exDigest, size := 3 }

/-- a backend: one blob, one upload session, everything else unknown -/
def exB : Backend
  | .getBlob _ _ => .ok (.reader exDesc [1, 2, 3])
  | .resolveBlob _ _ => .err (.wire (strBytes "BLOB_UNKNOWN", strBytes "blob unknown to registry", none))
  | .startUpload _ _ => .ok (.writer (strBytes "a/b?c") 0 4)
  | _ => .err (.plain (strBytes "no"))

example : DecodersOK exCfg := ⟨C03R.json_tags_round_trip, C03R.json_catalog_round_trip⟩
example : WF exCfg (.getBlob exRepo exDigest) ∧ Single exCfg (.getBlob exRepo exDigest) :=
  ⟨⟨by decide, by decide⟩, trivial⟩
example : Carriable exCfg (.getBlob exRepo exDigest) (exB (.getBlob exRepo exDigest)) := ⟨by decide, by decide⟩
example : Faithful exCfg (.getBlob exRepo exDigest) (exB (.getBlob exRepo exDigest)) := rfl
-- F31: the strengthened `Faithful` is satisfiable for the calls it now constrains (an answer that carries the digest asked for)
example : Faithful exCfg (.resolveBlob exRepo exDigest) (.ok (.desc exDesc)) := rfl
example : Faithful exCfg (.getManifest exRepo exDigest) (.ok (.reader exDesc [1, 2, 3])) := rfl
example : Faithful exCfg (.resolveManifest exRepo exDigest) (.ok (.desc exDesc)) := rfl
example : Faithful exCfg (.mountBlob exRepo exRepo exDigest) (.ok (.desc exDesc)) := rfl
example : WF exCfg (.getBlobRange exRepo exDigest 1 (-1)) := ⟨by decide, by decide, ⟨by decide, by decide⟩, by decide, Or.inl (by decide)⟩
example : WF exCfg (.pushManifest exRepo (strBytes "latest") [123, 125] mtImageManifest) :=
  ⟨by decide, Or.inr (by decide), by decide, by decide⟩
example : WF exCfg (.uploadChunk exRepo (strBytes "a/b?c") 0 0 [7]) :=
  ⟨by decide, ⟨by decide, by decide⟩, by decide, by decide, by decide⟩
example : Carriable exCfg (.startUpload exRepo 0) (exB (.startUpload exRepo 0)) :=
  ⟨⟨by decide, by decide⟩, by decide, by decide⟩

/-! ## Part 0 — the facts of the source -/

/-- **The regenerated facts the composition takes from the source**: `MarshalError` passes an error's own HTTP
status on only when it is an error status (fix F29); the client decodes error bodies up to 8 KiB; over a HEAD
carrier `makeError1` maps exactly these five statuses to standard errors; `PushBlob` is POST-then-PUT. -/
theorem generated_wire_facts :
    Generated.WireFacts.shapeKnown = true ∧
    Generated.WireFacts.marshalOwnStatusGuard = "status := httpErr.StatusCode(); status >= 400 && status <= 599" ∧
    Generated.WireFacts.errorBodySizeLimit = errorBodySizeLimit ∧
    Generated.WireFacts.headStatuses =
      [(404, "ErrNameUnknown"), (401, "ErrUnauthorized"), (403, "ErrDenied"), (429, "ErrTooManyRequests"),
       (400, "ErrUnsupported")] ∧
    Generated.WireFacts.pushBlobKinds = ["ReqBlobStartUpload"] := by decide

/-- **Every status of `errorStatuses` is an error status** (the hypothesis `TableOK` of the theorems below,
for the table regenerated from error.go). -/
theorem generated_table_error_statuses : TableOK ErrCodec.genTable := by unfold TableOK; decide

/-- **`plan` makes the calls the source makes**: whatever backend call the model's server makes for a
classified request is one of the call sites on `r.backend` of the handler the dispatch table names for the
request's kind (regenerated handler table of C06S), with the same method and, for every argument that is a
field of the classified request, the same field in the same position (`MountBlob(FromRepo, Repo, Digest)`,
`Tags(Repo, ListLast)`, …). -/
theorem plan_makes_the_calls_of_the_source (cfg : Cfg) (r : Request) (rq : HttpRequest) (c : Wire.Call)
    (h : plan cfg r rq = .ok (some c)) : ∃ site ∈ sitesOf r.kind, siteMatches r site c = true :=
  plan_site cfg r rq c h

example : plan exCfg { kind := .blobMount, repo := strBytes "to", digest := exDigest, fromRepo := strBytes "from" }
    { method := mPOST, path := [] } = .ok (some (.mountBlob (strBytes "from") (strBytes "to") exDigest)) := by decide

/-- The status `MarshalError` puts on an error answer is an error status, whatever the error (fix F29): no
error of the backend can reach the client as a 1xx/2xx answer. -/
theorem error_status_is_an_error_status (table : List (Bytes × Nat)) (ht : TableOK table) (e : Err) :
    400 ≤ ErrCodec.wireStatus table e ∧ ErrCodec.wireStatus table e ≤ 599 :=
  wireStatus_error ht e

/-! ## Part 1 — one request, one backend call -/

/-- **Exactness.** For every configuration, every (stateful) backend `B`, every state, and every call that is
answered by one request (`Single`: all but `PushBlob`, the paged listings, and a tag GET against a server
that omits the digest) with well-formed names: the backend receives exactly the call (`onWire c`: the call
minus the chunk-size hints the protocol has no place for), once, and moves to the state it would have moved
to; and the caller gets `expect cfg c` of the backend's answer. -/
theorem wire_call_exact {σ : Type} (cfg : Cfg) (ht : TableOK cfg.table) (fuel : Nat) (B : SBackend σ)
    (st : σ × List Wire.Call) (c : Wire.Call) (hs : Single cfg c) (hwf : WF cfg c)
    (hcar : Carriable cfg c (B st.1 (onWire c)).2) :
    hopS cfg fuel B st c = (((B st.1 (onWire c)).1, st.2 ++ [onWire c]), expect cfg c (B st.1 (onWire c)).2) :=
  hop_single cfg ht fuel B st c hs hwf hcar

/-- The same for a backend that is a function of the call, in the words of the task: the calls the server
made are exactly `[c]`. -/
theorem wire_call_exact_stateless (cfg : Cfg) (ht : TableOK cfg.table) (fuel : Nat) (B : Backend) (c : Wire.Call)
    (hs : Single cfg c) (hwf : WF cfg c) (hcar : Carriable cfg c (B (onWire c))) :
    hopS cfg fuel (fun (_ : Unit) c => ((), B c)) ((), []) c = (((), [onWire c]), expect cfg c (B (onWire c))) := by
  have := hop_single cfg ht fuel (fun (_ : Unit) c => ((), B c)) ((), []) c hs hwf hcar
  simpa using this

/-- **In the words of the task.** `clientCall : (HttpRequest → HttpResponse) → Call → Result` over
`serverHandle B : HttpRequest → HttpResponse × List Call`: for every backend `B : Call → Answer` and every
single-request call with well-formed names, `clientCall (fun rq => (serverHandle B rq).1) c ≈ B c` … -/
-- F31: `hf : Faithful …` now also asks `answer digest = requested digest` of `ResolveBlob`, `MountBlob`, and (whatever
-- `omitDigest`) `GetManifest`, `ResolveManifest`: the client reports the digest asked for, so without it the old
-- statement is false (`wire_answer_equivalent_F31_counterexample`).
theorem wire_transparent (cfg : Cfg) (ht : TableOK cfg.table) (fuel : Nat) (B : Backend) (c : Wire.Call)
    (hs : Single cfg c) (hwf : WF cfg c) (hcar : Carriable cfg c (B (onWire c))) (hf : Faithful cfg c (B (onWire c)))
    (hsmall : ∀ e, B (onWire c) = .err e → c.isHead = false → SmallBody cfg e) :
    Equiv cfg c (clientCall cfg fuel (fun rq => (serverHandle cfg B rq).1) c) (B (onWire c)) := by
  rw [clientCall_serverHandle cfg fuel B [] c, hop_single cfg ht fuel (fun (_ : Unit) c => ((), B c)) ((), []) c hs hwf hcar]
  exact expect_equiv cfg c _ hs hcar hf hsmall

/-- … and the requests it sends make the server call the backend with exactly `[onWire c]`
(`wire_call_exact_stateless`: the second component of the composed run; `serveS` is `serverHandle` with
the calls collected: -/
theorem clientCall_is_the_composed_run (cfg : Cfg) (fuel : Nat) (B : Backend) (log : List Wire.Call) (c : Wire.Call) :
    clientCall cfg fuel (fun rq => (serverHandle cfg B rq).1) c =
      (hopS cfg fuel (fun (_ : Unit) c => ((), B c)) ((), log) c).2 :=
  clientCall_serverHandle cfg fuel B log c

/-- `serveS` over such a backend is `serverHandle`, whatever was recorded before.) -/
theorem serverHandle_is_serveS (cfg : Cfg) (B : Backend) (log : List Wire.Call) (rq : HttpRequest) :
    (serveS cfg (fun (_ : Unit) c => ((), B c)) ((), log) rq).2 = (serverHandle cfg B rq).1 ∧
    (serveS cfg (fun (_ : Unit) c => ((), B c)) ((), log) rq).1.2 = log ++ (serverHandle cfg B rq).2 :=
  serveS_stateless cfg B log rq

/-- What changes on the way to the backend is hints only: for every call without a chunk-size hint and
without a range, the backend receives the call itself; and `onWire` is idempotent (a second hop changes
nothing more). -/
theorem onWire_identity (c : Wire.Call) (h : c.plain = true) : onWire c = c := onWire_plain c h

theorem onWire_idempotent (c : Wire.Call) : onWire (onWire c) = onWire c := onWire_idem c

example : onWire (.getBlobRange exRepo exDigest 0 (-7)) = .getBlob exRepo exDigest := by decide
example : onWire (.getBlobRange exRepo exDigest 5 (-7)) = .getBlobRange exRepo exDigest 5 (-1) := by decide
example : onWire (.startUpload exRepo 4096) = .startUpload exRepo 0 := rfl
example : onWire (.uploadChunk exRepo [1] 10 4096 [1, 2, 3]) = .uploadChunk exRepo [1] 10 3 [1, 2, 3] := rfl

/-- **Equivalence.** What arrives is the backend's answer in the sense of the property — the same
success/failure; for a failure the same HTTP status and, unless the carrier is a HEAD, the same OCI code
(`UNKNOWN` for an error without one); for a success the same digest and size, the same media type for
manifests, the same bytes; a mount carries the digest only; an upload is named by the location of the
backend's ID — as soon as the backend's answer agrees with the request (`Faithful`: a registry's does; it is
needed because `PushManifest` and `Commit` report the client's own account instead of reading the answer, and
every call by digest reports the digest it asked for) and an error's body is one the client decodes (≤ 8 KiB: F24). -/
-- F31: `Faithful` strengthened for `ResolveBlob`, `MountBlob`, `GetManifest`, `ResolveManifest` (see `wire_transparent`);
-- with the old `Faithful` the statement is false: `wire_answer_equivalent_F31_counterexample`.
theorem wire_answer_equivalent (cfg : Cfg) (c : Wire.Call) (a : Answer) (hs : Single cfg c) (hcar : Carriable cfg c a)
    (hf : Faithful cfg c a) (hsmall : ∀ e, a = .err e → c.isHead = false → SmallBody cfg e) :
    Equiv cfg c (expect cfg c a) a :=
  expect_equiv cfg c a hs hcar hf hsmall

/-- The two together: **one call through the wire is transparent.** -/
-- F31: `hf : Faithful …` strengthened as in `wire_transparent`.
theorem wire_call_transparent {σ : Type} (cfg : Cfg) (ht : TableOK cfg.table) (fuel : Nat) (B : SBackend σ)
    (st : σ × List Wire.Call) (c : Wire.Call) (hs : Single cfg c) (hwf : WF cfg c)
    (hcar : Carriable cfg c (B st.1 (onWire c)).2) (hf : Faithful cfg c (B st.1 (onWire c)).2)
    (hsmall : ∀ e, (B st.1 (onWire c)).2 = .err e → c.isHead = false → SmallBody cfg e) :
    (hopS cfg fuel B st c).1 = ((B st.1 (onWire c)).1, st.2 ++ [onWire c]) ∧
    Equiv cfg c (hopS cfg fuel B st c).2 (B st.1 (onWire c)).2 := by
  rw [hop_single cfg ht fuel B st c hs hwf hcar]
  exact ⟨rfl, expect_equiv cfg c _ hs hcar hf hsmall⟩

/-! ## Part 2 — the multi-request flows, and every call -/

/-- **`PushBlob` is POST-then-PUT**: the backend receives `PushBlobChunked(repo, 0)` and then, on the upload
it named, "resume at 0, write the whole content, commit the digest" — never `PushBlob`. The caller gets its
own descriptor back when both succeed, the first error otherwise. (That the two steps amount to `PushBlob`
is a property of the backend: C04 for `ocimem`.) -/
theorem pushBlob_wire {σ : Type} (cfg : Cfg) (ht : TableOK cfg.table) (fuel : Nat) (B : SBackend σ)
    (st : σ × List Wire.Call) (repo : Bytes) (d : Desc) (content : Bytes) (hwf : WF cfg (.pushBlob repo d content))
    (hcar : pushBlobCarriable B st.1 repo d content) :
    hopS cfg fuel B st (.pushBlob repo d content) =
      (((pushBlobDirect cfg B st.1 repo d content).1, st.2 ++ (pushBlobDirect cfg B st.1 repo d content).2.1),
        (pushBlobDirect cfg B st.1 repo d content).2.2) :=
  hop_pushBlob cfg ht fuel B st repo d content hwf hcar

example : (pushBlobDirect exCfg (fun (_ : Unit) c => ((), exB c)) () exRepo exDesc [1, 2, 3]).2.1 =
    [.startUpload exRepo 0, .uploadCommit exRepo (strBytes "a/b?c") 0 3 [1, 2, 3] exDigest] := by decide

/-- **Tag GET with HEAD fallback** (server option `OmitDigestFromTagGetResponse`, manifest over 128 KiB): the
backend receives `GetTag` and then `ResolveTag`; the descriptor is the second answer's, the bytes the first's;
an error of the second call arrives over a HEAD carrier. -/
theorem tagGet_head_fallback_wire {σ : Type} (cfg : Cfg) (ht : TableOK cfg.table) (fuel : Nat) (B : SBackend σ)
    (st : σ × List Wire.Call) (repo tag : Bytes) (hwf : WF cfg (.getTag repo tag)) (ho : cfg.o.omitDigest = true)
    (hcar : match (B st.1 (.getTag repo tag)).2 with
      | .err _ => True
      | .ok (.reader d _) => inMemThreshold < d.size ∧ d.size ≤ maxI64 ∧
          (match (B (B st.1 (.getTag repo tag)).1 (.resolveTag repo tag)).2 with
           | .err _ => True
           | .ok (.desc d2) => okSize d2.size ∧ isDigest d2.digest = true
           | .ok _ => False)
      | .ok _ => False) :
    hopS cfg fuel B st (.getTag repo tag) =
      (((getTagLargeDirect cfg B st.1 repo tag).1, st.2 ++ (getTagLargeDirect cfg B st.1 repo tag).2.1),
        (getTagLargeDirect cfg B st.1 repo tag).2.2) :=
  hop_getTag_omitted_large cfg ht fuel B st repo tag hwf ho hcar

/-- **Every call** — single request, POST-then-PUT, HEAD fallback, client-side hashing of a small digest-less
manifest, paged listings (one backend call per page, each starting after the last item of the page before:
`pagesDirect`; for ANY backend, sorted or not): the backend goes through exactly the calls and states of
`direct`, and the caller gets `direct`'s result. -/
theorem wire_exact {σ : Type} (cfg : Cfg) (ht : TableOK cfg.table) (hdec : DecodersOK cfg) (fuel : Nat)
    (B : SBackend σ) (st : σ × List Wire.Call) (c : Wire.Call) (hok : StepOK cfg fuel B st.1 c) :
    hopS cfg fuel B st c =
      (((direct cfg fuel B st.1 c).1, st.2 ++ (direct cfg fuel B st.1 c).2.1), (direct cfg fuel B st.1 c).2.2) :=
  hop_exact cfg ht hdec fuel B st c hok

/-- For a single call `direct` is the call itself. -/
theorem direct_of_single {σ : Type} (cfg : Cfg) (fuel : Nat) (B : SBackend σ) (s : σ) (c : Wire.Call) (hs : Single cfg c) :
    direct cfg fuel B s c = ((B s (onWire c)).1, [onWire c], expect cfg c (B s (onWire c)).2) :=
  direct_single cfg fuel B s c hs

/-- a listing backend over three tags, page size 2: two calls, the second after the last item of the first page -/
def exL : Backend
  | .tags _ start => .ok (.items (if start = [] then [[97], [98], [99]] else if start = [98] then [[99]] else []))
  | _ => .err (.plain [])

example : direct { exCfg with pageSize := 2 } 5 (fun (_ : Unit) c => ((), exL c)) () (.tags exRepo []) =
    ((), [.tags exRepo [], .tags exRepo [98]], .items [[97], [98], [99]] none) := by decide

/-! ## Part 3 — histories -/

/-- **Histories, exactly.** By induction on the list of calls: a history of calls made through the wire drives
the backend through exactly the calls and states of the same history made directly (`directHist`), and yields
its results. -/
theorem wire_history_exact {σ : Type} (cfg : Cfg) (ht : TableOK cfg.table) (hdec : DecodersOK cfg) (fuel : Nat)
    (B : SBackend σ) (cs : List Wire.Call) (st : σ × List Wire.Call) (hok : HistOK cfg fuel B st.1 cs) :
    hopHistory cfg fuel B st cs =
      (((directHist cfg fuel B st.1 cs).1, st.2 ++ (directHist cfg fuel B st.1 cs).2.1), (directHist cfg fuel B st.1 cs).2.2) :=
  hopHistory_exact cfg ht hdec fuel B cs st hok

/-- **Histories, transparently** (`wire_history_transparent`). For a history of single-request calls over a
stateful backend `B : σ → Wire.Call → σ × Answer`: the backend ends in the state the direct history ends in, it
has received exactly the calls of the history, in order, and every result is equivalent to the answer the
backend gave at that point of the direct history. -/
-- F31: `hf : HistFaithful …` is `Faithful` at every step, strengthened as in `wire_transparent`.
theorem wire_history_transparent {σ : Type} (cfg : Cfg) (ht : TableOK cfg.table) (hdec : DecodersOK cfg) (fuel : Nat)
    (B : SBackend σ) (cs : List Wire.Call) (st : σ × List Wire.Call) (hs : ∀ c ∈ cs, Single cfg c)
    (hok : HistOK cfg fuel B st.1 cs) (hf : HistFaithful cfg B st.1 cs) :
    (hopHistory cfg fuel B st cs).1 = ((directHistory B st.1 (cs.map onWire)).1, st.2 ++ cs.map onWire) ∧
    EquivAll cfg cs (hopHistory cfg fuel B st cs).2 (directHistory B st.1 (cs.map onWire)).2 :=
  hopHistory_transparent cfg ht hdec fuel B cs st hs hok hf

/-- a stateful backend (a counter of the calls it has seen; a blob appears after the first call) and a history -/
def exS : SBackend Nat := fun n c =>
  (n + 1, match c with
    | .resolveBlob _ _ => if n = 0 then .err (.wire (strBytes "BLOB_UNKNOWN", [], none)) else .ok (.desc exDesc)
    | .deleteBlob _ _ => .ok .unit
    | _ => .err (.plain []))

example : HistOK exCfg 0 exS 0 [.resolveBlob exRepo exDigest, .deleteBlob exRepo exDigest, .resolveBlob exRepo exDigest] := by
  refine ⟨⟨⟨by decide, by decide⟩, trivial⟩, ⟨⟨by decide, by decide⟩, trivial⟩, ⟨⟨by decide, by decide⟩, ?_⟩, trivial⟩
  exact ⟨⟨by decide, by decide⟩, by decide⟩

/-! ## Part 4 — the exceptions that are real -/

/-- **F3: the empty range.** `GetBlobRange(o, o)` is sent as `Range: bytes=o-(o-1)`, which the server refuses
(`C03R.range_header_empty_refused`): the backend receives NO call and the caller gets the un-coded 416,
whatever the backend would have answered (`ocimem` answers an empty reader). It is the only range among
`0 ≤ o0 ≤ o1` that is lost: `WF` asks for `o0 < o1` or an open end, and `wire_call_exact` covers those. -/
theorem getBlobRange_empty_exception {σ : Type} (cfg : Cfg) (ht : TableOK cfg.table) (fuel : Nat) (B : SBackend σ)
    (st : σ × List Wire.Call) (repo dg : Bytes) (o : Int) (hR : isRepo repo = true) (hD : isDigest dg = true)
    (h0 : 0 ≤ o) (hmax : o ≤ maxI64) :
    hopS cfg fuel B st (.getBlobRange repo dg o o) = (st, .fail (faultOf cfg false (mar cfg (serrErr .range416)))) :=
  hop_getBlobRange_empty cfg ht fuel B st repo dg o hR hD h0 hmax

/-- … and that answer is not equivalent to a backend's success. -/
theorem getBlobRange_empty_not_transparent (cfg : Cfg) (repo dg : Bytes) (o : Int) (d : Desc) (content : Bytes) :
    ¬ Equiv cfg (.getBlobRange repo dg o o) (.fail (faultOf cfg false (mar cfg (serrErr .range416))))
        (.ok (.reader d content)) := by
  rintro ⟨d', v, h, _⟩
  cases h

/-- **F11: errors over a HEAD carrier lose their code.** For the three resolves the caller's error is made up
from the status alone: whatever error of status 404 the backend returned (`BLOB_UNKNOWN`, `MANIFEST_UNKNOWN`,
a custom code) comes back as `NAME_UNKNOWN`. The status itself survives (`wire_answer_equivalent`). -/
theorem head_error_exception (cfg : Cfg) (e : Err) (h : ErrCodec.wireStatus cfg.table e = 404) :
    faultOf cfg true (mar cfg e) =
      .reg (.http 404 (.wire (strBytes "NAME_UNKNOWN", cfg.stdMsg (strBytes "NAME_UNKNOWN"), none))) := by
  simp [faultOf, mar, ErrCodec.unmarshal, ErrCodec.marshal, h, ErrCodec.headStd, ErrCodec.codeOfStd]

example : ErrCodec.wireStatus exCfg.table (.wire (strBytes "BLOB_UNKNOWN", [], none)) = 404 := by decide

/-- **F24: an error body over 8 KiB is not decoded.** The caller keeps the status and loses code, message and
detail: the error it holds has no code at all. -/
theorem large_error_body_exception (cfg : Cfg) (e : Err)
    (h : (cfg.errBody (mar cfg e).2).length > errorBodySizeLimit) :
    faultOf cfg false (mar cfg e) = .reg (.http (ErrCodec.wireStatus cfg.table e) (.plain tooLarge)) ∧
    ErrCodec.asOci (.http (ErrCodec.wireStatus cfg.table e) (.plain tooLarge)) = none := by
  refine ⟨?_, rfl⟩
  unfold faultOf
  simp only [Bool.false_eq_true, if_false]
  rw [if_pos h]
  rfl

/-- any message over 8 KiB is enough, whatever the code -/
example (code m : Bytes) (h : m.length > 8192) : (errBodyJSON (code, m, none)).length > errorBodySizeLimit := by
  have := errBodyJSON_length_ge (code, m, none) (by intro e; have e' : m = [] := e; rw [e'] at h; simp at h)
  unfold errorBodySizeLimit
  simp only at this
  omega

/-- **F29 (fixed): an error with a success status.** Before the fix `MarshalError` passed on whatever status
an `HTTPError` in the chain carried for a code outside the table: with 200 (or 1xx) the client took the error
answer for a success — `ResolveBlob` returned a descriptor, `PushManifest` (201) reported a push the backend
had refused. In the model the gate lets exactly such answers through: -/
theorem success_status_passes_the_gate (cfg : Cfg) (w : ErrCodec.Wire) :
    clientDecode cfg.H resolveLocal (.resolveBlob exDigest) [toResp cfg (.error 200 w)] =
      .desc { mediaType := appJSON, digest := exDigest, size := (cfg.errBody w).length } ∧
    ∀ own : Desc, own.mediaType ≠ [] →
      clientDecode cfg.H resolveLocal (.pushManifest own) [toResp cfg (.error 201 w)] = .desc own := by
  constructor
  · have hd : isDigest exDigest = true := by decide
    have hne : exDigest ≠ [] := by decide
    have hj : appJSON ≠ [] := by decide
    have hlen : ¬ ((cfg.errBody w).length : Int) < 0 := by omega
    simp [clientDecode, clientResolve, gate, toResp, descriptorFromResponse, hget, qget, hne, hd, hj, hlen]  -- F32: `hd` used, statement unchanged
  · intro own h
    simp [clientDecode, h, clientPushManifest, gate, toResp]

/-- … and after it no error answer carries such a status (`error_status_is_an_error_status`), so every error
of the backend ends the call with an `HTTPError` of that status: -/
theorem error_answer_ends_the_call (cfg : Cfg) (ht : TableOK cfg.table) (c : Wire.Call) (rq : HttpRequest) (e : Err)
    (hmt : ∀ own, c.dec cfg = .pushManifest own → own.mediaType ≠ []) :
    finish cfg c [(rq, errResp cfg e)] = .fail (faultOf cfg (rq.method == mHEAD) (mar cfg e)) :=
  finish_error cfg ht c rq e hmt

/-! ## Part 5 — two hops -/

/-- **Two hops, exactly.** A client talking to a server whose backend is a client talking to a server in
front of `B` (`hopBackend`): for every call that names no upload session, the backend `B` receives exactly
`onWire c`, once; the server in the middle received exactly `onWire c`; and the caller gets the backend's
answer taken through `expect` twice. The one-hop theorem composed with itself. -/
theorem two_hops_exact {σ : Type} (cfg1 cfg2 : Cfg) (ht1 : TableOK cfg1.table) (ht2 : TableOK cfg2.table)
    (fuel : Nat) (B : SBackend σ) (st : (σ × List Wire.Call) × List Wire.Call) (c : Wire.Call) (hid : c.idFree = true)
    (hs1 : Single cfg1 (onWire c)) (hs2 : Single cfg2 c) (hwf1 : WF cfg1 (onWire c)) (hwf2 : WF cfg2 c)
    (hcar : Carriable cfg1 (onWire c) (B st.1.1 (onWire c)).2) :
    hopS cfg2 fuel (hopBackend cfg1 fuel B) st c =
      ((((B st.1.1 (onWire c)).1, st.1.2 ++ [onWire c]), st.2 ++ [onWire c]),
        expect cfg2 c (asAnswer (expect cfg1 (onWire c) (B st.1.1 (onWire c)).2))) :=
  two_hops cfg1 cfg2 ht1 ht2 fuel B st c hid hs1 hs2 hwf1 hwf2 hcar

/-- **Two hops, transparently**, for a success: after two hops the caller still holds the backend's digest, size,
bytes and (for manifests) media type. -/
-- F31: `hf`, `hf2 : Faithful …` strengthened as in `wire_transparent` (`hf2` follows from `hf` for the calls by digest:
-- the first hop delivers the digest asked for).
theorem two_hops_success_equivalent (cfg1 cfg2 : Cfg) (c : Wire.Call) (b : BRes) (hid : c.idFree = true)
    (hs1 : Single cfg1 (onWire c)) (hcar : Carriable cfg1 (onWire c) (.ok b))
    (hf : Faithful cfg1 (onWire c) (.ok b)) (hf2 : Faithful cfg2 c (asAnswer (expect cfg1 (onWire c) (.ok b)))) :
    Equiv cfg2 c (expect cfg2 c (asAnswer (expect cfg1 (onWire c) (.ok b)))) (.ok b) :=
  two_hops_ok_equiv cfg1 cfg2 c b hid hs1 hcar hf hf2

/-- … and for a failure that is not carried by a HEAD: the same status and the same code after two hops as
after one (C07's `hop_idempotent`: a further hop changes nothing at all). -/
theorem two_hops_error_fixed_point (cfg : Cfg) (hc : ∀ d, cfg.compact (cfg.compact d) = cfg.compact d) (e : Err) :
    mar cfg (faultErr (.reg (ErrCodec.unmarshal cfg.stdMsg false (mar cfg e)))) = mar cfg e :=
  mar_hop_fixed cfg hc e

/-! ## Part 6 — F31 (fixed): a call by digest reports the digest that was asked for -/

def exDigest2 : Bytes := sha256 ++ cColon :: List.replicate 64 98
def exDesc2 : Desc := { mediaType := mtImageManifest, digest := exDigest2, size := 3 }

/-- **The client reports the requested digest, over ANY transport.** For every call that names a digest (`GetBlob`,
`GetBlobRange`, `GetManifest`, `ResolveBlob`, `ResolveManifest`, `MountBlob`) and every transport `send` — the model's
server, another server, or anything in between that rewrites answers and headers — a successful result carries
exactly the digest that was asked for (of the descriptor, or of the reader, which is then what the bytes are verified
against: `C03R.read_by_digest_checks_requested`). No hypothesis on the backend, the names or the answers. -/
theorem client_reports_requested_digest {σ : Type} (cfg : Cfg) (fuel : Nat)
    (send : σ → HttpRequest → σ × HttpResponse) (s : σ) (c : Wire.Call) (dg : Bytes)
    (hc : c.requested = some dg) (hne : dg ≠ []) (d : Desc)
    (h : (clientCallS cfg fuel send s c).2 = .desc d ∨ ∃ v body, (clientCallS cfg fuel send s c).2 = .reader d v body) :
    d.digest = dg := by
  apply clientCallS_requested cfg fuel send s c hc hne
  rcases h with h | ⟨v, body, h⟩ <;> rw [h] <;> rfl

example : (Wire.Call.resolveBlob exRepo exDigest).requested = some exDigest ∧ exDigest ≠ [] := ⟨rfl, by decide⟩

/-- The same through the model's server in front of an arbitrary backend: whatever descriptor the backend answers
with — here one with ANOTHER digest — the caller of `ResolveBlob(exDigest)` holds `exDigest`. -/
theorem wire_reports_requested_digest {σ : Type} (cfg : Cfg) (fuel : Nat) (B : SBackend σ) (st : σ × List Wire.Call)
    (c : Wire.Call) (dg : Bytes) (hc : c.requested = some dg) (hne : dg ≠ []) (d : Desc)
    (h : (hopS cfg fuel B st c).2 = .desc d ∨ ∃ v body, (hopS cfg fuel B st c).2 = .reader d v body) :
    d.digest = dg :=
  client_reports_requested_digest cfg fuel (serveS cfg B) st c dg hc hne d h

example : expect exCfg (.resolveBlob exRepo exDigest) (.ok (.desc exDesc2)) =
    .desc { mediaType := octetStream, digest := exDigest, size := 3 } := rfl

/-- F31: with `Faithful` as it was before the fix (it asked nothing of `ResolveBlob`) the statement of
`wire_answer_equivalent` / `wire_transparent` is false: the call is single, the answer is one the headers carry, yet
what arrives is not equivalent to it — the caller holds the digest it asked for, not the answer's. -/
theorem wire_answer_equivalent_F31_counterexample :
    Single exCfg (.resolveBlob exRepo exDigest) ∧
    Carriable exCfg (.resolveBlob exRepo exDigest) (.ok (.desc exDesc2)) ∧
    (∀ e, Answer.ok (.desc exDesc2) = .err e → (Wire.Call.resolveBlob exRepo exDigest).isHead = false → SmallBody exCfg e) ∧
    ¬ Equiv exCfg (.resolveBlob exRepo exDigest)
        (expect exCfg (.resolveBlob exRepo exDigest) (.ok (.desc exDesc2))) (.ok (.desc exDesc2)) := by
  refine ⟨trivial, ?_, ?_, ?_⟩
  · exact ⟨⟨by decide, by decide⟩, by decide⟩
  · intro e h; cases h
  · rintro ⟨d', h, hd, _⟩
    simp only [expect, expectOk, Result.desc.injEq] at h
    subst h
    revert hd
    decide

end OciModel.Props.C03W
