/-
C01 — content integrity of the in-memory registry model (`OciModel/Mem.lean`).

`H : Bytes → Bytes` (the digest of some bytes, as text) is a parameter; nothing
is assumed about it.  All proofs assemble lemmas from `OciModel/MemLemmas.lean`.
-/
import OciModel.MemLemmas

namespace OciModel.Props.C01
open OciModel OciModel.Mem

variable (H : Bytes → Bytes)

/-! ### I1. The digest invariant -/

/-- Every stored blob and manifest is stored under the hash of its bytes. -/
def Inv (s : State) : Prop := ∀ r rp, getRepo s r = some rp →
  (∀ d b, alookup d rp.blobs = some b → H b.data = d) ∧
  (∀ d b, alookup d rp.manifests = some b → H b.data = d)

/-- The helper file's `Mem.Inv` is this invariant. -/
theorem inv_iff (s : State) : Inv H s ↔ Mem.Inv H s := Iff.rfl

theorem inv_init (imm : Bool) : Inv H (init imm) := Mem.inv_init H imm

theorem inv_step (s : State) (op : Op) : Inv H s → Inv H (step H s op).1 := Mem.inv_step H s op

theorem inv_run (s : State) (ops : List Op) : Inv H s → Inv H (run H s ops).1 := Mem.inv_run H s ops

/-! ### I2. Reads return exactly the content named by the digest -/

theorem get_exact_blob {s s' : State} {r d : Bytes} {desc : Desc} {data : Bytes} (hs : Inv H s)
    (h : step H s (.getBlob r d) = (s', .okRead desc data)) :
    s' = s ∧ desc.digest = d ∧ H data = d ∧ desc.size = data.length := by
  obtain ⟨h1, b, hb, rfl, rfl⟩ := step_getBlob_okRead H h
  exact ⟨h1, inv_blobFor H hs hb, inv_blobFor H hs hb, rfl⟩

theorem get_exact_manifest {s s' : State} {r d : Bytes} {desc : Desc} {data : Bytes} (hs : Inv H s)
    (h : step H s (.getManifest r d) = (s', .okRead desc data)) :
    s' = s ∧ desc.digest = d ∧ H data = d ∧ desc.size = data.length := by
  obtain ⟨h1, b, hb, rfl, rfl⟩ := step_getManifest_okRead H h
  exact ⟨h1, inv_manifestFor H hs hb, inv_manifestFor H hs hb, rfl⟩

theorem get_exact_tag {s s' : State} {r t : Bytes} {desc : Desc} {data : Bytes} (hs : Inv H s)
    (h : step H s (.getTag r t) = (s', .okRead desc data)) :
    s' = s ∧ H data = desc.digest ∧ desc.size = data.length ∧
      ∃ rp td, getRepo s r = some rp ∧ alookup t rp.tags = some td ∧ td.digest = desc.digest := by
  obtain ⟨h1, rp, td, b, hg, ht, hb, rfl, rfl⟩ := step_getTag_okRead H h
  exact ⟨h1, rfl, rfl, rp, td, hg, ht, ((hs r rp hg).2 _ b hb).symm⟩

theorem resolve_exact_blob {s s' : State} {r d : Bytes} {desc : Desc} (hs : Inv H s)
    (h : step H s (.resolveBlob r d) = (s', .okDesc desc)) :
    s' = s ∧ desc.digest = d ∧ ∃ b, blobFor s r d = .ok b ∧ desc.size = b.data.length := by
  obtain ⟨h1, b, hb, rfl⟩ := step_resolveBlob_okDesc H h
  exact ⟨h1, inv_blobFor H hs hb, b, hb, rfl⟩

theorem resolve_exact_manifest {s s' : State} {r d : Bytes} {desc : Desc} (hs : Inv H s)
    (h : step H s (.resolveManifest r d) = (s', .okDesc desc)) :
    s' = s ∧ desc.digest = d ∧ ∃ b, manifestFor s r d = .ok b ∧ desc.size = b.data.length := by
  obtain ⟨h1, b, hb, rfl⟩ := step_resolveManifest_okDesc H h
  exact ⟨h1, inv_manifestFor H hs hb, b, hb, rfl⟩

/-! ### I3. Ranged reads -/

/-- The descriptor of a ranged read still describes the whole blob; the data is
the requested slice (an end of `< 0` or beyond the size means "to the end"). -/
theorem range_exact {s s' : State} {r d : Bytes} {o0 o1 : Int} {desc : Desc} {data : Bytes} (hs : Inv H s)
    (h : step H s (.getBlobRange r d o0 o1) = (s', .okRead desc data)) :
    s' = s ∧ ∃ b, blobFor s r d = .ok b ∧ desc = descOf H b ∧ desc.digest = d ∧
      desc.size = b.data.length ∧ 0 ≤ o0 ∧
      data = (b.data.drop o0.toNat).take
        ((if o1 < 0 ∨ o1 > b.data.length then (b.data.length : Int) else o1) - o0).toNat := by
  obtain ⟨h1, b, hb, rfl, h0, _, hd⟩ := step_getBlobRange_okRead H h
  exact ⟨h1, b, hb, rfl, inv_blobFor H hs hb, rfl, h0, hd⟩

/-! ### I4. Mismatching content is rejected and nothing is stored -/

theorem push_mismatch_rejected (s : State) (r : Bytes) (desc : Desc) (data : Bytes)
    (h : H data ≠ desc.digest ∨ desc.size ≠ data.length) :
    ∃ e, step H s (.pushBlob r desc data) = (s, .err e) :=
  Mem.push_mismatch_rejected H s r h

/-- A chunked upload committed under the wrong digest fails, and no repository's
blobs, manifests or tags change (only the upload buffer records the error). -/
theorem commit_mismatch_stores_nothing {s : State} {r id dig : Bytes} {rp : Repo} {b : Buffer}
    (hb : getBuffer s r id = some (rp, b)) (hne : H b.buf ≠ dig) :
    (∃ e, (step H s (.wCommit r id dig)).2 = .err e) ∧
    ∀ r', (getRepo (step H s (.wCommit r id dig)).1 r').map (·.blobs) = (getRepo s r').map (·.blobs) ∧
          (getRepo (step H s (.wCommit r id dig)).1 r').map (·.manifests) = (getRepo s r').map (·.manifests) ∧
          (getRepo (step H s (.wCommit r id dig)).1 r').map (·.tags) = (getRepo s r').map (·.tags) :=
  Mem.commit_mismatch_stores_nothing H hb hne

/-! ### I5. Frame properties: what one step can do to one key

`look f s r k` is the entry under key `k` of map `f` of repository `r`. -/

theorem look_def {β} (f : Repo → List (Bytes × β)) (s : State) (r k : Bytes) :
    look f s r k = (getRepo s r).bind (fun rp => alookup k (f rp)) := rfl

/-- The blob stored under `(r, d)` changes only by an accepted `pushBlob`,
`wCommit` or `mount` of exactly that digest into exactly that repository (and is
then the pushed content), or by `deleteBlob r d`. -/
theorem blob_frame (s : State) (op : Op) (r d : Bytes) :
    look (·.blobs) (step H s op).1 r d = look (·.blobs) s r d
    ∨ (∃ desc data, op = .pushBlob r desc data ∧ desc.digest = d ∧ (step H s op).2 = .okDesc desc
        ∧ look (·.blobs) (step H s op).1 r d = some ⟨desc.mediaType, data, [], []⟩)
    ∨ (∃ id rp b, op = .wCommit r id d ∧ getBuffer s r id = some (rp, b)
        ∧ (step H s op).2 = .okDesc ⟨octetStream, d, b.buf.length⟩
        ∧ look (·.blobs) (step H s op).1 r d = some ⟨octetStream, b.buf, [], []⟩)
    ∨ (∃ fromR b, op = .mount fromR r d ∧ blobFor s fromR d = .ok b
        ∧ (step H s op).2 = .okDesc (descOf H b)
        ∧ look (·.blobs) (step H s op).1 r d = some b)
    ∨ (op = .deleteBlob r d ∧ (step H s op).2 = .okUnit ∧ look (·.blobs) (step H s op).1 r d = none) :=
  Mem.blob_frame H s op r d

/-- The manifest stored under `(r, d)` changes only by an accepted
`pushManifest` into `r` of bytes hashing to `d`, or by `deleteManifest r d`. -/
theorem manifest_frame (s : State) (op : Op) (r d : Bytes) :
    look (·.manifests) (step H s op).1 r d = look (·.manifests) s r d
    ∨ (∃ t data mt dec rs subj, op = .pushManifest r t data mt dec ∧ H data = d
        ∧ (step H s op).2 = .okDesc ⟨mt, d, data.length⟩
        ∧ decRefs dec = some rs ∧ checkRefs ((getRepo s r).getD emptyRepo) rs [] = some subj
        ∧ look (·.manifests) (step H s op).1 r d = some ⟨mt, data, subj, rs⟩)
    ∨ (op = .deleteManifest r d ∧ (step H s op).2 = .okUnit
        ∧ look (·.manifests) (step H s op).1 r d = none) :=
  Mem.manifest_frame H s op r d

/-- The tag `(r, t)` changes only by an accepted `pushManifest r t …` that
stores (it then names exactly the pushed bytes), or by `deleteTag r t`. -/
theorem tag_frame (s : State) (op : Op) (r t : Bytes) :
    look (·.tags) (step H s op).1 r t = look (·.tags) s r t
    ∨ (∃ data mt dec, op = .pushManifest r t data mt dec ∧ t ≠ []
        ∧ (step H s op).2 = .okDesc ⟨mt, H data, data.length⟩
        ∧ look (·.tags) (step H s op).1 r t = some ⟨mt, H data, data.length⟩)
    ∨ (op = .deleteTag r t ∧ (step H s op).2 = .okUnit
        ∧ look (·.tags) (step H s op).1 r t = none) :=
  Mem.tag_frame H s op r t

/-! ### I6. Push then get -/

theorem push_then_get {s s1 : State} {r : Bytes} {desc dd : Desc} {data : Bytes}
    (h : step H s (.pushBlob r desc data) = (s1, .okDesc dd)) :
    step H s1 (.getBlob r desc.digest) = (s1, .okRead ⟨desc.mediaType, H data, data.length⟩ data) :=
  Mem.push_then_get H h

/-! ### The hypotheses are satisfiable: a concrete run with a toy hash -/

/-- A toy hash with well-formed digest text: all-`0` for the empty string, all-`1` otherwise. -/
def toyH : Bytes → Bytes := fun b => Ref.sha256 ++ [58] ++ List.replicate 64 (if b = [] then 48 else 49)

def repoA : Bytes := [97]
def mtX : Bytes := [120]
def data1 : Bytes := [1, 2, 3]

/-- push a blob, upload the same bytes in two chunks and commit, mount it elsewhere -/
def demoOps : List Op :=
  [ .pushBlob repoA ⟨mtX, toyH data1, 3⟩ data1,
    .pushChunked repoA,
    .wWrite repoA (freshID 0) [1, 2],
    .wWrite repoA (freshID 0) [3],
    .wCommit repoA (freshID 0) (toyH data1),
    .mount repoA [98] (toyH data1) ]

def demoState : State := (run toyH (init false) demoOps).1

example : Inv toyH demoState := inv_run toyH _ _ (inv_init toyH false)

/-- The state is not trivial: the pushed blob can be read back, whole and as a range. -/
example : step toyH demoState (.getBlob repoA (toyH data1))
    = (demoState, .okRead ⟨octetStream, toyH data1, 3⟩ data1) := by decide

example : step toyH demoState (.getBlob [98] (toyH data1))
    = (demoState, .okRead ⟨octetStream, toyH data1, 3⟩ data1) := by decide

example : step toyH demoState (.getBlobRange repoA (toyH data1) 1 (-1))
    = (demoState, .okRead ⟨octetStream, toyH data1, 3⟩ [2, 3]) := by decide

/-- `push_mismatch_rejected` is not vacuous: a wrong size is refused. -/
example : step toyH demoState (.pushBlob repoA ⟨mtX, toyH data1, 4⟩ data1)
    = (demoState, .err "SIZE_INVALID") := by decide

/-- `commit_mismatch_stores_nothing`'s hypotheses hold for a fresh upload committed under a wrong digest. -/
example : (getBuffer (step toyH demoState (.pushChunked repoA)).1 repoA (freshID 1)).map (·.2)
      = some ⟨[], 0, false, none⟩ ∧ toyH [] ≠ toyH data1 := by decide

end OciModel.Props.C01
