/-
C06S — structural facts of `ociserver`'s handlers (sub-check of C06).

C06 says, among other things: no request causes a backend call with a syntactically invalid
repository name, tag or digest; every reader or writer the server obtains from its backend has
been closed by the time the response is complete; successes carry the headers the distribution
protocol mandates. Here these clauses are tied to the source: the translator regenerates an
abstraction of every handler (`OciModel.Generated.SrvHandlers`, IR in `OciModel/SrvIR.lean`),
`OciModel/SrvHandlers.lean` gives it an execution model (`serve`: all runs of the handler of a
kind, under an oracle for the named conditions) and three Bool-valued checkers, and this file

  * proves what a passing checker means, for every table and every environment
    (`release_sound`, `args_sound`, `headers_sound`);
  * discharges the checkers on the regenerated table by `decide`
    (`generated_dispatch_ok`, `generated_shapes_known`, `generated_roles_known`, `generated_handlers_release_ok`,
    `generated_backend_args_validated_ok`, `generated_mandatory_headers_ok`);
  * combines both with the router's soundness (`parse_ok_shape` of C03) into statements about
    every request the router classifies (`server_handles_closed`, `server_backend_args_valid`,
    `server_success_headers`).

Only statements and short proofs live here; lemmas are in `OciModel/SrvHandlersLemmas.lean`.
-/
import OciModel.SrvHandlers
import OciModel.SrvHandlersLemmas
import OciModel.Props.C03

namespace OciModel.Props.C06S
open OciModel.SrvIR OciModel.SrvHandlers OciModel.ReqCodec OciModel.Generated.SrvHandlers

/-- parameters of every backend method and reader/writer method, regenerated from interface.go -/
def mt : List (String × List (String × String)) :=
  methodTable OciModel.Generated.Iface.methodParams resourceMethods

/-- the environment with no option set, for the examples -/
def plainEnv (tag : Bool) : Env := { tagSet := tag, opt := fun _ => false }

/-! ### What a passing checker means (any table, any environment) -/

/-- **Release.** If the table passes `releaseOk`, then whatever the options and the request, every
run of every kind's handler stays inside the abstracted code and closes every reader/writer it
obtained exactly once: at every moment `closes ≤ acquisitions ≤ closes + 1` per variable, with
equality at the end (deferred closes included). -/
theorem release_sound (tbl : List (String × Prog)) (disp : List (String × String))
    (h : releaseOk tbl disp = true) (env : Env) (k : Kind) :
    ∀ f ∈ serve tbl disp (envOracle env) k, f.1.bad = false ∧ ClosedExactlyOnce f.1.trace := by
  intro f hf
  have hf' := serve_mono tbl disp (envOracle_le_open env) k f hf
  have := List.all_eq_true.mp (List.all_eq_true.mp h k (mem_allKinds k)) f hf'
  simp only [Bool.and_eq_true, Bool.not_eq_true'] at this
  exact ⟨this.1, balanced_sound _ this.2⟩

/-- **Arguments.** If the table passes `argsOk`, then for every request `r` of the shape the
router produces, every backend call of every run of `r.kind`'s handler passes, in every position
that is a repository, tag, digest or upload ID, a field of `r` that is valid for that role. -/
theorem args_sound (mtab : List (String × List (String × String))) (tbl : List (String × Prog))
    (disp : List (String × String)) (h : argsOk mtab tbl disp = true)
    (unb64 : Bytes → Option Bytes) (validUTF8 : Bytes → Bool) (r : Request)
    (hp : ParsedReq unb64 validUTF8 r) (env : Env) (henv : env.tagSet = decide (r.tag ≠ [])) :
    ∀ f ∈ serve tbl disp (envOracle env) r.kind, f.1.bad = false ∧
      ∀ c ok, Ev.call c ok ∈ f.1.trace → CallValid validUTF8 mtab r c := by
  intro f hf
  have hle := envOracle_le_static env [] (fun n b hl => by simp [List.lookup] at hl)
  have hf' := serve_mono tbl disp hle r.kind f hf
  have h1 := List.all_eq_true.mp h r.kind (mem_allKinds r.kind)
  have h2 := List.all_eq_true.mp h1 env.tagSet (by cases env.tagSet <;> simp)
  have := List.all_eq_true.mp h2 f hf'
  simp only [Bool.and_eq_true, Bool.not_eq_true'] at this
  refine ⟨this.1, fun c ok hc => ?_⟩
  have hc' := traceArgsOk_mem _ this.2 c ok hc
  rw [henv] at hc'
  exact callOk_sound unb64 validUTF8 hp c hc'

/-- **Headers.** If the table passes `headersOk`, then whatever the options, every run that
returns nil with a 2xx status has one of the kind's success statuses and set every header the
protocol mandates for the kind before the status line went out. -/
theorem headers_sound (tbl : List (String × Prog)) (disp : List (String × String))
    (h : headersOk tbl disp = true) (env : Env) (k : Kind) :
    ∀ f ∈ serve tbl disp (envOracle env) k, f.1.bad = false ∧
      SuccessOk k env.tagSet (env.opt optOmitDigest) (env.opt optSinglePost) f := by
  intro f hf
  have hle := envOracle_le_static env [(optOmitDigest, env.opt optOmitDigest), (optSinglePost, env.opt optSinglePost)]
    (fun n b hl => by
      simp only [List.lookup] at hl
      split at hl
      · next he => simp only [Option.some.injEq] at hl; rw [← hl, eq_of_beq he]
      · split at hl
        · next he => simp only [Option.some.injEq] at hl; rw [← hl, eq_of_beq he]
        · cases hl)
  have hf' := serve_mono tbl disp hle k f hf
  have h1 := List.all_eq_true.mp h k (mem_allKinds k)
  have h2 := List.all_eq_true.mp h1 env.tagSet (by cases env.tagSet <;> simp)
  have h3 := List.all_eq_true.mp h2 (env.opt optOmitDigest) (by cases env.opt optOmitDigest <;> simp)
  have h4 := List.all_eq_true.mp h3 (env.opt optSinglePost) (by cases env.opt optSinglePost <;> simp)
  have := List.all_eq_true.mp h4 f hf'
  simp only [Bool.and_eq_true, Bool.not_eq_true'] at this
  exact ⟨this.1, successOk_sound this.2⟩

/-! ### Obligations on the regenerated table -/

/-- The dispatch table covers exactly the 17 kinds of `ocirequest`, in order, each with a
translated handler; ServeHTTP/v2 classify and then dispatch; no handler modifies the classified
request; every function that touches the backend was translated. -/
theorem generated_dispatch_ok :
    dispatchOk kinds dispatch handlers dispatchShapeOk rreqImmutable backendUsers = true := by decide

/-- Every statement of every handler has a shape the translator accepts (when this fails, the
reasons are the `.unknownShape "…"` entries of `OciModel/Generated/SrvHandlers.lean`; the three
obligations below then fail as well, because a run through an unknown shape is `bad`). -/
theorem generated_shapes_known : unknownShapes handlers = [] := by decide

/-- Every string parameter of the backend interface has a name whose role is known. -/
theorem generated_roles_known : rolesKnown mt = true := by decide

/-- Every handler releases what it acquires on every path. -/
theorem generated_handlers_release_ok : releaseOk handlers dispatch = true := by decide

/-- Every backend argument with a repository/tag/digest/upload-ID role is a validated field. -/
theorem generated_backend_args_validated_ok : argsOk mt handlers dispatch = true := by decide

/-- Every 2xx success sets the mandatory headers and one of the kind's statuses. -/
theorem generated_mandatory_headers_ok : headersOk handlers dispatch = true := by decide

/-! ### The clauses of C06 for the code as it is now -/

/-- **server_handles_closed.** For every kind, options and request, every run of the handler the
server dispatches to closes each reader/writer it obtained from the backend exactly once before it
returns (and the run never leaves the abstracted code). -/
theorem server_handles_closed (env : Env) (k : Kind) :
    ∀ f ∈ serve handlers dispatch (envOracle env) k, f.1.bad = false ∧ ClosedExactlyOnce f.1.trace :=
  release_sound handlers dispatch generated_handlers_release_ok env k

/-- **server_backend_args_valid.** Whatever method, path and query the router accepts, every
backend call the dispatched handler can make passes only syntactically valid repository names,
tags, digests (also inside a Descriptor, and to `BlobWriter.Commit`) and upload IDs. -/
theorem server_backend_args_valid (unb64 : Bytes → Option Bytes) (validUTF8 : Bytes → Bool)
    (m p : Bytes) (q : Bytes → Bytes) (r : Request)
    (h : parse unb64 validUTF8 m p q = .ok r) (env : Env) (henv : env.tagSet = decide (r.tag ≠ [])) :
    ∀ f ∈ serve handlers dispatch (envOracle env) r.kind,
      ∀ c ok, Ev.call c ok ∈ f.1.trace → CallValid validUTF8 mt r c :=
  fun f hf => (args_sound mt handlers dispatch generated_backend_args_validated_ok unb64 validUTF8 r
    (OciModel.Props.C03.parse_ok_shape unb64 validUTF8 m p q r h) env henv f hf).2

/-- **server_success_headers.** Every 2xx success of every kind carries the mandated headers
(Location, Docker-Content-Digest, Content-Length, Range, Content-Range as applicable) and status. -/
theorem server_success_headers (env : Env) (k : Kind) :
    ∀ f ∈ serve handlers dispatch (envOracle env) k,
      SuccessOk k env.tagSet (env.opt optOmitDigest) (env.opt optSinglePost) f :=
  fun f hf => (headers_sound handlers dispatch generated_mandatory_headers_ok env k f hf).2

/-! ### Non-vacuity

The examples about the *regenerated* table are deliberately weak (they survive any refactoring
that keeps the server using readers, writers and mandatory headers at all); the shapes themselves
are exercised on a fixed sample table, a snapshot of four handlers. -/

/-- some kind has a successful run that acquired (and therefore, by `server_handles_closed`, closed) a reader/writer -/
example : ∃ k ∈ allKinds, ∃ f ∈ serve handlers dispatch (envOracle (plainEnv false)) k,
    f.2 = false ∧ traceVars f.1.trace ≠ [] := by decide

/-- some run makes a backend call that has a repository, tag, digest or upload-ID argument -/
example : ∃ k ∈ allKinds, ∃ f ∈ serve handlers dispatch (envOracle (plainEnv false)) k,
    ∃ e ∈ f.1.trace, (match e with
      | .call c _ => (roles mt c.method).any (·.any (· != .free))
      | _ => false) = true := by decide

/-- some 2xx success has mandatory headers to carry -/
example : ∃ k ∈ allKinds, ∃ f ∈ serve handlers dispatch (envOracle (plainEnv false)) k,
    f.2 = false ∧ f.1.finalStatus < 300 ∧ mandatory k f.1.finalStatus false false false ≠ [] := by decide

/-- the hypothesis of `server_backend_args_valid` is satisfiable: the router classifies a mount -/
example : parse B64Url.decode B64Url.validUTF8 mPOST (strBytes "/v2/foo/blobs/uploads/")
      (qget [(qMount, OciModel.Props.C03.exDigest), (qFrom, strBytes "bar/baz")]) =
    .ok { kind := .blobMount, repo := strBytes "foo", digest := OciModel.Props.C03.exDigest, fromRepo := strBytes "bar/baz" } := by
  decide

/-- a fixed method table for the examples (the parameter names of interface.go today) -/
def sampleMT : List (String × List (String × String)) := [
  ("GetBlob", [("repo", "string"), ("digest", "Digest")]),
  ("GetBlobRange", [("repo", "string"), ("digest", "Digest"), ("offset0", "int64"), ("offset1", "int64")]),
  ("GetTag", [("repo", "string"), ("tagName", "string")]),
  ("GetManifest", [("repo", "string"), ("digest", "Digest")]),
  ("MountBlob", [("fromRepo", "string"), ("toRepo", "string"), ("digest", "Digest")]),
  ("PushManifest", [("repo", "string"), ("tag", "string"), ("contents", "[]byte"), ("mediaType", "string")]),
  ("PushBlob", [("repo", "string"), ("desc", "Descriptor"), ("r", "io.Reader")]),
  ("PushBlobChunkedResume", [("repo", "string"), ("id", "string"), ("offset", "int64"), ("chunkSize", "int")]),
  ("DeleteTag", [("repo", "string"), ("name", "string")]),
  ("BlobWriter.Commit", [("digest", "Digest")])]

example : roles sampleMT "MountBlob" = some [.repo, .repo, .digest] := by decide
example : roles sampleMT "PushManifest" = some [.repo, .tagOpt, .free, .free] := by decide
example : roles sampleMT "PushBlob" = some [.repo, .descDigest, .free] := by decide
example : roles sampleMT "DeleteTag" = some [.repo, .tag] := by decide
example : roles sampleMT "BlobWriter.Commit" = some [.digest] := by decide

/-- the defer shape: a blob GET with one range -/
def sBlobGet : Prog :=
  .atom (.acquire "get.blob" ⟨"GetBlobRange", [.field "Repo", .field "Digest", .other "rng.start", .other "rng.end"], true⟩) <|
  .alt .errSet (.ret .errVar) .nil <|
  .atom (.deferClose "get.blob") <|
  .alt (.unknown "rng.start > desc.Size") (.ret .fail) .nil <|
  .atom (.header "Content-Length") <| .atom (.header "Docker-Content-Digest") <| .atom (.header "Content-Range") <|
  .atom (.status 206) <| .atom .body <| .ret .ok

/-- the explicit shape: a PATCH of an upload closes on the copy-error path and on the main path -/
def sChunk : Prog :=
  .atom (.acquire "patch.w" ⟨"PushBlobChunkedResume", [.field "Repo", .field "UploadID", .other "start", .other "n"], true⟩) <|
  .alt .errSet (.ret .errVar) .nil <|
  .atom .havocErr <|
  .alt .errSet (.atom (.close "patch.w" false) <| .ret .fail) .nil <|
  .atom (.close "patch.w" true) <|
  .alt .errSet (.ret .fail) .nil <|
  .atom (.header "Location") <| .atom (.header "Range") <| .atom (.status 202) <| .ret .ok

/-- acquisition in both arms of an if, one error check and one defer after it -/
def sManifestGet : Prog :=
  .alt .tagSet
    (.atom (.acquire "mget.mr" ⟨"GetTag", [.field "Repo", .field "Tag"], true⟩) .nil)
    (.atom (.acquire "mget.mr" ⟨"GetManifest", [.field "Repo", .field "Digest"], true⟩) .nil) <|
  .alt .errSet (.ret .errVar) .nil <|
  .atom (.deferClose "mget.mr") <|
  .alt (.not (.opt optOmitDigest)) (.atom (.header "Docker-Content-Digest") .nil) .nil <|
  .atom (.header "Content-Length") <| .atom (.status 200) <| .atom .body <| .ret .ok

def sMount : Prog :=
  .atom (.call ⟨"MountBlob", [.field "FromRepo", .field "Repo", .field "Digest"], true⟩ true) <|
  .alt .errSet (.ret .errVar) .nil <|
  .atom (.header "Location") <| .atom (.header "Docker-Content-Digest") <| .atom (.status 201) <| .ret .ok

def sampleTable : List (String × Prog) :=
  [("handleBlobGet", sBlobGet), ("handleBlobUploadChunk", sChunk), ("handleManifestGet", sManifestGet), ("handleBlobMount", sMount)]
def sampleDispatch : List (String × String) :=
  [("ReqBlobGet", "handleBlobGet"), ("ReqBlobUploadChunk", "handleBlobUploadChunk"), ("ReqManifestGet", "handleManifestGet"),
   ("ReqBlobMount", "handleBlobMount")]

/-- the runs of the sample blob GET: backend failure, early 416 after the defer, success -/
example : (serve sampleTable sampleDispatch (envOracle (plainEnv false)) .blobGet).map
      (fun f => (f.1.trace.map (fun e => match e with | .call _ ok => if ok then "call+" else "call-" | .acq _ => "acq" | .close _ => "close"), f.2)) =
    [(["call+", "acq", "close"], true), (["call+", "acq", "close"], false), (["call-"], true)] := by decide

/-- every run of the explicit shape closes exactly once, whichever way the copy and the Close go -/
example : (serve sampleTable sampleDispatch (envOracle (plainEnv false)) .blobUploadChunk).all
    (fun f => balanced f.1.trace && (f.1.trace.any (· == .acq "patch.w") == (closes "patch.w" f.1.trace == 1))) = true := by decide

/-- a tag GET of a manifest calls GetTag with the tag, never GetManifest with the empty digest -/
example : (serve sampleTable sampleDispatch (envOracle (plainEnv true)) .manifestGet).all
    (fun f => f.1.trace.all fun e => match e with
      | .call c _ => c.method == "GetTag"
      | _ => true) = true := by decide

/-- the four sample handlers pass the three checkers restricted to their kinds -/
example : [Kind.blobGet, .blobUploadChunk, .manifestGet, .blobMount].all (fun k => [true, false].all fun tag =>
    (serve sampleTable sampleDispatch (staticOracle [tag] [(optOmitDigest, false)]) k).all fun f =>
      !f.1.bad && balanced f.1.trace && traceArgsOk sampleMT k tag f.1.trace && successOk k tag false false f) = true := by decide

/-! The checkers do reject: the three seeded shapes of the task, as hand-written tables. -/

/-- a handler whose `defer blob.Close()` sits below an early return -/
def leaky : Prog :=
  .atom (.acquire "h.blob" ⟨"GetBlob", [.field "Repo", .field "Digest"], true⟩) <|
  .alt .errSet (.ret .errVar) .nil <|
  .alt (.unknown "rng.start > desc.Size") (.ret .fail) .nil <|
  .atom (.deferClose "h.blob") <|
  .atom (.status 200) <|
  .ret .ok

example : releaseOk [("h", leaky)] (allKinds.map fun k => (kindName k, "h")) = false := by decide

/-- closing a reader that may be nil (no error check between acquisition and defer) is rejected too -/
example : releaseOk [("h", .atom (.acquire "h.b" ⟨"GetBlob", [.field "Repo", .field "Digest"], true⟩) <|
    .atom (.deferClose "h.b") <| .alt .errSet (.ret .errVar) .nil <| .ret .ok)]
    (allKinds.map fun k => (kindName k, "h")) = false := by decide

/-- a mount that takes the source repository from the query instead of the classified request -/
example : callOk sampleMT .blobMount false
    ⟨"MountBlob", [.other "req.URL.Query().Get(\"from\")", .field "Repo", .field "Digest"], true⟩ = false := by decide

/-- the digest of a manifest request named by tag is empty: passing it where a digest is due is rejected -/
example : callOk sampleMT .manifestGet true ⟨"GetManifest", [.field "Repo", .field "Digest"], true⟩ = false := by decide

/-- a blob HEAD that forgets Docker-Content-Digest -/
example : successOk .blobHead false false false
    ({ hdrs := [hLength], status := some 200 }, false) = false := by decide

/-- a header set after the status line does not count -/
example : (runF [("h", .atom (.status 200) <| .atom (.header "Docker-Content-Digest") <| .ret .ok)]
    (envOracle (plainEnv false)) 1 "h" {}).map (fun f => f.1.hdrs) = [[]] := by decide

end OciModel.Props.C06S
