/-
C16 (PARTIAL) — concurrent unified reads are leak-free for every answer order
and cancellation.

Partial in this sense: goroutine scheduling, channels, `select` and `context`
are the primitives of `OciModel.UnifyConc` (trusted); what is proved is that the
protocol `runReadConcurrent` / `runRead` / `runReadBlobReader` / `blobReader.Close`
builds from them has the stated properties on EVERY schedule (every path of the
transition system), for all 2 × 2 outcomes, both answer orders, caller
cancellation and reader close at any point, reader-style and resolve-style entry
points. The state space is finite by nature, so evaluating the whole system in
the kernel IS the proof; the result is then lifted to all paths by induction.
That the Go text is the text that was transcribed is the obligation
`generated_protocol_pinned`.
-/
import OciModel.UnifyConc
import OciModel.Generated.Unify
import OciModel.Unify

namespace OciModel.Props.C16
open OciModel.UnifyConc

/-- `allCfgs` is every scenario. -/
theorem allCfgs_complete (cfg : Cfg) : cfg ∈ allCfgs := by
  obtain ⟨a, b, c⟩ := cfg
  cases a <;> cases b <;> cases c <;> decide

/-- (i) the computed set contains the initial state and is closed under every
transition, (ii) every state in it is safe, (iii) every state in it where the
code can take no further step is settled — for all eight scenarios. Checked by
kernel evaluation of the whole system. -/
theorem system_checked : ∀ cfg ∈ allCfgs, checkAll cfg (reachable cfg) = true := by decide +kernel

/-- The code's own steps strictly decrease a rank that starts at 6: whatever the
schedule, main and both senders finish within six steps once the members'
calls have returned. -/
def rank (s : St) : Nat :=
  (match s.main with | .sel1 => 2 | .sel2 => 1 | .returned => 0) +
  (match s.s0 with | .running => 2 | .offering => 1 | _ => 0) +
  (match s.s1 with | .running => 2 | .offering => 1 | _ => 0)

theorem system_terminates_checked :
    ∀ cfg ∈ allCfgs, (reachable cfg).all (fun s => (sysStep cfg s).all fun s' => rank s' < rank s) = true := by
  decide +kernel

theorem contains_iff {s : St} {R : List St} : R.contains s = true ↔ s ∈ R := by
  simp

/-- Every state of every schedule lies in the computed set. -/
theorem reach_in_reachable (cfg : Cfg) (s : St) (h : Reach cfg s) : s ∈ reachable cfg := by
  have hc := system_checked cfg (allCfgs_complete cfg)
  simp only [checkAll, closedUnder, Bool.and_eq_true, List.all_eq_true] at hc
  obtain ⟨⟨hinit, hclosed⟩, _⟩ := hc
  induction h with
  | init => exact contains_iff.1 hinit
  | step _ hs' ih => exact contains_iff.1 (hclosed _ ih _ hs')

/-- Safety on all paths: whatever the order in which the members answer, the
caller cancels, and the caller closes the reader. -/
theorem all_paths_safe (cfg : Cfg) (s : St) (h : Reach cfg s) : safe cfg s = true := by
  have hc := system_checked cfg (allCfgs_complete cfg)
  simp only [checkAll, Bool.and_eq_true, List.all_eq_true] at hc
  exact (hc.2 s (reach_in_reachable cfg s h)).1

/-- On all paths: a state in which the code can take no further step is settled. -/
theorem all_paths_settle (cfg : Cfg) (s : St) (h : Reach cfg s) (hq : quiescent cfg s = true) :
    settled cfg s = true := by
  have hc := system_checked cfg (allCfgs_complete cfg)
  simp only [checkAll, Bool.and_eq_true, List.all_eq_true] at hc
  have := (hc.2 s (reach_in_reachable cfg s h)).2
  simpa [imp, hq] using this

/-- On all paths the code's steps decrease `rank`: no schedule lets the code run
for ever, so once both members' calls have returned a settled state is reached. -/
theorem all_paths_terminate (cfg : Cfg) (s s' : St) (h : Reach cfg s) (hs : s' ∈ sysStep cfg s) :
    rank s' < rank s := by
  have hc := system_terminates_checked cfg (allCfgs_complete cfg)
  simp only [List.all_eq_true, decide_eq_true_eq] at hc
  exact hc s (reach_in_reachable cfg s h) s' hs

/-! ### The statement of the property, clause by clause -/

/-- The call returns an error only when both members failed or the caller
cancelled; it never returns a member's failure while the other member succeeded. -/
theorem error_only_when_justified (cfg : Cfg) (s : St) (h : Reach cfg s) :
    (s.ret = .ctxErr → s.callerCancelled = true) ∧
    (∀ i, s.ret = resOf i → cfg.ok i = false → cfg.ok0 = false ∧ cfg.ok1 = false) := by
  have hs := all_paths_safe cfg s h
  simp only [safe, safeAt, imp, Bool.and_eq_true] at hs
  obtain ⟨⟨⟨⟨h0, _⟩, _⟩, hf⟩, ht⟩ := hs
  refine ⟨fun hr => by simpa [hr] using h0, fun i hr hok => ?_⟩
  cases i
  · obtain ⟨⟨⟨⟨⟨_, _⟩, h3⟩, _⟩, _⟩, _⟩ := hf
    simpa [hr, hok] using h3
  · obtain ⟨⟨⟨⟨⟨_, _⟩, h3⟩, _⟩, _⟩, _⟩ := ht
    simpa [hr, hok] using h3

/-- A returned success is the first successful answer main received: the other
member's answer was not taken before it, unless it was a failure. -/
theorem returns_first_success (cfg : Cfg) (s : St) (h : Reach cfg s) (i : Bool)
    (hr : s.ret = resOf i) (hok : cfg.ok i = true) :
    ¬ (s.sender (other i) = .delivered ∧ cfg.ok (other i) = true) := by
  have hs := all_paths_safe cfg s h
  simp only [safe, safeAt, imp, Bool.and_eq_true] at hs
  obtain ⟨⟨_, hf⟩, ht⟩ := hs
  cases i
  · obtain ⟨⟨⟨_, h4⟩, _⟩, _⟩ := hf
    simp [hr, hok] at h4
    rintro ⟨hd, ho⟩
    rcases h4 with h4 | h4
    · exact h4 hd
    · simp [ho] at h4
  · obtain ⟨⟨⟨_, h4⟩, _⟩, _⟩ := ht
    simp [hr, hok] at h4
    rintro ⟨hd, ho⟩
    rcases h4 with h4 | h4
    · exact h4 hd
    · simp [ho] at h4

/-- Without cancellation by the caller, a settled call has returned a success
whenever some member succeeded (the union view of C15 under the concurrent policy). -/
theorem no_cancel_first_success (cfg : Cfg) (s : St) (h : Reach cfg s) (hq : quiescent cfg s = true)
    (hc : s.callerCancelled = false) :
    (s.ret = .res0 ∧ (cfg.ok0 = true ∨ cfg.ok1 = false)) ∨ (s.ret = .res1 ∧ (cfg.ok1 = true ∨ cfg.ok0 = false)) := by
  have hs := all_paths_settle cfg s h hq
  simp only [settled, imp, Bool.and_eq_true] at hs
  have := hs.2
  simpa [hc] using this

/-- Link to C15: without cancellation the value a settled concurrent read returned
is one of the results `Unify.readAllowed .concurrent` lists (the first success
for one of the two answer orders). -/
theorem conc_result_in_readAllowed {α} (cfg : Cfg) (s : St) (h : Reach cfg s) (hq : quiescent cfg s = true)
    (hc : s.callerCancelled = false) (a0 a1 : Unify.Res α) (h0 : a0.isOk = cfg.ok0) (h1 : a1.isOk = cfg.ok1) :
    (s.ret = .res0 ∧ a0 ∈ Unify.readAllowed .concurrent a0 a1) ∨
    (s.ret = .res1 ∧ a1 ∈ Unify.readAllowed .concurrent a0 a1) := by
  rcases no_cancel_first_success cfg s h hq hc with ⟨hr, hk⟩ | ⟨hr, hk⟩
  · refine Or.inl ⟨hr, ?_⟩
    cases a0 <;> cases a1 <;> simp_all [Unify.readAllowed, Unify.readFirst, Unify.Res.isOk]
  · refine Or.inr ⟨hr, ?_⟩
    cases a0 <;> cases a1 <;> simp_all [Unify.readAllowed, Unify.readFirst, Unify.Res.isOk]

/-- The context given to the chosen member stays live, and its reader open,
until the caller closes the returned reader … -/
theorem winner_ctx_live_until_close (cfg : Cfg) (s : St) (h : Reach cfg s) (i : Bool)
    (hm : s.main = .returned) (hr : s.ret = resOf i) (hok : cfg.ok i = true) (hst : cfg.resolveStyle = false)
    (hopen : s.retClosed = false) :
    s.cancel i = false ∧ s.closed i = false := by
  have hs := all_paths_safe cfg s h
  simp only [safe, safeAt, imp, Bool.and_eq_true] at hs
  obtain ⟨⟨_, hf⟩, ht⟩ := hs
  cases i
  · obtain ⟨⟨⟨⟨⟨h1, _⟩, _⟩, _⟩, _⟩, _⟩ := hf
    simpa [hm, hr, hok, hst, hopen] using h1
  · obtain ⟨⟨⟨⟨⟨h1, _⟩, _⟩, _⟩, _⟩, _⟩ := ht
    simpa [hm, hr, hok, hst, hopen] using h1

/-- … and is cancelled afterwards (with the member's reader closed). -/
theorem cancelled_after_close (cfg : Cfg) (s : St) (h : Reach cfg s) (i : Bool)
    (hr : s.ret = resOf i) (hclosed : s.retClosed = true) :
    s.closed i = true ∧ s.cancel i = true := by
  have hs := all_paths_safe cfg s h
  simp only [safe, safeAt, imp, Bool.and_eq_true] at hs
  obtain ⟨⟨_, hf⟩, ht⟩ := hs
  cases i
  · obtain ⟨⟨⟨⟨⟨_, h2⟩, _⟩, _⟩, _⟩, _⟩ := hf
    simpa [hr, hclosed] using h2
  · obtain ⟨⟨⟨⟨⟨_, h2⟩, _⟩, _⟩, _⟩, _⟩ := ht
    simpa [hr, hclosed] using h2

/-- Resolve-style calls and failed calls cancel the chosen member's context at once. -/
theorem resolve_cancels_at_once (cfg : Cfg) (s : St) (h : Reach cfg s) (i : Bool)
    (hr : s.ret = resOf i) (hst : cfg.resolveStyle = true ∨ cfg.ok i = false) :
    s.cancel i = true := by
  have hs := all_paths_safe cfg s h
  simp only [safe, safeAt, imp, Bool.and_eq_true] at hs
  obtain ⟨⟨_, hf⟩, ht⟩ := hs
  cases i
  · obtain ⟨_, h6⟩ := hf
    rcases hst with hst | hst <;> simpa [hr, hst] using h6
  · obtain ⟨_, h6⟩ := ht
    rcases hst with hst | hst <;> simpa [hr, hst] using h6

/-- Every reader opened on the member that was not chosen is closed, and every
context not handed to the caller is cancelled, once the code has nothing left to do. -/
theorem loser_reader_closed (cfg : Cfg) (s : St) (h : Reach cfg s) (hq : quiescent cfg s = true) (i : Bool)
    (hne : s.ret ≠ resOf i) :
    (cfg.ok i = true → cfg.resolveStyle = false → s.closed i = true) ∧ s.cancel i = true := by
  have hs := all_paths_settle cfg s h hq
  simp only [settled, settledAt, imp, Bool.and_eq_true] at hs
  obtain ⟨⟨⟨_, hf⟩, ht⟩, _⟩ := hs
  cases i
  · obtain ⟨⟨_, ha⟩, hb⟩ := hf
    exact ⟨fun hok hst => by simpa [hok, hst, hne] using ha, by simpa [hne] using hb⟩
  · obtain ⟨⟨_, ha⟩, hb⟩ := ht
    exact ⟨fun hok hst => by simpa [hok, hst, hne] using ha, by simpa [hne] using hb⟩

/-- No goroutine remains blocked: when the code can take no further step, main
has returned and both senders have finished (delivered or released). A sender
whose member has returned can always move. -/
theorem no_sender_blocked (cfg : Cfg) (s : St) (h : Reach cfg s) (hq : quiescent cfg s = true) :
    s.main = .returned ∧ ∀ i, s.sender i = .delivered ∨ s.sender i = .released := by
  have hs := all_paths_settle cfg s h hq
  simp only [settled, settledAt, imp, Bool.and_eq_true] at hs
  obtain ⟨⟨⟨hm, hf⟩, ht⟩, _⟩ := hs
  refine ⟨by simpa using hm, fun i => ?_⟩
  cases i
  · simpa using hf.1.1
  · simpa using ht.1.1

theorem offering_can_move (cfg : Cfg) (s : St) (i : Bool) (ho : s.sender i = .offering) :
    deliver cfg s i ≠ [] ∨ release cfg s i ≠ [] := by
  cases hm : s.main <;> cases hok : cfg.ok i <;> cases hst : cfg.resolveStyle <;> simp [deliver, release, ho, hm, hok, hst]

/-! ### Progress

Safety above says what a state may look like; the theorems below say that the
code can always MOVE, and which goroutine can: main can return as soon as one
successful answer is on offer (the other member may still be inside its call),
main can return as soon as the caller's context is cancelled, and no reachable
state short of the end is stuck. Same method: a decidable statement evaluated by
the kernel over the whole reachable set, then lifted to every schedule. -/

/-- The steps of MAIN alone: take sender 0's result, take sender 1's, or take `<-ctx.Done()`. -/
def mainSteps (cfg : Cfg) (s : St) : List St := deliver cfg s false ++ deliver cfg s true ++ mainCtxDone s

/-- The steps of ociunify's own goroutines (main and the two senders once `f` has
returned): `sysStep` without the members' calls returning. -/
def codeSteps (cfg : Cfg) (s : St) : List St := mainSteps cfg s ++ release cfg s false ++ release cfg s true

/-- The sender goroutine has exited. -/
def finished (x : Sender) : Bool := x == .delivered || x == .released

/-- The end of a call: main has returned and both sender goroutines have exited. -/
def terminal (s : St) : Bool := s.main == .returned && finished s.s0 && finished s.s1

/-- Member `i`'s successful answer is on offer: its sender stands at `c <- result{…}`. -/
def onOffer (cfg : Cfg) (s : St) (i : Bool) : Bool := s.sender i == .offering && cfg.ok i

/-- Main has not returned and `i`'s success is on offer ⇒ taking it is an enabled step of the
system, a step of main, and main returns `i`'s answer by it; and whichever step main takes
(Go's `select` may prefer the other ready case) it has returned after at most two steps OF ITS
OWN — no step of a member or a sender is needed in between. -/
def succEnablesAt (cfg : Cfg) (s : St) (i : Bool) : Bool :=
  imp (s.main != .returned && onOffer cfg s i)
    (((deliver cfg s i).any fun s' =>
        (step cfg s).contains s' && (mainSteps cfg s).contains s' && s'.main == .returned && s'.ret == resOf i) &&
     ((mainSteps cfg s).all fun s' =>
        s'.main == .returned ||
        (!(mainSteps cfg s').isEmpty && (mainSteps cfg s').all fun s'' => s''.main == .returned)))

/-- The caller has cancelled and main has not returned ⇒ `<-ctx.Done()` is an enabled step. -/
def cancelEnablesAt (cfg : Cfg) (s : St) : Bool :=
  imp (s.callerCancelled && s.main != .returned)
    ((mainCtxDone s).any fun s' =>
      (step cfg s).contains s' && (mainSteps cfg s).contains s' && s'.main == .returned && s'.ret == .ctxErr)

/-- Not at the end ⇒ some step of the code under analysis is enabled; and if none of ociunify's
own goroutines can move, then main is waiting, nobody has cancelled, nothing is on offer and a
member is still inside its call: the only thing waited for is a member. -/
def noDeadlockAt (cfg : Cfg) (s : St) : Bool :=
  imp (!terminal s) (!(sysStep cfg s).isEmpty) &&
  imp (!terminal s && (codeSteps cfg s).isEmpty)
    ((s.s0 == .running || s.s1 == .running) && s.s0 != .offering && s.s1 != .offering &&
     imp (s.main != .returned) (!s.callerCancelled))

def progressAt (cfg : Cfg) (s : St) : Bool :=
  succEnablesAt cfg s false && succEnablesAt cfg s true && cancelEnablesAt cfg s && noDeadlockAt cfg s

theorem progress_checked : ∀ cfg ∈ allCfgs, (reachable cfg).all (progressAt cfg) = true := by decide +kernel

theorem all_paths_progress (cfg : Cfg) (s : St) (h : Reach cfg s) : progressAt cfg s = true := by
  have hc := progress_checked cfg (allCfgs_complete cfg)
  simp only [List.all_eq_true] at hc
  exact hc s (reach_in_reachable cfg s h)

/-- RETURNS WITHOUT WAITING FOR THE SLOWER MEMBER. On every schedule, in every state
where main has not returned and member `i`'s successful answer is on offer, the step
"main takes `i`'s answer" is enabled, and by it the call returns `i`'s answer. Nothing
is assumed about the other member: its sender may still be `running` (the member is
still inside its call — see the example), `offering` (then Go's `select` may take
either; `success_return_within_two` covers that choice), or done. -/
theorem success_enables_return (cfg : Cfg) (s : St) (h : Reach cfg s) (i : Bool)
    (hm : s.main ≠ .returned) (ho : s.sender i = .offering) (hok : cfg.ok i = true) :
    ∃ s', s' ∈ deliver cfg s i ∧ s' ∈ mainSteps cfg s ∧ s' ∈ step cfg s ∧ s'.main = .returned ∧ s'.ret = resOf i := by
  have hp := all_paths_progress cfg s h
  simp only [progressAt, Bool.and_eq_true] at hp
  obtain ⟨⟨⟨hf, ht⟩, _⟩, _⟩ := hp
  have key : succEnablesAt cfg s i = true := by cases i <;> assumption
  simp only [succEnablesAt, imp, onOffer, Bool.or_eq_true, Bool.not_eq_true', Bool.and_eq_true, List.any_eq_true] at key
  rcases key with key | key
  · exfalso
    simp [ho, hok] at key
    exact hm key
  · obtain ⟨⟨s', hs', hr⟩, _⟩ := key
    simp only [contains_iff, beq_iff_eq] at hr
    exact ⟨s', hs', hr.1.1.2, hr.1.1.1, hr.1.2, hr.2⟩

/-- … and whichever ready case main's `select` takes in such a state, main has returned
after at most two steps of its own: every step of main either returns, or leads to a
state where main can step again and every step of main returns. No step of the other
member, or of any sender goroutine, is needed. -/
theorem success_return_within_two (cfg : Cfg) (s : St) (h : Reach cfg s) (i : Bool)
    (hm : s.main ≠ .returned) (ho : s.sender i = .offering) (hok : cfg.ok i = true) :
    ∀ s' ∈ mainSteps cfg s, s'.main = .returned ∨
      (mainSteps cfg s' ≠ [] ∧ ∀ s'' ∈ mainSteps cfg s', s''.main = .returned) := by
  have hp := all_paths_progress cfg s h
  simp only [progressAt, Bool.and_eq_true] at hp
  obtain ⟨⟨⟨hf, ht⟩, _⟩, _⟩ := hp
  have key : succEnablesAt cfg s i = true := by cases i <;> assumption
  simp only [succEnablesAt, imp, onOffer, Bool.or_eq_true, Bool.not_eq_true', Bool.and_eq_true, List.all_eq_true] at key
  rcases key with key | key
  · exfalso
    simp [ho, hok] at key
    exact hm key
  · intro s' hs'
    have := key.2 s' hs'
    simpa [List.isEmpty_iff] using this

/-- RETURNS AFTER CANCELLATION. On every schedule, in every state where the caller's
context is cancelled and main has not returned, main's `<-ctx.Done()` branch is an
enabled step and by it the call returns the context's error — whatever the members
do: nothing is assumed about either sender (both may be `running` for ever). -/
theorem cancel_enables_return (cfg : Cfg) (s : St) (h : Reach cfg s)
    (hc : s.callerCancelled = true) (hm : s.main ≠ .returned) :
    ∃ s', s' ∈ mainCtxDone s ∧ s' ∈ mainSteps cfg s ∧ s' ∈ step cfg s ∧ s'.main = .returned ∧ s'.ret = .ctxErr := by
  have hp := all_paths_progress cfg s h
  simp only [progressAt, Bool.and_eq_true] at hp
  obtain ⟨⟨_, key⟩, _⟩ := hp
  simp only [cancelEnablesAt, imp, Bool.or_eq_true, Bool.not_eq_true', Bool.and_eq_true, List.any_eq_true] at key
  rcases key with key | key
  · exfalso
    simp [hc] at key
    exact hm key
  · obtain ⟨s', hs', hr⟩ := key
    simp only [contains_iff, beq_iff_eq] at hr
    exact ⟨s', hs', hr.1.1.2, hr.1.1.1, hr.1.2, hr.2⟩

/-- NO DEADLOCK. On every schedule, every state that is not the end of the call (main
returned, both sender goroutines gone) has an enabled step of the code under analysis. -/
theorem no_deadlock (cfg : Cfg) (s : St) (h : Reach cfg s) (hn : terminal s = false) : sysStep cfg s ≠ [] := by
  have hp := all_paths_progress cfg s h
  simp only [progressAt, noDeadlockAt, Bool.and_eq_true] at hp
  have key := hp.2.1
  simpa [imp, hn, List.isEmpty_iff] using key

/-- … and when the enabled step is not one of ociunify's own goroutines, the only thing
waited for is a member that is still inside its call: no answer is on offer, and if
main is still waiting the caller has not cancelled. -/
theorem blocked_only_on_members (cfg : Cfg) (s : St) (h : Reach cfg s) (hn : terminal s = false)
    (hcode : codeSteps cfg s = []) :
    (s.s0 = .running ∨ s.s1 = .running) ∧ s.s0 ≠ .offering ∧ s.s1 ≠ .offering ∧
    (s.main ≠ .returned → s.callerCancelled = false) := by
  have hp := all_paths_progress cfg s h
  simp only [progressAt, noDeadlockAt, Bool.and_eq_true] at hp
  have key := hp.2.2
  simp [imp, hn, hcode, and_assoc] at key
  obtain ⟨a, b, c, d⟩ := key
  exact ⟨a, b, c, fun hm => d.resolve_left hm⟩

/-- A state with no enabled step of the code is the end of the call, and settled. -/
theorem stuck_is_terminal (cfg : Cfg) (s : St) (h : Reach cfg s) (hq : sysStep cfg s = []) :
    terminal s = true ∧ settled cfg s = true := by
  refine ⟨?_, all_paths_settle cfg s h (by simp [quiescent, hq])⟩
  cases ht : terminal s
  · exact absurd hq (no_deadlock cfg s h ht)
  · rfl

/-- A schedule of the code under analysis: `n` steps of `sysStep` from `s` to `s'`.
(The caller's own steps — cancelling, closing the reader — are not obligations of the
code; each can happen at most once and may be interleaved anywhere: `Reach` covers them.) -/
inductive SysRun (cfg : Cfg) : St → Nat → St → Prop where
  | nil (s : St) : SysRun cfg s 0 s
  | cons {s s' s'' : St} {n : Nat} : s' ∈ sysStep cfg s → SysRun cfg s' n s'' → SysRun cfg s (n + 1) s''

theorem sysRun_reach {cfg : Cfg} {s s' : St} {n : Nat} (h : Reach cfg s) (r : SysRun cfg s n s') : Reach cfg s' := by
  induction r with
  | nil => exact h
  | cons hs _ ih => exact ih (Reach.step h (List.mem_append_left _ hs))

theorem sysRun_rank {cfg : Cfg} {s s' : St} {n : Nat} (h : Reach cfg s) (r : SysRun cfg s n s') :
    n + rank s' ≤ rank s := by
  induction r with
  | nil => simp
  | cons hs _ ih =>
    have h1 := all_paths_terminate cfg _ _ h hs
    have h2 := ih (Reach.step h (List.mem_append_left _ hs))
    omega

theorem rank_le_six (s : St) : rank s ≤ 6 := by
  obtain ⟨m, _, a, b, _, _, _, _, _, _⟩ := s
  cases m <;> cases a <;> cases b <;> simp [rank]

/-- EVERY MAXIMAL SCHEDULE ENDS AT THE END OF THE CALL. From any state of any schedule,
a run of the code has at most `rank s ≤ 6` steps (`all_paths_terminate`), and a run that
cannot be extended (`no_deadlock`) stops in a terminal, settled state: main has
returned, both sender goroutines are gone, every loser's reader is closed. -/
theorem maximal_schedule_ends_terminal (cfg : Cfg) (s s' : St) (n : Nat) (h : Reach cfg s)
    (r : SysRun cfg s n s') (hmax : sysStep cfg s' = []) :
    n ≤ 6 ∧ terminal s' = true ∧ settled cfg s' = true := by
  have hb := sysRun_rank h r
  have h6 := rank_le_six s
  exact ⟨by omega, stuck_is_terminal cfg s' (sysRun_reach h r) hmax⟩

/-- … and a run that can be extended is extended by some step: there is no third case. -/
theorem schedule_extends_or_ends (cfg : Cfg) (s s' : St) (n : Nat) (h : Reach cfg s) (r : SysRun cfg s n s') :
    terminal s' = true ∨ ∃ s'', s'' ∈ sysStep cfg s' := by
  cases ht : terminal s'
  · right
    have := no_deadlock cfg s' (sysRun_reach h r) ht
    cases hl : sysStep cfg s' with
    | nil => exact absurd hl this
    | cons x _ => exact ⟨x, by simp⟩
  · exact Or.inl rfl

/-! #### Non-vacuity of the progress theorems, at concrete reachable states -/

/-- reader-style, both members succeed: member 0 has answered, member 1 is still inside its call -/
def exFast : St := { init with s0 := .offering }
/-- both answers on offer at the same moment, member 0's a failure -/
def exBoth : St := { init with s0 := .offering, s1 := .offering }
/-- the caller has cancelled, both members still inside their calls -/
def exCancelled : St := { init with callerCancelled := true }

theorem exFast_reach (cfg : Cfg) : Reach cfg exFast :=
  Reach.step Reach.init (by simp [step, sysStep, memberReturn, init, St.sender, St.setSender, exFast])
theorem exBoth_reach (cfg : Cfg) : Reach cfg exBoth :=
  Reach.step (exFast_reach cfg) (by simp [step, sysStep, memberReturn, init, St.sender, St.setSender, exFast, exBoth])
theorem exCancelled_reach (cfg : Cfg) : Reach cfg exCancelled :=
  Reach.step Reach.init (by simp [step, sysStep, envStep, callerCancel, init, exCancelled])

/-- `success_enables_return` with the other sender still `running`: main returns member 0's answer. -/
example : exFast.s1 = .running ∧
    ∃ s', s' ∈ deliver ⟨true, true, false⟩ exFast false ∧ s' ∈ mainSteps ⟨true, true, false⟩ exFast ∧
      s' ∈ step ⟨true, true, false⟩ exFast ∧ s'.main = .returned ∧ s'.ret = .res0 :=
  ⟨rfl, success_enables_return ⟨true, true, false⟩ exFast (exFast_reach _) false (by decide) rfl rfl⟩

/-- both on offer, member 0 failed and member 1 succeeded: taking the failure first is a step of
main that does not return (so the first disjunct alone would be false), and main returns with its next step. -/
example : (∃ s' ∈ mainSteps ⟨false, true, false⟩ exBoth, s'.main ≠ .returned) ∧
    ∀ s' ∈ mainSteps ⟨false, true, false⟩ exBoth, s'.main = .returned ∨
      (mainSteps ⟨false, true, false⟩ s' ≠ [] ∧ ∀ s'' ∈ mainSteps ⟨false, true, false⟩ s', s''.main = .returned) :=
  ⟨by decide, success_return_within_two ⟨false, true, false⟩ exBoth (exBoth_reach _) true (by decide) rfl rfl⟩

/-- `cancel_enables_return` with both members still inside their calls. -/
example : exCancelled.s0 = .running ∧ exCancelled.s1 = .running ∧
    ∃ s', s' ∈ mainCtxDone exCancelled ∧ s' ∈ mainSteps ⟨true, true, false⟩ exCancelled ∧
      s' ∈ step ⟨true, true, false⟩ exCancelled ∧ s'.main = .returned ∧ s'.ret = .ctxErr :=
  ⟨rfl, rfl, cancel_enables_return ⟨true, true, false⟩ exCancelled (exCancelled_reach _) rfl (by decide)⟩

/-- `no_deadlock` / `blocked_only_on_members`: the initial state is not terminal, its only enabled
steps are the members' returns; `exFast` is not terminal and main can move. -/
example : terminal init = false ∧ sysStep ⟨true, true, false⟩ init ≠ [] ∧ codeSteps ⟨true, true, false⟩ init = [] ∧
    terminal exFast = false ∧ codeSteps ⟨true, true, false⟩ exFast ≠ [] :=
  ⟨rfl, no_deadlock _ init Reach.init rfl, by decide, rfl, by decide⟩

/-- `maximal_schedule_ends_terminal`: a maximal run of four steps from `init` (member 0 answers, main
returns it, member 1 answers and is released; the caller's Close is not a step of the code). -/
example : ∃ s', SysRun ⟨true, true, false⟩ init 4 s' ∧ sysStep ⟨true, true, false⟩ s' = [] ∧ terminal s' = true := by
  refine ⟨{ init with main := .returned, ret := .res0, s0 := .delivered, s1 := .released, closed1 := true, cancel1 := true }, ?_, by decide, by decide⟩
  refine .cons (s' := exFast) (by decide) (.cons (s' := { exFast with main := .returned, ret := .res0, s0 := .delivered }) (by decide)
    (.cons (s' := { exFast with main := .returned, ret := .res0, s0 := .delivered, s1 := .offering }) (by decide)
    (.cons (by decide) (.nil _))))

/-- The progress hypotheses are met all over the reachable sets: in every scenario with a successful
member there is a reachable state with that success on offer while the other member is still inside its
call; states with the caller cancelled before main returned, and non-terminal states where only a member
can move, exist in every scenario. -/
example : (allCfgs.all fun cfg => [false, true].all fun i => imp (cfg.ok i)
      ((reachable cfg).any fun s => s.main != .returned && onOffer cfg s i && s.sender (other i) == .running)) = true ∧
    (allCfgs.all fun cfg => (reachable cfg).any fun s => s.callerCancelled && s.main != .returned && s.s0 == .running && s.s1 == .running) = true ∧
    (allCfgs.all fun cfg => (reachable cfg).any fun s => !terminal s && (codeSteps cfg s).isEmpty && s.main == .returned) = true := by
  decide +kernel

/-! ### Non-vacuity: the interesting states are reached -/

/-- Settled states exist for every scenario; states with the returned reader
open, with it closed, with a released loser whose reader was closed, and with
the context error returned, are all reachable. -/
example : (allCfgs.all fun cfg => (reachable cfg).any (quiescent cfg)) = true ∧
    ((reachable ⟨true, true, false⟩).any fun s => s.main == .returned && s.ret == .res0 && !s.retClosed && s.s1 == .running) = true ∧
    ((reachable ⟨true, true, false⟩).any fun s => s.retClosed && s.ret == .res1 && s.s0 == .released && s.closed0) = true ∧
    ((reachable ⟨true, false, false⟩).any fun s => s.ret == .ctxErr && s.s0 == .released && s.closed0) = true ∧
    ((reachable ⟨false, true, true⟩).any fun s => s.ret == .res1 && s.s0 == .delivered) = true ∧
    ((reachable ⟨false, false, false⟩).any fun s => s.ret == .res1 && s.s0 == .delivered) = true := by
  decide +kernel

/-! ### The Go text is the text that was transcribed -/

/-- `runReadConcurrent`, `runRead`, `runReadWithCancel`, `runReadBlobReader`,
`blobReader.Close` and `t2.close` are unchanged since the model was written. -/
theorem generated_protocol_pinned :
    (["runReadConcurrent", "runRead", "runReadWithCancel", "runReadBlobReader", "blobReader.Close", "t2.close", "t2.error"].all
      fun n => Generated.Unify.helpers.lookup n == some true) = true := by decide

/-- The five read entry points go through that protocol: Get* through
`runReadBlobReader` (cancel on Close), Resolve* through `runRead` (cancel at once);
each calls the member with the context created for it. -/
theorem generated_entry_points :
    (([("GetBlob", "runReadBlobReader"), ("GetBlobRange", "runReadBlobReader"), ("GetManifest", "runReadBlobReader"),
       ("ResolveBlob", "runRead"), ("ResolveManifest", "runRead")] : List (String × String)).all fun p =>
      ((Generated.Unify.table.find? fun r => r.recv == "unifier" && r.method == p.1).map fun r =>
        r.callee == p.2 && r.member == p.1 && r.memberRecv == "member" && r.combine == "firstSuccess") == some true) = true := by
  decide

end OciModel.Props.C16
