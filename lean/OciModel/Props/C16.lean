/-
C16 (PARTIAL) — concurrent unified reads are leak-free for every answer order
and cancellation.

Partial in this sense: goroutine scheduling, channels, `select` and `context`
are the primitives of `OciModel.UnifyConc` (trusted); what is proved is that the
protocol `runReadConcurrent` / `runRead` / `runReadBlobReader` / `blobReader.Close`
builds from them has the stated properties on EVERY schedule (every path of the
transition system), for all 2 × 2 outcomes, both answer orders, caller
cancellation and reader close at any point, reader-style and resolve-style entry
points. The state space is finite by nature, so evaluating the whole system in
the kernel IS the proof; the result is then lifted to all paths by induction.
That the Go text is the text that was transcribed is the obligation
`generated_protocol_pinned`.
-/
import OciModel.UnifyConc
import OciModel.Generated.Unify
import OciModel.Unify

namespace OciModel.Props.C16
open OciModel.UnifyConc

/-- `allCfgs` is every scenario. -/
theorem allCfgs_complete (cfg : Cfg) : cfg ∈ allCfgs := by
  obtain ⟨a, b, c⟩ := cfg
  cases a <;> cases b <;> cases c <;> decide

/-- (i) the computed set contains the initial state and is closed under every
transition, (ii) every state in it is safe, (iii) every state in it where the
code can take no further step is settled — for all eight scenarios. Checked by
kernel evaluation of the whole system. -/
theorem system_checked : ∀ cfg ∈ allCfgs, checkAll cfg (reachable cfg) = true := by decide +kernel

/-- The code's own steps strictly decrease a rank that starts at 6: whatever the
schedule, main and both senders finish within six steps once the members'
calls have returned. -/
def rank (s : St) : Nat :=
  (match s.main with | .sel1 => 2 | .sel2 => 1 | .returned => 0) +
  (match s.s0 with | .running => 2 | .offering => 1 | _ => 0) +
  (match s.s1 with | .running => 2 | .offering => 1 | _ => 0)

theorem system_terminates_checked :
    ∀ cfg ∈ allCfgs, (reachable cfg).all (fun s => (sysStep cfg s).all fun s' => rank s' < rank s) = true := by
  decide +kernel

theorem contains_iff {s : St} {R : List St} : R.contains s = true ↔ s ∈ R := by
  simp

/-- Every state of every schedule lies in the computed set. -/
theorem reach_in_reachable (cfg : Cfg) (s : St) (h : Reach cfg s) : s ∈ reachable cfg := by
  have hc := system_checked cfg (allCfgs_complete cfg)
  simp only [checkAll, closedUnder, Bool.and_eq_true, List.all_eq_true] at hc
  obtain ⟨⟨hinit, hclosed⟩, _⟩ := hc
  induction h with
  | init => exact contains_iff.1 hinit
  | step _ hs' ih => exact contains_iff.1 (hclosed _ ih _ hs')

/-- Safety on all paths: whatever the order in which the members answer, the
caller cancels, and the caller closes the reader. -/
theorem all_paths_safe (cfg : Cfg) (s : St) (h : Reach cfg s) : safe cfg s = true := by
  have hc := system_checked cfg (allCfgs_complete cfg)
  simp only [checkAll, Bool.and_eq_true, List.all_eq_true] at hc
  exact (hc.2 s (reach_in_reachable cfg s h)).1

/-- On all paths: a state in which the code can take no further step is settled. -/
theorem all_paths_settle (cfg : Cfg) (s : St) (h : Reach cfg s) (hq : quiescent cfg s = true) :
    settled cfg s = true := by
  have hc := system_checked cfg (allCfgs_complete cfg)
  simp only [checkAll, Bool.and_eq_true, List.all_eq_true] at hc
  have := (hc.2 s (reach_in_reachable cfg s h)).2
  simpa [imp, hq] using this

/-- On all paths the code's steps decrease `rank`: no schedule lets the code run
for ever, so once both members' calls have returned a settled state is reached. -/
theorem all_paths_terminate (cfg : Cfg) (s s' : St) (h : Reach cfg s) (hs : s' ∈ sysStep cfg s) :
    rank s' < rank s := by
  have hc := system_terminates_checked cfg (allCfgs_complete cfg)
  simp only [List.all_eq_true, decide_eq_true_eq] at hc
  exact hc s (reach_in_reachable cfg s h) s' hs

/-! ### The statement of the property, clause by clause -/

/-- The call returns an error only when both members failed or the caller
cancelled; it never returns a member's failure while the other member succeeded. -/
theorem error_only_when_justified (cfg : Cfg) (s : St) (h : Reach cfg s) :
    (s.ret = .ctxErr → s.callerCancelled = true) ∧
    (∀ i, s.ret = resOf i → cfg.ok i = false → cfg.ok0 = false ∧ cfg.ok1 = false) := by
  have hs := all_paths_safe cfg s h
  simp only [safe, safeAt, imp, Bool.and_eq_true] at hs
  obtain ⟨⟨⟨⟨h0, _⟩, _⟩, hf⟩, ht⟩ := hs
  refine ⟨fun hr => by simpa [hr] using h0, fun i hr hok => ?_⟩
  cases i
  · obtain ⟨⟨⟨⟨⟨_, _⟩, h3⟩, _⟩, _⟩, _⟩ := hf
    simpa [hr, hok] using h3
  · obtain ⟨⟨⟨⟨⟨_, _⟩, h3⟩, _⟩, _⟩, _⟩ := ht
    simpa [hr, hok] using h3

/-- A returned success is the first successful answer main received: the other
member's answer was not taken before it, unless it was a failure. -/
theorem returns_first_success (cfg : Cfg) (s : St) (h : Reach cfg s) (i : Bool)
    (hr : s.ret = resOf i) (hok : cfg.ok i = true) :
    ¬ (s.sender (other i) = .delivered ∧ cfg.ok (other i) = true) := by
  have hs := all_paths_safe cfg s h
  simp only [safe, safeAt, imp, Bool.and_eq_true] at hs
  obtain ⟨⟨_, hf⟩, ht⟩ := hs
  cases i
  · obtain ⟨⟨⟨_, h4⟩, _⟩, _⟩ := hf
    simp [hr, hok] at h4
    rintro ⟨hd, ho⟩
    rcases h4 with h4 | h4
    · exact h4 hd
    · simp [ho] at h4
  · obtain ⟨⟨⟨_, h4⟩, _⟩, _⟩ := ht
    simp [hr, hok] at h4
    rintro ⟨hd, ho⟩
    rcases h4 with h4 | h4
    · exact h4 hd
    · simp [ho] at h4

/-- Without cancellation by the caller, a settled call has returned a success
whenever some member succeeded (the union view of C15 under the concurrent policy). -/
theorem no_cancel_first_success (cfg : Cfg) (s : St) (h : Reach cfg s) (hq : quiescent cfg s = true)
    (hc : s.callerCancelled = false) :
    (s.ret = .res0 ∧ (cfg.ok0 = true ∨ cfg.ok1 = false)) ∨ (s.ret = .res1 ∧ (cfg.ok1 = true ∨ cfg.ok0 = false)) := by
  have hs := all_paths_settle cfg s h hq
  simp only [settled, imp, Bool.and_eq_true] at hs
  have := hs.2
  simpa [hc] using this

/-- Link to C15: without cancellation the value a settled concurrent read returned
is one of the results `Unify.readAllowed .concurrent` lists (the first success
for one of the two answer orders). -/
theorem conc_result_in_readAllowed {α} (cfg : Cfg) (s : St) (h : Reach cfg s) (hq : quiescent cfg s = true)
    (hc : s.callerCancelled = false) (a0 a1 : Unify.Res α) (h0 : a0.isOk = cfg.ok0) (h1 : a1.isOk = cfg.ok1) :
    (s.ret = .res0 ∧ a0 ∈ Unify.readAllowed .concurrent a0 a1) ∨
    (s.ret = .res1 ∧ a1 ∈ Unify.readAllowed .concurrent a0 a1) := by
  rcases no_cancel_first_success cfg s h hq hc with ⟨hr, hk⟩ | ⟨hr, hk⟩
  · refine Or.inl ⟨hr, ?_⟩
    cases a0 <;> cases a1 <;> simp_all [Unify.readAllowed, Unify.readFirst, Unify.Res.isOk]
  · refine Or.inr ⟨hr, ?_⟩
    cases a0 <;> cases a1 <;> simp_all [Unify.readAllowed, Unify.readFirst, Unify.Res.isOk]

/-- The context given to the chosen member stays live, and its reader open,
until the caller closes the returned reader … -/
theorem winner_ctx_live_until_close (cfg : Cfg) (s : St) (h : Reach cfg s) (i : Bool)
    (hm : s.main = .returned) (hr : s.ret = resOf i) (hok : cfg.ok i = true) (hst : cfg.resolveStyle = false)
    (hopen : s.retClosed = false) :
    s.cancel i = false ∧ s.closed i = false := by
  have hs := all_paths_safe cfg s h
  simp only [safe, safeAt, imp, Bool.and_eq_true] at hs
  obtain ⟨⟨_, hf⟩, ht⟩ := hs
  cases i
  · obtain ⟨⟨⟨⟨⟨h1, _⟩, _⟩, _⟩, _⟩, _⟩ := hf
    simpa [hm, hr, hok, hst, hopen] using h1
  · obtain ⟨⟨⟨⟨⟨h1, _⟩, _⟩, _⟩, _⟩, _⟩ := ht
    simpa [hm, hr, hok, hst, hopen] using h1

/-- … and is cancelled afterwards (with the member's reader closed). -/
theorem cancelled_after_close (cfg : Cfg) (s : St) (h : Reach cfg s) (i : Bool)
    (hr : s.ret = resOf i) (hclosed : s.retClosed = true) :
    s.closed i = true ∧ s.cancel i = true := by
  have hs := all_paths_safe cfg s h
  simp only [safe, safeAt, imp, Bool.and_eq_true] at hs
  obtain ⟨⟨_, hf⟩, ht⟩ := hs
  cases i
  · obtain ⟨⟨⟨⟨⟨_, h2⟩, _⟩, _⟩, _⟩, _⟩ := hf
    simpa [hr, hclosed] using h2
  · obtain ⟨⟨⟨⟨⟨_, h2⟩, _⟩, _⟩, _⟩, _⟩ := ht
    simpa [hr, hclosed] using h2

/-- Resolve-style calls and failed calls cancel the chosen member's context at once. -/
theorem resolve_cancels_at_once (cfg : Cfg) (s : St) (h : Reach cfg s) (i : Bool)
    (hr : s.ret = resOf i) (hst : cfg.resolveStyle = true ∨ cfg.ok i = false) :
    s.cancel i = true := by
  have hs := all_paths_safe cfg s h
  simp only [safe, safeAt, imp, Bool.and_eq_true] at hs
  obtain ⟨⟨_, hf⟩, ht⟩ := hs
  cases i
  · obtain ⟨_, h6⟩ := hf
    rcases hst with hst | hst <;> simpa [hr, hst] using h6
  · obtain ⟨_, h6⟩ := ht
    rcases hst with hst | hst <;> simpa [hr, hst] using h6

/-- Every reader opened on the member that was not chosen is closed, and every
context not handed to the caller is cancelled, once the code has nothing left to do. -/
theorem loser_reader_closed (cfg : Cfg) (s : St) (h : Reach cfg s) (hq : quiescent cfg s = true) (i : Bool)
    (hne : s.ret ≠ resOf i) :
    (cfg.ok i = true → cfg.resolveStyle = false → s.closed i = true) ∧ s.cancel i = true := by
  have hs := all_paths_settle cfg s h hq
  simp only [settled, settledAt, imp, Bool.and_eq_true] at hs
  obtain ⟨⟨⟨_, hf⟩, ht⟩, _⟩ := hs
  cases i
  · obtain ⟨⟨_, ha⟩, hb⟩ := hf
    exact ⟨fun hok hst => by simpa [hok, hst, hne] using ha, by simpa [hne] using hb⟩
  · obtain ⟨⟨_, ha⟩, hb⟩ := ht
    exact ⟨fun hok hst => by simpa [hok, hst, hne] using ha, by simpa [hne] using hb⟩

/-- No goroutine remains blocked: when the code can take no further step, main
has returned and both senders have finished (delivered or released). A sender
whose member has returned can always move. -/
theorem no_sender_blocked (cfg : Cfg) (s : St) (h : Reach cfg s) (hq : quiescent cfg s = true) :
    s.main = .returned ∧ ∀ i, s.sender i = .delivered ∨ s.sender i = .released := by
  have hs := all_paths_settle cfg s h hq
  simp only [settled, settledAt, imp, Bool.and_eq_true] at hs
  obtain ⟨⟨⟨hm, hf⟩, ht⟩, _⟩ := hs
  refine ⟨by simpa using hm, fun i => ?_⟩
  cases i
  · simpa using hf.1.1
  · simpa using ht.1.1

theorem offering_can_move (cfg : Cfg) (s : St) (i : Bool) (ho : s.sender i = .offering) :
    deliver cfg s i ≠ [] ∨ release cfg s i ≠ [] := by
  cases hm : s.main <;> cases hok : cfg.ok i <;> cases hst : cfg.resolveStyle <;> simp [deliver, release, ho, hm, hok, hst]

/-! ### Non-vacuity: the interesting states are reached -/

/-- Settled states exist for every scenario; states with the returned reader
open, with it closed, with a released loser whose reader was closed, and with
the context error returned, are all reachable. -/
example : (allCfgs.all fun cfg => (reachable cfg).any (quiescent cfg)) = true ∧
    ((reachable ⟨true, true, false⟩).any fun s => s.main == .returned && s.ret == .res0 && !s.retClosed && s.s1 == .running) = true ∧
    ((reachable ⟨true, true, false⟩).any fun s => s.retClosed && s.ret == .res1 && s.s0 == .released && s.closed0) = true ∧
    ((reachable ⟨true, false, false⟩).any fun s => s.ret == .ctxErr && s.s0 == .released && s.closed0) = true ∧
    ((reachable ⟨false, true, true⟩).any fun s => s.ret == .res1 && s.s0 == .delivered) = true ∧
    ((reachable ⟨false, false, false⟩).any fun s => s.ret == .res1 && s.s0 == .delivered) = true := by
  decide +kernel

/-! ### The Go text is the text that was transcribed -/

/-- `runReadConcurrent`, `runRead`, `runReadWithCancel`, `runReadBlobReader`,
`blobReader.Close` and `t2.close` are unchanged since the model was written. -/
theorem generated_protocol_pinned :
    (["runReadConcurrent", "runRead", "runReadWithCancel", "runReadBlobReader", "blobReader.Close", "t2.close", "t2.error"].all
      fun n => Generated.Unify.helpers.lookup n == some true) = true := by decide

/-- The five read entry points go through that protocol: Get* through
`runReadBlobReader` (cancel on Close), Resolve* through `runRead` (cancel at once);
each calls the member with the context created for it. -/
theorem generated_entry_points :
    (([("GetBlob", "runReadBlobReader"), ("GetBlobRange", "runReadBlobReader"), ("GetManifest", "runReadBlobReader"),
       ("ResolveBlob", "runRead"), ("ResolveManifest", "runRead")] : List (String × String)).all fun p =>
      ((Generated.Unify.table.find? fun r => r.recv == "unifier" && r.method == p.1).map fun r =>
        r.callee == p.2 && r.member == p.1 && r.memberRecv == "member" && r.combine == "firstSuccess") == some true) = true := by
  decide

end OciModel.Props.C16
