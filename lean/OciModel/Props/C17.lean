import OciModel.Ref
namespace OciModel.Props.C17
open OciModel.Ref

/-- The empty string is not a tag (the predicate is defined on it). -/
theorem isTag_nil : isTag [] = false := rfl

end OciModel.Props.C17
