/-
C17 — `ociref` reference parsing/printing round trips.
Only property statements live here; every proof assembles lemmas from
`OciModel/RefLemmas.lean`.
-/
import OciModel.Ref
import OciModel.RefLemmas
import OciModel.Generated.RefPat
namespace OciModel.Props.C17
open OciModel.Ref

/-! ### Concrete witnesses used by the satisfiability `example`s -/

/-- `foo.com:5000` -/
def exHost : Bytes := [102, 111, 111, 46, 99, 111, 109, 58, 53, 48, 48, 48]
/-- `a/b-c` -/
def exRepo : Bytes := [97, 47, 98, 45, 99]
/-- `v1.0` -/
def exTag : Bytes := [118, 49, 46, 48]
/-- `sha256:` followed by 64 times `a` -/
def exDigest : Bytes := sha256 ++ cColon :: List.replicate 64 97
def exRef : Reference := ⟨exHost, exRepo, exTag, exDigest⟩
/-- `foo.com/bar` -/
def exAmbiguous : Bytes := [102, 111, 111, 46, 99, 111, 109, 47, 98, 97, 114]

/-! ### T5: the recognisers are total; their values on the empty string -/

/-- The empty string is not a tag (the predicate is defined on it). -/
theorem isTag_nil : isTag [] = false := rfl

example : isTag [] = false := by decide
example : isDigest [] = false := by decide
example : isRepo [] = false := by decide
example : isHost [] = false := by decide
example : parseRelative [] = none := by decide
example : parse [] = none := by decide

/-! ### T1: whatever parses prints back to the input -/

theorem parse_print (s : Bytes) (r : Reference) (h : parseRelative s = some r) :
    print r = s :=
  (matchRef_some (parseRelative_some h).1).2.2

/-- The hypothesis of `parse_print` is satisfiable by a reference with every part present. -/
example : parseRelative (print exRef) = some exRef := by decide
example : exRef.host ≠ [] ∧ exRef.tag ≠ [] ∧ exRef.digest ≠ [] := by decide

/-! ### T2: every part of a parsed reference is valid -/

theorem parse_parts_valid (s : Bytes) (r : Reference) (h : parseRelative s = some r) :
    (r.host = [] ∨ isHost r.host = true) ∧ isRepo r.repo = true ∧ r.repo.length ≤ 255 ∧
      (r.tag = [] ∨ isTag r.tag = true) ∧ (r.digest = [] ∨ isDigest r.digest = true) :=
  have hp := parseRelative_some h
  have hm := matchRef_some hp.1
  ⟨hm.1, hm.2.1, hp.2.2.2, hp.2.2.1, hp.2.1⟩

theorem isTag_length (t : Bytes) : isTag t = true → t.length ≤ 128 ∧ t ≠ [] :=
  OciModel.Ref.isTag_length t

example : isTag exTag = true := by decide

/-! ### T3: `parse` is `parseRelative` plus a mandatory host -/

theorem parse_host_nonempty (s : Bytes) (r : Reference) (h : parse s = some r) :
    r.host ≠ [] ∧ parseRelative s = some r :=
  parse_some h

example : parse (print exRef) = some exRef := by decide
/-- Without a host `parse` fails although `parseRelative` succeeds. -/
example : parse exRepo = none ∧ parseRelative exRepo = some ⟨[], exRepo, [], []⟩ := by decide

/-! ### T4: printing valid parts and parsing gives the parts back -/

theorem print_parse (h p t d : Bytes) (hh : isHost h = true) (hp : isRepo p = true)
    (hl : p.length ≤ 255) (ht : t = [] ∨ isTag t = true) (hd : d = [] ∨ isDigest d = true) :
    parse (print ⟨h, p, t, d⟩) = some ⟨h, p, t, d⟩ :=
  print_parse_aux h p t d hh hp hl ht hd

/-- The hypotheses of `print_parse` are jointly satisfiable with all four parts non-empty. -/
example : isHost exHost = true ∧ isRepo exRepo = true ∧ exRepo.length ≤ 255 ∧
    isTag exTag = true ∧ isDigest exDigest = true := by decide

/-- Alphabet facts behind `print_parse`: the separators cannot occur inside the parts. -/
theorem host_no_slash (h : Bytes) (hh : isHost h = true) : cSlash ∉ h :=
  fun hm => isHost_no_slash hh _ hm rfl

theorem repo_no_colon_at (p : Bytes) (hp : isRepo p = true) : cColon ∉ p ∧ cAt ∉ p :=
  ⟨fun hm => (isRepo_noColAt hp _ hm).1 rfl, fun hm => (isRepo_noColAt hp _ hm).2 rfl⟩

theorem tag_no_at (t : Bytes) (ht : isTag t = true) : cAt ∉ t :=
  fun hm => isTag_no_at ht _ hm rfl

theorem digest_nonempty_no_newline (d : Bytes) (hd : isDigest d = true) : d ≠ [] ∧ cNL ∉ d :=
  ⟨isDigest_ne_nil hd, fun hm => isDigest_no_nl hd _ hm rfl⟩

/-- The host-less round trip `parseRelative (print ⟨[], p, t, d⟩) = some ⟨[], p, t, d⟩` is
FALSE for valid parts: the first path component of a valid repository can itself be a valid
host, and the greedy optional host group of `referencePat` then captures it.  `foo.com/bar`
is a valid repository, but it parses as host `foo.com`, repository `bar`. -/
theorem nohost_roundtrip_counterexample :
    isRepo exAmbiguous = true ∧ exAmbiguous.length ≤ 255 ∧
    print ⟨[], exAmbiguous, [], []⟩ = exAmbiguous ∧
    parseRelative (print ⟨[], exAmbiguous, [], []⟩) =
      some ⟨[102, 111, 111, 46, 99, 111, 109], [98, 97, 114], [], []⟩ ∧
    parseRelative (print ⟨[], exAmbiguous, [], []⟩) ≠ some ⟨[], exAmbiguous, [], []⟩ := by
  decide

/-- The host-less round trip does hold under the extra condition that rules the
counterexample out: the first `/`-delimited segment of the repository is not a valid host. -/
theorem print_parseRelative_nohost_of_first_not_host (p t d : Bytes) (hp : isRepo p = true)
    (hl : p.length ≤ 255) (ht : t = [] ∨ isTag t = true) (hd : d = [] ∨ isDigest d = true)
    (hno : isHost (p.takeWhile (· != cSlash)) = false) :
    parseRelative (print ⟨[], p, t, d⟩) = some ⟨[], p, t, d⟩ :=
  print_parseRelative_nohost_aux p t d hp hl ht hd hno

/-- The extra condition is satisfiable (`a/b-c`: first segment `a` is not a host). -/
example : isRepo exRepo = true ∧ isHost (exRepo.takeWhile (· != cSlash)) = false ∧
    parseRelative (print ⟨[], exRepo, exTag, exDigest⟩) = some ⟨[], exRepo, exTag, exDigest⟩ := by
  decide

/-! ### Obligations on the regenerated facts

The recognisers `isHost`, `isRepo` and the splitting done by `matchRef` were written by hand as
the languages of these three regular expressions; the check regenerates the constant-folded
pattern strings from reference.go on every run. An edit to a regular expression (or to the
length limits) breaks this obligation and sends the check to the differential search. -/

theorem generated_patterns_ok :
    OciModel.Generated.RefPat.shapeKnown = true ∧
    -- SHA-256 of the constant-folded pattern strings the recognisers were written against
    -- (the strings themselves are in the doc comments of Generated/RefPat.lean)
    OciModel.Generated.RefPat.referencePatSha256 = "5111aaa33065fdbd98eb97c8ad5355d70916bbcaf49cf2a6f7827ada65ec732d" ∧
    OciModel.Generated.RefPat.hostPatSha256 = "16195d6a930997f0a3ca17785d5293cc195e461dfbc78bbe0747e01985572e38" ∧
    OciModel.Generated.RefPat.repoPatSha256 = "b2d434cfc719edcbd427f55b2a0dc45dd6261677d336a16d1ae74b954e8a673d" ∧
    OciModel.Generated.RefPat.tagMaxLen = "128" ∧ OciModel.Generated.RefPat.repoMaxLen = "255" := by
  decide

end OciModel.Props.C17
