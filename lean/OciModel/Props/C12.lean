/-
C12 — Access-checking/selecting wrappers never let a rejected repository through.

The model of `*accessCheckerRegistry` is the table regenerated from
`ocifilter/select.go` on every run (`OciModel.Generated.Select.table`); its
semantics is `OciModel.Select.call` / `repositories`. The general theorems hold for
every row satisfying the decidable predicate `RowOk`, for every policy
`check : Bytes → Kind → Option ε` (a pure function of name and access kind),
every backend and every argument values; the `generated_*` obligations check the
regenerated table against `RowOk` and against the 18 methods of
`ociregistry.Interface`.
-/
import OciModel.SelectLemmas

namespace OciModel.Props.C12
open OciModel OciModel.Select OciModel.Generated.Select OciModel.Generated

variable {ε ρ σ : Type}

/-- If the policy rejects any of the repositories a method involves (for the
access kind the method needs), the wrapped registry is not called at all and the
result is the policy's own error for one of the rejected repositories. -/
theorem denied_no_backend_call (r : Row) (h : RowOk r = true) (hm : r.method ≠ "Repositories")
    (check : Policy ε) (backend : Call → ρ) (env : Env)
    (ips : List String) (hips : ifaceParamNames r.method = some ips)
    (gs : List RGuard) (hgs : specGuards r.method ips r.params = some gs)
    (hdeny : ∃ g ∈ gs, (check (g.val env) g.kind).isSome = true) :
    ∃ e, call check backend env r = ⟨.rejected e, []⟩ ∧ ∃ g ∈ gs, check (g.val env) g.kind = some e := by
  obtain ⟨hk, _, _, ⟨gs', hres, hspec⟩, hsh⟩ := rowOk_unfold r h ips hips
  have : gs' = gs := by rw [hgs] at hspec; exact (Option.some.inj hspec).symm
  subst this
  simp only [hm, if_false] at hsh
  have hf := firstFail_isSome_of_mem check env gs' hdeny
  cases hff : firstFail check env gs' with
  | none => simp [hff] at hf
  | some e =>
    refine ⟨e, ?_, firstFail_some check env gs' e hff⟩
    simp [call, hk, hsh, hres, hff]

/-- If the policy allows every repository involved, the wrapper makes exactly one
call on the wrapped registry — the same method with the caller's arguments in
order — and returns its result unchanged. -/
theorem allowed_transparent (r : Row) (h : RowOk r = true) (hm : r.method ≠ "Repositories")
    (check : Policy ε) (backend : Call → ρ) (env : Env)
    (ips : List String) (hips : ifaceParamNames r.method = some ips)
    (gs : List RGuard) (hgs : specGuards r.method ips r.params = some gs)
    (hallow : ∀ g ∈ gs, check (g.val env) g.kind = none) :
    call check backend env r =
      ⟨.returned (backend ⟨r.method, r.params.map env⟩), [⟨r.method, r.params.map env⟩]⟩ := by
  obtain ⟨hk, hc, ha, ⟨gs', hres, hspec⟩, hsh⟩ := rowOk_unfold r h ips hips
  have : gs' = gs := by rw [hgs] at hspec; exact (Option.some.inj hspec).symm
  subst this
  simp only [hm, if_false] at hsh
  have hff := (firstFail_none_iff check env gs').mpr hallow
  simp [call, hk, hsh, hres, hff, hc, ha]

/-- The outcome of a call depends on the policy only through the repositories
the method involves: two policies that agree on the specified guards give the
same outcome. -/
theorem only_involved_repositories_matter (r : Row) (h : RowOk r = true) (hm : r.method ≠ "Repositories")
    (c1 c2 : Policy ε) (backend : Call → ρ) (env : Env)
    (ips : List String) (hips : ifaceParamNames r.method = some ips)
    (gs : List RGuard) (hgs : specGuards r.method ips r.params = some gs)
    (hagree : ∀ g ∈ gs, c1 (g.val env) g.kind = c2 (g.val env) g.kind) :
    call c1 backend env r = call c2 backend env r := by
  obtain ⟨hk, _, _, ⟨gs', hres, hspec⟩, hsh⟩ := rowOk_unfold r h ips hips
  have : gs' = gs := by rw [hgs] at hspec; exact (Option.some.inj hspec).symm
  subst this
  simp only [hm, if_false] at hsh
  have : firstFail c1 env gs' = firstFail c2 env gs' := by
    clear hres hspec hgs
    induction gs' with
    | nil => rfl
    | cons g gs ih =>
      simp only [firstFail, hagree g List.mem_cons_self]
      rw [ih (fun g' hg' => hagree g' (List.mem_cons_of_mem _ hg'))]
  simp [call, hk, hsh, hres, this]

/-! ### Repository listings -/

/-- When the policy rejects listing (`check "*" List`), the iterator delivers
that error as its only event and the wrapped registry is not called. -/
theorem listing_rejected (r : Row) (h : RowOk r = true) (hm : r.method = "Repositories")
    (check : Policy ε) (backend : Call → List (Ev ε)) (env : Env)
    (cb : σ → Ev ε → σ × Bool) (s : σ) (e : ε) (hdeny : check (strBytes "*") .list = some e) :
    repositories check backend env r cb s = some ((cb s (.error e)).1, [], 0) := by
  have hips : ifaceParamNames r.method = some ["startAfter"] := by rw [hm]; decide
  obtain ⟨hk, _, _, ⟨gs, hres, hspec⟩, hsh⟩ := rowOk_unfold r h _ hips
  simp only [hm, if_true] at hsh
  have hgs : gs = [⟨"*", true, .list⟩] := by
    have : specGuards r.method ["startAfter"] r.params = some [⟨"*", true, .list⟩] := by
      rw [hm]; simp [specGuards]; decide
    rw [this] at hspec; exact (Option.some.inj hspec).symm
  subst hgs
  simp [repositories, hk, hsh, hres, kindOf, firstFail, RGuard.val, hdeny]

/-- When listing is allowed, a consumer of the wrapper's iterator sees exactly the
visible part of the backend's listing from the same start point: the items the
policy allows for reading, in the backend's order, up to and including the first
backend error; it stops as soon as the consumer declines; one backend call. -/
theorem listing_filtered (r : Row) (h : RowOk r = true) (hm : r.method = "Repositories")
    (check : Policy ε) (backend : Call → List (Ev ε)) (env : Env)
    (cb : σ → Ev ε → σ × Bool) (s : σ) (hallow : check (strBytes "*") .list = none) :
    ∃ n, repositories check backend env r cb s =
        some ((feed cb (visible check .read (backend ⟨"Repositories", r.params.map env⟩)) s).1,
              [⟨"Repositories", r.params.map env⟩], n) ∧
      n ≤ (backend ⟨"Repositories", r.params.map env⟩).length := by
  have hips : ifaceParamNames r.method = some ["startAfter"] := by rw [hm]; decide
  obtain ⟨hk, hc, ha, ⟨gs, hres, hspec⟩, hsh⟩ := rowOk_unfold r h _ hips
  simp only [hm, if_true] at hsh
  have hgs : gs = [⟨"*", true, .list⟩] := by
    have : specGuards r.method ["startAfter"] r.params = some [⟨"*", true, .list⟩] := by
      rw [hm]; simp [specGuards]; decide
    rw [this] at hspec; exact (Option.some.inj hspec).symm
  subst hgs
  rw [hm] at hc
  refine ⟨(feed (filterCb check .read cb) (backend ⟨"Repositories", r.params.map env⟩) s).2, ?_, feed_count_le _ _ _⟩
  simp [repositories, hk, hsh, hres, kindOf, firstFail, RGuard.val, hallow, hc, ha, feed_filterCb]

/-- The visible part of an error-free backend listing is its allowed names, in order. -/
theorem visible_is_filter (check : Policy ε) (names : List Bytes) :
    visible check .read (names.map .item) = (names.filter fun n => (check n .read).isNone).map .item :=
  visible_no_error check .read names

/-- A backend error ends the listing and is forwarded as the last event. -/
theorem visible_stops_at_error (check : Policy ε) (names : List Bytes) (e : ε) (rest : List (Ev ε)) :
    visible check .read (names.map .item ++ .error e :: rest) =
      (names.filter fun n => (check n .read).isNone).map .item ++ [.error e] :=
  visible_error check .read names e rest

/-- A consumer that declines on its `k`-th event receives exactly the first `k`
visible events (all of them for a consumer that never declines). -/
theorem listing_collect (check : Policy ε) (k : Nat) (evs : List (Ev ε)) :
    (feed (filterCb check .read (collectCb k)) evs []).1 =
      if k = 0 then visible check .read evs else (visible check .read evs).take k := by
  rw [feed_filterCb]
  by_cases hk : k = 0
  · subst hk; simp [feed_collect_all]
  · simp [hk, feed_collect k _ [] (by simp; omega)]

/-! ### The selecting wrapper -/

/-- The policy `Select(r, allow)` installs: allowed names pass; a disallowed name
is refused with DENIED for writing and NAME_UNKNOWN for reading, deleting and
listing — except that the pseudo-name "*" (used to guard `Repositories`, never a
valid repository name) is always allowed to be listed. -/
theorem select_error_kinds (allow : Bytes → Bool) (name : Bytes) (k : Kind) :
    selectPolicy allow name k =
      if allow name then none
      else if k = .write then some "DENIED"
      else if k = .list ∧ name = [42] then none
      else some "NAME_UNKNOWN" := by
  have e1 : (Kind.list == Kind.write) = false := by decide
  have e2 : (Kind.read == Kind.write) = false := by decide
  have e3 : (Kind.delete == Kind.write) = false := by decide
  have e4 : (Kind.read == Kind.list) = false := by decide
  have e5 : (Kind.delete == Kind.list) = false := by decide
  cases ha : allow name
  · cases k
    · simp [selectPolicy, selectRules, evalRules, evalCond, evalResult, ha, e2, e4]
    · simp [selectPolicy, selectRules, evalRules, evalCond, evalResult, ha]
    · simp [selectPolicy, selectRules, evalRules, evalCond, evalResult, ha, e3, e5]
    · by_cases hn : name = [42]
      · subst hn
        simp [selectPolicy, selectRules, evalRules, evalCond, evalResult, ha, e1]
      · have hb : (name == [42]) = false := by simp [hn]
        simp [selectPolicy, selectRules, evalRules, evalCond, evalResult, ha, e1, hn, hb]
  · simp [selectPolicy, selectRules, evalRules, evalCond, evalResult, ha]

/-! ### Obligations on the regenerated table -/

/-- Every row extracted from the current `select.go` delegates to its own method
with its own arguments and has exactly the specified guards (Reader methods → read,
Writer → write with the source of a mount read, Deleter → delete, Lister → list
with "*" for `Repositories`). -/
theorem generated_table_ok : TableOk table = true := by decide

/-- The table has exactly one row per method of `ociregistry.Interface`. -/
theorem generated_covers_interface :
    (table.map (·.method)).Nodup ∧
    (∀ m ∈ Iface.methodParams.map (·.1), m ∈ table.map (·.method)) ∧
    (∀ m ∈ table.map (·.method), m ∈ Iface.methodParams.map (·.1)) ∧
    Iface.methodParams.length = 18 := by decide

/-- `AccessChecker(r, check)` stores `check` and `r` unchanged, and `Select`'s
policy has the four-rule shape the model interprets. -/
theorem generated_constructors_ok : constructorKnown = true ∧ selectRulesKnown = true ∧
    (∀ c ∈ selectRules, (evalCond (fun _ => true) [] .read c.1).isSome ∧ (evalResult c.2).isSome) := by decide

/-- Both repositories of a mount are checked: the source for reading, the target
for writing; either rejection keeps the wrapped registry untouched. -/
theorem mount_checks_both (check : Policy ε) (backend : Call → ρ) (env : Env)
    (hdeny : (check (env "fromRepo") .read).isSome = true ∨ (check (env "toRepo") .write).isSome = true) :
    ∃ r ∈ table, r.method = "MountBlob" ∧ ∃ e, call check backend env r = ⟨.rejected e, []⟩ := by
  have hfind : ∃ r ∈ table, r.method = "MountBlob" ∧ RowOk r = true ∧ r.params = ["fromRepo", "toRepo", "digest"] := by decide
  obtain ⟨r, hr, hm, hok, hp⟩ := hfind
  refine ⟨r, hr, hm, ?_⟩
  have hips : ifaceParamNames r.method = some ["fromRepo", "toRepo", "digest"] := by rw [hm]; decide
  have hgs : specGuards r.method ["fromRepo", "toRepo", "digest"] r.params =
      some [⟨"fromRepo", false, .read⟩, ⟨"toRepo", false, .write⟩] := by rw [hm, hp]; decide
  have hne : r.method ≠ "Repositories" := by rw [hm]; decide
  obtain ⟨e, he, _⟩ := denied_no_backend_call r hok hne check backend env _ hips _ hgs (by
    rcases hdeny with hd | hd
    · exact ⟨⟨"fromRepo", false, .read⟩, by simp, by simpa [RGuard.val] using hd⟩
    · exact ⟨⟨"toRepo", false, .write⟩, by simp, by simpa [RGuard.val] using hd⟩)
  exact ⟨e, he⟩

/-- The property for the code as it is now: every row of the regenerated table is
well-formed, so the general theorems apply to every method of the interface. -/
theorem C12_holds (r : Row) (hr : r ∈ table) : RowOk r = true := by
  have := generated_table_ok
  simp [TableOk, List.all_eq_true] at this
  exact this r hr

/-! ### The selecting wrapper, at the level of the wrapper -/

/-- `select_error_kinds` at the level of the WRAPPER `Select(r, allow)`, i.e. of
`call (selectPolicy allow)`: the guards of a method are evaluated in source order
(`gs = pre ++ g :: post`); if `allow` admits the repositories of all guards before
`g` and refuses the repository of `g`, the call is answered by a rejection with an
EMPTY log of calls on the wrapped registry, and the error is DENIED when `g` asks
for write access and NAME_UNKNOWN when it asks for read, delete or list access.
The one exception the policy makes is spelled out as a hypothesis: listing the
pseudo-name "*" is never refused, so for a list guard (`Tags`, `Referrers`) the
argument must not be "*". -/
theorem select_wrapper_error_kinds (r : Row) (h : RowOk r = true) (hm : r.method ≠ "Repositories")
    (allow : Bytes → Bool) (backend : Call → ρ) (env : Env)
    (ips : List String) (hips : ifaceParamNames r.method = some ips)
    (gs : List RGuard) (hgs : specGuards r.method ips r.params = some gs)
    (pre post : List RGuard) (g : RGuard) (hsplit : gs = pre ++ g :: post)
    (hpre : ∀ g' ∈ pre, allow (g'.val env) = true)
    (hg : allow (g.val env) = false)
    (hstar : g.kind = .list → g.val env ≠ strBytes "*") :
    call (selectPolicy allow) backend env r =
      ⟨.rejected (if g.kind = .write then "DENIED" else "NAME_UNKNOWN"), []⟩ := by
  obtain ⟨hk, _, _, ⟨gs', hres, hspec⟩, hsh⟩ := rowOk_unfold r h ips hips
  have : gs' = gs := by rw [hgs] at hspec; exact (Option.some.inj hspec).symm
  subst this
  simp only [hm, if_false] at hsh
  have hstar' : ¬ (g.kind = .list ∧ g.val env = [42]) := fun ⟨h1, h2⟩ => hstar h1 (by rw [h2]; decide)
  have hff : firstFail (selectPolicy allow) env gs' =
      some (if g.kind = .write then "DENIED" else "NAME_UNKNOWN") := by
    rw [hsplit, firstFail_append_of_pass _ _ _ _ (fun g' hg' => by
      rw [select_error_kinds, hpre g' hg']; rfl)]
    simp only [firstFail]
    rw [select_error_kinds, hg]
    by_cases hw : g.kind = .write
    · simp [hw]
    · simp [hw, hstar']
  simp [call, hk, hsh, hres, hff]

/-- The single-repository methods of the regenerated table (all but `MountBlob`
and `Repositories`): the only check is on `repo`, with the kind of the method's
interface group. -/
theorem generated_single_guard : ∀ r ∈ table, r.method ≠ "Repositories" → r.method ≠ "MountBlob" →
    ∃ k ips, groupKind r.method = some k ∧ ifaceParamNames r.method = some ips ∧
      specGuards r.method ips r.params = some [⟨"repo", false, k⟩] := by
  have hdec : ∀ r ∈ table, r.method ≠ "Repositories" → r.method ≠ "MountBlob" →
      (groupKind r.method).isSome = true ∧ (ifaceParamNames r.method).isSome = true ∧
      specGuards r.method ((ifaceParamNames r.method).getD []) r.params =
        some [⟨"repo", false, (groupKind r.method).getD .read⟩] := by decide
  intro r hr h1 h2
  obtain ⟨a, b, c⟩ := hdec r hr h1 h2
  cases hk : groupKind r.method with
  | none => simp [hk] at a
  | some k =>
    cases hi : ifaceParamNames r.method with
    | none => simp [hi] at b
    | some ips => exact ⟨k, ips, rfl, rfl, by simpa [hk, hi] using c⟩

/-- `Select(r, allow)` on the 16 single-repository methods of the current source: a
refused `repo` is answered, without any call on the wrapped registry, by DENIED
for the Writer methods and NAME_UNKNOWN for the Reader, Deleter and Lister methods
(`Tags`, `Referrers` of a repository not named "*"). -/
theorem select_wrapper_single (r : Row) (hr : r ∈ table)
    (hm : r.method ≠ "Repositories") (hmb : r.method ≠ "MountBlob")
    (allow : Bytes → Bool) (backend : Call → ρ) (env : Env)
    (hg : allow (env "repo") = false)
    (hstar : groupKind r.method = some .list → env "repo" ≠ strBytes "*") :
    call (selectPolicy allow) backend env r =
      ⟨.rejected (if groupKind r.method = some .write then "DENIED" else "NAME_UNKNOWN"), []⟩ := by
  obtain ⟨k, ips, hgk, hips, hgs⟩ := generated_single_guard r hr hm hmb
  have hok : RowOk r = true := C12_holds r hr
  have := select_wrapper_error_kinds r hok hm allow backend env ips hips _ hgs [] [] ⟨"repo", false, k⟩ rfl
    (by simp) (by simpa [RGuard.val] using hg)
    (by intro hk; simp only at hk; subst hk; simpa [RGuard.val] using hstar hgk)
  simpa [hgk] using this

/-- `Select(r, allow)` on `MountBlob`: the SOURCE repository is checked first (for
reading), the target second (for writing). Hence a refused source is answered by
NAME_UNKNOWN whatever `allow` says of the target — also when both are refused —
and DENIED is the answer exactly when the source is admitted and the target
refused. In both cases the wrapped registry is not called. -/
theorem select_wrapper_mount (allow : Bytes → Bool) (backend : Call → ρ) (env : Env) :
    ∃ r ∈ table, r.method = "MountBlob" ∧
      (allow (env "fromRepo") = false →
        call (selectPolicy allow) backend env r = ⟨.rejected "NAME_UNKNOWN", []⟩) ∧
      (allow (env "fromRepo") = true → allow (env "toRepo") = false →
        call (selectPolicy allow) backend env r = ⟨.rejected "DENIED", []⟩) := by
  have hfind : ∃ r ∈ table, r.method = "MountBlob" ∧ RowOk r = true ∧ r.params = ["fromRepo", "toRepo", "digest"] := by decide
  obtain ⟨r, hr, hm, hok, hp⟩ := hfind
  refine ⟨r, hr, hm, ?_, ?_⟩
  all_goals
    have hips : ifaceParamNames r.method = some ["fromRepo", "toRepo", "digest"] := by rw [hm]; decide
    have hgs : specGuards r.method ["fromRepo", "toRepo", "digest"] r.params =
        some [⟨"fromRepo", false, .read⟩, ⟨"toRepo", false, .write⟩] := by rw [hm, hp]; decide
    have hne : r.method ≠ "Repositories" := by rw [hm]; decide
  · intro hf
    have := select_wrapper_error_kinds r hok hne allow backend env _ hips _ hgs
      [] [⟨"toRepo", false, .write⟩] ⟨"fromRepo", false, .read⟩ rfl (by simp)
      (by simpa [RGuard.val] using hf) (by simp)
    simpa using this
  · intro hf ht
    have := select_wrapper_error_kinds r hok hne allow backend env _ hips _ hgs
      [⟨"fromRepo", false, .read⟩] [] ⟨"toRepo", false, .write⟩ rfl
      (by simpa [RGuard.val] using hf) (by simpa [RGuard.val] using ht) (by simp)
    simpa using this

/-- Why `select_wrapper_error_kinds` excludes "*" for list guards: `Select` never
refuses `Tags` of the pseudo-name "*", even when `allow` admits nothing — the call
reaches the wrapped registry. -/
theorem select_wrapper_star_listed (backend : Call → ρ) (env : Env) (henv : env "repo" = strBytes "*") :
    ∃ r ∈ table, r.method = "Tags" ∧
      call (selectPolicy fun _ => false) backend env r =
        ⟨.returned (backend ⟨"Tags", r.params.map env⟩), [⟨"Tags", r.params.map env⟩]⟩ := by
  have hfind : ∃ r ∈ table, r.method = "Tags" ∧ RowOk r = true ∧ r.params = ["repo", "startAfter"] := by decide
  obtain ⟨r, hr, hm, hok, hp⟩ := hfind
  refine ⟨r, hr, hm, ?_⟩
  have hips : ifaceParamNames r.method = some ["repo", "startAfter"] := by rw [hm]; decide
  have hgs : specGuards r.method ["repo", "startAfter"] r.params = some [⟨"repo", false, .list⟩] := by
    rw [hm, hp]; decide
  have hne : r.method ≠ "Repositories" := by rw [hm]; decide
  have := allowed_transparent r hok hne (selectPolicy fun _ => false) backend env _ hips _ hgs (by
    intro g hg
    simp only [List.mem_singleton] at hg
    subst hg
    rw [select_error_kinds]
    have : strBytes "*" = [42] := by decide
    simp [RGuard.val, henv, this])
  rw [hm] at this
  exact this

/-- The hypotheses of `select_wrapper_error_kinds` on a concrete instance: the
`MountBlob` guards split at the target, `allow` admits only "a", the mount is from
"a" to "b". -/
example :
    let allow : Bytes → Bool := fun n => n == [97]
    let env : Env := fun p => if p = "fromRepo" then [97] else [98]
    let pre : List RGuard := [⟨"fromRepo", false, .read⟩]
    let g : RGuard := ⟨"toRepo", false, .write⟩
    (∃ r ∈ table, RowOk r = true ∧ r.method ≠ "Repositories" ∧
      ifaceParamNames r.method = some ["fromRepo", "toRepo", "digest"] ∧
      specGuards r.method ["fromRepo", "toRepo", "digest"] r.params = some (pre ++ g :: [])) ∧
    (∀ g' ∈ pre, allow (g'.val env) = true) ∧ allow (g.val env) = false ∧
    (g.kind = .list → g.val env ≠ strBytes "*") := by decide

/-- ... and of `select_wrapper_single` (a `Tags` row, a refused repository "b"),
with the outcomes of the three wrapper theorems evaluated on the table. -/
example :
    let allow : Bytes → Bool := fun n => n == [97]
    let env : Env := fun p => if p = "fromRepo" then [97] else [98]
    let backend : Call → Nat := fun _ => 0
    (∃ r ∈ table, r.method = "Tags" ∧ allow (env "repo") = false ∧
      (groupKind r.method = some .list → env "repo" ≠ strBytes "*") ∧
      call (selectPolicy allow) backend env r = ⟨.rejected "NAME_UNKNOWN", []⟩) ∧
    (∃ r ∈ table, r.method = "PushBlob" ∧
      call (selectPolicy allow) backend env r = ⟨.rejected "DENIED", []⟩) ∧
    (∃ r ∈ table, r.method = "MountBlob" ∧
      call (selectPolicy allow) backend env r = ⟨.rejected "DENIED", []⟩ ∧
      call (selectPolicy allow) backend (fun _ => [98]) r = ⟨.rejected "NAME_UNKNOWN", []⟩) := by decide

/-! ### Non-vacuity -/

/-- A concrete row, policy and arguments meeting the hypotheses of
`denied_no_backend_call` (a policy that refuses reading "b" with error 7). -/
theorem nonvacuous_row : ∃ r ∈ table, r.method = "GetBlob" ∧ RowOk r = true ∧
    ifaceParamNames r.method = some ["repo", "digest"] ∧
    specGuards r.method ["repo", "digest"] r.params = some [⟨"repo", false, .read⟩] := by decide

example :
    let check : Policy Nat := fun n k => if n = [98] ∧ k = .read then some 7 else none
    let env : Env := fun p => if p = "repo" then [98] else [1]
    (∃ g ∈ [(⟨"repo", false, .read⟩ : RGuard)], (check (g.val env) g.kind).isSome = true) ∧
    (∀ g ∈ [(⟨"repo", false, .write⟩ : RGuard)], check (g.val env) g.kind = none) := by decide

/-- A listing with a refused name and a backend error, consumed by a consumer that
declines on its second event. -/
example :
    let check : Policy Nat := fun n k => if n = [98] ∧ k = .read then some 7 else none
    (feed (filterCb check .read (collectCb 2)) [.item [97], .item [98], .item [99], .error 5, .item [100]] []).1
      = [.item [97], .item [99]] ∧
    visible check .read [.item [97], .item [98], .item [99], .error 5, .item [100]]
      = [.item [97], .item [99], .error 5] := by decide

end OciModel.Props.C12
