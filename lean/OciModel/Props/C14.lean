/-
C14 — immutable tags in `ocimem`.

All theorems are for an arbitrary hash `H : Bytes → Bytes`. The only property of
`H` ever used is an explicit hypothesis: "the tagged bytes have no second preimage"
(`hnc`) in `tagged_manifest_retained(_run)` / `getTag_stable_of_no_second_preimage`,
or its consequence of full collision-freeness (`hinj`) in `getTag_stable`.
Helper lemmas live in `OciModel/MemImmutable.lean`; every state-machine theorem
below is a corollary of `Mem.step_eff` (each operation changes each repository by
one of seven `RepoStep`s).

Summary (model with the retype rule, i.e. after the F19 fix)
* T1 `tag_stable`, `tag_stable_run`, `resolveTag_stable`.
* T2 `tagged_manifest_retained`, `_run`, `getTag_stable` (now the whole descriptor,
  media type included, is stable); `Inv` preserved.
* T3 `referenced_retained`, `referenced_manifest_retained`.
* T4 `refersTo_iff_reach`, `taggedRefersTo_iff_reachable` (the fuel is never a
  restriction, in any state), `reachable_retained`, `unreachable_deleted`.
* T5 `nothing_tagged_changes`.
* Retype rule: `retype_tagged_refused`, `retype_tagged_unchanged`.
* F42 (a child is followed under the media type it is stored with AND under the one the
  parent declares for it): `refersTo_iff_reach` / `taggedRefersTo_iff_reachable` are now about
  a `Reach` with the constructor `stepAs`; new `taggedRefersTo_declared`,
  `declared_reference_retained`, `declared_reference_manifest_retained`,
  `declared_reference_retained_run`, witness `Witness.sF_layer_protected`.
* Histories (false before the fix): `reachable_retained_run`,
  `reachable_manifest_retained_run`, `reachable_delete_denied_run`,
  `referenced_retained_run`, under `DecFunctional`/`ManOK` and collision-freeness on
  the pushed manifest bytes.
* Concurrency (section "Under concurrency"): the same over EVERY schedule of the interleaving
  model `MemConc` (`arun`: registry operations and the two halves of chunked commits of any number
  of clients, in any order): `tag_stable_arun`, `resolveTag_stable_arun`, `tagged_present_arun`,
  `tagged_manifest_kept_arun`, `getTag_stable_arun`, `reachable_blob_kept_arun`,
  `reachable_manifest_kept_arun`, `reachable_delete_denied_arun`; helpers in
  `OciModel/MemConcImmutable.lean`.
-/
import OciModel.MemImmutable
import OciModel.MemConcImmutable
import OciModel.ManifestDecodeLemmas

namespace OciModel.Props.C14
open OciModel.Mem

variable (H : Bytes → Bytes)

/-! ### The mode itself -/

/-- In immutable-tags mode `deleteTag` never changes the state. -/
theorem deleteTag_immutable (s : State) (h : s.immutableTags = true) (r t : Bytes) :
    (step H s (.deleteTag r t)).1 = s := by
  simp only [step]
  split
  · rfl
  · split
    · rfl
    · rfl

/-- No operation changes the mode. -/
theorem immutable_preserved (s : State) (op : Op) : (step H s op).1.immutableTags = s.immutableTags :=
  Mem.immutable_preserved H s op

theorem immutable_preserved_run (s : State) (ops : List Op) :
    (run H s ops).1.immutableTags = s.immutableTags :=
  Mem.immutable_preserved_run H s ops

/-- The digest invariant (every stored blob/manifest sits under the hash of its
bytes) holds initially and is preserved by every operation. -/
theorem inv_init (imm : Bool) : Inv H (init imm) := Inv_init H imm

theorem inv_preserved {s : State} (hinv : Inv H s) (op : Op) : Inv H (step H s op).1 := Inv_step H hinv op

theorem inv_preserved_run {s : State} (hinv : Inv H s) (ops : List Op) : Inv H (run H s ops).1 :=
  Inv_run H hinv ops

/-! ### T1: a tag resolves to the same descriptor forever -/

theorem tag_stable {s : State} (him : s.immutableTags = true) {r t : Bytes} {rp : Repo} {d : Desc}
    (hg : getRepo s r = some rp) (ht : alookup t rp.tags = some d) (op : Op) :
    ∃ rp', getRepo (step H s op).1 r = some rp' ∧ alookup t rp'.tags = some d :=
  Eff.tag_stable H him (step_eff H s op) hg ht

theorem tag_stable_run {s : State} (him : s.immutableTags = true) {r t : Bytes} {rp : Repo} {d : Desc}
    (hg : getRepo s r = some rp) (ht : alookup t rp.tags = some d) (ops : List Op) :
    ∃ rp', getRepo (run H s ops).1 r = some rp' ∧ alookup t rp'.tags = some d := by
  have := run_induction H
    (P := fun s => s.immutableTags = true ∧ ∃ rp', getRepo s r = some rp' ∧ alookup t rp'.tags = some d)
    (fun s op ⟨him, rp', hg, ht⟩ => ⟨(immutable_preserved H s op).trans him, tag_stable H him hg ht op⟩)
    s ⟨him, rp, hg, ht⟩ ops
  exact this.2

/-- In the property's words: once `resolveTag r t` has answered `d`, it answers `d`
after every history. -/
theorem resolveTag_stable {s s0 : State} (him : s.immutableTags = true) {r t : Bytes} {d : Desc}
    (h : step H s (.resolveTag r t) = (s0, .okDesc d)) (ops : List Op) :
    step H (run H s ops).1 (.resolveTag r t) = ((run H s ops).1, .okDesc d) := by
  obtain ⟨rp, hg, ht⟩ := resolveTag_ok H h
  obtain ⟨rp', hg', ht'⟩ := tag_stable_run H him hg ht ops
  exact resolveTag_eq H hg' ht'

/-! ### T2: the manifest a tag points at is retained -/

/-- State predicate: tag `t` of repository `r` is `d` and the manifest stored under
`d.digest` has the bytes `data` and the media type `mt`. -/
def TaggedData (s : State) (r t : Bytes) (d : Desc) (data mt : Bytes) : Prop :=
  ∃ rp b, getRepo s r = some rp ∧ alookup t rp.tags = some d ∧
    alookup d.digest rp.manifests = some b ∧ b.data = data ∧ b.mediaType = mt

/-- State predicate: tag `t` of repository `r` is `d` and a manifest of media type
`mt` is stored under `d.digest`. -/
def TaggedPresent (s : State) (r t : Bytes) (d : Desc) (mt : Bytes) : Prop :=
  ∃ rp b, getRepo s r = some rp ∧ alookup t rp.tags = some d ∧
    alookup d.digest rp.manifests = some b ∧ b.mediaType = mt

/-- One step: the tag stays, a manifest stays under `d.digest` with the same media
type (the retype rule), its bytes hash to `d.digest` (uses the digest invariant,
which is itself preserved: `inv_preserved`), and if the stored bytes have no second
preimage under `H` (in particular if `H` has no collisions at all) they are the
same bytes. -/
theorem tagged_manifest_retained {s : State} (him : s.immutableTags = true) (hinv : Inv H s)
    {r t : Bytes} {rp : Repo} {d : Desc} {b : Blob}
    (hg : getRepo s r = some rp) (ht : alookup t rp.tags = some d)
    (hm : alookup d.digest rp.manifests = some b) (op : Op) :
    ∃ rp' b', getRepo (step H s op).1 r = some rp' ∧ alookup t rp'.tags = some d ∧
      alookup d.digest rp'.manifests = some b' ∧ H b'.data = d.digest ∧ b'.mediaType = b.mediaType ∧
      ((∀ x, H x = H b.data → x = b.data) → b'.data = b.data) := by
  obtain ⟨rp', b', hg', ht', hm', hor⟩ := Eff.tagged_manifest H him (step_eff H s op) hg ht hm
  have hb : H b.data = d.digest := (hinv r rp hg).2 _ _ hm
  have hb' : H b'.data = d.digest := (inv_preserved H hinv op r rp' hg').2 _ _ hm'
  have hmt : b'.mediaType = b.mediaType := by
    rcases hor with rfl | ⟨_, h⟩
    · rfl
    · exact h
  exact ⟨rp', b', hg', ht', hm', hb', hmt, fun hnc => hnc _ (hb'.trans hb.symm)⟩

/-- Without any assumption on `H` and without `Inv`: the tagged manifest stays
present, with its media type. -/
theorem tagged_present_run {s : State} (him : s.immutableTags = true) {r t : Bytes} {d : Desc} {mt : Bytes}
    (h : TaggedPresent s r t d mt) (ops : List Op) : TaggedPresent (run H s ops).1 r t d mt := by
  have := run_induction H (P := fun s => s.immutableTags = true ∧ TaggedPresent s r t d mt)
    (fun s op ⟨him, rp, b, hg, ht, hm, hmt⟩ =>
      ⟨(immutable_preserved H s op).trans him,
        let ⟨rp', b', hg', ht', hm', hor⟩ := Eff.tagged_manifest H him (step_eff H s op) hg ht hm
        ⟨rp', b', hg', ht', hm', by
          rcases hor with rfl | ⟨_, h⟩
          · exact hmt
          · exact h.trans hmt⟩⟩)
    s ⟨him, h⟩ ops
  exact this.2

/-- Histories: if the tagged bytes have no second preimage under `H`, the tagged
manifest keeps its bytes and media type forever. -/
theorem tagged_manifest_retained_run {s : State} (him : s.immutableTags = true) (hinv : Inv H s)
    {r t : Bytes} {d : Desc} {data mt : Bytes} (hnc : ∀ x, H x = H data → x = data)
    (h : TaggedData s r t d data mt) (ops : List Op) : TaggedData (run H s ops).1 r t d data mt := by
  have := run_induction H
    (P := fun s => s.immutableTags = true ∧ Inv H s ∧ TaggedData s r t d data mt)
    (fun s op ⟨him, hinv, rp, b, hg, ht, hm, hd, hmt⟩ =>
      ⟨(immutable_preserved H s op).trans him, inv_preserved H hinv op,
        let ⟨rp', b', hg', ht', hm', _, hmt', hsame⟩ := tagged_manifest_retained H him hinv hg ht hm op
        ⟨rp', b', hg', ht', hm', (hsame (hd ▸ hnc)).trans hd, hmt'.trans hmt⟩⟩)
    s ⟨him, hinv, h⟩ ops
  exact this.2.2

/-- `getTag` keeps returning exactly the same descriptor and bytes, provided these
bytes have no second preimage under `H`. -/
theorem getTag_stable_of_no_second_preimage {s s0 : State} (him : s.immutableTags = true) (hinv : Inv H s)
    {r t : Bytes} {desc : Desc} {data : Bytes} (hnc : ∀ x, H x = H data → x = data)
    (h : step H s (.getTag r t) = (s0, .okRead desc data)) (ops : List Op) :
    step H (run H s ops).1 (.getTag r t) = ((run H s ops).1, .okRead desc data) := by
  obtain ⟨rp, d, b, hg, ht, hm, rfl, rfl⟩ := getTag_ok H h
  obtain ⟨rp', b', hg', ht', hm', hd, hmt⟩ :=
    tagged_manifest_retained_run H him hinv hnc ⟨rp, b, hg, ht, hm, rfl, rfl⟩ ops
  rw [getTag_eq H hg' ht' hm', hd]
  simp [descOf, hd, hmt]

/-- In the property's words: with a collision-free `H`, once `getTag r t` has returned
`desc` and `data` it returns the same `desc` (media type included, thanks to the
retype rule) and `data` after every history. -/
theorem getTag_stable {s s0 : State} (him : s.immutableTags = true) (hinv : Inv H s)
    (hinj : ∀ x y, H x = H y → x = y) {r t : Bytes} {desc : Desc} {data : Bytes}
    (h : step H s (.getTag r t) = (s0, .okRead desc data)) (ops : List Op) :
    step H (run H s ops).1 (.getTag r t) = ((run H s ops).1, .okRead desc data) :=
  getTag_stable_of_no_second_preimage H him hinv (fun x => hinj x data) h ops

/-! ### T3: what a tagged manifest references directly cannot be deleted -/

/-- Reachability at depth 2: tag → its manifest → one of the manifest's references. -/
theorem taggedRefersTo_direct {rp : Repo} {t : Bytes} {d : Desc} {b : Blob} {ref : RefInfo}
    (ht : alookup t rp.tags = some d) (hm : alookup d.digest rp.manifests = some b) (href : ref ∈ b.refs) :
    taggedRefersTo rp ref.desc.digest = true :=
  (taggedRefersTo_iff rp _).2 ⟨2, .step (mem_tagRefs ht) (.inl rfl) hm (.here href rfl)⟩

/-- A blob referenced by a tagged manifest (any kind of reference; layers and config
are kind 0) cannot be deleted: the call is `DENIED` and the state is unchanged. -/
theorem referenced_retained {s : State} (him : s.immutableTags = true)
    {r t : Bytes} {rp : Repo} {d : Desc} {b x : Blob} {ref : RefInfo}
    (hg : getRepo s r = some rp) (ht : alookup t rp.tags = some d)
    (hm : alookup d.digest rp.manifests = some b) (href : ref ∈ b.refs)
    (hpres : alookup ref.desc.digest rp.blobs = some x) :
    step H s (.deleteBlob r ref.desc.digest) = (s, .err "DENIED") :=
  deleteBlob_denied H him hg hpres (taggedRefersTo_direct ht hm href)

/-- The same for a manifest referenced by a tagged manifest (index entries are kind 1,
subjects kind 2). -/
theorem referenced_manifest_retained {s : State} (him : s.immutableTags = true)
    {r t : Bytes} {rp : Repo} {d : Desc} {b x : Blob} {ref : RefInfo}
    (hg : getRepo s r = some rp) (ht : alookup t rp.tags = some d)
    (hm : alookup d.digest rp.manifests = some b) (href : ref ∈ b.refs)
    (hpres : alookup ref.desc.digest rp.manifests = some x) :
    step H s (.deleteManifest r ref.desc.digest) = (s, .err "DENIED") :=
  deleteManifest_denied H him hg hpres (taggedRefersTo_direct ht hm href)

/-! ### T4: transitive references -/

-- F42: `Reach` follows a stored manifest under its stored media type (`step`) and under the
-- media type the reference declares for it (`stepAs`)
/-- `refersTo` is exactly depth-bounded reachability. -/
theorem refersTo_iff_reach (rp : Repo) (target : Bytes) (fuel : Nat) (refs : List RefInfo) :
    refersTo rp target fuel refs = true ↔ Reach rp fuel refs target :=
  Mem.refersTo_iff_reach rp target fuel refs

-- F42: the fuel is `3 * manifests.length + 2` (was `manifests.length + 2`) and `ReachU` has `stepAs`
/-- The fuel `3 * manifests.length + 2` is never a restriction, in any state whatsoever:
the check equals reachability at *any* depth. (A shortest reference path continues from
each of the at most three reference lists of a stored manifest — under its stored media
type, as an image manifest, as an image index — at most once; cycles, e.g. through
dangling subjects, do no harm.) -/
theorem taggedRefersTo_iff_reachable (rp : Repo) (target : Bytes) :
    taggedRefersTo rp target = true ↔ ReachU rp (tagRefs rp) target :=
  taggedRefersTo_iff rp target

/-- Whatever is reachable from a tag, at any depth, through stored manifests cannot
be deleted. -/
theorem reachable_retained {s : State} (him : s.immutableTags = true) {r x : Bytes} {rp : Repo} {bx : Blob}
    (hg : getRepo s r = some rp) (hreach : ReachU rp (tagRefs rp) x)
    (hpres : alookup x rp.blobs = some bx) :
    step H s (.deleteBlob r x) = (s, .err "DENIED") :=
  deleteBlob_denied H him hg hpres ((taggedRefersTo_iff rp x).2 hreach)

theorem reachable_manifest_retained {s : State} (him : s.immutableTags = true) {r x : Bytes} {rp : Repo}
    {bx : Blob} (hg : getRepo s r = some rp) (hreach : ReachU rp (tagRefs rp) x)
    (hpres : alookup x rp.manifests = some bx) :
    step H s (.deleteManifest r x) = (s, .err "DENIED") :=
  deleteManifest_denied H him hg hpres ((taggedRefersTo_iff rp x).2 hreach)

/-- Conversely the protection is exact: a stored blob that is not reachable from any
tag is deleted. -/
theorem unreachable_deleted {s : State} {r x : Bytes} {rp : Repo} {bx : Blob}
    (hg : getRepo s r = some rp) (hunreach : ¬ ReachU rp (tagRefs rp) x)
    (hpres : alookup x rp.blobs = some bx) :
    step H s (.deleteBlob r x) = (putRepo s r { rp with blobs := aerase x rp.blobs }, .okUnit) := by
  refine deleteBlob_allowed H hg hpres ?_
  cases h : taggedRefersTo rp x with
  | false => rfl
  | true => exact absurd ((taggedRefersTo_iff rp x).1 h) hunreach

/-! ### F42: a child is followed under the media type its parent declares for it

The same bytes can be stored under another media type as long as no tag leads to them
(the retype rule only protects what a tag leads to). A tagged index pushed afterwards
that lists them under the first media type is read, by whoever pulls it, as leading to
what the bytes reference under that media type. `refersTo` follows a stored manifest
under its stored media type (F15) and under the declared one (`refsAs`). -/

/-- What the stored bytes decode to under a media type other than the stored one is
what `refsAs` gives. -/
theorem refsAs_of_decode {b : Blob} {mt : Bytes} {rs : List RefInfo}
    (hne : mt ≠ b.mediaType) (hdec : ManifestDecode.decodeRefs mt b.data = .refs rs) : refsAs b mt = rs := by
  unfold refsAs
  rw [if_neg hne, hdec]

theorem mem_refsAs {b : Blob} {mt : Bytes} {rs : List RefInfo} {cref : RefInfo}
    (hne : mt ≠ b.mediaType) (hdec : ManifestDecode.decodeRefs mt b.data = .refs rs) (hc : cref ∈ rs) :
    cref ∈ refsAs b mt := by
  rw [refsAs_of_decode hne hdec]
  exact hc

/-- Reachability at depth 3: tag → its manifest → a child manifest, read as the media
type the reference declares for it → one of the references it then has. -/
theorem taggedRefersTo_declared {rp : Repo} {t : Bytes} {d : Desc} {b child : Blob} {ref cref : RefInfo}
    (ht : alookup t rp.tags = some d) (hm : alookup d.digest rp.manifests = some b) (href : ref ∈ b.refs)
    (hk : ref.kind = 1 ∨ ref.kind = 2) (hc : alookup ref.desc.digest rp.manifests = some child)
    (hcref : cref ∈ refsAs child ref.desc.mediaType) :
    taggedRefersTo rp cref.desc.digest = true :=
  (taggedRefersTo_iff rp _).2
    ⟨3, .step (mem_tagRefs ht) (.inl rfl) hm (.stepAs href hk hc (.here hcref rfl))⟩

/-- **The F42 guarantee.** A blob that a child manifest references under the media type
the tagged parent declares for it — whatever media type the child is stored with —
cannot be deleted: the call is `DENIED` and the state is unchanged. -/
theorem declared_reference_retained {s : State} (him : s.immutableTags = true)
    {r t : Bytes} {rp : Repo} {d : Desc} {b child x : Blob} {ref cref : RefInfo}
    (hg : getRepo s r = some rp) (ht : alookup t rp.tags = some d)
    (hm : alookup d.digest rp.manifests = some b) (href : ref ∈ b.refs)
    (hk : ref.kind = 1 ∨ ref.kind = 2) (hc : alookup ref.desc.digest rp.manifests = some child)
    (hcref : cref ∈ refsAs child ref.desc.mediaType)
    (hpres : alookup cref.desc.digest rp.blobs = some x) :
    step H s (.deleteBlob r cref.desc.digest) = (s, .err "DENIED") :=
  deleteBlob_denied H him hg hpres (taggedRefersTo_declared ht hm href hk hc hcref)

/-- The same for a manifest the child references under the declared media type. -/
theorem declared_reference_manifest_retained {s : State} (him : s.immutableTags = true)
    {r t : Bytes} {rp : Repo} {d : Desc} {b child x : Blob} {ref cref : RefInfo}
    (hg : getRepo s r = some rp) (ht : alookup t rp.tags = some d)
    (hm : alookup d.digest rp.manifests = some b) (href : ref ∈ b.refs)
    (hk : ref.kind = 1 ∨ ref.kind = 2) (hc : alookup ref.desc.digest rp.manifests = some child)
    (hcref : cref ∈ refsAs child ref.desc.mediaType)
    (hpres : alookup cref.desc.digest rp.manifests = some x) :
    step H s (.deleteManifest r cref.desc.digest) = (s, .err "DENIED") :=
  deleteManifest_denied H him hg hpres (taggedRefersTo_declared ht hm href hk hc hcref)

/-! ### T5: pushing to an existing tag changes nothing -/

/-- In immutable mode `pushManifest` to an existing tag either fails or returns the
*existing* descriptor (only when digest and media type both agree); either way the
whole state — tags, manifests, blobs, uploads — is unchanged. (`t ≠ []`: the empty
tag means "push untagged"; no valid tag is empty.) -/
theorem nothing_tagged_changes {s : State} (him : s.immutableTags = true) {r t : Bytes} {rp : Repo}
    {cur : Desc} (hg : getRepo s r = some rp) (ht : alookup t rp.tags = some cur) (hne : t ≠ [])
    (data mt : Bytes) (dec : Decoded) :
    (∃ e, step H s (.pushManifest r t data mt dec) = (s, .err e)) ∨
    (step H s (.pushManifest r t data mt dec) = (s, .okDesc cur) ∧ cur.digest = H data ∧ cur.mediaType = mt) :=
  pushManifest_existing_tag H him hg ht hne data mt dec

/-! ### The retype rule

Before the fix, pushing the bytes of a tagged manifest again — untagged, or under a
fresh tag — with another media type overwrote `manifests[digest]`; references are
decoded under the *stored* media type, so an unknown media type made the tagged
manifest reference nothing and its layers became deletable. Now such a push is
refused. -/

/-- In immutable mode a manifest stored under a digest reachable from a tag cannot be
re-stored under another media type (untagged, or under a fresh valid tag): the call
is `DENIED` and nothing changes. -/
theorem retype_tagged_refused {s : State} (him : s.immutableTags = true) {r t : Bytes} {rp : Repo}
    {b0 : Blob} (hg : getRepo s r = some rp) (hr : Ref.isRepo r = true) {data mt : Bytes}
    (hm : alookup (H data) rp.manifests = some b0) (hmt : b0.mediaType ≠ mt)
    (hreach : ReachU rp (tagRefs rp) (H data))
    (hfresh : t = [] ∨ (Ref.isTag t = true ∧ alookup t rp.tags = none)) (dec : Decoded) :
    step H s (.pushManifest r t data mt dec) = (s, .err "DENIED") :=
  pushManifest_retype_refused H him hg hr hm hmt ((taggedRefersTo_iff rp _).2 hreach) hfresh dec

/-- Whatever the tag argument, such a push leaves the state unchanged. -/
theorem retype_tagged_unchanged {s : State} (him : s.immutableTags = true) {r t : Bytes} {rp : Repo}
    {b0 : Blob} (hg : getRepo s r = some rp) {data mt : Bytes}
    (hm : alookup (H data) rp.manifests = some b0) (hmt : b0.mediaType ≠ mt)
    (hreach : ReachU rp (tagRefs rp) (H data)) (dec : Decoded) :
    (step H s (.pushManifest r t data mt dec)).1 = s :=
  pushManifest_retype_unchanged H him hg hm hmt ((taggedRefersTo_iff rp _).2 hreach) dec

/-! ### Retention over histories

What is reachable from a tag and stored stays reachable and stored after every
history. Hypotheses that are about the environment, not the registry:

* `DecFunctional decOf D ops`: every `pushManifest _ _ data mt dec` in `ops` has
  `dec = decOf data mt` (the harness decodes with the real JSON decoder, a function
  of bytes and media type) and `D data`; and `ManOK decOf D s`: the stored manifests
  of the starting state agree with `decOf` and lie in `D` (true of `init`, preserved);
* `hinj`: `H` has no collisions among the manifest byte strings in `D`
  (`D := fun _ => True` is plain collision-freeness). With a collision, other bytes
  could be stored under the same digest and media type, with other references.
-/

/-- Every manifest push in `ops` takes its decoding from `decOf` and its bytes from `D`. -/
def DecFunctional (decOf : Bytes → Bytes → Decoded) (D : Bytes → Prop) (ops : List Op) : Prop :=
  ∀ op, op ∈ ops → OpOK decOf D op

theorem manOK_init (decOf : Bytes → Bytes → Decoded) (D : Bytes → Prop) (imm : Bool) :
    ManOK decOf D (init imm) := ManOK_init decOf D imm

theorem manOK_preserved_run (decOf : Bytes → Bytes → Decoded) (D : Bytes → Prop) {s : State}
    (hok : ManOK decOf D s) {ops : List Op} (hops : DecFunctional decOf D ops) :
    ManOK decOf D (run H s ops).1 :=
  run_induction_ops H (P := ManOK decOf D) (Q := OpOK decOf D)
    (fun _ _ hop h => ManOK_step H decOf D hop h) s hok ops hops

/-- `x` is reachable from the tags of repository `r` and stored there as a blob. -/
def ReachableBlob (s : State) (r x : Bytes) : Prop :=
  ∃ rp b, getRepo s r = some rp ∧ ReachU rp (tagRefs rp) x ∧ alookup x rp.blobs = some b ∧ H b.data = x

/-- `x` is reachable from the tags of repository `r` and stored there as the manifest
with these bytes, media type and references. -/
def ReachableManifest (s : State) (r x data mt : Bytes) (refs : List RefInfo) : Prop :=
  ∃ rp b, getRepo s r = some rp ∧ ReachU rp (tagRefs rp) x ∧ alookup x rp.manifests = some b ∧
    b.data = data ∧ b.mediaType = mt ∧ b.refs = refs

section
variable (decOf : Bytes → Bytes → Decoded) (D : Bytes → Prop)

/-- The invariant carried through a history. -/
private def Good (s : State) : Prop := s.immutableTags = true ∧ Inv H s ∧ ManOK decOf D s

private theorem Good.step {s : State} {op : Op} (hop : OpOK decOf D op) (h : Good H decOf D s) :
    Good H decOf D (step H s op).1 :=
  ⟨(immutable_preserved H s op).trans h.1, inv_preserved H h.2.1 op, ManOK_step H decOf D hop h.2.2⟩

/-- **Transitive retention, blobs.** A stored blob reachable from a tag (at any depth)
is, after every history, still stored under its digest, still hashing to it, and
still reachable from the tags. -/
theorem reachable_retained_run {s : State} (him : s.immutableTags = true) (hinv : Inv H s)
    (hok : ManOK decOf D s) (hinj : ∀ a b, D a → D b → H a = H b → a = b) {r x : Bytes}
    (h : ReachableBlob H s r x) {ops : List Op} (hops : DecFunctional decOf D ops) :
    ReachableBlob H (run H s ops).1 r x := by
  have := run_induction_ops H (P := fun s => Good H decOf D s ∧ ReachableBlob H s r x) (Q := OpOK decOf D)
    (fun s op hop ⟨hgood, rp, b, hg, hreach, hb, _⟩ => by
      obtain ⟨rp', hg', hreach', hblob, _⟩ := Eff.reach_retained H decOf D hgood.1 hgood.2.1 hgood.2.2 hop hinj
        (step_eff H s op) hg hreach
      obtain ⟨b', hb'⟩ := hblob b hb
      have hgood' := Good.step H decOf D hop hgood
      exact ⟨hgood', rp', b', hg', hreach', hb', (hgood'.2.1 r rp' hg').1 _ _ hb'⟩)
    s ⟨⟨him, hinv, hok⟩, h⟩ ops hops
  exact this.2

/-- **Transitive retention, manifests.** A stored manifest reachable from a tag keeps
its bytes, media type and references, and stays reachable, after every history. -/
theorem reachable_manifest_retained_run {s : State} (him : s.immutableTags = true) (hinv : Inv H s)
    (hok : ManOK decOf D s) (hinj : ∀ a b, D a → D b → H a = H b → a = b) {r x data mt : Bytes}
    {refs : List RefInfo} (h : ReachableManifest s r x data mt refs) {ops : List Op}
    (hops : DecFunctional decOf D ops) :
    ReachableManifest (run H s ops).1 r x data mt refs := by
  have := run_induction_ops H (P := fun s => Good H decOf D s ∧ ReachableManifest s r x data mt refs)
    (Q := OpOK decOf D)
    (fun s op hop ⟨hgood, rp, b, hg, hreach, hb, hd, hmt, hrefs⟩ => by
      obtain ⟨rp', hg', hreach', _, hman⟩ := Eff.reach_retained H decOf D hgood.1 hgood.2.1 hgood.2.2 hop hinj
        (step_eff H s op) hg hreach
      obtain ⟨b', hb', hd', hmt', hrefs'⟩ := hman b hb
      exact ⟨Good.step H decOf D hop hgood, rp', b', hg', hreach', hb', hd'.trans hd, hmt'.trans hmt,
        hrefs'.trans hrefs⟩)
    s ⟨⟨him, hinv, hok⟩, h⟩ ops hops
  exact this.2

/-- Hence the delete stays refused after every history. -/
theorem reachable_delete_denied_run {s : State} (him : s.immutableTags = true) (hinv : Inv H s)
    (hok : ManOK decOf D s) (hinj : ∀ a b, D a → D b → H a = H b → a = b) {r x : Bytes}
    (h : ReachableBlob H s r x) {ops : List Op} (hops : DecFunctional decOf D ops) :
    step H (run H s ops).1 (.deleteBlob r x) = ((run H s ops).1, .err "DENIED") := by
  obtain ⟨rp', b', hg', hreach', hb', _⟩ := reachable_retained_run H decOf D him hinv hok hinj h hops
  exact reachable_retained H ((immutable_preserved_run H s ops).trans him) hg' hreach' hb'

/-- **Direct references** (depth 2), in the words of T3: a blob referenced by a tagged
manifest and stored is, after every history, still stored, and deleting it is
still `DENIED`. -/
theorem referenced_retained_run {s : State} (him : s.immutableTags = true) (hinv : Inv H s)
    (hok : ManOK decOf D s) (hinj : ∀ a b, D a → D b → H a = H b → a = b)
    {r t : Bytes} {rp : Repo} {d : Desc} {b x : Blob} {ref : RefInfo}
    (hg : getRepo s r = some rp) (ht : alookup t rp.tags = some d)
    (hm : alookup d.digest rp.manifests = some b) (href : ref ∈ b.refs)
    (hpres : alookup ref.desc.digest rp.blobs = some x) {ops : List Op} (hops : DecFunctional decOf D ops) :
    (∃ x', blobFor (run H s ops).1 r ref.desc.digest = .ok x' ∧ H x'.data = ref.desc.digest) ∧
    step H (run H s ops).1 (.deleteBlob r ref.desc.digest) = ((run H s ops).1, .err "DENIED") := by
  have hrb : ReachableBlob H s r ref.desc.digest :=
    ⟨rp, x, hg, (taggedRefersTo_iff rp _).1 (taggedRefersTo_direct ht hm href), hpres, (hinv r rp hg).1 _ _ hpres⟩
  refine ⟨?_, reachable_delete_denied_run H decOf D him hinv hok hinj hrb hops⟩
  obtain ⟨rp', b', hg', _, hb', hh⟩ := reachable_retained_run H decOf D him hinv hok hinj hrb hops
  exact ⟨b', by simp [blobFor, hg', hb'], hh⟩

/-- **The F42 guarantee over histories.** A stored blob that a child manifest references
under the media type the tagged parent declares for it is, after every history, still
stored, and deleting it is still `DENIED`. -/
theorem declared_reference_retained_run {s : State} (him : s.immutableTags = true) (hinv : Inv H s)
    (hok : ManOK decOf D s) (hinj : ∀ a b, D a → D b → H a = H b → a = b)
    {r t : Bytes} {rp : Repo} {d : Desc} {b child x : Blob} {ref cref : RefInfo}
    (hg : getRepo s r = some rp) (ht : alookup t rp.tags = some d)
    (hm : alookup d.digest rp.manifests = some b) (href : ref ∈ b.refs)
    (hk : ref.kind = 1 ∨ ref.kind = 2) (hc : alookup ref.desc.digest rp.manifests = some child)
    (hcref : cref ∈ refsAs child ref.desc.mediaType)
    (hpres : alookup cref.desc.digest rp.blobs = some x) {ops : List Op} (hops : DecFunctional decOf D ops) :
    (∃ x', blobFor (run H s ops).1 r cref.desc.digest = .ok x' ∧ H x'.data = cref.desc.digest) ∧
    step H (run H s ops).1 (.deleteBlob r cref.desc.digest) = ((run H s ops).1, .err "DENIED") := by
  have hrb : ReachableBlob H s r cref.desc.digest :=
    ⟨rp, x, hg, (taggedRefersTo_iff rp _).1 (taggedRefersTo_declared ht hm href hk hc hcref), hpres,
      (hinv r rp hg).1 _ _ hpres⟩
  refine ⟨?_, reachable_delete_denied_run H decOf D him hinv hok hinj hrb hops⟩
  obtain ⟨rp', b', hg', _, hb', hh⟩ := reachable_retained_run H decOf D him hinv hok hinj hrb hops
  exact ⟨b', by simp [blobFor, hg', hb'], hh⟩

end

/-! ### Under concurrency: every schedule of atomic steps

`MemConc` describes a concurrent execution of the registry as an interleaving of atomic steps
(`AStep`): a registry operation (`.op o`, one critical section of the registry mutex — the
regenerated lock facts of C08 — whose effect is `Mem.step`), or one of the two critical sections
of a chunked `Commit` (`commitCheck` under the buffer lock, `commitStore` under the registry lock),
which other clients' steps may separate. `arun H c sched` runs ANY such schedule: nothing is
assumed about it (no commit-lock discipline, no well-formedness), so the theorems hold for any
number of clients doing anything in any order. `c.snaps` are the snapshots of commits that have
passed their first half.

A half of a commit never touches tags or manifests (`MemConcImm.commit_frame`), so T1 and T2 need
nothing new. For blobs, `commitStore` inserts the pending snapshot under its digest: that the
inserted bytes hash to it is the invariant `SnapsOk` of the concurrent state (true when no commit
is pending, preserved by every step: `snapsOk_preserved_arun`), needed only for the clause "the
retained blob still hashes to its digest". -/

section conc
open OciModel.MemConc

/-- No atomic step changes the mode. -/
theorem immutable_preserved_arun (c : CState) (sched : List AStep) :
    (arun H c sched).st.immutableTags = c.st.immutableTags :=
  MemConcImm.arun_immutable H c sched

/-- Pending snapshots hash to their digests: true with no commit pending, and kept by every schedule. -/
theorem snapsOk_init (s : State) : SnapsOk H (CState.mk s []).snaps := MemConcImm.snapsOk_nil H

theorem snapsOk_preserved_arun (c : CState) (sched : List AStep) (h : SnapsOk H c.snaps) :
    SnapsOk H (arun H c sched).snaps :=
  MemConcImm.snapsOk_arun H c sched h

/-- The digest invariant over every schedule. -/
theorem inv_preserved_arun {c : CState} (hinv : Inv H c.st) (hsn : SnapsOk H c.snaps) (sched : List AStep) :
    Inv H (arun H c sched).st :=
  MemConcImm.inv_arun H c sched hinv hsn

/-- **T1 under concurrency.** In immutable-tags mode a tag bound to `d` is bound to `d` after
every schedule, from any concurrent state whatsoever. -/
theorem tag_stable_arun {c : CState} (him : c.st.immutableTags = true) {r t : Bytes} {rp : Repo} {d : Desc}
    (hg : getRepo c.st r = some rp) (ht : alookup t rp.tags = some d) (sched : List AStep) :
    ∃ rp', getRepo (arun H c sched).st r = some rp' ∧ alookup t rp'.tags = some d := by
  have := MemConcImm.arun_induction H
    (P := fun c => c.st.immutableTags = true ∧ ∃ rp', getRepo c.st r = some rp' ∧ alookup t rp'.tags = some d)
    (fun c a ⟨him, rp', hg, ht⟩ =>
      ⟨(MemConcImm.astep_immutable H c a).trans him, MemConcImm.astep_tag_stable H him hg ht a⟩)
    c ⟨him, rp, hg, ht⟩ sched
  exact this.2

/-- In the property's words: once `ResolveTag r t` has answered `d`, the atomic step
`ResolveTag r t` answers `d` after every schedule (and changes nothing). -/
theorem resolveTag_stable_arun {c : CState} {s0 : State} (him : c.st.immutableTags = true) {r t : Bytes}
    {d : Desc} (h : step H c.st (.resolveTag r t) = (s0, .okDesc d)) (sched : List AStep) :
    astep H (arun H c sched) (.op (.resolveTag r t)) = (arun H c sched, .okDesc d) := by
  obtain ⟨rp, hg, ht⟩ := resolveTag_ok H h
  obtain ⟨rp', hg', ht'⟩ := tag_stable_arun H him hg ht sched
  show ({ arun H c sched with st := (step H (arun H c sched).st (.resolveTag r t)).1 },
      (step H (arun H c sched).st (.resolveTag r t)).2) = _
  rw [resolveTag_eq H hg' ht']

/-- **T2 under concurrency**, without any assumption on `H`: the tagged manifest stays present
under the tag's digest, with its media type, after every schedule. -/
theorem tagged_present_arun {c : CState} (him : c.st.immutableTags = true) {r t : Bytes} {d : Desc}
    {mt : Bytes} (h : TaggedPresent c.st r t d mt) (sched : List AStep) :
    TaggedPresent (arun H c sched).st r t d mt := by
  have := MemConcImm.arun_induction H
    (P := fun c => c.st.immutableTags = true ∧ TaggedPresent c.st r t d mt)
    (fun c a ⟨him, rp, b, hg, ht, hm, hmt⟩ =>
      ⟨(MemConcImm.astep_immutable H c a).trans him,
        let ⟨rp', b', hg', ht', hm', hor⟩ := MemConcImm.astep_tagged_manifest H him hg ht hm a
        ⟨rp', b', hg', ht', hm', by
          rcases hor with rfl | ⟨_, h⟩
          · exact hmt
          · exact h.trans hmt⟩⟩)
    c ⟨him, h⟩ sched
  exact this.2

/-- **T2 under concurrency.** The manifest a tag points at is, after every schedule, still stored
under the tag's digest with the same bytes and the same media type — under the hypothesis
`getTag_stable_of_no_second_preimage` uses: the tagged bytes have no second preimage under `H`.
(`Inv` is needed of the starting state only: it says the tagged bytes hash to the tag's digest.) -/
theorem tagged_manifest_kept_arun {c : CState} (him : c.st.immutableTags = true) (hinv : Inv H c.st)
    {r t : Bytes} {d : Desc} {data mt : Bytes} (hnc : ∀ x, H x = H data → x = data)
    (h : TaggedData c.st r t d data mt) (sched : List AStep) :
    TaggedData (arun H c sched).st r t d data mt := by
  have hdig : H data = d.digest := by
    obtain ⟨rp, b, hg, _, hm, hd, _⟩ := h
    exact hd ▸ (hinv r rp hg).2 _ _ hm
  have := MemConcImm.arun_induction H
    (P := fun c => c.st.immutableTags = true ∧ TaggedData c.st r t d data mt)
    (fun c a ⟨him, rp, b, hg, ht, hm, hd, hmt⟩ =>
      ⟨(MemConcImm.astep_immutable H c a).trans him,
        let ⟨rp', b', hg', ht', hm', hor⟩ := MemConcImm.astep_tagged_manifest H him hg ht hm a
        ⟨rp', b', hg', ht', hm', by
          rcases hor with rfl | ⟨hh, _⟩
          · exact hd
          · exact hnc _ (hh.trans hdig.symm), by
          rcases hor with rfl | ⟨_, hh⟩
          · exact hmt
          · exact hh.trans hmt⟩⟩)
    c ⟨him, h⟩ sched
  exact this.2

/-- In the property's words: once `GetTag r t` has returned `desc` and `data`, the atomic step
`GetTag r t` returns the same descriptor and bytes after every schedule. -/
theorem getTag_stable_arun {c : CState} {s0 : State} (him : c.st.immutableTags = true) (hinv : Inv H c.st)
    {r t : Bytes} {desc : Desc} {data : Bytes} (hnc : ∀ x, H x = H data → x = data)
    (h : step H c.st (.getTag r t) = (s0, .okRead desc data)) (sched : List AStep) :
    astep H (arun H c sched) (.op (.getTag r t)) = (arun H c sched, .okRead desc data) := by
  obtain ⟨rp, d, b, hg, ht, hm, rfl, rfl⟩ := getTag_ok H h
  obtain ⟨rp', b', hg', ht', hm', hd, hmt⟩ :=
    tagged_manifest_kept_arun H him hinv hnc ⟨rp, b, hg, ht, hm, rfl, rfl⟩ sched
  show ({ arun H c sched with st := (step H (arun H c sched).st (.getTag r t)).1 },
      (step H (arun H c sched).st (.getTag r t)).2) = _
  rw [getTag_eq H hg' ht' hm', hd]
  simp [descOf, hd, hmt]

/-- Every manifest push in the schedule takes its decoding from `decOf` and its bytes from `D`
(`DecFunctional` for schedules; the halves of commits push no manifest). -/
def SchedFunctional (decOf : Bytes → Bytes → Decoded) (D : Bytes → Prop) (sched : List AStep) : Prop :=
  ∀ o, AStep.op o ∈ sched → OpOK decOf D o

section
variable (decOf : Bytes → Bytes → Decoded) (D : Bytes → Prop)

/-- The invariant carried through a schedule. -/
private def GoodC (c : CState) : Prop :=
  c.st.immutableTags = true ∧ Inv H c.st ∧ SnapsOk H c.snaps ∧ ManOK decOf D c.st

private theorem opOf_ok {sched : List AStep} (hs : SchedFunctional decOf D sched) {a : AStep} (ha : a ∈ sched) :
    OpOK decOf D (MemConcImm.opOf a) := by
  cases a with
  | op o => exact hs o ha
  | commitCheck r id dig => trivial
  | commitStore r id => trivial

private theorem GoodC.astep {c : CState} {a : AStep} (hop : OpOK decOf D (MemConcImm.opOf a))
    (h : GoodC H decOf D c) : GoodC H decOf D (astep H c a).1 :=
  ⟨(MemConcImm.astep_immutable H c a).trans h.1, MemConcImm.inv_astep H c a h.2.1 h.2.2.1,
    MemConcImm.snapsOk_astep H c a h.2.2.1,
    Eff.manOK H decOf D hop h.2.2.2 (MemConcImm.astep_eff H c a h.2.2.1)⟩

/-- **Transitive retention under concurrency, blobs.** A stored blob reachable from a tag (at any
depth; the `ReachableBlob` of `reachable_retained_run`) is, after every schedule, still stored
under its digest, still hashing to it, and still reachable from the tags. Hypotheses as in the
sequential theorem, plus `SnapsOk` of the starting state (an invariant, see above). -/
theorem reachable_blob_kept_arun {c : CState} (him : c.st.immutableTags = true) (hinv : Inv H c.st)
    (hsn : SnapsOk H c.snaps) (hok : ManOK decOf D c.st) (hinj : ∀ a b, D a → D b → H a = H b → a = b)
    {r x : Bytes} (h : ReachableBlob H c.st r x) {sched : List AStep} (hs : SchedFunctional decOf D sched) :
    ReachableBlob H (arun H c sched).st r x := by
  have := MemConcImm.arun_induction_sched H
    (P := fun c => GoodC H decOf D c ∧ ReachableBlob H c.st r x) (Q := fun a => OpOK decOf D (MemConcImm.opOf a))
    (fun c a hop ⟨hgood, rp, b, hg, hreach, hb, _⟩ => by
      obtain ⟨rp', hg', hreach', hblob, _⟩ := Eff.reach_retained H decOf D hgood.1 hgood.2.1 hgood.2.2.2 hop hinj
        (MemConcImm.astep_eff H c a hgood.2.2.1) hg hreach
      obtain ⟨b', hb'⟩ := hblob b hb
      have hgood' := GoodC.astep H decOf D hop hgood
      exact ⟨hgood', rp', b', hg', hreach', hb', (hgood'.2.1 r rp' hg').1 _ _ hb'⟩)
    c ⟨⟨him, hinv, hsn, hok⟩, h⟩ sched (fun a ha => opOf_ok decOf D hs ha)
  exact this.2

/-- **Transitive retention under concurrency, manifests.** A stored manifest reachable from a
tag keeps its bytes, media type and references, and stays reachable, after every schedule. -/
theorem reachable_manifest_kept_arun {c : CState} (him : c.st.immutableTags = true) (hinv : Inv H c.st)
    (hsn : SnapsOk H c.snaps) (hok : ManOK decOf D c.st) (hinj : ∀ a b, D a → D b → H a = H b → a = b)
    {r x data mt : Bytes} {refs : List RefInfo} (h : ReachableManifest c.st r x data mt refs)
    {sched : List AStep} (hs : SchedFunctional decOf D sched) :
    ReachableManifest (arun H c sched).st r x data mt refs := by
  have := MemConcImm.arun_induction_sched H
    (P := fun c => GoodC H decOf D c ∧ ReachableManifest c.st r x data mt refs)
    (Q := fun a => OpOK decOf D (MemConcImm.opOf a))
    (fun c a hop ⟨hgood, rp, b, hg, hreach, hb, hd, hmt, hrefs⟩ => by
      obtain ⟨rp', hg', hreach', _, hman⟩ := Eff.reach_retained H decOf D hgood.1 hgood.2.1 hgood.2.2.2 hop hinj
        (MemConcImm.astep_eff H c a hgood.2.2.1) hg hreach
      obtain ⟨b', hb', hd', hmt', hrefs'⟩ := hman b hb
      exact ⟨GoodC.astep H decOf D hop hgood, rp', b', hg', hreach', hb', hd'.trans hd, hmt'.trans hmt,
        hrefs'.trans hrefs⟩)
    c ⟨⟨him, hinv, hsn, hok⟩, h⟩ sched (fun a ha => opOf_ok decOf D hs ha)
  exact this.2

/-- Hence, after every schedule, the atomic step `DeleteBlob` of such a blob is refused and
changes nothing. -/
theorem reachable_delete_denied_arun {c : CState} (him : c.st.immutableTags = true) (hinv : Inv H c.st)
    (hsn : SnapsOk H c.snaps) (hok : ManOK decOf D c.st) (hinj : ∀ a b, D a → D b → H a = H b → a = b)
    {r x : Bytes} (h : ReachableBlob H c.st r x) {sched : List AStep} (hs : SchedFunctional decOf D sched) :
    astep H (arun H c sched) (.op (.deleteBlob r x)) = (arun H c sched, .err "DENIED") := by
  obtain ⟨rp', b', hg', hreach', hb', _⟩ := reachable_blob_kept_arun H decOf D him hinv hsn hok hinj h hs
  show ({ arun H c sched with st := (step H (arun H c sched).st (.deleteBlob r x)).1 },
      (step H (arun H c sched).st (.deleteBlob r x)).2) = _
  rw [reachable_retained H ((immutable_preserved_arun H c sched).trans him) hg' hreach' hb']

end

end conc

/-! ### Concrete witnesses

A registry in immutable mode holding repository `foo` with one layer blob, one
image manifest referencing it, and the tag `v1`; built from `init true` by two
pushes. `Hc` is a toy hash with well-formed `sha256:` output (the last hex digit
is the length of the input), so that pushes are accepted. -/

namespace Witness

def Hc (data : Bytes) : Bytes :=
  Ref.sha256 ++ 58 :: (List.replicate 63 48 ++ [48 + UInt8.ofNat (data.length % 10)])

def r0 : Bytes := [102, 111, 111]          -- "foo"
def tag0 : Bytes := [118, 49]              -- "v1"
def layer : Bytes := [1]
def mdata : Bytes := [1, 2]
def mtLayer : Bytes := [108]
def mtImage : Bytes := [105]
def mtOther : Bytes := [111]
def layerDesc : Desc := ⟨mtLayer, Hc layer, 1⟩
def mDesc : Desc := ⟨mtImage, Hc mdata, 2⟩
def mBlob : Blob := ⟨mtImage, mdata, [], [⟨0, layerDesc⟩]⟩
def lBlob : Blob := ⟨mtLayer, layer, [], []⟩

def rpA : Repo := ⟨[(tag0, mDesc)], [(Hc mdata, mBlob)], [(Hc layer, lBlob)], []⟩
def sA : State := ⟨true, [(r0, rpA)], 0⟩

def setup : List Op :=
  [.pushBlob r0 layerDesc layer, .pushManifest r0 tag0 mdata mtImage (.refs [⟨0, layerDesc⟩])]

/-- `sA` is reachable from the empty registry; both pushes succeed. -/
theorem sA_reachable : run Hc (init true) setup = (sA, [.okDesc layerDesc, .okDesc mDesc]) := by decide

theorem sA_immutable : sA.immutableTags = true := rfl
theorem sA_repo : getRepo sA r0 = some rpA := by decide
theorem sA_tag : alookup tag0 rpA.tags = some mDesc := by decide
theorem sA_manifest : alookup mDesc.digest rpA.manifests = some mBlob := by decide
theorem sA_ref : (⟨0, layerDesc⟩ : RefInfo) ∈ mBlob.refs := by decide
theorem sA_layer : alookup layerDesc.digest rpA.blobs = some lBlob := by decide

theorem sA_inv : Inv Hc sA := by
  have := inv_preserved_run Hc (inv_init Hc true) setup
  rwa [sA_reachable] at this

/-- T1 on `sA`: the tag survives every operation. -/
example (op : Op) : ∃ rp', getRepo (step Hc sA op).1 r0 = some rp' ∧ alookup tag0 rp'.tags = some mDesc :=
  tag_stable Hc sA_immutable sA_repo sA_tag op

example (ops : List Op) : step Hc (run Hc sA ops).1 (.resolveTag r0 tag0) = ((run Hc sA ops).1, .okDesc mDesc) :=
  resolveTag_stable Hc sA_immutable (s0 := sA) (by decide) ops

/-- T2 on `sA` (all hypotheses but the collision one). -/
example (op : Op) : ∃ rp' b', getRepo (step Hc sA op).1 r0 = some rp' ∧ alookup tag0 rp'.tags = some mDesc ∧
    alookup mDesc.digest rp'.manifests = some b' ∧ Hc b'.data = mDesc.digest ∧ b'.mediaType = mBlob.mediaType ∧
    ((∀ x, Hc x = Hc mBlob.data → x = mBlob.data) → b'.data = mBlob.data) :=
  tagged_manifest_retained Hc sA_immutable sA_inv sA_repo sA_tag sA_manifest op

/-- T3 on `sA`: the layer cannot be deleted. -/
theorem sA_layer_protected : step Hc sA (.deleteBlob r0 layerDesc.digest) = (sA, .err "DENIED") :=
  referenced_retained Hc sA_immutable sA_repo sA_tag sA_manifest sA_ref sA_layer

/-- T4 on `sA`: the layer is reachable from the tags. -/
theorem sA_layer_reachable : ReachU rpA (tagRefs rpA) layerDesc.digest :=
  ⟨2, .step (mem_tagRefs sA_tag) (.inl rfl) sA_manifest (.here sA_ref rfl)⟩

/-- T5 on `sA`: pushing other bytes to `v1` is refused, pushing the same is a no-op. -/
example : step Hc sA (.pushManifest r0 tag0 [9, 9, 9] mtImage .opaque) = (sA, .err "DENIED") := by decide
example : step Hc sA (.pushManifest r0 tag0 mdata mtImage .opaque) = (sA, .okDesc mDesc) := by decide

/-! The collision-freeness hypothesis is satisfiable together with `Inv` on a
non-trivial state: take `H := id` (no `sha256:` syntax, so this state is not built
by pushes; it only shows the hypotheses of `getTag_stable` are consistent). -/

def rpI : Repo := ⟨[(tag0, ⟨mtImage, mdata, 2⟩)], [(mdata, ⟨mtImage, mdata, [], [⟨0, ⟨mtLayer, layer, 1⟩⟩]⟩)],
  [(layer, lBlob)], []⟩
def sI : State := ⟨true, [(r0, rpI)], 0⟩

theorem sI_inv : Inv id sI := by
  intro r rp h
  simp only [sI, getRepo, alookup] at h
  split at h
  · cases h
    constructor <;> intro k b hk <;> simp only [rpI, alookup] at hk <;> split at hk <;> cases hk <;>
      (subst_vars; rfl)
  · cases h

example (ops : List Op) : step id (run id sI ops).1 (.getTag r0 tag0) =
      ((run id sI ops).1, .okRead ⟨mtImage, mdata, 2⟩ mdata) :=
  getTag_stable id (s := sI) (s0 := sI) rfl sI_inv (fun _ _ h => h) (by decide) ops

/-! #### The former defect (F19) is gone -/

/-- The attack: re-push the tagged manifest's bytes, untagged, under another media type. -/
def repush : Op := .pushManifest r0 [] mdata mtOther .opaque

/-- It is now refused, and nothing changes. -/
theorem repush_refused : step Hc sA repush = (sA, .err "DENIED") :=
  retype_tagged_refused Hc sA_immutable sA_repo (by decide) (b0 := mBlob) (by decide) (by decide)
    ⟨1, .here (mem_tagRefs sA_tag) rfl⟩ (.inl rfl) .opaque

/-- The same under a fresh tag. -/
example : step Hc sA (.pushManifest r0 [118, 50] mdata mtOther .opaque) = (sA, .err "DENIED") :=
  retype_tagged_refused Hc sA_immutable sA_repo (by decide) (b0 := mBlob) (by decide) (by decide)
    ⟨1, .here (mem_tagRefs sA_tag) rfl⟩ (.inr ⟨by decide, by decide⟩) .opaque

/-- A decoder for the witness: the image manifest bytes under the image media type
reference the layer; everything else is opaque. `DW`: the only manifest bytes. -/
def decOfW (data mt : Bytes) : Decoded :=
  if data = mdata ∧ mt = mtImage then .refs [⟨0, layerDesc⟩] else .opaque
def DW (data : Bytes) : Prop := data = mdata

theorem setup_functional : DecFunctional decOfW DW setup := by
  intro op hop
  simp only [setup, List.mem_cons, List.not_mem_nil, or_false] at hop
  rcases hop with rfl | rfl
  · trivial
  · exact ⟨rfl, by decide⟩

theorem sA_manOK : ManOK decOfW DW sA := by
  have := manOK_preserved_run Hc decOfW DW (manOK_init decOfW DW true) setup_functional
  rwa [sA_reachable] at this

/-- The hypotheses of the history theorems are satisfiable on `sA`, with the attack in
the history: after `repush :: ops` the layer is still there and still protected. -/
example (ops : List Op) (hops : DecFunctional decOfW DW ops) :
    (∃ x', blobFor (run Hc sA (repush :: ops)).1 r0 layerDesc.digest = .ok x' ∧ Hc x'.data = layerDesc.digest) ∧
    step Hc (run Hc sA (repush :: ops)).1 (.deleteBlob r0 layerDesc.digest) =
      ((run Hc sA (repush :: ops)).1, .err "DENIED") :=
  referenced_retained_run Hc decOfW DW sA_immutable sA_inv sA_manOK (fun _ _ ha hb _ => ha.trans hb.symm)
    sA_repo sA_tag sA_manifest sA_ref sA_layer
    (fun op hop => by
      rcases List.mem_cons.1 hop with rfl | h
      · exact ⟨rfl, by decide⟩
      · exact hops op h)

/-! #### The former defect (F42) is gone

The state the F42 history ends in: the image manifest `mF` (one layer, a config) was
pushed untagged, its bytes were pushed again untagged under the media type `mtOther`
ocimem cannot look inside (allowed: no tag led to them), then an index listing them
*as an image manifest* was pushed with the tag `v1`. The bytes are the model's own
rendering of the manifest (`Json.print (manifestJ mF)`), decoded by the model's decoder
(`decodeRefs_manifest`). -/

def cfgDesc : Desc := ⟨mtLayer, Hc [2, 2, 2], 3⟩
def mF : ManifestDecode.Manifest := ⟨cfgDesc, [layerDesc], none⟩
def mFbytes : Bytes := Json.print (ManifestDecode.manifestJ mF)
def kM : Bytes := [77]                     -- the digest of `mFbytes` (no theorem used here looks at `H`)
def kI : Bytes := [73]
def mtIndex : Bytes := [120]
/-- the child as it is stored now: under `mtOther`, referencing nothing -/
def mBlobF : Blob := ⟨mtOther, mFbytes, [], []⟩
def childRef : RefInfo := ⟨1, ⟨ManifestDecode.imageMT, kM, 2⟩⟩
def iBlobF : Blob := ⟨mtIndex, [7, 7, 7], [], [childRef]⟩
def rpF : Repo := ⟨[(tag0, ⟨mtIndex, kI, 3⟩)], [(kI, iBlobF), (kM, mBlobF)], [(Hc layer, lBlob)], []⟩
def sF : State := ⟨true, [(r0, rpF)], 0⟩

theorem mF_ok : mF.OK := by
  refine ⟨by decide, ?_, ?_⟩
  · intro d hd
    simp only [mF, List.mem_cons, List.not_mem_nil, or_false] at hd
    subst hd; decide
  · intro d hd; cases hd

/-- Read as an image manifest — the media type the index declares — the child's bytes
reference the layer and the config. -/
theorem mBlobF_refsAs : refsAs mBlobF ManifestDecode.imageMT = [⟨0, layerDesc⟩, ⟨0, cfgDesc⟩] := by
  have h := ManifestDecode.decodeRefs_manifest mF mF_ok [] [] rfl rfl
  simp only [List.nil_append, List.append_nil] at h
  exact refsAs_of_decode (b := mBlobF) (by decide) h

/-- Stored as it is — under `mtOther` — the child references nothing: before the repair
of F42 the layer was not reachable from `v1`. -/
example : mBlobF.refs = [] := rfl

/-- F42 on `sF`: the layer of the retyped child of the tagged index cannot be deleted. -/
theorem sF_layer_protected : step Hc sF (.deleteBlob r0 layerDesc.digest) = (sF, .err "DENIED") :=
  declared_reference_retained Hc (s := sF) (rp := rpF) (t := tag0) (d := ⟨mtIndex, kI, 3⟩) (b := iBlobF)
    (child := mBlobF) (x := lBlob) (ref := childRef) (cref := ⟨0, layerDesc⟩)
    rfl rfl rfl rfl List.mem_cons_self (.inl rfl) rfl
    (by rw [show childRef.desc.mediaType = ManifestDecode.imageMT from rfl, mBlobF_refsAs]; exact List.mem_cons_self)
    rfl

/-! #### Under concurrency

The concurrent state `cA`: the registry `sA`, no commit pending. `attack` is a schedule in which a
client's chunked commit (session `u0`, bytes `[7,7,7,7]`) is split in its two halves around other
clients' attempts to move `v1`, to delete it, to delete its manifest and to delete its layer. -/

open OciModel.MemConc

def cA : CState := ⟨sA, []⟩
def u0 : Bytes := [117]                    -- upload session "u"
def chunk : Bytes := [7, 7, 7, 7]

def attack : List AStep :=
  [.op (.resume r0 u0 0), .op (.wWrite r0 u0 chunk),
   .commitCheck r0 u0 (Hc chunk),                                  -- first half of the commit
   .op (.pushManifest r0 tag0 [9, 9, 9] mtImage .opaque),          -- move the tag
   .op (.deleteTag r0 tag0),
   .commitStore r0 u0,                                             -- second half of the commit
   .op (.deleteManifest r0 mDesc.digest),
   .op (.deleteBlob r0 layerDesc.digest)]

/-- The schedule is not idle: the first half of the commit passes, the attacks that come between
the halves are refused, the second half stores the blob. (The two deletes come after it only so
that these four facts are settled by evaluation: `refersTo` does not reduce under `decide`. That
they are refused too is the last example below.) -/
example : (astep Hc (arun Hc cA (attack.take 2)) (.commitCheck r0 u0 (Hc chunk))).2 = .okUnit := by decide
example : (astep Hc (arun Hc cA (attack.take 3)) (.op (.pushManifest r0 tag0 [9, 9, 9] mtImage .opaque))).2 =
    .err "DENIED" := by decide
example : (astep Hc (arun Hc cA (attack.take 4)) (.op (.deleteTag r0 tag0))).2 = .err "DENIED" := by decide
example : (astep Hc (arun Hc cA (attack.take 5)) (.commitStore r0 u0)).2 =
    .okDesc ⟨octetStream, Hc chunk, 4⟩ := by decide
example : (blobFor (arun Hc cA (attack.take 6)).st r0 (Hc chunk)).toOption.map (·.data) = some chunk := by decide

/-- T1 on `cA`, every schedule. -/
example (sched : List AStep) :
    astep Hc (arun Hc cA sched) (.op (.resolveTag r0 tag0)) = (arun Hc cA sched, .okDesc mDesc) :=
  resolveTag_stable_arun Hc (c := cA) (s0 := sA) sA_immutable (by decide) sched

/-- T2 on `cA` without hypotheses on the hash. -/
example (sched : List AStep) : TaggedPresent (arun Hc cA sched).st r0 tag0 mDesc mtImage :=
  tagged_present_arun Hc (c := cA) sA_immutable ⟨rpA, mBlob, sA_repo, sA_tag, sA_manifest, rfl⟩ sched

/-- T2 with the collision hypothesis, satisfiable together with `Inv` (`H := id`, state `sI`). -/
example (sched : List AStep) : astep id (arun id ⟨sI, []⟩ sched) (.op (.getTag r0 tag0)) =
      (arun id ⟨sI, []⟩ sched, .okRead ⟨mtImage, mdata, 2⟩ mdata) :=
  getTag_stable_arun id (c := ⟨sI, []⟩) (s0 := sI) rfl sI_inv (fun _ h => h) (by decide) sched

/-- `attack` pushes one manifest, with bytes outside `DW`: the hypothesis on the schedule is about
what is pushed, so widen the universe to the two byte strings (`Hc` tells them apart by length). -/
def DW2 (data : Bytes) : Prop := data = mdata ∨ data = [9, 9, 9]
def decOfW2 (data mt : Bytes) : Decoded :=
  if data = mdata ∧ mt = mtImage then .refs [⟨0, layerDesc⟩] else .opaque

theorem sA_manOK2 : ManOK decOfW2 DW2 sA := by
  have h : DecFunctional decOfW2 DW2 setup := by
    intro op hop
    simp only [setup, List.mem_cons, List.not_mem_nil, or_false] at hop
    rcases hop with rfl | rfl
    · trivial
    · exact ⟨.inl rfl, by decide⟩
  have := manOK_preserved_run Hc decOfW2 DW2 (manOK_init decOfW2 DW2 true) h
  rwa [sA_reachable] at this

theorem DW2_injective : ∀ a b, DW2 a → DW2 b → Hc a = Hc b → a = b := by
  intro a b ha hb h
  rcases ha with rfl | rfl <;> rcases hb with rfl | rfl
  · rfl
  · exact absurd h (by decide)
  · exact absurd h (by decide)
  · rfl

theorem attack_functional : SchedFunctional decOfW2 DW2 attack := by
  intro o ho
  simp only [attack, List.mem_cons, List.not_mem_nil, or_false, AStep.op.injEq, reduceCtorEq, false_or, or_false] at ho
  rcases ho with rfl | rfl | rfl | rfl | rfl | rfl
  · trivial
  · trivial
  · exact ⟨.inr rfl, by decide⟩
  · trivial
  · trivial
  · trivial

/-- The hypotheses of the retention theorems are satisfiable on `cA`, with the interleaved commit
and the attacks in the schedule: after `attack ++ sched` the layer is still stored, still hashes
to its digest, is still reachable from `v1`, and deleting it is still `DENIED`. -/
example (sched : List AStep) (hs : SchedFunctional decOfW2 DW2 sched) :
    ReachableBlob Hc (arun Hc cA (attack ++ sched)).st r0 layerDesc.digest ∧
    astep Hc (arun Hc cA (attack ++ sched)) (.op (.deleteBlob r0 layerDesc.digest)) =
      (arun Hc cA (attack ++ sched), .err "DENIED") := by
  have hrb : ReachableBlob Hc cA.st r0 layerDesc.digest :=
    ⟨rpA, lBlob, sA_repo, sA_layer_reachable, sA_layer, by decide⟩
  have hs' : SchedFunctional decOfW2 DW2 (attack ++ sched) := fun o ho => by
    rcases List.mem_append.1 ho with h | h
    · exact attack_functional o h
    · exact hs o h
  exact ⟨reachable_blob_kept_arun Hc decOfW2 DW2 (c := cA) sA_immutable sA_inv (snapsOk_init Hc sA) sA_manOK2
      DW2_injective hrb hs',
    reachable_delete_denied_arun Hc decOfW2 DW2 (c := cA) sA_immutable sA_inv (snapsOk_init Hc sA) sA_manOK2
      DW2_injective hrb hs'⟩

end Witness

end OciModel.Props.C14
