import OciModel.Mem
namespace OciModel.Props.C14
open OciModel.Mem

/-- In immutable-tags mode `deleteTag` never changes the state. -/
theorem deleteTag_immutable (H : Bytes → Bytes) (s : State) (h : s.immutableTags = true) (r t : Bytes) :
    (step H s (.deleteTag r t)).1 = s := by
  simp only [step]
  split
  · rfl
  · split
    · rfl
    · simp [h]

end OciModel.Props.C14
