/-
C20 — Function-table registry is total: unset methods fail cleanly, set ones delegate.

The model of `Funcs` is the table regenerated from `ociregistry/func.go` on every
run (`OciModel.Generated.Funcs.table`). The general theorems are proved for
every row satisfying the decidable predicate `RowOk`; `generated_table_ok`
checks the regenerated table against it.
-/
import OciModel.Funcs

namespace OciModel.Props.C20
open OciModel.Funcs OciModel.Generated.Funcs

/-- A set method is delegated: exactly the user's function for that method is
called, with the method's own parameters in order; for every assignment of the
other fields and with or without `NewError`. -/
theorem funcs_set_delegates (r : Row) (h : RowOk r = true) (c : Cfg)
    (hn : c.nilRecv = false) (hs : c.set (fieldOf r.method) = true) :
    call c r = .delegated (fieldOf r.method) r.params := by
  simp [RowOk] at h
  obtain ⟨⟨⟨⟨⟨⟨⟨hk, hg⟩, hgf⟩, hcf⟩, hca⟩, _⟩, _⟩, _⟩ := h
  simp [call, hk, hg, hn, hgf, hcf, hca, hs]

/-- An unset method (or any method of a nil table) returns the constructor's
error, or `<method>: unsupported`, and nothing else happens. -/
theorem funcs_unset_clean (r : Row) (h : RowOk r = true) (c : Cfg)
    (hu : c.nilRecv = true ∨ c.set (fieldOf r.method) = false) :
    call c r = .unset r.method r.errRepo (!c.nilRecv && c.hasNewError) r.unsetShape := by
  simp [RowOk] at h
  obtain ⟨⟨⟨⟨⟨⟨⟨hk, hg⟩, hgf⟩, hcf⟩, hca⟩, hen⟩, _⟩, _⟩ := h
  rcases hu with hu | hu <;> simp [call, hk, hg, hgf, hen, hu]

/-- The result depends only on the method's own field, the receiver's nil-ness and
`NewError`: it is independent of which other functions are set. -/
theorem funcs_independent (r : Row) (h : RowOk r = true) (c c' : Cfg)
    (h1 : c.nilRecv = c'.nilRecv) (h2 : c.hasNewError = c'.hasNewError)
    (h3 : c.set (fieldOf r.method) = c'.set (fieldOf r.method)) :
    call c r = call c' r := by
  simp [RowOk] at h
  obtain ⟨⟨⟨⟨⟨⟨⟨hk, hg⟩, hgf⟩, hcf⟩, hca⟩, hen⟩, _⟩, _⟩ := h
  simp [call, hk, hg, hgf, hcf, h1, h2, h3]

/-- No configuration makes a well-formed row panic (nil receiver included). -/
theorem funcs_no_panic (r : Row) (h : RowOk r = true) (c : Cfg) (s : String) :
    call c r ≠ .panic s := by
  cases hn : c.nilRecv
  · cases hs : c.set (fieldOf r.method)
    · rw [funcs_unset_clean r h c (Or.inr hs)]; simp
    · rw [funcs_set_delegates r h c hn hs]; simp
  · rw [funcs_unset_clean r h c (Or.inl hn)]; simp

/-! ### Obligations on the regenerated table -/

/-- Every row of the table extracted from the current `func.go` is well-formed. -/
theorem generated_table_ok : TableOk table = true := by decide

/-- `newError` has the expected two-branch shape. -/
theorem generated_newError_ok : newErrorShapeKnown = true := by decide

/-- The error constructor is asked about the repository the call acts on: the method's `repo`
parameter, the repository written to (`toRepo`) for a mount, and no repository for the catalogue. -/
def errRepoOk (r : Row) : Bool :=
  if r.params.contains "repo" then r.errRepo == "repo"
  else if r.params.contains "toRepo" then r.errRepo == "toRepo"
  else r.errRepo == "\"\""

theorem generated_error_names_the_repository_acted_on :
    table.all errRepoOk = true ∧ table.all (fun r => r.errName == r.method) = true := by decide

/-- The table has exactly one row per method of `ociregistry.Interface`. -/
theorem generated_covers_interface :
    (table.map (·.method)).Nodup ∧
    (∀ m ∈ interfaceMethods, m ∈ table.map (·.method)) ∧
    (∀ m ∈ table.map (·.method), m ∈ interfaceMethods) ∧
    interfaceMethods.length = 18 := by decide

/-- The property for the code as it is now: for every method of the interface and
every configuration, the call never panics, delegates when set and fails cleanly
when unset. -/
theorem C20_holds (r : Row) (hr : r ∈ table) (c : Cfg) :
    (∀ s, call c r ≠ .panic s) ∧
    (c.nilRecv = false → c.set (fieldOf r.method) = true →
      call c r = .delegated (fieldOf r.method) r.params) ∧
    ((c.nilRecv = true ∨ c.set (fieldOf r.method) = false) →
      call c r = .unset r.method r.errRepo (!c.nilRecv && c.hasNewError) r.unsetShape) := by
  have h : RowOk r = true := by
    have := generated_table_ok
    simp [TableOk, List.all_eq_true] at this
    exact this r hr
  exact ⟨funcs_no_panic r h c, funcs_set_delegates r h c, funcs_unset_clean r h c⟩

/-! ### "… with the same arguments and results" -/

/-- In the current `func.go` the guarded branch of every method is the single
statement `return f.<Field>(ctx, <args>)` — one call, no `...`, nothing between the
call and the `return` — and every field is declared with exactly the parameter and
result types of its method. -/
theorem generated_returns_verbatim :
    table.all (·.returnsCallVerbatim) = true ∧ table.all (·.signatureSame) = true := by decide

/-- A set method returns its results: for every behaviour `user` of the functions in
the table and every argument values `env`, the caller gets exactly what the user's
function for that method returned on the caller's arguments, in order. -/
theorem funcs_set_returns_verbatim {α ρ : Type} (r : Row) (h : RowOk r = true)
    (hv : r.returnsCallVerbatim = true) (hsig : r.signatureSame = true) (c : Cfg)
    (hn : c.nilRecv = false) (hs : c.set (fieldOf r.method) = true)
    (user : String → List α → ρ) (env : String → α) :
    result user env c r = .user (user (fieldOf r.method) (r.params.map env)) := by
  simp [result, funcs_set_delegates r h c hn hs, hv, hsig]

/-- … and only then: an unset method (or a nil table) returns the constructor's
error whatever the user's other functions would return. -/
theorem funcs_unset_result {α ρ : Type} (r : Row) (h : RowOk r = true) (c : Cfg)
    (hu : c.nilRecv = true ∨ c.set (fieldOf r.method) = false)
    (user : String → List α → ρ) (env : String → α) :
    result user env c r = .error r.method r.errRepo (!c.nilRecv && c.hasNewError) r.unsetShape := by
  simp [result, funcs_unset_clean r h c hu]

/-- The results clause for the code as it is now: every method of the regenerated
table, every configuration, every behaviour of the user's functions. -/
theorem C20_results_hold {α ρ : Type} (r : Row) (hr : r ∈ table) (c : Cfg)
    (user : String → List α → ρ) (env : String → α) :
    (c.nilRecv = false → c.set (fieldOf r.method) = true →
      result user env c r = .user (user (fieldOf r.method) (r.params.map env))) ∧
    ((c.nilRecv = true ∨ c.set (fieldOf r.method) = false) →
      result user env c r = .error r.method r.errRepo (!c.nilRecv && c.hasNewError) r.unsetShape) := by
  have h : RowOk r = true := by
    have := generated_table_ok
    simp [TableOk, List.all_eq_true] at this
    exact this r hr
  obtain ⟨h1, h2⟩ := generated_returns_verbatim
  simp only [List.all_eq_true] at h1 h2
  exact ⟨fun hn hs => funcs_set_returns_verbatim r h (h1 r hr) (h2 r hr) c hn hs user env,
    fun hu => funcs_unset_result r h c hu user env⟩

/-- Non-vacuity: a concrete row and configuration meeting the hypotheses. -/
example : ∃ r ∈ table, r.method = "GetBlob" ∧ RowOk r = true := by decide

/-- The hypotheses of `funcs_set_returns_verbatim` on a row of the table, with the
result evaluated (a user function that returns its field name and arguments); and
the two flags matter: the same row with `returnsCallVerbatim` cleared (a body that
does something to the results) is not claimed to return them. -/
example : ∃ r ∈ table, r.method = "MountBlob" ∧ RowOk r = true ∧
    r.returnsCallVerbatim = true ∧ r.signatureSame = true ∧
    let c : Cfg := { nilRecv := false, set := fun f => f == "MountBlob_", hasNewError := false }
    let env : String → Nat := fun p => p.length
    let user : String → List Nat → String × List Nat := fun f a => (f, a)
    c.set (fieldOf r.method) = true ∧
    result user env c r = .user ("MountBlob_", [8, 6, 6]) ∧
    result user env c { r with returnsCallVerbatim := false } = .unknown ∧
    result user env { c with nilRecv := true } r = .error "MountBlob" "toRepo" false "zero,err" := by decide

end OciModel.Props.C20
