/-
C10T (part of C10 and C11): the token server's answer is a DOCUMENT; what the transport makes of it
is decided by a JSON decoder (`doTokenRequest`: `json.Unmarshal` into `wireToken`) and by the tail of
`acquireAccessToken`. Both are now part of the model (`TokenDecode.lean` on top of `Json.lean`) instead
of four fields the harness hands over; these are their properties, for ALL byte strings / value trees /
decoded structs.

The correspondence with `encoding/json` and with the real transport (`ociauth.NewStdTransport` behind a
scripted registry and token server) is checked by differential execution (`harness/c10t.go`); the
theorems below are about the model. `expires_in` is an `Int` here: Go accepts negative values, and the
code multiplies in `int64` nanoseconds — see "Lifetimes" for what that does.
-- F41: the code now clamps the number of seconds before it multiplies; the statements that documented the
-- wrap (`lifetime_wraps_beyond_int64_nanoseconds`, `negative_lifetime_beyond_int64_is_reused`,
-- `huge_lifetime_is_not_reused`) are false of it and are replaced by `lifetime_saturates`,
-- `negative_lifetime_never_reused`, `huge_lifetime_is_reused`; what they said is kept as `…_before_F41`.
-/
import OciModel.TokenDecodeLemmas
import OciModel.Generated.WireToken
namespace OciModel.Props.C10T
open OciModel OciModel.Json OciModel.ManifestDecode OciModel.TokenDecode

/-! ## Totality -/

/-- The decoder is a total function (structural recursion throughout: no fuel, no partiality, no panic
outcome): every byte string yields a struct or one of two errors. -/
theorem decoder_total (b : Bytes) :
    (∃ w, decodeToken b = .ok w) ∨ decodeToken b = .error .syntax ∨ decodeToken b = .error .type := by
  cases h : decodeToken b with
  | ok w => exact Or.inl ⟨w, rfl⟩
  | error e => cases e <;> simp

/-- So is the consumer: a token for immediate use, or the one error. -/
theorem consumer_total (st : RegSt) (w : WireToken) (now : Int) :
    (∃ t, (consume st w now).2 = .ok t) ∨ (consume st w now).2 = .error .noAccessToken := by
  unfold consume
  cases h : useToken w now with
  | ok u => exact Or.inl ⟨u.access, rfl⟩
  | error e => cases e; exact Or.inr rfl

/-- An answer that does not decode changes nothing (the error is `doTokenRequest`'s). -/
theorem undecodable_answer_changes_nothing (st : RegSt) (body : Bytes) (now : Int) (e : DecodeErr)
    (h : decodeToken body = .error e) : acquireFromBody st body now = none := by
  simp [acquireFromBody, h]

example : decodeToken (strBytes "{\"token\":\"T\"") = .error .syntax ∧ decodeToken (strBytes "[{\"token\":\"T\"}]") = .error .type ∧
    decodeToken [] = .error .syntax ∧ decodeToken [0xEF, 0xBB, 0xBF, 0x7B, 0x7D] = .error .syntax := by decide

/-! ## Which member selects which field -/

/-- The exact name, any other case, and the two non-ASCII letters that fold to ASCII ones (U+017F, U+212A). -/
example : lookupField tokenTable (strBytes "token") = some .token ∧ lookupField tokenTable (strBytes "TOKEN") = some .token ∧
    lookupField tokenTable (strBytes "Access_Token") = some .accessToken ∧
    lookupField tokenTable (strBytes "acceſſ_toKen") = some .accessToken ∧
    lookupField tokenTable (strBytes "expireſ_IN") = some .expiresIn ∧
    lookupField tokenTable (strBytes "REFRESH_token") = some .refreshToken := by decide

/-- Members whose name selects no field (exactly or under case folding) are ignored, whatever their
value — it is not even type-checked. -/
theorem unknown_members_ignored (l₁ l₂ : List (Bytes × JVal)) (k : Bytes) (v : JVal)
    (hk : lookupField tokenTable k = none) :
    decodeVal (.obj (l₁ ++ (k, v) :: l₂)) = decodeVal (.obj (l₁ ++ l₂)) :=
  decodeVal_unknown l₁ l₂ k v hk

example : lookupField tokenTable (strBytes "issued_at") = none ∧ lookupField tokenTable (strBytes "tok") = none ∧
    lookupField tokenTable (strBytes "token ") = none ∧ lookupField tokenTable (strBytes "accesstoken") = none ∧
    lookupField tokenTable (strBytes "access-token") = none ∧ lookupField tokenTable (strBytes "expires") = none := by decide

example : decodeToken (strBytes "{\"issued_at\":{\"token\":1},\"token\":\"T\",\"expires\":\"soon\"}") =
    .ok { token := strBytes "T" } := by decide

instance : DecidableRel (Indep tokenTable) := fun _ _ => inferInstanceAs (Decidable (_ ∨ _))

/-- Member order does not matter, as long as no two members select the same field (members that select
no field may repeat). -/
theorem member_order_irrelevant {l₁ l₂ : List (Bytes × JVal)} (p : l₁.Perm l₂) (hp : l₁.Pairwise (Indep tokenTable)) :
    decodeVal (.obj l₁) = decodeVal (.obj l₂) :=
  decodeVal_perm p hp

example : [(strBytes "expires_in", JVal.num (strBytes "300")), (strBytes "x", .null), (strBytes "Token", .str (strBytes "T")),
      (strBytes "x", .bool true), (strBytes "refresh_token", .str [])].Pairwise (Indep tokenTable) := by decide

/-- Without that condition order DOES matter: members are decoded in document order into one struct, so
the LAST member that selects a field wins, whatever its spelling. -/
theorem repeated_member_decoded_into_the_same_struct (l : List (Bytes × JVal)) (kv : Bytes × JVal) :
    decodeVal (.obj (l ++ [kv])) = (decodeVal (.obj l)).bind (tokStep · kv) :=
  decodeVal_snoc l kv

theorem last_token_member_wins (l : List (Bytes × JVal)) (k s : Bytes) (w : WireToken)
    (hk : lookupField tokenTable k = some .token) (h : decodeVal (.obj l) = some w) :
    decodeVal (.obj (l ++ [(k, .str s)])) = some { w with token := s } := by
  simp [decodeVal_snoc, h, tokStep, hk, setStr]

theorem last_expires_in_member_wins (l : List (Bytes × JVal)) (k : Bytes) (n : Int) (w : WireToken)
    (hk : lookupField tokenTable k = some .expiresIn) (h : decodeVal (.obj l) = some w)
    (h1 : -9223372036854775808 ≤ n) (h2 : n ≤ 9223372036854775807) :
    decodeVal (.obj (l ++ [(k, .num (intText n))])) = some { w with expiresIn := n } := by
  simp [decodeVal_snoc, h, tokStep, hk, setInt, parseInt64_intText n h1 h2]

/-- The hypotheses of the two statements above are satisfiable. -/
example : lookupField tokenTable (strBytes "TOKEN") = some .token ∧ lookupField tokenTable (strBytes "Expires_In") = some .expiresIn ∧
    decodeVal (.obj [(strBytes "token", .str (strBytes "b")), (strBytes "expires_in", .num (strBytes "3600"))]) =
      some { token := strBytes "b", expiresIn := 3600 } := by decide

example : decodeToken (strBytes "{\"Token\":\"a\",\"token\":\"b\",\"TOKEN\":\"c\"}") = .ok { token := strBytes "c" } ∧
    decodeToken (strBytes "{\"token\":\"b\",\"Token\":\"a\"}") = .ok { token := strBytes "a" } ∧
    decodeToken (strBytes "{\"expires_in\":3600,\"expires_in\":-1}") = .ok { expiresIn := -1 } := by decide

/-- `null` leaves a field as it is (it does NOT reset it), under every name … -/
theorem null_leaves_the_field (w : WireToken) (k : Bytes) : tokStep w (k, .null) = some w := by
  unfold tokStep
  cases lookupField tokenTable k with
  | none => rfl
  | some f => cases f <;> rfl

/-- … and the document `null` leaves the whole struct zero, without an error. -/
example : decodeToken (strBytes "null") = .ok {} ∧
    decodeToken (strBytes "{\"token\":\"T\",\"token\":null,\"expires_in\":7,\"Expires_In\":null}") =
      .ok { token := strBytes "T", expiresIn := 7 } := by decide

/-! ## Type errors -/

/-- A string field takes a JSON string (or `null`) and nothing else: any other value there fails the
whole answer, wherever the member stands and whatever else the document holds. -/
theorem string_field_takes_only_strings (l₁ l₂ : List (Bytes × JVal)) (k : Bytes) (v : JVal) (f : TokField)
    (hk : lookupField tokenTable k = some f) (hf : f ≠ .expiresIn) (hs : ∀ s, v ≠ .str s) (hn : v ≠ .null) :
    decodeVal (.obj (l₁ ++ (k, v) :: l₂)) = none := by
  apply decodeVal_bad_member
  intro w
  unfold tokStep
  simp only [hk]
  cases f <;> first | exact absurd rfl hf | skip
  all_goals (cases v <;> first | exact absurd rfl hn | exact absurd rfl (hs _) | rfl)

example : decodeToken (strBytes "{\"token\":\"T\",\"access_token\":7}") = .error .type ∧
    decodeToken (strBytes "{\"refresh_token\":[\"R\"],\"token\":\"T\"}") = .error .type ∧
    decodeToken (strBytes "{\"token\":{\"token\":\"T\"}}") = .error .type := by decide

/-- `expires_in` takes a JSON number (or `null`) and nothing else — `"60"` is an error … -/
theorem expires_in_takes_only_numbers (l₁ l₂ : List (Bytes × JVal)) (k : Bytes) (v : JVal)
    (hk : lookupField tokenTable k = some .expiresIn) (hs : ∀ t, v ≠ .num t) (hn : v ≠ .null) :
    decodeVal (.obj (l₁ ++ (k, v) :: l₂)) = none := by
  apply decodeVal_bad_member
  intro w
  unfold tokStep
  simp only [hk]
  cases v <;> first | exact absurd rfl hn | exact absurd rfl (hs _) | rfl

/-- … and only a number whose text `strconv.ParseInt` takes as a 64-bit integer … -/
theorem expires_in_takes_only_int64_literals (l₁ l₂ : List (Bytes × JVal)) (k t : Bytes)
    (hk : lookupField tokenTable k = some .expiresIn) (ht : parseInt64 t = none) :
    decodeVal (.obj (l₁ ++ (k, .num t) :: l₂)) = none := by
  apply decodeVal_bad_member
  intro w
  simp [tokStep, hk, setInt, ht]

/-- … which no text with a fraction or an exponent is (`60.0`, `6e1`), whatever its value. -/
theorem fraction_or_exponent_is_not_an_int (t : Bytes) (c : UInt8) (hc : c ∈ t)
    (h : c.toNat = 0x2E ∨ c.toNat = 0x65 ∨ c.toNat = 0x45 ∨ c.toNat = 0x2B) : parseInt64 t = none :=
  parseInt64_no_fraction_no_exponent t c hc h

example : lookupField tokenTable (strBytes "expires_in") = some .expiresIn ∧ (∀ t, JVal.str (strBytes "60") ≠ .num t) ∧
    JVal.str (strBytes "60") ≠ .null ∧ parseInt64 (strBytes "1e2") = none ∧ parseInt64 (strBytes "9223372036854775808") = none ∧
    (0x2E : UInt8) ∈ strBytes "60.0" := by
  refine ⟨by decide, (by intro t h; cases h), (by intro h; cases h), by decide, by decide, by decide⟩

/-- NEGATIVE values are accepted: every `int64`, written in decimal, is taken as it is. -/
theorem every_int64_is_accepted (n cur : Int) (h1 : -9223372036854775808 ≤ n) (h2 : n ≤ 9223372036854775807) :
    setInt (.num (intText n)) cur = some n := by
  simp [setInt, parseInt64_intText n h1 h2]

example : decodeToken (strBytes "{\"token\":\"T\",\"expires_in\":\"60\"}") = .error .type ∧
    decodeToken (strBytes "{\"token\":\"T\",\"expires_in\":60.0}") = .error .type ∧
    decodeToken (strBytes "{\"token\":\"T\",\"expires_in\":6e1}") = .error .type ∧
    decodeToken (strBytes "{\"token\":\"T\",\"expires_in\":9223372036854775808}") = .error .type ∧
    decodeToken (strBytes "{\"token\":\"T\",\"expires_in\":-9223372036854775808}") =
      .ok { token := strBytes "T", expiresIn := -9223372036854775808 } ∧
    decodeToken (strBytes "{\"token\":\"T\",\"expires_in\":-5}") = .ok { token := strBytes "T", expiresIn := -5 } ∧
    decodeToken (strBytes "{\"token\":\"T\",\"expires_in\":-0}") = .ok { token := strBytes "T" } := by decide

/-! ## Canonical documents, trailing bytes -/

/-- Print / parse round trip: the document a specification-following token server writes for `w`
(four members, any white space around it) decodes to exactly `w`. -/
theorem canonical_document_roundtrip (w : WireToken) (h : w.OK) (ws1 ws2 : Bytes)
    (h1 : ws1.all isWs = true) (h2 : ws2.all isWs = true) :
    decodeToken (ws1 ++ print (tokenJ w) ++ ws2) = .ok w :=
  decodeToken_tokenJ w h ws1 ws2 h1 h2

example : WireToken.OK ⟨strBytes "tök\"en", [], strBytes "r/t", -42⟩ ∧ (strBytes " \r\n\t").all isWs = true := by decide

example : print (tokenJ ⟨strBytes "T", [], strBytes "R", -42⟩) =
    strBytes "{\"token\":\"T\",\"access_token\":\"\",\"refresh_token\":\"R\",\"expires_in\":-42}" := by decide

/-- An answer that decodes stops decoding as soon as anything but white space is appended (a BOM, a
second document, a stray byte): `json.Unmarshal` validates the whole body. -/
theorem trailing_bytes_rejected (d junk : Bytes) (w : WireToken) (h : decodeToken d = .ok w)
    (hj : junk.all isWs = false) : decodeToken (d ++ junk) = .error .syntax :=
  decodeToken_trailing d junk w h hj

example : decodeToken (strBytes "{\"token\":\"T\"}") = .ok { token := strBytes "T" } ∧
    (strBytes "{\"token\":\"U\"}").all isWs = false := by decide

/-! ## The consumer: which token, which refresh token -/

/-- `token` wins over `access_token` when it is non-empty … -/
theorem token_wins_over_access_token (w : WireToken) (now : Int) (h : w.token ≠ []) :
    ∃ u, useToken w now = .ok u ∧ u.access = w.token := by
  simp [useToken, pickAccess, h]

/-- … and `access_token` is used when `token` is empty (absent, `""` or `null`). -/
theorem access_token_used_when_token_empty (w : WireToken) (now : Int) (h : w.token = []) (ha : w.accessToken ≠ []) :
    ∃ u, useToken w now = .ok u ∧ u.access = w.accessToken := by
  simp [useToken, pickAccess, h, ha]

example : (⟨strBytes "T", strBytes "A", [], 0⟩ : WireToken).token ≠ [] ∧
    (⟨[], strBytes "A", [], 0⟩ : WireToken).accessToken ≠ [] := by decide

/-- No access token: an error, and no token is cached — but this is NOT "no state change": the refresh
token of the same answer has already been adopted (see `refresh_kept_iff_nonempty`). -/
theorem no_access_token_is_error (st : RegSt) (w : WireToken) (now : Int) (h1 : w.token = []) (h2 : w.accessToken = []) :
    (consume st w now).2 = .error .noAccessToken ∧ (consume st w now).1.toks = st.toks ∧
    (consume st w now).1.refresh = keepRefresh st.refresh w := by
  simp [consume, useToken, pickAccess, h1, h2]

example : consume { refresh := strBytes "R0" } ⟨[], [], strBytes "R1", 0⟩ 0 =
    ({ refresh := strBytes "R1" }, .error .noAccessToken) := by decide

/-- The refresh token of the answer replaces the stored one iff it is non-empty — on BOTH outcomes. -/
theorem refresh_kept_iff_nonempty (st : RegSt) (w : WireToken) (now : Int) :
    (consume st w now).1.refresh = if w.refreshToken = [] then st.refresh else w.refreshToken := by
  unfold consume
  cases useToken w now <;> rfl

/-- A successful answer adds exactly one cache entry and hands its token back for immediate use. -/
theorem success_caches_one_token (st : RegSt) (w : WireToken) (now : Int) (h : pickAccess w ≠ []) :
    (consume st w now).2 = .ok (pickAccess w) ∧
    (consume st w now).1.toks = st.toks ++ [(pickAccess w, now + lifetimeNs w.expiresIn)] := by
  simp [consume, useToken, h]

example : pickAccess ⟨[], strBytes "A", [], 0⟩ ≠ [] := by decide

/-! ## Lifetimes -/

/-- `expires_in` 0 or absent: 60 seconds. -/
theorem lifetime_default (w : WireToken) (now : Int) (h : w.expiresIn = 0) (ha : pickAccess w ≠ []) :
    ∃ u, useToken w now = .ok u ∧ u.expires = now + 60 * second := by
  simp [useToken, ha, lifetimeNs, h]

example : (⟨strBytes "T", [], [], 0⟩ : WireToken).expiresIn = 0 ∧ pickAccess ⟨strBytes "T", [], [], 0⟩ ≠ [] := by decide

/-- Positive `n` up to 9223372036 (292 years): `n` seconds, exactly. -/
theorem lifetime_positive (w : WireToken) (now : Int) (h1 : 1 ≤ w.expiresIn) (h2 : w.expiresIn ≤ 9223372036)
    (ha : pickAccess w ≠ []) : ∃ u, useToken w now = .ok u ∧ u.expires = now + w.expiresIn * second := by
  simp [useToken, ha, lifetimeNs_exact w.expiresIn (by omega) (by omega) h2]

example : (1 : Int) ≤ 300 ∧ (300 : Int) ≤ 9223372036 ∧ pickAccess ⟨strBytes "T", [], [], 300⟩ ≠ [] := by decide

/-- What a LATER request (at `now2`) finds: `setAuthorization` first drops every token that does not
outlive `now2` by the 1 s margin; the token of this answer survives iff its expiry does. -/
theorem later_request_sees_token_iff (st : RegSt) (w : WireToken) (now now2 : Int) (ha : pickAccess w ≠ []) :
    (prune now2 (consume st w now).1).toks = (prune now2 st).toks ++
      (if now2 + second ≤ now + lifetimeNs w.expiresIn then [(pickAccess w, now + lifetimeNs w.expiresIn)] else []) := by
  simp only [prune, (success_caches_one_token st w now ha).2, List.filter_append]
  by_cases h : now2 + second ≤ now + lifetimeNs w.expiresIn <;> simp [List.filter, alive, h]

-- F41: was stated only down to −9223372036 (`hlo : -9223372036 ≤ w.expiresIn`), and was FALSE below
-- (`negative_lifetime_beyond_int64_was_reused_before_F41`); replaces `negative_lifetime_beyond_int64_is_reused`
/-- EVERY negative `expires_in`, of any magnitude: the token is stored ALREADY EXPIRED — and still returned
for immediate use: the retried request carries it once; no later request (at any time from the
acquisition on) ever finds it in the cache. -/
theorem negative_lifetime_never_reused (st : RegSt) (w : WireToken) (now : Int) (ha : pickAccess w ≠ [])
    (hneg : w.expiresIn < 0) :
    (consume st w now).2 = .ok (pickAccess w) ∧
    ∀ now2, now ≤ now2 → (prune now2 (consume st w now).1).toks = (prune now2 st).toks := by
  refine ⟨(success_caches_one_token st w now ha).1, ?_⟩
  intro now2 hle
  rw [later_request_sees_token_iff st w now now2 ha]
  have hl := lifetimeNs_neg w.expiresIn hneg
  have : ¬ (now2 + second ≤ now + lifetimeNs w.expiresIn) := by unfold second at hl ⊢; omega
  simp [this]

/-- The statement as it stood before F41 (the bound is not needed any more). -/
theorem negative_lifetime_used_once (st : RegSt) (w : WireToken) (now : Int) (ha : pickAccess w ≠ [])
    (hneg : w.expiresIn < 0) (_hlo : -9223372036 ≤ w.expiresIn) :
    (consume st w now).2 = .ok (pickAccess w) ∧
    ∀ now2, now ≤ now2 → (prune now2 (consume st w now).1).toks = (prune now2 st).toks :=
  negative_lifetime_never_reused st w now ha hneg

example : consume {} ⟨strBytes "T", [], [], -5⟩ 1000 = ({ toks := [(strBytes "T", 1000 - 5 * second)] }, .ok (strBytes "T")) ∧
    prune 1000 (consume {} ⟨strBytes "T", [], [], -5⟩ 1000).1 = {} := by decide

/-- The same holds for a lifetime of one second: with the 1 s margin it is used once, for the retry. -/
theorem one_second_lifetime_used_once (st : RegSt) (w : WireToken) (now : Int) (ha : pickAccess w ≠ [])
    (h1 : w.expiresIn = 1) : ∀ now2, now < now2 → (prune now2 (consume st w now).1).toks = (prune now2 st).toks := by
  intro now2 hlt
  rw [later_request_sees_token_iff st w now now2 ha, lifetimeNs_exact w.expiresIn (by omega) (by omega) (by omega)]
  have : ¬ (now2 + second ≤ now + w.expiresIn * second) := by rw [h1]; unfold second; omega
  simp [this]

example : pickAccess ⟨strBytes "T", [], [], 1⟩ ≠ [] ∧ (⟨strBytes "T", [], [], 1⟩ : WireToken).expiresIn = 1 ∧
    prune 1 (consume {} ⟨strBytes "T", [], [], 1⟩ 0).1 = {} ∧
    prune 0 (consume {} ⟨strBytes "T", [], [], 1⟩ 0).1 = { toks := [(strBytes "T", second)] } := by decide

-- F41: replaces `lifetime_wraps_beyond_int64_nanoseconds` (now false; kept as `lifetime_wrapped_before_F41`)
/-- BEYOND ±9223372036 seconds (292 years: what fits into `int64` nanoseconds) the lifetime SATURATES:
it is the bound, with the sign of `expires_in` — whatever the magnitude. -/
theorem lifetime_saturates (n : Int) :
    (9223372036 ≤ n → lifetimeNs n = 9223372036 * second) ∧
    (n ≤ -9223372036 → lifetimeNs n = -9223372036 * second) := by
  constructor
  · intro h; rw [lifetimeNs_eq n (by omega), clampSeconds_hi n h]
  · intro h; rw [lifetimeNs_eq n (by omega), clampSeconds_lo n h]

/-- The values of `lifetime_wrapped_before_F41`, now. -/
example : lifetimeNs (-9223372037) = -9223372036000000000 ∧ lifetimeNs 9223372037 = 9223372036000000000 ∧
    lifetimeNs 9223372036854775807 = 9223372036000000000 ∧ lifetimeNs 18446744074 = 9223372036000000000 ∧
    lifetimeNs (-9223372036854775808) = -9223372036000000000 := by decide

/-- The lifetime never leaves `int64` nanoseconds, keeps the sign of `expires_in`, and grows with it: a
server that states a longer lifetime never gets a shorter one (before F41: `9223372037` got less than `1`). -/
theorem lifetime_sign_and_order (a b : Int) :
    (a < 0 → lifetimeNs a ≤ -second) ∧ (0 < a → second ≤ lifetimeNs a) ∧
    (a ≠ 0 → b ≠ 0 → a ≤ b → lifetimeNs a ≤ lifetimeNs b) := by
  refine ⟨lifetimeNs_neg a, lifetimeNs_pos a, ?_⟩
  intro ha hb hab
  rw [lifetimeNs_eq a ha, lifetimeNs_eq b hb]
  have := clampSeconds_mono a b hab
  unfold second
  omega

/-- The bound of the clamp is `math.MaxInt64 / int64(time.Second)`: the largest number of seconds whose
nanoseconds fit into `int64`. -/
theorem clamp_bound_is_what_fits_int64 :
    maxSeconds = 9223372036854775807 / second ∧ maxSeconds * second ≤ 9223372036854775807 ∧
    9223372036854775807 < (maxSeconds + 1) * second ∧ wrap64 (maxSeconds * second) = maxSeconds * second ∧
    wrap64 (-maxSeconds * second) = -maxSeconds * second := by decide

-- F41: replaces `huge_lifetime_is_not_reused` (now false; kept as `huge_lifetime_was_not_reused_before_F41`)
/-- A token the server declared valid for 9223372036 s or MORE (`MaxInt64`, a server's "never expires",
included) is cached for 292 years: every later request up to then finds it. -/
theorem huge_lifetime_is_reused (st : RegSt) (w : WireToken) (now now2 : Int) (ha : pickAccess w ≠ [])
    (hbig : 9223372036 ≤ w.expiresIn) (h2 : now2 + second ≤ now + 9223372036 * second) :
    (prune now2 (consume st w now).1).toks = (prune now2 st).toks ++ [(pickAccess w, now + 9223372036 * second)] := by
  rw [later_request_sees_token_iff st w now now2 ha, (lifetime_saturates w.expiresIn).1 hbig, if_pos h2]

example : pickAccess ⟨strBytes "T", [], [], 9223372036854775807⟩ ≠ [] ∧
    (9223372036 : Int) ≤ (⟨strBytes "T", [], [], 9223372036854775807⟩ : WireToken).expiresIn ∧
    (9150000000 * second + second ≤ 0 + 9223372036 * second) ∧
    (prune (9150000000 * second) (consume {} ⟨strBytes "T", [], [], 9223372036854775807⟩ 0).1).toks =
      [(strBytes "T", 9223372036 * second)] := by decide

/-- The answer of `negative_lifetime_beyond_int64_was_reused_before_F41`, now: stored expired, never found. -/
example : consume {} ⟨strBytes "T", [], [], -9223372037⟩ 0 = ({ toks := [(strBytes "T", -9223372036 * second)] }, .ok (strBytes "T")) ∧
    (prune 0 (consume {} ⟨strBytes "T", [], [], -9223372037⟩ 0).1).toks = [] ∧
    (prune (9150000000 * second) (consume {} ⟨strBytes "T", [], [], -9223372037⟩ 0).1).toks = [] := by decide

/-! ### Before F41 (the computation the code had: `lifetimeNsBeforeF41`, no clamp) -/

/-- The fix changes no lifetime within ±9223372036 s. -/
theorem lifetime_unchanged_in_range (n : Int) (h1 : -9223372036 ≤ n) (h2 : n ≤ 9223372036) :
    lifetimeNs n = lifetimeNsBeforeF41 n :=
  lifetimeNs_eq_before_F41_in_range n h1 h2

/-- BEYOND ±9223372036 seconds the `int64` nanosecond product wrapped (finding F41): a lifetime
of −9223372037 s became +292 years, one of +9223372037 s (or `MaxInt64`) became negative. -/
theorem lifetime_wrapped_before_F41 :
    lifetimeNsBeforeF41 (-9223372037) = 9223372036709551616 ∧ lifetimeNsBeforeF41 9223372037 = -9223372036709551616 ∧
    lifetimeNsBeforeF41 9223372036854775807 = -1000000000 ∧ lifetimeNsBeforeF41 18446744074 = 290448384 ∧
    lifetimeNsBeforeF41 (-9223372036854775808) = 0 := by decide

/-- So `negative_lifetime_never_reused` was FALSE of that computation: an answer with a negative lifetime
whose token a request 290 years later would still have found cached (`alive`: the pruning rule). -/
theorem negative_lifetime_beyond_int64_was_reused_before_F41 :
    ∃ n : Int, n < 0 ∧ alive (9150000000 * second) (strBytes "T", 0 + lifetimeNsBeforeF41 n) = true :=
  ⟨-9223372037, by decide⟩

/-- And a token the server declared valid for `MaxInt64` seconds was never reused at all. -/
theorem huge_lifetime_was_not_reused_before_F41 :
    ∀ now2, 0 ≤ now2 → alive now2 (strBytes "T", 0 + lifetimeNsBeforeF41 9223372036854775807) = false := by
  intro now2 h
  have h1 : lifetimeNsBeforeF41 9223372036854775807 = -1000000000 := by decide
  rw [h1]
  simp only [alive, decide_eq_false_iff_not]
  unfold second; omega

/-! ## The link to the transport model (C10 / C11) -/

/-- `AuthTransport.finish` — the consumer as C10 and C11 model it, fed with four DECODED fields and a
natural `expires_in` — is this consumer on every answer with `0 ≤ expires_in`: same error, same token,
same refresh-token rule, same expiry (milliseconds there, nanoseconds here). The theorems of C10/C11
therefore cover exactly the answers that decode into that range; negative values are covered by the
statements above.
-- F41: the upper bound `h1 : w.expiresIn ≤ 9223372036` is gone: both models clamp (`Auth.lifeOf`). -/
theorem transport_model_finish_agrees (nowMs : Nat) (st : Auth.HostSt) (ms : List Auth.Msg) (sc : Scope.Scope)
    (w : WireToken) (h0 : 0 ≤ w.expiresIn) :
    (Auth.finish nowMs st ms sc (.ok w.token w.accessToken w.refreshToken w.expiresIn.toNat)).1.refresh =
      (match adopted w with | some t => some ⟨st.host, .refresh, t⟩ | none => st.refresh) ∧
    match useToken w ((nowMs : Int) * 1000000) with
    | .error _ =>
      (Auth.finish nowMs st ms sc (.ok w.token w.accessToken w.refreshToken w.expiresIn.toNat)).2.2 = none ∧
      (Auth.finish nowMs st ms sc (.ok w.token w.accessToken w.refreshToken w.expiresIn.toNat)).1.toks = st.toks
    | .ok u =>
      (Auth.finish nowMs st ms sc (.ok w.token w.accessToken w.refreshToken w.expiresIn.toNat)).2.2 =
        some ⟨st.host, .access, u.access⟩ ∧
      ∃ e : Nat, (Auth.finish nowMs st ms sc (.ok w.token w.accessToken w.refreshToken w.expiresIn.toNat)).1.toks =
        st.toks ++ [⟨sc, ⟨st.host, .access, u.access⟩, e⟩] ∧ (e : Int) * 1000000 = u.expires := by
  have hl := lifeOf_eq w h0
  by_cases hp : pickAccess w = []
  · by_cases hr : w.refreshToken = [] <;>
      simp [Auth.finish, pickToken_eq, hp, useToken, Auth.adoptRefresh, adopted, hr]
  · by_cases hr : w.refreshToken = []
    · simp only [Auth.finish, pickToken_eq, hp, useToken, Auth.adoptRefresh, adopted, hr, if_true, if_false]
      refine ⟨trivial, trivial, _, rfl, ?_⟩
      simp only [Int.natCast_add, Int.natCast_mul] at hl ⊢
      omega
    · simp only [Auth.finish, pickToken_eq, hp, useToken, Auth.adoptRefresh, adopted, hr, if_false]
      refine ⟨trivial, trivial, _, rfl, ?_⟩
      simp only [Int.natCast_add, Int.natCast_mul] at hl ⊢
      omega

example : (0 : Int) ≤ 300 ∧ (0 : Int) ≤ 9223372036854775807 := by decide

/-! ## The source has the shape the model was written for (facts regenerated from the working tree) -/

open OciModel.Generated in
/-- `wireToken`: four fields, their JSON names and Go types are the ones `tokStep` was written for, and
nothing in the package decodes itself. -/
theorem wireToken_as_modelled :
    WireToken.structWireToken = [("Token", "token", "string"), ("AccessToken", "access_token", "string"),
      ("RefreshToken", "refresh_token", "string"), ("ExpiresIn", "expires_in", "int")] ∧
    WireToken.structFound = true ∧ WireToken.customUnmarshal = false ∧ WireToken.sourcesRead = true := by decide

open OciModel.Generated in
/-- The model's member-name table is exactly the JSON names of that struct, in declaration order. -/
theorem model_table_is_the_struct_tags :
    tokenTable.map (·.1) = WireToken.structWireToken.map (fun f => strBytes f.2.1) := by decide

set_option maxRecDepth 20000 in
open OciModel.Generated in
/-- `doTokenRequest`: status check first, then `json.Unmarshal` of the WHOLE body into a fresh `wireToken`,
failing closed. -/
theorem doTokenRequest_decoding_as_modelled :
    WireToken.decodeStmtsFound = true ∧ WireToken.decodeStmts =
      ["if resp.StatusCode != http.StatusOK { return nil, ociregistry.NewHTTPError(nil, resp.StatusCode, resp, data) }",
       "if bodyErr != nil { return nil, fmt.Errorf(\"error reading response body: %v\", err) }",
       "var tok wireToken",
       "if err := json.Unmarshal(data, &tok); err != nil { return nil, fmt.Errorf(\"malformed JSON token in response: %v\", err) }",
       "return &tok, nil"] := by decide

set_option maxRecDepth 20000 in
open OciModel.Generated in
/-- The tail of `acquireAccessToken`, statement by statement: refresh token first, `Token` before
`AccessToken`, the error, 60 s for 0, else `time.Duration(seconds) * time.Second` with `seconds` the
`expires_in` clamped to ±`math.MaxInt64 / int64(time.Second)` (`clampSeconds`, `maxSeconds`), one append. -/
theorem consumer_as_modelled :
    WireToken.consumerStmtsFound = true ∧ WireToken.consumerStmts =
      ["if tok.RefreshToken != \"\" { r.refreshToken = tok.RefreshToken }",
       "accessToken := tok.Token",
       "if accessToken == \"\" { accessToken = tok.AccessToken }",
       "if accessToken == \"\" { return \"\", fmt.Errorf(\"no access token found in auth server response\") }",
       "var expires time.Time",
       "now := time.Now().UTC()",
       -- F41: the else branch was `expires = now.Add(time.Duration(tok.ExpiresIn) * time.Second)`
       "if tok.ExpiresIn == 0 { expires = now.Add(60 * time.Second) } else { const maxSeconds = math.MaxInt64 / int64(time.Second) seconds := min(max(int64(tok.ExpiresIn), -maxSeconds), maxSeconds) expires = now.Add(time.Duration(seconds) * time.Second) }",
       "r.accessTokens = append(r.accessTokens, &scopedToken{scope: scope, token: accessToken, expires: expires})",
       "return accessToken, nil"] := by decide

end OciModel.Props.C10T
