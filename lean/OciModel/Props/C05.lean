/-
C05 — lossless paging.

The client pager (`ociclient.pager`) run against the real server truncation logic
(`ociserver.nextListResults`) over a sorted, duplicate-free backend listing `L`
delivers exactly the items strictly after the start point — none lost, none
duplicated, in order — for ANY page size `n ≥ 1` and ANY start point (absent, equal
to an element, between elements, beyond the end), including the case where the
number of remaining items is an exact multiple of `n` (a final empty page then ends
the iteration).

* L1 `mem_after`, `after_sublist`, `after_strictAsc`
* L2 `pager_lossless` (and `after_last_of_full_page`, the inductive step)
* L3 `serverPage_truncated_iff`, `serverPage_prefix`
* L4 `pagerOver_fuel_irrelevant`
* L5 the same statement for the script view of the client used by C18:
  `pagerScript_over_server` (the run is complete — `done` —, never `error`/`panic`).
* Necessity of the hypotheses: `lossy_with_duplicates`, `lossy_unsorted`,
  `lossy_page_size_zero`.
-/
import OciModel.Pager
import OciModel.PagerLemmas
namespace OciModel.Props.C05
open OciModel.Pager

/-! ### L1: the backend listing after a start point -/

theorem mem_after (L : List Bytes) (s x : Bytes) :
    x ∈ after L (some s) ↔ x ∈ L ∧ compare s x = .lt := mem_after_some

theorem after_none (L : List Bytes) : after L none = L := rfl

theorem after_sublist (L : List Bytes) (s : Option Bytes) : (after L s).Sublist L :=
  Pager.after_sublist L s

theorem after_strictAsc (L : List Bytes) (s : Option Bytes) (h : StrictAsc L) :
    StrictAsc (after L s) :=
  (strictAsc_iff_pairwise _).mpr (after_pairwise ((strictAsc_iff_pairwise _).mp h) s)

/-- A start point at or beyond the last element leaves nothing. -/
theorem after_beyond (L : List Bytes) (s : Bytes)
    (h : ∀ x ∈ L, compare s x ≠ .lt) : after L (some s) = [] := by
  simp only [after, List.filter_eq_nil_iff]
  intro x hx
  simpa using h x hx

/-! ### L3: the server's page -/

theorem serverPage_truncated_iff (L : List Bytes) (n : Nat) (last : Option Bytes) :
    (serverPage L n last).2 = true ↔ n < (after L last).length := by
  simp [serverPage]

theorem serverPage_prefix (L : List Bytes) (n : Nat) (last : Option Bytes) :
    (serverPage L n last).1 = (after L last).take n ∧
    (serverPage L n last).1 <+: after L last ∧
    (serverPage L n last).1.length = min n (after L last).length :=
  ⟨rfl, List.take_prefix _ _, List.length_take⟩

/-- The server reports "truncated" exactly when the page is not the whole remainder. -/
theorem serverPage_truncated_iff_ne (L : List Bytes) (n : Nat) (last : Option Bytes) :
    (serverPage L n last).2 = false ↔ (serverPage L n last).1 = after L last := by
  simp only [serverPage, decide_eq_false_iff_not, Nat.not_lt]
  constructor
  · exact List.take_of_length_le
  · intro h
    have := congrArg List.length h
    rw [List.length_take] at this
    omega

/-! ### L2: lossless paging -/

/-- The inductive step: restarting strictly after the final item `x` of a page of `n`
items taken from the listing after `s` yields the listing after `s` minus that page.
(Items before `x` compare below it and are filtered out; items after compare above.) -/
theorem after_last_of_full_page (L : List Bytes) (hL : StrictAsc L) (s : Option Bytes)
    (n : Nat) (x : Bytes) (hlast : ((after L s).take n).getLast? = some x) :
    after L (some x) = (after L s).drop n :=
  after_last_of_page ((strictAsc_iff_pairwise _).mp hL) s hlast

/-- Any fuel exceeding the number of remaining items is enough. -/
theorem pager_lossless_fuel (L : List Bytes) (n : Nat) (hL : StrictAsc L) (hn : 1 ≤ n)
    (fuel : Nat) (start : Option Bytes) (hf : (after L start).length < fuel) :
    pagerOver L n fuel start = after L start := by
  induction fuel generalizing start with
  | zero => omega
  | succ fuel ih =>
    rw [pagerOver_succ]
    by_cases hshort : ((after L start).take n).length < n
    · rw [if_pos hshort]
      rw [List.length_take] at hshort
      exact List.take_of_length_le (by omega)
    · rw [if_neg hshort]
      rw [List.length_take] at hshort
      cases hx : ((after L start).take n).getLast? with
      | none =>
        have := congrArg List.length (List.getLast?_eq_none_iff.mp hx)
        rw [List.length_take, List.length_nil] at this
        omega
      | some x =>
        have hstep := after_last_of_full_page L hL start n x hx
        show (after L start).take n ++ pagerOver L n fuel (some x) = after L start
        rw [ih (some x) (by rw [hstep, List.length_drop]; omega), hstep]
        exact List.take_append_drop n _

/-- **Lossless paging.** For every strictly ascending listing, page size `n ≥ 1` and
start point, the pager delivers exactly the items after the start point. -/
theorem pager_lossless (L : List Bytes) (n : Nat) (start : Option Bytes)
    (hL : StrictAsc L) (hn : 1 ≤ n) :
    pagerOver L n (L.length + 1) start = after L start :=
  pager_lossless_fuel L n hL hn _ start
    (Nat.lt_succ_of_le (after_sublist L start).length_le)

/-- From the beginning: the whole listing. -/
theorem pager_lossless_all (L : List Bytes) (n : Nat) (hL : StrictAsc L) (hn : 1 ≤ n) :
    pagerOver L n (L.length + 1) none = L :=
  pager_lossless L n none hL hn

/-- Consequences spelled out: no item lost, none invented, none duplicated. -/
theorem pager_lossless_mem (L : List Bytes) (n : Nat) (s x : Bytes)
    (hL : StrictAsc L) (hn : 1 ≤ n) :
    x ∈ pagerOver L n (L.length + 1) (some s) ↔ x ∈ L ∧ compare s x = .lt := by
  rw [pager_lossless L n (some s) hL hn]; exact mem_after L s x

theorem pager_lossless_strictAsc (L : List Bytes) (n : Nat) (start : Option Bytes)
    (hL : StrictAsc L) (hn : 1 ≤ n) :
    StrictAsc (pagerOver L n (L.length + 1) start) := by
  rw [pager_lossless L n start hL hn]; exact after_strictAsc L start hL

/-! ### L4: fuel -/

theorem pagerOver_fuel_irrelevant (L : List Bytes) (n : Nat) (start : Option Bytes)
    (hL : StrictAsc L) (hn : 1 ≤ n) (f g : Nat)
    (hf : (after L start).length < f) (hg : (after L start).length < g) :
    pagerOver L n f start = pagerOver L n g start := by
  rw [pager_lossless_fuel L n hL hn f start hf, pager_lossless_fuel L n hL hn g start hg]

/-! ### L5: the script view of the client against the server

The answers the server gives to the successive requests of the pager, as a script for
`pagerScript` (the view of the client that is diffed with the Go client in C18): a
page carries a Link exactly when the server truncated. -/

def linkOf : Bool → Option Bool
  | true => some true
  | false => none

def serverScript (L : List Bytes) (n : Nat) : Nat → Option Bytes → List Answer
  | 0, _ => []
  | fuel + 1, last =>
    let p := serverPage L n last
    .page p.1 (linkOf p.2) ::
      match p.1.getLast? with
      | none => []
      | some l => serverScript L n fuel (some l)

theorem serverScript_succ (L : List Bytes) (n fuel : Nat) (last : Option Bytes) :
    serverScript L n (fuel + 1) last =
      .page ((after L last).take n) (linkOf (decide (n < (after L last).length))) ::
        match ((after L last).take n).getLast? with
        | none => []
        | some l => serverScript L n fuel (some l) := rfl

/-- Against the real server the scripted client runs to completion (`done`: neither
error, nor panic, nor an exhausted script) and delivers exactly the listing after the
start point, in at most `remaining / n + 1` requests. -/
theorem pagerScript_over_server (L : List Bytes) (n : Nat) (hL : StrictAsc L) (hn : 1 ≤ n)
    (fuel : Nat) (start : Option Bytes) (hf : (after L start).length < fuel) :
    (pagerScript (n : Int) (serverScript L n fuel start) none).yielded = after L start ∧
    (pagerScript (n : Int) (serverScript L n fuel start) none).fin = .done ∧
    (pagerScript (n : Int) (serverScript L n fuel start) none).requests
      = (after L start).length / n + 1 := by
  induction fuel generalizing start with
  | zero => omega
  | succ fuel ih =>
    simp only [serverScript_succ, pagerScript_page, deliver_none]
    rw [if_neg (by simp)]
    split
    · rename_i hshort
      have hlt : (after L start).length < n := by
        rw [List.length_take] at hshort; omega
      refine ⟨List.take_of_length_le (by omega), rfl, ?_⟩
      simp [Nat.div_eq_of_lt hlt]
    · rename_i hfull
      have hge : n ≤ (after L start).length := by
        rw [List.length_take] at hfull; omega
      have hne : (after L start).take n ≠ [] := by
        intro h
        have := congrArg List.length h
        rw [List.length_take, List.length_nil] at this
        omega
      rw [if_neg hne]
      have hlink : ¬ (linkOf (decide (n < (after L start).length)) = some false) := by
        cases decide (n < (after L start).length) <;> simp [linkOf]
      rw [if_neg hlink]
      obtain ⟨x, hx⟩ : ∃ x, ((after L start).take n).getLast? = some x := by
        cases h : ((after L start).take n).getLast? with
        | none => exact absurd (List.getLast?_eq_none_iff.mp h) hne
        | some x => exact ⟨x, rfl⟩
      have hstep := after_last_of_full_page L hL start n x hx
      have hlen : (after L (some x)).length < fuel := by
        rw [hstep, List.length_drop]; omega
      obtain ⟨h1, h2, h3⟩ := ih (some x) hlen
      simp only [hx]
      refine ⟨?_, h2, ?_⟩
      · rw [h1, hstep]; exact List.take_append_drop n _
      · rw [h3, hstep, List.length_drop]
        have : (after L start).length = ((after L start).length - n) + n := by omega
        conv => rhs; rw [this, Nat.add_div_right _ (by omega : 0 < n)]

/-- The two views of the client agree over the real server. -/
theorem pagerScript_eq_pagerOver (L : List Bytes) (n : Nat) (start : Option Bytes)
    (hL : StrictAsc L) (hn : 1 ≤ n) :
    (pagerScript (n : Int) (serverScript L n (L.length + 1) start) none).yielded
      = pagerOver L n (L.length + 1) start := by
  have hf : (after L start).length < L.length + 1 :=
    Nat.lt_succ_of_le (after_sublist L start).length_le
  rw [(pagerScript_over_server L n hL hn _ start hf).1, pager_lossless L n start hL hn]

/-! ### The hypotheses are necessary -/

/-- With a duplicate in the listing an item is lost (restarting strictly after the final
item of a page skips its duplicate). -/
theorem lossy_with_duplicates :
    pagerOver [[1], [1], [2]] 1 4 none = [[1], [2]] ∧ after [[1], [1], [2]] none ≠ [[1], [2]] := by
  decide

/-- With an unsorted listing items are lost. -/
theorem lossy_unsorted :
    pagerOver [[3], [1], [2]] 1 4 none = [[3]] := by decide

/-- Page size `0` (excluded by `ListN = n > 0` on the server and by the defaulting in
`ociclient.New`) delivers nothing. -/
theorem lossy_page_size_zero :
    pagerOver [[1], [2]] 0 3 none = [] := by decide

/-! ### Examples (evaluated) -/

-- 5 items, page size 2, from the beginning: pages [1,2] [3,4] [5]
example : pagerOver [[1], [2], [3], [4], [5]] 2 6 none = [[1], [2], [3], [4], [5]] := by decide

-- exact multiple: 4 items, page size 2; a final empty page ends the iteration
example : pagerOver [[1], [2], [3], [4]] 2 5 none = [[1], [2], [3], [4]] := by decide
example :
    serverScript [[1], [2], [3], [4]] 2 5 none
      = [.page [[1], [2]] (some true), .page [[3], [4]] none, .page [] none] := by decide

-- start equal to an element / between elements / beyond the end / below the beginning
example : pagerOver [[1], [3], [5], [7]] 2 5 (some [3]) = [[5], [7]] := by decide
example : pagerOver [[1], [3], [5], [7]] 2 5 (some [4]) = [[5], [7]] := by decide
example : pagerOver [[1], [3], [5], [7]] 2 5 (some [9]) = [] := by decide
example : pagerOver [[1], [3], [5], [7]] 3 5 (some []) = [[1], [3], [5], [7]] := by decide

-- lexicographic order on multi-byte names: "a" < "a/b" < "ab" < "b"
example :
    pagerOver [[97], [97, 47, 98], [97, 98], [98]] 1 5 (some [97])
      = [[97, 47, 98], [97, 98], [98]] := by decide

-- page size larger than the listing: a single short page ends the run (the server
-- would answer a further request with an empty page; the client never makes it)
example : serverScript [[1], [2]] 10 3 none = [.page [[1], [2]] none, .page [] none] := by decide
example :
    pagerScript 10 (serverScript [[1], [2]] 10 3 none) none = ⟨[[1], [2]], 1, .done⟩ := by decide

-- the scripted client against the server
example :
    pagerScript 2 (serverScript [[1], [2], [3], [4], [5]] 2 6 none) none
      = ⟨[[1], [2], [3], [4], [5]], 3, .done⟩ := by decide

example : StrictAsc [[97], [97, 47, 98], [97, 98], [98]] := by decide

end OciModel.Props.C05
