import OciModel.Scope
namespace OciModel.Props.C09
open OciModel.Scope

/-- The unlimited scope contains everything. -/
theorem unlimited_contains_all (s : Scope) : contains unlimitedScope s = true := by
  simp [contains, unlimitedScope]

end OciModel.Props.C09
