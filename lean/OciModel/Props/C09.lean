/-
C09 — `ociauth.Scope` is a faithful finite-set abstraction.

Property theorems about the model in `OciModel/Scope.lean`. The proofs here only
assemble the helper lemmas of `OciModel/ScopeLemmas.lean` and, for the print/parse
round trip, `OciModel/ScopeParse.lean`.

`Mem r s` (`r ∈ iter s`) is the abstraction function: the finite set of resource
scopes a limited scope stands for. `WF` is the representation invariant; it is
established by every constructor (`newScope_wf`, `parseScope_wf`, `union_wf`).
-/
import OciModel.ScopeLemmas
import OciModel.ScopeParse
namespace OciModel.Props.C09
open OciModel.Scope

/-- The unlimited scope contains everything. -/
theorem unlimited_contains_all (s : Scope) : contains unlimitedScope s = true := by
  simp [contains, unlimitedScope]

/-! ### P1 — sort-and-compact -/

theorem sortU_strictAsc (l : List RS) : StrictAsc (sortU l) := Scope.sortU_strictAsc l

theorem mem_sortU (r : RS) (l : List RS) : r ∈ sortU l ↔ r ∈ l := Scope.mem_sortU r l

/-! ### P2, P3 — construction establishes the invariant and agrees with the naive set -/

theorem newScope_wf (l : List RS) : WF (newScope l) := Scope.newScope_wf l

theorem parseScope_wf (s : Bytes) : WF (parseScope s) := Scope.parseScope_wf s

theorem mem_newScope (r : RS) (l : List RS) : Mem r (newScope l) ↔ r ∈ l :=
  Scope.mem_newScope r l

/-- Construction from a scope string agrees with the naive set: the scope `ParseScope`
builds from a text denotes exactly the union, over the space-separated words of the
text (`fields` = `strings.Fields`), of the resource scopes a word stands for
(`parseField`: `type:resource:a1,a2,…` stands for one triple per action, any other
word `w` for the triple `(w, "", "")`) — for every byte string. -/
theorem mem_parseScope (r : RS) (s : Bytes) :
    Mem r (parseScope s) ↔ ∃ w ∈ fields s, r ∈ parseField w :=
  Scope.mem_parseScope r s

/-! ### P4 — iteration is strictly ascending -/

theorem iter_strictAsc (s : Scope) (h : WF s) : StrictAsc (iter s) :=
  (strictAsc_iff_pairwise _).mpr (iter_pairwise h)

/-! ### P5 — `Holds` is membership -/

theorem holds_iff_mem (s : Scope) (h : WF s) (hl : s.unlimited = false) (r : RS) :
    holds s r = true ↔ Mem r s := Scope.holds_iff_mem s h hl r

/-! ### P6 — `Union` is set union and preserves the invariant -/

theorem union_wf (a b : Scope) (ha : WF a) (hb : WF b) : WF (union a b) :=
  Scope.union_wf a b ha hb

theorem mem_union (a b : Scope) (_ha : WF a) (_hb : WF b)
    (la : a.unlimited = false) (lb : b.unlimited = false) (r : RS) :
    Mem r (union a b) ↔ Mem r a ∨ Mem r b := mem_union' la lb r

/-! ### P7 — `Contains` is set inclusion -/

theorem contains_iff_subset (a b : Scope) (ha : WF a) (hb : WF b)
    (la : a.unlimited = false) (lb : b.unlimited = false) :
    contains a b = true ↔ ∀ r, Mem r b → Mem r a :=
  Scope.contains_iff_subset a b ha hb la lb

/-! ### P8 — `Equal` is extensional equality -/

theorem equal_iff (a b : Scope) (ha : WF a) (hb : WF b) :
    equal a b = true ↔ (a.unlimited = b.unlimited ∧ ∀ r, Mem r a ↔ Mem r b) :=
  Scope.equal_iff a b ha hb

/-! ### P9 — `Len` counts the iterated items -/

theorem len_eq (s : Scope) (h : WF s) (hl : s.unlimited = false) :
    len s = .ok (iter s).length := Scope.len_eq s h hl

/-! ### P10 — a no-op `Union` returns the receiver itself (including `original`) -/

theorem union_noop_returns_receiver (a b : Scope) (ha : WF a) (hb : WF b)
    (la : a.unlimited = false) (lb : b.unlimited = false)
    (hsub : ∀ r, Mem r b → Mem r a) : union a b = a :=
  Scope.union_noop_returns_receiver a b ha hb la lb hsub

/-! ### P11 — the unlimited scope -/

theorem unlimited_holds (r : RS) : holds unlimitedScope r = true := Scope.unlimited_holds r

theorem union_unlimited_left (s : Scope) : union unlimitedScope s = unlimitedScope :=
  Scope.union_unlimited_left s

theorem union_unlimited_right (s : Scope) : union s unlimitedScope = unlimitedScope :=
  Scope.union_unlimited_right s

theorem not_contains_unlimited (s : Scope) (hl : s.unlimited = false) :
    contains s unlimitedScope = false := Scope.not_contains_unlimited s hl

/-! ### P12 — repository scopes and the catalog scope never confer one another -/

theorem repo_catalog_disjoint (l : List RS) :
    (holds (newScope l) catalog = true ↔ catalog ∈ l) ∧
    ∀ n a, holds (newScope l) (tyRepository, n, a) = true ↔ (tyRepository, n, a) ∈ l := by
  have hwf := Scope.newScope_wf l
  have hl := newScope_unlimited l
  exact ⟨(Scope.holds_iff_mem _ hwf hl _).trans (Scope.mem_newScope _ l),
    fun n a => (Scope.holds_iff_mem _ hwf hl _).trans (Scope.mem_newScope _ l)⟩

/-! ### P13 — print/parse round trip

`CleanField b` (`OciModel/ScopeParse.lean`): `b` is non-empty and has no byte in
`{9, 10, 11, 12, 13, 32, ':', ',', 0xC2, 0xE1, 0xE2, 0xE3}` (no white space in the
sense of `unicode.IsSpace`, no separator). `CleanRS r`: all three parts are clean,
or the type is clean and resource and action are empty (an opaque one-word scope).
Both are decidable. -/

/-- The full round-trip statement. -/
def print_parse_statement : Prop :=
  ∀ l : List RS, (∀ r ∈ l, CleanRS r) →
    equal (parseScope (toStr (newScope l))) (newScope l) = true

theorem print_parse (l : List RS) (h : ∀ r ∈ l, CleanRS r) :
    equal (parseScope (toStr (newScope l))) (newScope l) = true := Scope.print_parse l h

theorem print_parse_statement_holds : print_parse_statement := print_parse

/-! ### The hypotheses are satisfiable by non-trivial scopes -/

/-- Built from "repository:a:pull,push registry:catalog:* repository:b:d foo". -/
def exA : Scope :=
  newScope [(tyRepository, [97], actPull), (tyRepository, [97], actPush), catalog,
    (tyRepository, [98], [100]), ([102, 111, 111], [], [])]

/-- "repository:a:pull". -/
def exB : Scope := newScope [(tyRepository, [97], actPull)]

example : WF exA ∧ exA.unlimited = false := ⟨Scope.newScope_wf _, newScope_unlimited _⟩
example : WF exB ∧ exB.unlimited = false := ⟨Scope.newScope_wf _, newScope_unlimited _⟩
example : exA.repos = [⟨[], true, false⟩, ⟨[97], true, true⟩] ∧
    exA.others = [([102, 111, 111], [], []), (tyRepository, [98], [100])] := by decide
example : (iter exA).length = 5 := by decide
example : contains exA exB = true ∧ contains exB exA = false := by decide
/-- The hypothesis of P10 holds for `exA`, `exB` (and the conclusion is not vacuous). -/
example : ∀ r, Mem r exB → Mem r exA :=
  (contains_iff_subset exA exB (Scope.newScope_wf _) (Scope.newScope_wf _)
    (newScope_unlimited _) (newScope_unlimited _)).mp (by decide)
example : WF unlimitedScope := wf_unlimitedScope

/-- The list behind `exA` is clean, it prints as
"foo registry:catalog:* repository:a:pull,push repository:b:d", and that text parses back. -/
def exAList : List RS :=
  [(tyRepository, [97], actPull), (tyRepository, [97], actPush), catalog,
    (tyRepository, [98], [100]), ([102, 111, 111], [], [])]
example : ∀ r ∈ exAList, CleanRS r := by decide
example : toStr exA =
    -- "foo registry:catalog:* repository:a:pull,push repository:b:d"
    ([102, 111, 111, 32, 114, 101, 103, 105, 115, 116, 114, 121, 58, 99, 97, 116, 97, 108,
      111, 103, 58, 42, 32, 114, 101, 112, 111, 115, 105, 116, 111, 114, 121, 58, 97, 58, 112,
      117, 108, 108, 44, 112, 117, 115, 104, 32, 114, 101, 112, 111, 115, 105, 116, 111, 114,
      121, 58, 98, 58, 100] : Bytes) := by
  decide
example : equal (parseScope (toStr exA)) exA = true := by decide
/-- `mem_parseScope` on "repository:a:pull,push  foo" (two spaces): two words, three triples. -/
example :
    let s : Bytes := strBytes "repository:a:pull,push  foo"
    fields s = [strBytes "repository:a:pull,push", strBytes "foo"] ∧
    (fields s).flatMap parseField =
      [(tyRepository, [97], actPull), (tyRepository, [97], actPush), ([102, 111, 111], [], [])] ∧
    iter (parseScope s) =
      [([102, 111, 111], [], []), (tyRepository, [97], actPull), (tyRepository, [97], actPush)] := by decide

end OciModel.Props.C09
