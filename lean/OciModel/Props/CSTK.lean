/-
CSTK — stacks of wrappers (sub-check of C01 and C05).

C01 and C05 speak of "any wrapper stack {mem, +debug, +select, +sub, …}"; every wrapper has its own
model and theorems (C12 select, C13 sub, C05D debug, C14W read-only).  This file is about the
*composition*: `interp stack B` (`OciModel/Stack.lean`) runs each layer's own model on the layer below,
for stacks of any depth and any order, over an abstract registry `B` at the bottom.

* `stack_behaviour`: the whole behaviour on a call whose result the wrappers pass back as it is — the
  outermost refusal and no call on `B`, or `B`'s answer to the call with the `sub` prefixes prepended
  (induction on the stack; the step is the per-wrapper theorem of C12 / C13 / C05D / C14W).
* read transparency (`read_transparent`, `read_reaches_backend_once`), its C01 corollaries over `Mem`
  (`stack_get_exact_blob`, …), confinement (`refused_never_reaches_backend`, `mutator_never_passes_readOnly`,
  `stack_name_joined`, `stack_name_confined`) and listings (`stack_listing`, …) follow.
* `*_adapter_eq`: the glue in `Stack.lean` agrees with each wrapper's own model.
* `generated_*`: the facts about the regenerated tables all of this rests on, by `decide`.

Layers covered: debug, select (any policy), sub (any prefix, `""` included), readOnly.  Not covered:
unify (two wrapped registries; see C15), immutable (its `PushManifest` makes three calls and needs the
registry's state: `WrapRO.immStep` over `S → Op → S × Out` has no counterpart for a stateless `B`).
-/
import OciModel.StackLemmas
import OciModel.Props.C01

namespace OciModel.Props.CSTK
open OciModel OciModel.Stack OciModel.Generated
open OciModel.Select (Call Env Kind Policy)
open OciModel.Scope (Scope)

variable {ε ρ : Type}

/-! ### The whole behaviour of a stack -/

/-- For a well-formed call of any method but `Repositories` (and, when the stack has a debug layer, a
method whose result that wrapper hands back as it is): the answer is the refusal of the outermost layer
that refuses the call as it sees it, and then nothing is called; or, when no layer refuses, exactly
`B`'s answer to the same method with every repository argument under the `sub` prefixes and the
scopes mapped. -/
theorem stack_behaviour (hok : TablesOk = true) (stack : List (Layer ε)) (B : Backend ε ρ) (sc : Scope) (c : Call)
    (hwf : wf c = true) (hm : c.method ≠ "Repositories")
    (hpl : hasDebug stack = true → plainMethod c.method = true) :
    interp stack B sc c =
      match verdict stack c with
      | some e => ⟨.rejected e, []⟩
      | none => B (stackScope stack sc) (stackCall stack c) :=
  interp_eq hok stack B sc c hwf hm hpl

/-! ### Read transparency -/

/-- A Reader call (GetBlob, GetBlobRange, GetManifest, GetTag, ResolveBlob, ResolveManifest, ResolveTag)
on a name that every `select` layer allows to be read (as that layer sees the name) is answered, through
a stack of any depth, by `B`'s answer to the same call on the name with the `sub` prefixes prepended. -/
theorem read_transparent (hok : TablesOk = true) (stack : List (Layer ε)) (B : Backend ε ρ) (sc : Scope)
    (m : String) (hm : m ∈ Iface.readerMethods) (n : Bytes) (rest : List Bytes)
    (hwf : wf ⟨m, n :: rest⟩ = true) (hallow : Allowed .read stack n) :
    interp stack B sc ⟨m, n :: rest⟩ = B (stackScope stack sc) ⟨m, stackName stack n :: rest⟩ := by
  obtain ⟨hpl, hrf, hmut⟩ := readersOk_of hok m hm
  obtain ⟨_, hne, _⟩ := repoFirst_unfold m .read hrf
  rw [interp_eq hok stack B sc _ hwf hne (fun _ => hpl),
    verdict_none_of_allowed stack m hrf hmut n rest hwf hallow,
    stackCall_repoFirst stack m .read hrf n rest hwf]

/-- Over a registry that is any function from requests to answers: the answer is that function's, and
the registry saw exactly one call — that one. -/
theorem read_reaches_backend_once (hok : TablesOk = true) (stack : List (Layer ε)) (B : Scope → Call → ρ)
    (sc : Scope) (m : String) (hm : m ∈ Iface.readerMethods) (n : Bytes) (rest : List Bytes)
    (hwf : wf ⟨m, n :: rest⟩ = true) (hallow : Allowed .read stack n) :
    interp stack (base B) sc ⟨m, n :: rest⟩ =
      ⟨.returned (B (stackScope stack sc) ⟨m, stackName stack n :: rest⟩),
       [(stackScope stack sc, ⟨m, stackName stack n :: rest⟩)]⟩ := by
  rw [read_transparent hok stack (base B) sc m hm n rest hwf hallow]
  rfl

/-- Conversely, a Reader call that gets an answer of `B` at all got it for the mapped name: a read
through a stack never shows content of any other repository. -/
theorem read_answer_is_of_mapped_name (hok : TablesOk = true) (stack : List (Layer ε)) (B : Scope → Call → ρ)
    (sc : Scope) (m : String) (hm : m ∈ Iface.readerMethods) (n : Bytes) (rest : List Bytes)
    (hwf : wf ⟨m, n :: rest⟩ = true) (a : ρ)
    (h : (interp stack (base B) sc ⟨m, n :: rest⟩).res = .returned a) :
    a = B (stackScope stack sc) ⟨m, stackName stack n :: rest⟩ ∧
    (interp stack (base B) sc ⟨m, n :: rest⟩).calls = [(stackScope stack sc, ⟨m, stackName stack n :: rest⟩)] := by
  obtain ⟨hpl, hrf, _⟩ := readersOk_of hok m hm
  obtain ⟨_, hne, _⟩ := repoFirst_unfold m .read hrf
  rw [interp_eq hok stack (base B) sc _ hwf hne (fun _ => hpl)] at h ⊢
  cases hv : verdict stack ⟨m, n :: rest⟩ with
  | some e => simp [hv] at h
  | none =>
    simp only [hv, stackCall_repoFirst stack m .read hrf n rest hwf, base, Res.returned.injEq] at h ⊢
    exact ⟨h.symm, trivial⟩

/-! ### C01 through a stack: `Mem` at the bottom -/

section
variable (H : Bytes → Bytes) (dec : Bytes → Int)

/-- A successful `GetBlob` through any stack over a `Mem` state satisfying the digest invariant returns
exactly the bytes stored in the mapped repository under the digest asked for; they hash to that digest
and the descriptor names it; `Mem` saw one call, on the mapped name. -/
theorem stack_get_exact_blob (hok : TablesOk = true) (s : Mem.State) (hs : C01.Inv H s) (stack : List (Layer ε))
    (sc : Scope) (n d : Bytes) (desc : Mem.Desc) (data : Bytes)
    (h : (interp stack (base (memRead H dec s)) sc ⟨"GetBlob", [n, d]⟩).res = .returned (some (.okRead desc data))) :
    desc.digest = d ∧ H data = d ∧ desc.size = data.length ∧
    (∃ b, Mem.blobFor s (stackName stack n) d = .ok b ∧ data = b.data) ∧
    (interp stack (base (memRead H dec s)) sc ⟨"GetBlob", [n, d]⟩).calls =
      [(stackScope stack sc, ⟨"GetBlob", [stackName stack n, d]⟩)] := by
  obtain ⟨ha, hc⟩ := read_answer_is_of_mapped_name hok stack (memRead H dec s) sc "GetBlob" (by decide) n [d]
    rfl _ h
  have hstep : Mem.step H s (.getBlob (stackName stack n) d) =
      ((Mem.step H s (.getBlob (stackName stack n) d)).1, .okRead desc data) := by
    have : (Mem.step H s (.getBlob (stackName stack n) d)).2 = .okRead desc data := by
      simpa [memRead] using ha.symm
    rw [← this]
  obtain ⟨_, h1, h2, h3⟩ := C01.get_exact_blob H hs hstep
  obtain ⟨_, b, hb, _, hd⟩ := Mem.step_getBlob_okRead H hstep
  exact ⟨h1, h2, h3, ⟨b, hb, hd⟩, hc⟩

theorem stack_get_exact_manifest (hok : TablesOk = true) (s : Mem.State) (hs : C01.Inv H s) (stack : List (Layer ε))
    (sc : Scope) (n d : Bytes) (desc : Mem.Desc) (data : Bytes)
    (h : (interp stack (base (memRead H dec s)) sc ⟨"GetManifest", [n, d]⟩).res = .returned (some (.okRead desc data))) :
    desc.digest = d ∧ H data = d ∧ desc.size = data.length ∧
    ∃ b, Mem.manifestFor s (stackName stack n) d = .ok b ∧ data = b.data := by
  obtain ⟨ha, _⟩ := read_answer_is_of_mapped_name hok stack (memRead H dec s) sc "GetManifest" (by decide) n [d]
    rfl _ h
  have hstep : Mem.step H s (.getManifest (stackName stack n) d) =
      ((Mem.step H s (.getManifest (stackName stack n) d)).1, .okRead desc data) := by
    have : (Mem.step H s (.getManifest (stackName stack n) d)).2 = .okRead desc data := by
      simpa [memRead] using ha.symm
    rw [← this]
  obtain ⟨_, h1, h2, h3⟩ := C01.get_exact_manifest H hs hstep
  obtain ⟨_, b, hb, _, hd⟩ := Mem.step_getManifest_okRead H hstep
  exact ⟨h1, h2, h3, b, hb, hd⟩

/-- By tag: the bytes hash to the digest the descriptor names, and that is the digest the tag of the
mapped repository points at. -/
theorem stack_get_exact_tag (hok : TablesOk = true) (s : Mem.State) (hs : C01.Inv H s) (stack : List (Layer ε))
    (sc : Scope) (n t : Bytes) (desc : Mem.Desc) (data : Bytes)
    (h : (interp stack (base (memRead H dec s)) sc ⟨"GetTag", [n, t]⟩).res = .returned (some (.okRead desc data))) :
    H data = desc.digest ∧ desc.size = data.length ∧
    ∃ rp td, Mem.getRepo s (stackName stack n) = some rp ∧ Mem.alookup t rp.tags = some td ∧
      td.digest = desc.digest := by
  obtain ⟨ha, _⟩ := read_answer_is_of_mapped_name hok stack (memRead H dec s) sc "GetTag" (by decide) n [t]
    rfl _ h
  have hstep : Mem.step H s (.getTag (stackName stack n) t) =
      ((Mem.step H s (.getTag (stackName stack n) t)).1, .okRead desc data) := by
    have : (Mem.step H s (.getTag (stackName stack n) t)).2 = .okRead desc data := by
      simpa [memRead] using ha.symm
    rw [← this]
  obtain ⟨_, h1, h2, h3⟩ := C01.get_exact_tag H hs hstep
  exact ⟨h1, h2, h3⟩

/-- A ranged read: the descriptor still describes the whole blob of the mapped repository, the data is
the requested slice of it. -/
theorem stack_range_exact (hok : TablesOk = true) (s : Mem.State) (hs : C01.Inv H s) (stack : List (Layer ε))
    (sc : Scope) (n d o0 o1 : Bytes) (desc : Mem.Desc) (data : Bytes)
    (h : (interp stack (base (memRead H dec s)) sc ⟨"GetBlobRange", [n, d, o0, o1]⟩).res =
      .returned (some (.okRead desc data))) :
    ∃ b, Mem.blobFor s (stackName stack n) d = .ok b ∧ desc = Mem.descOf H b ∧ desc.digest = d ∧
      desc.size = b.data.length ∧ 0 ≤ dec o0 ∧
      data = (b.data.drop (dec o0).toNat).take
        ((if dec o1 < 0 ∨ dec o1 > b.data.length then (b.data.length : Int) else dec o1) - dec o0).toNat := by
  obtain ⟨ha, _⟩ := read_answer_is_of_mapped_name hok stack (memRead H dec s) sc "GetBlobRange" (by decide) n
    [d, o0, o1] rfl _ h
  have hstep : Mem.step H s (.getBlobRange (stackName stack n) d (dec o0) (dec o1)) =
      ((Mem.step H s (.getBlobRange (stackName stack n) d (dec o0) (dec o1))).1, .okRead desc data) := by
    have : (Mem.step H s (.getBlobRange (stackName stack n) d (dec o0) (dec o1))).2 = .okRead desc data := by
      simpa [memRead] using ha.symm
    rw [← this]
  exact (C01.range_exact H hs hstep).2

end

/-! ### Confinement -/

/-- A call (of any method whose repository argument is its first: all but `MountBlob` and
`Repositories`) on a name that some `select` layer refuses for the method's access kind — whatever
layers sit above or below that layer, and whatever `B` is — is answered with a wrapper's own error (a
policy's refusal, or `ReadOnly`'s "unsupported" if such a layer sits above and refuses first), and no call
is made on `B`. -/
theorem refused_never_reaches_backend (hok : TablesOk = true) (stack : List (Layer ε)) (B : Backend ε ρ) (sc : Scope)
    (m : String) (k : Kind) (hrf : repoFirst m k = true) (n : Bytes) (rest : List Bytes)
    (hwf : wf ⟨m, n :: rest⟩ = true) (hpl : hasDebug stack = true → plainMethod m = true)
    (href : Refused k stack n) :
    ∃ e, interp stack B sc ⟨m, n :: rest⟩ = ⟨.rejected e, []⟩ ∧ errorsOf stack e := by
  obtain ⟨_, hne, _⟩ := repoFirst_unfold m k hrf
  have hv := verdict_isSome_of_refused stack m k hrf n rest hwf href
  cases hv' : verdict stack ⟨m, n :: rest⟩ with
  | none => simp [hv'] at hv
  | some e =>
    refine ⟨e, ?_, verdict_origin stack _ e hv'⟩
    rw [interp_eq hok stack B sc _ hwf hne hpl, hv']

/-- In particular the answer does not depend on what is at the bottom. -/
theorem refused_independent_of_backend (hok : TablesOk = true) (stack : List (Layer ε)) (B₁ B₂ : Backend ε ρ)
    (sc : Scope) (m : String) (k : Kind) (hrf : repoFirst m k = true) (n : Bytes) (rest : List Bytes)
    (hwf : wf ⟨m, n :: rest⟩ = true) (hpl : hasDebug stack = true → plainMethod m = true)
    (href : Refused k stack n) :
    interp stack B₁ sc ⟨m, n :: rest⟩ = interp stack B₂ sc ⟨m, n :: rest⟩ := by
  obtain ⟨_, hne, _⟩ := repoFirst_unfold m k hrf
  rw [interp_eq hok stack B₁ sc _ hwf hne hpl, interp_eq hok stack B₂ sc _ hwf hne hpl]
  have hv := verdict_isSome_of_refused stack m k hrf n rest hwf href
  cases hv' : verdict stack ⟨m, n :: rest⟩ with
  | none => simp [hv'] at hv
  | some e => rfl

/-- Below a `readOnly` layer nothing ever sees a Writer or Deleter call, wherever in the stack the
layer sits. -/
theorem mutator_never_passes_readOnly (hok : TablesOk = true) (stack : List (Layer ε)) (B : Backend ε ρ) (sc : Scope)
    (c : Call) (hwf : wf c = true) (hpl : hasDebug stack = true → plainMethod c.method = true)
    (hmut : WrapRO.isMutatorMethod c.method = true) (u : ε) (hro : Layer.readOnly u ∈ stack) :
    ∃ e, interp stack B sc c = ⟨.rejected e, []⟩ ∧ errorsOf stack e := by
  have hne : c.method ≠ "Repositories" := by
    intro h; rw [h] at hmut; revert hmut; decide
  have hv : ∃ e, verdict stack c = some e := by
    clear hpl
    induction stack generalizing c with
    | nil => simp at hro
    | cons l ls ih =>
      simp only [verdict]
      cases hl : layerVerdict l c with
      | some e => exact ⟨e, rfl⟩
      | none =>
        have hls : Layer.readOnly u ∈ ls := by
          rcases List.mem_cons.mp hro with h | h
          · subst h; simp [layerVerdict, hmut] at hl
          · exact h
        exact ih (layerCall l c) (layerCall_wf l c hwf) (by rw [layerCall_method]; exact hmut) hls
          (by rw [layerCall_method]; exact hne)
  obtain ⟨e, he⟩ := hv
  exact ⟨e, by rw [interp_eq hok stack B sc c hwf hne hpl, he], verdict_origin stack c e he⟩

/-- The repository a name stands for at the bottom: nested views are one view of the joined prefix
(C13 `sub_sub_name`), whatever other layers sit in between. -/
theorem stack_name_joined (stack : List (Layer ε)) (n : Bytes) :
    stackName stack n = if prefixes stack = [] then n else Sub.mapName (joinPrefixes (prefixes stack)) n :=
  stackName_eq_join stack n

/-- So whatever name is asked for — empty, dots, dot-dot segments, slashes — a stack with a `sub` layer
only ever addresses repositories textually under the joined prefix (C13 `sub_confined`). -/
theorem stack_name_confined (stack : List (Layer ε)) (n : Bytes) (h : prefixes stack ≠ []) :
    (joinPrefixes (prefixes stack) ++ [47]) <+: stackName stack n :=
  stackName_confined stack n h

/-! ### Repository listings (for C05) -/

/-- Through a stack whose `select` layers allow listing, an error-free listing of the registry at the
bottom (asked with the start point and the scopes mapped by the `sub` layers) shows as the names of it
that every `select` layer allows to be read and every `sub` layer finds under its prefix, stripped … -/
theorem stack_listing (stack : List (Layer ε)) (L : Lister ε) (sc : Scope) (start : Bytes) (ns : List Bytes)
    (hallow : ListAllowed stack) (hL : L (stackScope stack sc) (stackName stack start) = ns.map .item) :
    interpList stack L sc start = (stackView stack ns).map .item :=
  interpList_items stack L sc start ns hallow hL

/-- … that is: exactly the names whose repository is in the bottom listing and which every `select`
layer allows to be read (C12 `visible_is_filter`, C13 `sub_strip_iff`) … -/
theorem stack_listing_mem (stack : List (Layer ε)) (ns : List Bytes) (x : Bytes) :
    x ∈ stackView stack ns ↔ stackName stack x ∈ ns ∧ Allowed .read stack x :=
  mem_stackView stack ns x

/-- … still strictly ascending (C13 `sub_order`), hence free of duplicates. -/
theorem stack_listing_sorted (stack : List (Layer ε)) (ns : List Bytes)
    (h : ns.Pairwise fun a b => compare a b = .lt) :
    (stackView stack ns).Pairwise fun a b => compare a b = .lt :=
  stackView_sorted stack ns h

theorem stack_listing_nodup (stack : List (Layer ε)) (ns : List Bytes)
    (h : ns.Pairwise fun a b => compare a b = .lt) : (stackView stack ns).Nodup :=
  nodup_of_sorted _ (stackView_sorted stack ns h)

/-- When a `select` layer refuses listing, the listing is that one error and the layers below are not
asked (C12 `listing_rejected`). -/
theorem stack_listing_refused (chk : Policy ε) (ls : List (Layer ε)) (L₁ L₂ : Lister ε) (sc : Scope)
    (start : Bytes) (e : ε) (h : chk (strBytes "*") .list = some e) :
    interpList (.select chk :: ls) L₁ sc start = [.error e] ∧
    interpList (.select chk :: ls) L₁ sc start = interpList (.select chk :: ls) L₂ sc start := by
  simp [interpList, layerList, h]

/-! ### The adapters agree with the wrappers' own models -/

theorem select_adapter_eq (hok : TablesOk = true) (chk : Policy ε) (next : Backend ε ρ) (sc : Scope) (c : Call)
    (hwf : wf c = true) (hm : c.method ≠ "Repositories") :
    ∃ r, selRow c.method = some r ∧
      ((Select.call chk (next sc) (bindArgs r.params c.args) r = ⟨.returned (next sc c), [c]⟩ ∧
          selectLayer chk next sc c = next sc c) ∨
       (∃ e, Select.call chk (next sc) (bindArgs r.params c.args) r = ⟨.rejected e, []⟩ ∧
          selectLayer chk next sc c = ⟨.rejected e, []⟩)) :=
  Stack.select_adapter_eq hok chk next sc c hwf hm

theorem sub_adapter_eq (hok : TablesOk = true) (p : Bytes) (next : Backend ε ρ) (sc : Scope) (c : Call)
    (hwf : wf c = true) (hm : c.method ≠ "Repositories") :
    ∃ r, subRow c.method = some r ∧
      Sub.call p (bindArgs r.params c.args) sc r = .ok (subCall p c) (Sub.mapScopes p sc) ∧
      subLayer p next sc c = next (Sub.mapScopes p sc) (subCall p c) :=
  Stack.sub_adapter_eq hok p next sc c hwf hm

theorem debug_adapter_eq (hok : TablesOk = true) (next : Backend ε ρ) (sc : Scope) (c : Call)
    (hwf : wf c = true) (hpl : plainMethod c.method = true) :
    ∃ r o, dbgRow c.method = some r ∧
      Iter.call (V := Bytes) (E := Out ε ρ)
        (fun dc => ⟨none, some (next (if dc.ctx then sc else Scope.empty) ⟨dc.method, dc.args⟩)⟩)
        (bindArgs r.params c.args) r = some o ∧
      Iter.Transparent ⟨"r.r", c.method, true, c.args⟩ ⟨none, some (next sc c)⟩ o ∧
      debugLayer next sc c = next sc c :=
  Stack.debug_adapter_eq hok next sc c hwf hpl

theorem readOnly_adapter_eq (hok : TablesOk = true) (e : ε) (next : Backend ε ρ) (sc : Scope) (c : Call)
    (hwf : wf c = true) :
    ∃ op, opOf c.method = some op ∧ WrapRO.methodOf op = some c.method ∧
      ∀ (S : Type) (B : WrapRO.Backend S) (s : S),
        (WrapRO.roStep B s op = ((B s op).1, some (B s op).2, [op]) ∧ roLayer e next sc c = next sc c) ∨
        (WrapRO.roStep B s op = (s, some (.err "UNSUPPORTED"), []) ∧
          roLayer e next sc c = ⟨.rejected e, []⟩) :=
  Stack.readOnly_adapter_eq hok e next sc c hwf

/-- Positional argument passing: binding a row's parameters to the arguments and reading them back
in order gives the arguments (so a row that passes "its parameters in order" passes the call's arguments). -/
theorem bind_args_roundtrip (ps : List String) (args : List Bytes) (hnd : ps.Nodup) (hlen : ps.length = args.length) :
    ps.map (bindArgs ps args) = args :=
  map_bindArgs ps args hnd hlen

/-! ### Obligations on the regenerated tables -/

/-- For each of the 18 methods of `ociregistry.Interface`: select.go, sub.go and debug.go each have a
well-formed row (C12 / C13 / C05D `RowOk`) with distinct parameter names and the interface's arity; the
seven Reader methods are handed back as they are by the debug wrapper, have the repository as their first
and only repository argument, checked for read access, and are let through by `ReadOnly`; `Sub`'s `repo`
and `mapScopes` and `ReadOnly`'s embedding are as modelled (C13 `CodeOk`, C14W `ReadOnlyOk`). -/
theorem generated_stack_tables_ok : TablesOk = true := by decide

/-- The methods whose result the debug wrapper hands back as it is (all but the two chunked uploads,
whose writer it wraps, and the three listings, whose iterator it wraps). -/
theorem generated_plain_methods :
    (Iface.methodParams.map (·.1)).filter plainMethod =
      ["PushBlob", "MountBlob", "PushManifest", "GetBlob", "GetBlobRange", "GetManifest", "GetTag",
       "ResolveBlob", "ResolveManifest", "ResolveTag", "DeleteBlob", "DeleteManifest", "DeleteTag"] := by decide

/-- The methods whose only repository argument is the first one, by access kind. -/
theorem generated_repo_first :
    (Iface.methodParams.map (·.1)).filter (repoFirst · .read) = Iface.readerMethods ∧
    (Iface.methodParams.map (·.1)).filter (repoFirst · .write) =
      ["PushBlob", "PushBlobChunked", "PushBlobChunkedResume", "PushManifest"] ∧
    (Iface.methodParams.map (·.1)).filter (repoFirst · .delete) = Iface.deleterMethods ∧
    (Iface.methodParams.map (·.1)).filter (repoFirst · .list) = ["Tags", "Referrers"] := by decide

/-- The property for the code as it is now: through any stack of debug / select / sub / readOnly
layers over any registry, an allowed Reader call is the registry's answer for the mapped name, and a call
on a refused name never reaches the registry. -/
theorem CSTK_holds (stack : List (Layer ε)) (B : Backend ε ρ) (sc : Scope) (m : String) (n : Bytes) (rest : List Bytes)
    (hwf : wf ⟨m, n :: rest⟩ = true) :
    (m ∈ Iface.readerMethods → Allowed .read stack n →
      interp stack B sc ⟨m, n :: rest⟩ = B (stackScope stack sc) ⟨m, stackName stack n :: rest⟩) ∧
    (∀ k, repoFirst m k = true → (hasDebug stack = true → plainMethod m = true) → Refused k stack n →
      ∃ e, interp stack B sc ⟨m, n :: rest⟩ = ⟨.rejected e, []⟩ ∧ errorsOf stack e) :=
  ⟨fun hm hallow => read_transparent generated_stack_tables_ok stack B sc m hm n rest hwf hallow,
   fun k hrf hpl href => refused_never_reaches_backend generated_stack_tables_ok stack B sc m k hrf n rest hwf hpl href⟩

/-! ### Non-vacuity: the stack `[debug, sub "p", select allow]`

`allow` admits the one repository `p/a`; the `select` layer sits below the `sub` layer, so it sees the
names with the prefix on. -/

def exAllow : Bytes → Bool := fun n => n == strBytes "p/a"

def exStack : List (Layer String) :=
  [.debug, .sub (strBytes "p"), .select (Select.selectPolicy exAllow)]

/-- a registry that answers every call with the name it was asked about -/
def exB : Scope → Call → Bytes := fun _ c => c.args.headD []

def exDigest : Bytes := strBytes "sha256:x"

/-- hypotheses of `stack_behaviour` / `read_transparent` / `read_reaches_backend_once` -/
example : wf ⟨"GetBlob", [strBytes "a", exDigest]⟩ = true ∧ "GetBlob" ∈ Iface.readerMethods ∧
    "GetBlob" ≠ "Repositories" ∧ (hasDebug exStack = true → plainMethod "GetBlob" = true) := by decide
example : Allowed .read exStack (strBytes "a") := ⟨by decide, trivial⟩

/-- … and what they give on this stack, computed: the view's `a` is the registry's `p/a`, one call -/
example : interp exStack (base exB) Scope.empty ⟨"GetBlob", [strBytes "a", exDigest]⟩ =
    ⟨.returned (strBytes "p/a"), [(Scope.empty, ⟨"GetBlob", [strBytes "p/a", exDigest]⟩)]⟩ := by decide
example : stackName exStack (strBytes "a") = strBytes "p/a" ∧ verdict exStack ⟨"GetBlob", [strBytes "a", exDigest]⟩ = none := by
  decide

/-- hypotheses of `refused_never_reaches_backend` / `refused_independent_of_backend`: `b` is `p/b` below
the `sub` layer, which `allow` does not admit — for reading, writing and deleting alike -/
example : Refused .read exStack (strBytes "b") := Or.inl (by decide)
example : Refused .write exStack (strBytes "b") := Or.inl (by decide)
example : repoFirst "GetBlob" .read = true ∧ repoFirst "PushManifest" .write = true ∧
    wf ⟨"PushManifest", [strBytes "b", [], [], []]⟩ = true ∧ plainMethod "PushManifest" = true := by decide
example : interp exStack (base exB) Scope.empty ⟨"GetBlob", [strBytes "b", exDigest]⟩ = ⟨.rejected "NAME_UNKNOWN", []⟩ ∧
    interp exStack (base exB) Scope.empty ⟨"PushManifest", [strBytes "b", [], [], []]⟩ = ⟨.rejected "DENIED", []⟩ := by
  decide
example : errorsOf exStack "NAME_UNKNOWN" := Or.inl ⟨strBytes "p/b", .read, by decide⟩

/-- hypotheses of `mutator_never_passes_readOnly`: the same stack under `ReadOnly` -/
example : WrapRO.isMutatorMethod "DeleteTag" = true ∧ wf ⟨"DeleteTag", [strBytes "a", [116]]⟩ = true ∧
    Layer.readOnly "UNSUPPORTED" ∈ (exStack ++ [.readOnly "UNSUPPORTED"]) ∧
    interp (exStack ++ [.readOnly "UNSUPPORTED"]) (base exB) Scope.empty ⟨"DeleteTag", [strBytes "a", [116]]⟩
      = ⟨.rejected "UNSUPPORTED", []⟩ := by
  refine ⟨by decide, by decide, by simp [exStack], by decide⟩

/-- hypothesis of `stack_name_confined`; two nested views join -/
example : prefixes exStack ≠ [] := by decide
example : stackName ([.sub (strBytes "b"), .debug, .sub (strBytes "a")] : List (Layer String)) (strBytes "x") = strBytes "a/b/x" ∧
    joinPrefixes [strBytes "b", strBytes "a"] = strBytes "a/b" := by decide

/-- a non-empty, limited scope in the caller's context reaches the registry rewritten by the `sub` layer -/
example :
    (interp exStack (base exB) (Scope.newScope [(Scope.tyRepository, strBytes "a", Scope.actPull)])
      ⟨"GetBlob", [strBytes "a", exDigest]⟩).calls.map (fun x => Scope.iter x.1)
      = [[(Scope.tyRepository, strBytes "p/a", Scope.actPull)]] := by decide

/-! #### `Mem` at the bottom -/

/-- one blob pushed into repository `p/a` (toy hash of C01), and one manifest tagged `t` -/
def exState : Mem.State :=
  (Mem.run C01.toyH (Mem.init false)
    [.pushBlob (strBytes "p/a") ⟨C01.mtX, C01.toyH C01.data1, 3⟩ C01.data1,
     .pushManifest (strBytes "p/a") [116] [7, 8] C01.mtX .opaque]).1

/-- hypotheses of `stack_get_exact_blob`: the invariant holds, and the read through the stack succeeds -/
example : C01.Inv C01.toyH exState := C01.inv_run C01.toyH _ _ (C01.inv_init C01.toyH false)
example : (interp exStack (base (memRead C01.toyH (fun _ => 0) exState)) Scope.empty
      ⟨"GetBlob", [strBytes "a", C01.toyH C01.data1]⟩).res
    = .returned (some (.okRead ⟨C01.mtX, C01.toyH C01.data1, 3⟩ C01.data1)) := by decide
/-- … while the same digest asked of a repository the policy hides is not served -/
example : (interp exStack (base (memRead C01.toyH (fun _ => 0) exState)) Scope.empty
      ⟨"GetBlob", [strBytes "b", C01.toyH C01.data1]⟩) = ⟨.rejected "NAME_UNKNOWN", []⟩ := by decide
/-- a ranged read through the stack (offsets decoded as 1 and -1) -/
example : (interp exStack (base (memRead C01.toyH (fun b => if b = [49] then 1 else -1) exState)) Scope.empty
      ⟨"GetBlobRange", [strBytes "a", C01.toyH C01.data1, [49], []]⟩).res
    = .returned (some (.okRead ⟨C01.mtX, C01.toyH C01.data1, 3⟩ [2, 3])) := by decide

/-- hypotheses of `stack_get_exact_manifest` / `stack_get_exact_tag`: by digest and by tag -/
example : (interp exStack (base (memRead C01.toyH (fun _ => 0) exState)) Scope.empty
      ⟨"GetManifest", [strBytes "a", C01.toyH [7, 8]]⟩).res
    = .returned (some (.okRead ⟨C01.mtX, C01.toyH [7, 8], 2⟩ [7, 8])) ∧
    (interp exStack (base (memRead C01.toyH (fun _ => 0) exState)) Scope.empty ⟨"GetTag", [strBytes "a", [116]]⟩).res
    = .returned (some (.okRead ⟨C01.mtX, C01.toyH [7, 8], 2⟩ [7, 8])) := by decide

/-- hypotheses of `bind_args_roundtrip`, on the parameter names of select.go's `PushBlob` row -/
example : ["repo", "desc", "rd"].Nodup ∧
    ["repo", "desc", "rd"].map (bindArgs ["repo", "desc", "rd"] [[1], [2], [3]]) = [[1], [2], [3]] := by decide

/-! #### Listings -/

def exNames : List Bytes := [strBytes "p/a", strBytes "p/b", strBytes "pp/a", strBytes "q/a"]

/-- a lister over `exNames`: the names strictly after the start point -/
def exL : Lister String := fun _ start => (exNames.filter fun x => compare start x == .lt).map .item

/-- hypotheses of `stack_listing` and `stack_listing_sorted` -/
example : ListAllowed exStack := ⟨by decide, trivial⟩
example : exL (stackScope exStack Scope.empty) (stackName exStack []) = exNames.map .item := by decide
example : exNames.Pairwise fun a b => compare a b = .lt := by decide
/-- … and the listing through the stack: only `p/a` is under the prefix and allowed, and it shows as `a` -/
example : interpList exStack exL Scope.empty [] = [.item (strBytes "a")] ∧
    stackView exStack exNames = [strBytes "a"] := by decide
/-- a `select` layer with nothing allowed still lists (the pseudo-name "*"), a refusing policy does not -/
example : interpList [Layer.select (fun _ _ => some "DENIED")] exL Scope.empty [] = [.error "DENIED"] := by decide
/-- a backend error ends the listing through every layer -/
example : interpList exStack (fun _ _ => [.item (strBytes "p/a"), .error "E", .item (strBytes "p/a")]) Scope.empty []
    = [.item (strBytes "a"), .error "E"] := by decide

end OciModel.Props.CSTK
