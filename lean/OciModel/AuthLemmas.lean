/-
Helper lemmas about the auth transport model (`OciModel/AuthTransport.lean`).
The property theorems are in `Props/C10.lean` and `Props/C11.lean`.
-/
import OciModel.AuthTransport
import OciModel.ScopeLemmas
namespace OciModel.Auth
open OciModel OciModel.Scope
set_option linter.unusedSimpArgs false

/-! ### Token requests -/

/-- `m` is a token request made from `st` for challenge `ch` with scope `sc`:
a POST carrying the state's refresh token, or a GET carrying the state's Basic
credentials (if any); realm, service and the naming host are the challenge's. -/
def TokMsg (st : HostSt) (ch : Chal) (sc : Scope) (m : Msg) : Prop :=
  (∃ rt, st.refresh = some rt ∧ m = postMsg ch rt sc) ∨ m = getMsg st ch sc

/-- The environment delivered this JSON token reply somewhere in phase `ph`. -/
def Delivered (env : Env) (ph : Nat) (t a r : Bytes) (e : Nat) : Prop :=
  ∃ att m, env.tok ph att m = .json t a r e

theorem replyRes_ok {x : TokReply} {t a r : Bytes} {e : Nat} (h : replyRes x = .ok t a r e) :
    x = .json t a r e := by
  cases x <;> simp [replyRes] at h
  obtain ⟨rfl, rfl, rfl, rfl⟩ := h; rfl

theorem acquireToken_msgs (env : Env) (st : HostSt) (ch : Chal) (ph att : Nat) (sc : Scope) :
    ∀ m ∈ (acquireToken env st ch ph att sc).1, TokMsg st ch sc m := by
  intro m hm
  unfold acquireToken at hm
  split at hm
  · simp at hm
  split at hm
  · simp at hm
  split at hm
  · rename_i rt hrt
    split at hm
    · simp at hm
      rcases hm with rfl | rfl
      · exact Or.inl ⟨rt, hrt, rfl⟩
      · exact Or.inr rfl
    · simp at hm
      subst hm
      exact Or.inl ⟨rt, hrt, rfl⟩
  · simp at hm
    subst hm
    exact Or.inr rfl

theorem acquireToken_ok (env : Env) (st : HostSt) (ch : Chal) (ph att : Nat) (sc : Scope)
    {t a r : Bytes} {e : Nat} (h : (acquireToken env st ch ph att sc).2 = .ok t a r e) :
    (∃ m, m ∈ (acquireToken env st ch ph att sc).1) ∧ Delivered env ph t a r e := by
  unfold acquireToken at h ⊢
  split at h
  · simp at h
  split at h
  · simp at h
  rename_i hr hok
  simp only [hr, hok, if_false]
  split at h
  · split at h
    · rename_i h404
      simp only [h404, if_true]
      exact ⟨⟨_, List.mem_cons_self⟩, att, 1, replyRes_ok h⟩
    · rename_i h404
      simp only [h404, if_false]
      exact ⟨⟨_, List.mem_cons_self⟩, att, 0, replyRes_ok h⟩
  · exact ⟨⟨_, List.mem_cons_self⟩, att, 1, replyRes_ok h⟩

/-- No token request is made without a realm. -/
theorem acquireToken_realm (env : Env) (st : HostSt) (ch : Chal) (ph att : Nat) (sc : Scope)
    {m : Msg} (hm : m ∈ (acquireToken env st ch ph att sc).1) :
    ch.realm ≠ [] ∧ env.realmOk ch.realm = true := by
  unfold acquireToken at hm
  split at hm
  · simp at hm
  split at hm
  · simp at hm
  rename_i hr hok
  exact ⟨hr, by simpa using hok⟩

/-- `acquireToken` makes at most two requests, a POST first if there are two. -/
theorem acquireToken_length (env : Env) (st : HostSt) (ch : Chal) (ph att : Nat) (sc : Scope) :
    (acquireToken env st ch ph att sc).1.length ≤ 2 := by
  unfold acquireToken
  split
  · simp
  split
  · simp
  split
  · split <;> simp
  · simp

/-! ### `finish` and `acquireAccessToken` -/

@[simp] theorem adoptRefresh_host (st : HostSt) (b : Bytes) : (adoptRefresh st b).host = st.host := by
  unfold adoptRefresh; split <;> rfl
@[simp] theorem adoptRefresh_challenge (st : HostSt) (b : Bytes) :
    (adoptRefresh st b).challenge = st.challenge := by
  unfold adoptRefresh; split <;> rfl
@[simp] theorem adoptRefresh_basic (st : HostSt) (b : Bytes) : (adoptRefresh st b).basic = st.basic := by
  unfold adoptRefresh; split <;> rfl
@[simp] theorem adoptRefresh_toks (st : HostSt) (b : Bytes) : (adoptRefresh st b).toks = st.toks := by
  unfold adoptRefresh; split <;> rfl
theorem adoptRefresh_refresh (st : HostSt) (b : Bytes) :
    (adoptRefresh st b).refresh = st.refresh ∨ (adoptRefresh st b).refresh = some ⟨st.host, .refresh, b⟩ := by
  unfold adoptRefresh; split
  · exact Or.inl rfl
  · exact Or.inr rfl

theorem lifeOf_pos (e : Nat) : 1 ≤ lifeOf e := by
  unfold lifeOf defaultExpirySec maxExpirySec; split <;> omega  -- F41: the clamp keeps it positive

/-- What an acquisition does to the state and what it returns. `scs` are the
scopes a new token may be recorded under. -/
structure AcqSpec (env : Env) (ph now : Nat) (st : HostSt) (scs : List Scope)
    (o : HostSt × List Msg × Option Atom) : Prop where
  host : o.1.host = st.host
  challenge : o.1.challenge = st.challenge
  basic : o.1.basic = st.basic
  refresh : o.1.refresh = st.refresh ∨ ∃ b, o.1.refresh = some ⟨st.host, .refresh, b⟩
  toks : (o.2.2 = none ∧ o.1.toks = st.toks) ∨
    ∃ sc t a rf e, sc ∈ scs ∧ Delivered env ph t a rf e ∧ pickToken t a ≠ [] ∧
      o.2.2 = some ⟨st.host, .access, pickToken t a⟩ ∧
      o.1.toks = st.toks ++ [⟨sc, ⟨st.host, .access, pickToken t a⟩, now + lifeOf e * 1000⟩]

theorem finish_spec (env : Env) (ph now : Nat) (st : HostSt) (ms : List Msg) (sc : Scope) (r : TokRes)
    (hd : ∀ t a rf e, r = .ok t a rf e → Delivered env ph t a rf e) :
    (finish now st ms sc r).2.1 = ms ∧ AcqSpec env ph now st [sc] (finish now st ms sc r) := by
  unfold finish
  split
  · rename_i t a rf e
    split
    · refine ⟨rfl, ⟨by simp, by simp, by simp, ?_, Or.inl ⟨rfl, by simp⟩⟩⟩
      rcases adoptRefresh_refresh st rf with h | h
      · exact Or.inl h
      · exact Or.inr ⟨rf, h⟩
    · rename_i hne
      refine ⟨rfl, ⟨by simp, by simp, by simp, ?_, Or.inr ⟨sc, t, a, rf, e, by simp, hd t a rf e rfl, hne, rfl, by simp⟩⟩⟩
      rcases adoptRefresh_refresh st rf with h | h
      · exact Or.inl h
      · exact Or.inr ⟨rf, h⟩
  · exact ⟨rfl, ⟨rfl, rfl, rfl, Or.inl rfl, Or.inl ⟨rfl, rfl⟩⟩⟩

theorem AcqSpec.mono {env : Env} {ph now : Nat} {st : HostSt} {scs scs' : List Scope}
    {o : HostSt × List Msg × Option Atom} (h : AcqSpec env ph now st scs o) (hs : ∀ s ∈ scs, s ∈ scs') :
    AcqSpec env ph now st scs' o := by
  refine ⟨h.host, h.challenge, h.basic, h.refresh, ?_⟩
  rcases h.toks with h1 | ⟨sc, t, a, rf, e, hsc, rest⟩
  · exact Or.inl h1
  · exact Or.inr ⟨sc, t, a, rf, e, hs sc hsc, rest⟩

/-- The full description of `acquireAccessToken`: its effect on the state, and
that every message it sends is a token request from this state for the wide
scope or (after a 401) for `first` alone. -/
-- F39: the scopes are the requestable parts (was: `union first second`, `first`)
theorem acquireAccessToken_spec (env : Env) (now : Nat) (st : HostSt) (ch : Chal) (ph : Nat)
    (first second : Scope) :
    AcqSpec env ph now st [union (requestable first) (requestable second), requestable first]
      (acquireAccessToken env now st ch ph first second) ∧
    (∀ m ∈ (acquireAccessToken env now st ch ph first second).2.1,
      TokMsg st ch (union (requestable first) (requestable second)) m ∨ TokMsg st ch (requestable first) m) ∧
    (∀ m ∈ (acquireAccessToken env now st ch ph first second).2.1,
      ch.realm ≠ [] ∧ env.realmOk ch.realm = true) ∧
    ((acquireAccessToken env now st ch ph first second).2.2 ≠ none →
      (acquireAccessToken env now st ch ph first second).2.1 ≠ []) := by
  unfold acquireAccessToken
  generalize requestable first = first
  generalize requestable second = second
  split
  · -- 401 on the wide request
    have hf := finish_spec env ph now st
      ((acquireToken env st ch ph 0 (union first second)).1 ++ (acquireToken env st ch ph 1 first).1)
      first (acquireToken env st ch ph 1 first).2
      (fun t a rf e h => (acquireToken_ok env st ch ph 1 first h).2)
    refine ⟨hf.2.mono (by simp), ?_, ?_, ?_⟩
    · intro m hm
      rw [hf.1] at hm
      rcases List.mem_append.mp hm with h | h
      · exact Or.inl (acquireToken_msgs _ _ _ _ _ _ m h)
      · exact Or.inr (acquireToken_msgs _ _ _ _ _ _ m h)
    · intro m hm
      rw [hf.1] at hm
      rcases List.mem_append.mp hm with h | h
      · exact acquireToken_realm _ _ _ _ _ _ h
      · exact acquireToken_realm _ _ _ _ _ _ h
    · intro hne
      rw [hf.1]
      rcases hf.2.toks with ⟨h1, _⟩ | ⟨sc, t, a, rf, e, _, _, _, _, _⟩
      · exact absurd h1 hne
      · -- a token was delivered, so the second request list is not empty
        cases hres : (acquireToken env st ch ph 1 first).2 with
        | ok t' a' r' e' =>
          obtain ⟨⟨m, hm⟩, _⟩ := acquireToken_ok env st ch ph 1 first hres
          intro hnil
          have : m ∈ (acquireToken env st ch ph 0 (union first second)).1 ++ (acquireToken env st ch ph 1 first).1 :=
            List.mem_append.mpr (Or.inr hm)
          rw [hnil] at this
          simp at this
        | httpErr n => simp [finish, hres] at hne
        | otherErr => simp [finish, hres] at hne
  · have hf := finish_spec env ph now st (acquireToken env st ch ph 0 (union first second)).1
      (union first second) (acquireToken env st ch ph 0 (union first second)).2
      (fun t a rf e h => (acquireToken_ok env st ch ph 0 (union first second) h).2)
    refine ⟨hf.2.mono (by simp), ?_, ?_, ?_⟩
    · intro m hm
      rw [hf.1] at hm
      exact Or.inl (acquireToken_msgs _ _ _ _ _ _ m hm)
    · intro m hm
      rw [hf.1] at hm
      exact acquireToken_realm _ _ _ _ _ _ hm
    · intro hne
      rw [hf.1]
      cases hres : (acquireToken env st ch ph 0 (union first second)).2 with
      | ok t' a' r' e' =>
        obtain ⟨⟨m, hm⟩, _⟩ := acquireToken_ok env st ch ph 0 (union first second) hres
        intro hnil
        rw [hnil] at hm
        simp at hm
      | httpErr n => simp [finish, hres] at hne
      | otherErr => simp [finish, hres] at hne

/-! ### Facts about scopes used by the transport -/

theorem parseScope_limited (s : Bytes) : (parseScope s).unlimited = false := by
  simp [parseScope, newScope_unlimited]

theorem union_unlimited_eq (a b : Scope) : (union a b).unlimited = (a.unlimited || b.unlimited) := by
  rw [union_eq]
  split
  · rename_i h; simp [unlimitedScope, h]
  · rename_i h
    have ha : a.unlimited = false := by
      cases hh : a.unlimited <;> simp [hh] at h ⊢
    have hb : b.unlimited = false := by
      cases hh : b.unlimited <;> simp [hh] at h ⊢
    split
    · simp [ha, hb]
    · split <;> simp [ha, hb, unionRaw]

/-! F39: `requestable` -/

theorem requestable_limited (s : Scope) : (requestable s).unlimited = false := by
  unfold requestable
  split
  · rfl
  · rename_i h; simpa using h

theorem requestable_of_limited {s : Scope} (h : s.unlimited = false) : requestable s = s := by
  simp [requestable, h]

theorem requestable_unlimited {s : Scope} (h : s.unlimited = true) : requestable s = Scope.empty := by
  simp [requestable, h]

theorem requestable_wf {s : Scope} (h : WF s) : WF (requestable s) := by
  unfold requestable
  split
  · exact wf_empty
  · exact h

/-- As a set of resource scopes the requestable part is the scope itself: the
unlimited scope yields no resource scope, like the empty one. -/
theorem mem_requestable (s : Scope) (r : RS) : Mem r (requestable s) ↔ Mem r s := by
  unfold requestable
  split
  · rename_i h
    simp [Mem, iter, h, Scope.empty, mergeIter, expand]
  · exact Iff.rfl

theorem requestable_parseScope (s : Bytes) : requestable (parseScope s) = parseScope s :=
  requestable_of_limited (parseScope_limited s)

theorem union_requestable_limited (a b : Scope) : (union (requestable a) (requestable b)).unlimited = false := by
  rw [union_unlimited_eq, requestable_limited, requestable_limited]; rfl

theorem requestable_union_requestable (a b : Scope) :
    requestable (union (requestable a) (requestable b)) = union (requestable a) (requestable b) :=
  requestable_of_limited (union_requestable_limited a b)

theorem contains_refl (a : Scope) (ha : WF a) : contains a a = true := by
  cases hu : a.unlimited with
  | true => simp [contains, hu]
  | false => exact (contains_iff_subset a a ha ha hu hu).mpr (fun _ h => h)

theorem contains_union_left (a b : Scope) (ha : WF a) (hb : WF b) : contains (union a b) a = true := by
  cases hu : (union a b).unlimited with
  | true => simp [contains, hu]
  | false =>
    rw [union_unlimited_eq] at hu
    have hal : a.unlimited = false := by cases h : a.unlimited <;> simp [h] at hu ⊢
    have hbl : b.unlimited = false := by cases h : b.unlimited <;> simp [h] at hu ⊢
    have hul : (union a b).unlimited = false := by rw [union_unlimited_eq]; simp [hal, hbl]
    exact (contains_iff_subset _ _ (union_wf a b ha hb) ha hul hal).mpr
      (fun r h => (mem_union' hal hbl r).mpr (Or.inl h))

theorem toStr_parseScope (s : Bytes) : toStr (parseScope s) = s := by
  unfold toStr
  rw [parseScope_limited]
  simp only [Bool.false_eq_true, if_false]
  by_cases hs : s = []
  · subst hs
    decide
  · have : (parseScope s).original = s := by simp [parseScope]
    simp [this, hs]

/-! ### The cache -/

theorem mem_deleteExpired (n : Nat) (l : List Tok) (t : Tok) :
    t ∈ deleteExpired n l ↔ t ∈ l ∧ n ≤ t.expires := by
  simp [deleteExpired, Nat.not_lt]

theorem tokenFor_some {l : List Tok} {r : Scope} {t : Tok} (h : tokenFor l r = some t) :
    t ∈ l ∧ contains t.scope r = true := by
  unfold tokenFor at h
  exact ⟨List.mem_of_find?_eq_some h, by simpa using List.find?_some h⟩

theorem tokenFor_none {l : List Tok} {r : Scope} (h : tokenFor l r = none) :
    ∀ t ∈ l, contains t.scope r = false := by
  unfold tokenFor at h
  intro t ht
  have := List.find?_eq_none.mp h t ht
  simpa using this

@[simp] theorem prune_host (now : Nat) (st : HostSt) : (prune now st).host = st.host := rfl
@[simp] theorem prune_challenge (now : Nat) (st : HostSt) : (prune now st).challenge = st.challenge := rfl
@[simp] theorem prune_refresh (now : Nat) (st : HostSt) : (prune now st).refresh = st.refresh := rfl
@[simp] theorem prune_basic (now : Nat) (st : HostSt) : (prune now st).basic = st.basic := rfl
theorem mem_prune_toks (now : Nat) (st : HostSt) (t : Tok) :
    t ∈ (prune now st).toks ↔ t ∈ st.toks ∧ now + marginMs ≤ t.expires := by
  simp [prune, mem_deleteExpired]

@[simp] theorem setChallenge_host (st : HostSt) (ch : Chal) : (setChallenge st ch).host = st.host := rfl
@[simp] theorem setChallenge_challenge (st : HostSt) (ch : Chal) : (setChallenge st ch).challenge = some ch := rfl
@[simp] theorem setChallenge_refresh (st : HostSt) (ch : Chal) : (setChallenge st ch).refresh = st.refresh := rfl
@[simp] theorem setChallenge_basic (st : HostSt) (ch : Chal) : (setChallenge st ch).basic = st.basic := rfl
@[simp] theorem setChallenge_toks (st : HostSt) (ch : Chal) : (setChallenge st ch).toks = st.toks := rfl

/-! ### Case analysis of the two critical sections -/

/-- The five ways through `setAuthorization`. -/
theorem section1_cases (env : Env) (now : Nat) (st : HostSt) (req : ReqInfo) :
    (∃ t, tokenFor (prune now st).toks req.required = some t ∧
      section1 env now st req = (prune now st, [], some (.bearer t.tok))) ∨
    (tokenFor (prune now st).toks req.required = none ∧ st.challenge = none ∧
      section1 env now st req = (prune now st, [], some .none)) ∨
    (tokenFor (prune now st).toks req.required = none ∧
      ∃ ch rt, st.challenge = some ch ∧ ch.scheme = .bearer ∧ st.refresh = some rt ∧
        section1 env now st req =
          ((acquireAccessToken env now (prune now st) ch 0 req.required req.want).1,
           (acquireAccessToken env now (prune now st) ch 0 req.required req.want).2.1,
           (acquireAccessToken env now (prune now st) ch 0 req.required req.want).2.2.map .bearer)) ∨
    (tokenFor (prune now st).toks req.required = none ∧
      ∃ ch u p, st.challenge = some ch ∧ ch.scheme = .basic ∧ st.basic = some (u, p) ∧
        section1 env now st req = (prune now st, [], some (.basic u p))) ∨
    (tokenFor (prune now st).toks req.required = none ∧
      ∃ ch, st.challenge = some ch ∧
        ((ch.scheme = .bearer ∧ st.refresh = none) ∨ (ch.scheme = .basic ∧ st.basic = none)) ∧
        section1 env now st req = (prune now st, [], some .none)) := by
  unfold section1
  cases htf : tokenFor (prune now st).toks req.required with
  | some t => exact Or.inl ⟨t, rfl, rfl⟩
  | none =>
    right
    cases hch : st.challenge with
    | none => exact Or.inl ⟨rfl, rfl, by simp [hch]⟩
    | some ch =>
      right
      simp only [prune_challenge, hch, prune_refresh, prune_basic]
      rcases Option.eq_none_or_eq_some st.refresh with hrt | ⟨rt, hrt⟩ <;>
      rcases Option.eq_none_or_eq_some st.basic with hb | ⟨⟨u, p⟩, hb⟩ <;>
      cases hsch : ch.scheme
      · right; right
        exact ⟨trivial, ch, rfl, Or.inl ⟨hsch, hrt⟩, by simp [hrt, hb]⟩
      · right; right
        exact ⟨trivial, ch, rfl, Or.inr ⟨hsch, hb⟩, by simp [hrt, hb]⟩
      · right; right
        exact ⟨trivial, ch, rfl, Or.inl ⟨hsch, hrt⟩, by simp [hrt, hb]⟩
      · right; left
        exact ⟨trivial, ch, u, p, rfl, hsch, hb, by simp [hrt, hb]⟩
      · left
        refine ⟨trivial, ch, rt, rfl, hsch, hrt, ?_⟩
        simp only [hrt, Option.isSome_some, and_self, if_true]
        cases h : acquireAccessToken env now (prune now st) ch 0 req.required req.want with
        | mk st1 rest =>
          cases rest with
          | mk ms r => cases r <;> rfl
      · right; right
        exact ⟨trivial, ch, rfl, Or.inr ⟨hsch, hb⟩, by simp [hrt, hb]⟩
      · left
        refine ⟨trivial, ch, rt, rfl, hsch, hrt, ?_⟩
        simp only [hrt, Option.isSome_some, and_self, if_true]
        cases h : acquireAccessToken env now (prune now st) ch 0 req.required req.want with
        | mk st1 rest =>
          cases rest with
          | mk ms r => cases r <;> rfl
      · right; left
        exact ⟨trivial, ch, u, p, rfl, hsch, hb, by simp [hrt, hb]⟩

/-- The three ways through `setAuthorizationFromChallenge`. -/
theorem section2_cases (env : Env) (now : Nat) (st : HostSt) (ch : Chal) (req : ReqInfo) :
    (ch.scheme = .bearer ∧
      section2 env now st ch req =
        ((acquireAccessToken env now (setChallenge st ch) ch 1 (parseScope ch.scope) (union (requestable req.want) (requestable req.required))).1,
         (acquireAccessToken env now (setChallenge st ch) ch 1 (parseScope ch.scope) (union (requestable req.want) (requestable req.required))).2.1,
         match (acquireAccessToken env now (setChallenge st ch) ch 1 (parseScope ch.scope) (union (requestable req.want) (requestable req.required))).2.2 with
         | some a => .added (.bearer a) true
         | none => .error)) ∨
    (ch.scheme = .basic ∧ ∃ u p, st.basic = some (u, p) ∧
      section2 env now st ch req = (setChallenge st ch, [], .added (.basic u p) false)) ∨
    (ch.scheme = .basic ∧ st.basic = none ∧
      section2 env now st ch req = (setChallenge st ch, [], .notAdded)) := by
  unfold section2
  cases hsch : ch.scheme with
  | bearer =>
    left
    refine ⟨rfl, ?_⟩
    cases h : acquireAccessToken env now (setChallenge st ch) ch 1 (parseScope ch.scope) (union (requestable req.want) (requestable req.required)) with
    | mk st1 rest =>
      cases rest with
      | mk ms r => cases r <;> rfl
  | basic =>
    right
    simp only [setChallenge_basic]
    cases hb : st.basic with
    | some up =>
      obtain ⟨u, p⟩ := up
      exact Or.inl ⟨trivial, u, p, rfl, rfl⟩
    | none => exact Or.inr ⟨trivial, rfl, rfl⟩

/-! ### The invariant and ownership of what is sent -/

def UserPassOwn (h : Bytes) (u p : Atom) : Prop :=
  (u.origin = h ∧ u.kind = .username) ∧ (p.origin = h ∧ p.kind = .password)

/-- The invariant of a per-host state: every cached token is an access token of
this host with a well-formed scope, the refresh token and the Basic credentials
are this host's, the stored challenge was sent by this host. -/
structure J (st : HostSt) : Prop where
  tok_own : ∀ t ∈ st.toks, t.tok.origin = st.host ∧ t.tok.kind = .access
  tok_wf : ∀ t ∈ st.toks, WF t.scope
  refresh_own : ∀ a, st.refresh = some a → a.origin = st.host ∧ a.kind = .refresh
  basic_own : ∀ u p, st.basic = some (u, p) → UserPassOwn st.host u p
  chal_own : ∀ ch, st.challenge = some ch → ch.sender = st.host

/-- The `Authorization` header carries only atoms of host `h`, of the right kinds. -/
def AuthOwn (h : Bytes) : AuthHdr → Prop
  | .none => True
  | .bearer t => t.origin = h ∧ t.kind = .access
  | .basic u p => UserPassOwn h u p

/-- The message was produced on behalf of registry host `h`: it goes to `h` or to
a realm named by `h`, carries only atoms of `h`, and each kind of atom sits only
where that kind belongs (access tokens as Bearer to the registry; user name and
password as Basic to the registry or on the GET to the realm; refresh tokens in
the POST to the realm). -/
def MsgOwn (h : Bytes) : Msg → Prop
  | .registry host a => host = h ∧ AuthOwn h a
  | .tokenPOST _ namedBy rt _ _ => namedBy = h ∧ rt.origin = h ∧ rt.kind = .refresh
  | .tokenGET _ namedBy b _ _ => namedBy = h ∧ ∀ u p, b = some (u, p) → UserPassOwn h u p

theorem J_init (host : Bytes) (e : ConfigEntry) : J (initSt host e) := by
  constructor
  · intro t ht
    simp only [initSt] at ht
    split at ht
    · simp at ht
    · simp at ht; subst ht; exact ⟨rfl, rfl⟩
  · intro t ht
    simp only [initSt] at ht
    split at ht
    · simp at ht
    · simp at ht; subst ht; exact wf_unlimitedScope
  · intro a ha
    simp only [initSt] at ha
    split at ha
    · simp at ha
    · simp at ha; subst ha; exact ⟨rfl, rfl⟩
  · intro u p h
    simp only [initSt] at h
    split at h
    · simp at h; obtain ⟨rfl, rfl⟩ := h; exact ⟨⟨rfl, rfl⟩, rfl, rfl⟩
    · simp at h
  · intro ch h; simp [initSt] at h

theorem J_prune {st : HostSt} (h : J st) (now : Nat) : J (prune now st) :=
  ⟨fun t ht => h.tok_own t ((mem_prune_toks now st t).mp ht).1,
   fun t ht => h.tok_wf t ((mem_prune_toks now st t).mp ht).1,
   h.refresh_own, h.basic_own, h.chal_own⟩

theorem J_setChallenge {st : HostSt} (h : J st) {ch : Chal} (hc : ch.sender = st.host) :
    J (setChallenge st ch) :=
  ⟨h.tok_own, h.tok_wf, h.refresh_own, h.basic_own, by
    intro ch' h'; simp at h'; subst h'; exact hc⟩

theorem J_acq {env : Env} {ph now : Nat} {st : HostSt} {scs : List Scope}
    {o : HostSt × List Msg × Option Atom} (h : J st) (hs : ∀ s ∈ scs, WF s)
    (ho : AcqSpec env ph now st scs o) : J o.1 := by
  have htoks : ∀ t ∈ o.1.toks, t ∈ st.toks ∨ (t.tok.origin = st.host ∧ t.tok.kind = .access ∧ WF t.scope) := by
    intro t ht
    rcases ho.toks with ⟨_, h2⟩ | ⟨sc, tk, a, rf, e, hsc, _, _, _, h2⟩
    · rw [h2] at ht; exact Or.inl ht
    · rw [h2] at ht
      rcases List.mem_append.mp ht with h3 | h3
      · exact Or.inl h3
      · simp at h3; subst h3; exact Or.inr ⟨rfl, rfl, hs sc hsc⟩
  constructor
  · intro t ht
    rw [ho.host]
    rcases htoks t ht with h1 | h1
    · exact h.tok_own t h1
    · exact ⟨h1.1, h1.2.1⟩
  · intro t ht
    rcases htoks t ht with h1 | h1
    · exact h.tok_wf t h1
    · exact h1.2.2
  · intro a ha
    rw [ho.host]
    rcases ho.refresh with h1 | ⟨b, h1⟩
    · rw [h1] at ha; exact h.refresh_own a ha
    · rw [h1] at ha; simp at ha; subst ha; exact ⟨rfl, rfl⟩
  · intro u p hb
    rw [ho.host]; rw [ho.basic] at hb; exact h.basic_own u p hb
  · intro ch hc
    rw [ho.host]; rw [ho.challenge] at hc; exact h.chal_own ch hc

theorem tokMsg_own {st : HostSt} (h : J st) {ch : Chal} (hc : ch.sender = st.host) {sc : Scope} {m : Msg}
    (hm : TokMsg st ch sc m) : MsgOwn st.host m := by
  rcases hm with ⟨rt, hrt, rfl⟩ | rfl
  · exact ⟨hc, h.refresh_own rt hrt⟩
  · exact ⟨hc, h.basic_own⟩

/-! ### First section -/

theorem section1_host (env : Env) (now : Nat) (st : HostSt) (req : ReqInfo) :
    (section1 env now st req).1.host = st.host := by
  rcases section1_cases env now st req with ⟨t, _, h⟩ | ⟨_, _, h⟩ | ⟨_, ch, rt, _, _, _, h⟩ |
    ⟨_, ch, u, p, _, _, _, h⟩ | ⟨_, ch, _, _, h⟩ <;> rw [h]
  · rfl
  · rfl
  · exact (acquireAccessToken_spec env now (prune now st) ch 0 req.required req.want).1.host
  · rfl
  · rfl

theorem section1_J (env : Env) (now : Nat) (st : HostSt) (req : ReqInfo) (hJ : J st)
    (hr : WF req.required) (hw : WF req.want) : J (section1 env now st req).1 := by
  rcases section1_cases env now st req with ⟨t, _, h⟩ | ⟨_, _, h⟩ | ⟨_, ch, rt, _, _, _, h⟩ |
    ⟨_, ch, u, p, _, _, _, h⟩ | ⟨_, ch, _, _, h⟩ <;> rw [h]
  · exact J_prune hJ now
  · exact J_prune hJ now
  · refine J_acq (J_prune hJ now) ?_ (acquireAccessToken_spec env now (prune now st) ch 0 req.required req.want).1
    intro s hs
    simp at hs
    rcases hs with rfl | rfl
    · exact union_wf _ _ (requestable_wf hr) (requestable_wf hw)
    · exact requestable_wf hr
  · exact J_prune hJ now
  · exact J_prune hJ now

/-- Everything `setAuthorization` sends, and the header it sets, is this host's. -/
theorem section1_own (env : Env) (now : Nat) (st : HostSt) (req : ReqInfo) (hJ : J st) :
    (∀ m ∈ (section1 env now st req).2.1, MsgOwn st.host m) ∧
    (∀ h, (section1 env now st req).2.2 = some h → AuthOwn st.host h) := by
  rcases section1_cases env now st req with ⟨t, ht, h⟩ | ⟨_, _, h⟩ | ⟨_, ch, rt, hch, _, _, h⟩ |
    ⟨_, ch, u, p, _, _, hb, h⟩ | ⟨_, ch, _, _, h⟩ <;> rw [h]
  · refine ⟨by simp, ?_⟩
    intro hd hh
    simp at hh; subst hh
    exact hJ.tok_own t ((mem_prune_toks now st t).mp (tokenFor_some ht).1).1
  · refine ⟨by simp, ?_⟩
    intro hd hh; simp at hh; subst hh; trivial
  · have hs := acquireAccessToken_spec env now (prune now st) ch 0 req.required req.want
    have hJ' := J_prune hJ now
    have hc : ch.sender = (prune now st).host := hJ.chal_own ch hch
    refine ⟨?_, ?_⟩
    · intro m hm
      rcases hs.2.1 m hm with h1 | h1
      · exact tokMsg_own hJ' hc h1
      · exact tokMsg_own hJ' hc h1
    · intro hd hh
      rcases hs.1.toks with ⟨h1, _⟩ | ⟨sc, tk, ac, rf, e, _, _, _, h1, _⟩
      · simp [h1] at hh
      · simp [h1] at hh; subst hh; exact ⟨rfl, rfl⟩
  · refine ⟨by simp, ?_⟩
    intro hd hh; simp at hh; subst hh
    exact hJ.basic_own u p hb
  · refine ⟨by simp, ?_⟩
    intro hd hh; simp at hh; subst hh; trivial

/-- Where a Bearer token set by `setAuthorization` comes from. Either it is a
cached token (still valid a second from now, recorded under a scope that
contains the required scope; nothing is sent and the state is only pruned), or it
was just delivered by the token server in answer to a request made with the
refresh token for `required ∪ want` (or, after a 401, `required` alone), and is
recorded under that scope with an expiry at least a second ahead. -/
-- F39: `required`, `want` are their requestable parts in the request and in the cache
theorem section1_bearer (env : Env) (now : Nat) (st : HostSt) (req : ReqInfo) {a : Atom}
    (h : (section1 env now st req).2.2 = some (.bearer a)) :
    (∃ t ∈ st.toks, t.tok = a ∧ now + marginMs ≤ t.expires ∧ contains t.scope req.required = true ∧
        (section1 env now st req).2.1 = [] ∧ (section1 env now st req).1 = prune now st) ∨
    (∃ ch sc tk ac rf e, st.challenge = some ch ∧ ch.scheme = .bearer ∧ st.refresh ≠ none ∧
        (sc = union (requestable req.required) (requestable req.want) ∨ sc = requestable req.required) ∧
        Delivered env 0 tk ac rf e ∧
        a = ⟨st.host, .access, pickToken tk ac⟩ ∧
        (section1 env now st req).1.toks = (prune now st).toks ++ [⟨sc, a, now + lifeOf e * 1000⟩] ∧
        (section1 env now st req).2.1 ≠ []) := by
  rcases section1_cases env now st req with ⟨t, ht, he⟩ | ⟨_, _, he⟩ | ⟨_, ch, rt, hch, hsch, hrt, he⟩ |
    ⟨_, ch, u, p, _, _, _, he⟩ | ⟨_, ch, _, _, he⟩ <;> rw [he] at h ⊢
  · left
    simp at h; subst h
    have hm := (mem_prune_toks now st t).mp (tokenFor_some ht).1
    exact ⟨t, hm.1, rfl, hm.2, (tokenFor_some ht).2, rfl, rfl⟩
  · simp at h
  · right
    have hs := acquireAccessToken_spec env now (prune now st) ch 0 req.required req.want
    rcases hs.1.toks with ⟨h1, _⟩ | ⟨sc, tk, ac, rf, e, hsc, hd, _, h1, h2⟩
    · simp [h1] at h
    · simp only [h1, Option.map_some, Option.some.injEq, AuthHdr.bearer.injEq] at h
      subst h
      refine ⟨ch, sc, tk, ac, rf, e, hch, hsch, by simp [hrt], by simpa using hsc, hd, rfl, h2, ?_⟩
      exact hs.2.2.2 (by simp [h1])
  · simp at h
  · simp at h

/-- Basic credentials are put on the first attempt only when the stored challenge
(from an earlier 401 of this host) is a Basic one. -/
theorem section1_basic (env : Env) (now : Nat) (st : HostSt) (req : ReqInfo) {u p : Atom}
    (h : (section1 env now st req).2.2 = some (.basic u p)) :
    ∃ ch, st.challenge = some ch ∧ ch.scheme = .basic ∧ st.basic = some (u, p) ∧
      (section1 env now st req).2.1 = [] := by
  rcases section1_cases env now st req with ⟨t, ht, he⟩ | ⟨_, _, he⟩ | ⟨_, ch, rt, hch, hsch, hrt, he⟩ |
    ⟨_, ch, u', p', hch, hsch, hb, he⟩ | ⟨_, ch, _, _, he⟩ <;> rw [he] at h ⊢
  · simp at h
  · simp at h
  · cases hx : (acquireAccessToken env now (prune now st) ch 0 req.required req.want).2.2 <;> simp [hx] at h
  · simp at h; obtain ⟨rfl, rfl⟩ := h
    exact ⟨ch, hch, hsch, hb, rfl⟩
  · simp at h

/-- Before any challenge has been seen, `setAuthorization` sends nothing and adds
at most a cached access token. -/
theorem section1_no_challenge (env : Env) (now : Nat) (st : HostSt) (req : ReqInfo)
    (hc : st.challenge = none) :
    (section1 env now st req).2.1 = [] ∧ (section1 env now st req).1 = prune now st ∧
    ((section1 env now st req).2.2 = some .none ∨
      ∃ t ∈ st.toks, (section1 env now st req).2.2 = some (.bearer t.tok)) := by
  rcases section1_cases env now st req with ⟨t, ht, he⟩ | ⟨_, _, he⟩ | ⟨_, ch, rt, hch, hsch, hrt, he⟩ |
    ⟨_, ch, u', p', hch, hsch, hb, he⟩ | ⟨_, ch, hch, _, he⟩
  · rw [he]
    exact ⟨rfl, rfl, Or.inr ⟨t, ((mem_prune_toks now st t).mp (tokenFor_some ht).1).1, rfl⟩⟩
  · rw [he]; exact ⟨rfl, rfl, Or.inl rfl⟩
  · rw [hc] at hch; cases hch
  · rw [hc] at hch; cases hch
  · rw [hc] at hch; cases hch

/-- Token requests in the first section go to the realm of the stored Bearer
challenge, carry the stored refresh token or Basic credentials, and ask for
`required ∪ want` or `required`. -/
-- F39: the requestable parts
theorem section1_tokmsgs (env : Env) (now : Nat) (st : HostSt) (req : ReqInfo) :
    ∀ m ∈ (section1 env now st req).2.1,
      ∃ ch, st.challenge = some ch ∧ ch.scheme = .bearer ∧ st.refresh ≠ none ∧
        (TokMsg (prune now st) ch (union (requestable req.required) (requestable req.want)) m ∨
          TokMsg (prune now st) ch (requestable req.required) m) ∧
        ch.realm ≠ [] ∧ env.realmOk ch.realm = true := by
  intro m hm
  rcases section1_cases env now st req with ⟨t, ht, he⟩ | ⟨_, _, he⟩ | ⟨_, ch, rt, hch, hsch, hrt, he⟩ |
    ⟨_, ch, u', p', hch, hsch, hb, he⟩ | ⟨_, ch, hch, _, he⟩ <;> rw [he] at hm
  · simp at hm
  · simp at hm
  · have hs := acquireAccessToken_spec env now (prune now st) ch 0 req.required req.want
    exact ⟨ch, hch, hsch, by simp [hrt], hs.2.1 m hm, hs.2.2.1 m hm⟩
  · simp at hm
  · simp at hm

/-- A cached token that is valid a second from now and whose scope contains the
required scope is used: nothing is sent by `setAuthorization`. -/
theorem section1_cache_hit (env : Env) (now : Nat) (st : HostSt) (req : ReqInfo)
    (h : ∃ t ∈ st.toks, now + marginMs ≤ t.expires ∧ contains t.scope req.required = true) :
    ∃ t' ∈ st.toks, now + marginMs ≤ t'.expires ∧ contains t'.scope req.required = true ∧
      section1 env now st req = (prune now st, [], some (.bearer t'.tok)) := by
  obtain ⟨t, ht, hexp, hcon⟩ := h
  rcases section1_cases env now st req with ⟨t', ht', he⟩ | ⟨hn, _⟩ | ⟨hn, _⟩ | ⟨hn, _⟩ | ⟨hn, _⟩
  · have hm := (mem_prune_toks now st t').mp (tokenFor_some ht').1
    exact ⟨t', hm.1, hm.2, (tokenFor_some ht').2, he⟩
  all_goals
    have := tokenFor_none hn t ((mem_prune_toks now st t).mpr ⟨ht, hexp⟩)
    rw [hcon] at this; cases this

/-- After the first section every cached token is valid for at least another second. -/
theorem section1_toks_fresh (env : Env) (now : Nat) (st : HostSt) (req : ReqInfo) :
    ∀ t ∈ (section1 env now st req).1.toks, now + marginMs ≤ t.expires := by
  intro t ht
  have hp : ∀ t ∈ (prune now st).toks, now + marginMs ≤ t.expires :=
    fun t h => ((mem_prune_toks now st t).mp h).2
  rcases section1_cases env now st req with ⟨t', ht', he⟩ | ⟨_, _, he⟩ | ⟨_, ch, rt, hch, hsch, hrt, he⟩ |
    ⟨_, ch, u', p', hch, hsch, hb, he⟩ | ⟨_, ch, hch, _, he⟩ <;> rw [he] at ht
  · exact hp t ht
  · exact hp t ht
  · have hs := acquireAccessToken_spec env now (prune now st) ch 0 req.required req.want
    rcases hs.1.toks with ⟨_, h2⟩ | ⟨sc, tk, ac, rf, e, _, _, _, _, h2⟩
    · rw [h2] at ht; exact hp t ht
    · rw [h2] at ht
      rcases List.mem_append.mp ht with h3 | h3
      · exact hp t h3
      · simp at h3; subst h3
        have := lifeOf_pos e
        simp only [marginMs]
        have : 1000 ≤ lifeOf e * 1000 := by omega
        omega
  · exact hp t ht
  · exact hp t ht

/-! ### Second section -/

theorem section2_host (env : Env) (now : Nat) (st : HostSt) (ch : Chal) (req : ReqInfo) :
    (section2 env now st ch req).1.host = st.host := by
  rcases section2_cases env now st ch req with ⟨_, h⟩ | ⟨_, u, p, _, h⟩ | ⟨_, _, h⟩ <;> rw [h]
  · exact (acquireAccessToken_spec env now (setChallenge st ch) ch 1 _ _).1.host
  · rfl
  · rfl

theorem section2_challenge (env : Env) (now : Nat) (st : HostSt) (ch : Chal) (req : ReqInfo) :
    (section2 env now st ch req).1.challenge = some ch := by
  rcases section2_cases env now st ch req with ⟨_, h⟩ | ⟨_, u, p, _, h⟩ | ⟨_, _, h⟩ <;> rw [h]
  · exact (acquireAccessToken_spec env now (setChallenge st ch) ch 1 _ _).1.challenge
  · rfl
  · rfl

theorem section2_J (env : Env) (now : Nat) (st : HostSt) (ch : Chal) (req : ReqInfo) (hJ : J st)
    (hc : ch.sender = st.host) (hr : WF req.required) (hw : WF req.want) :
    J (section2 env now st ch req).1 := by
  rcases section2_cases env now st ch req with ⟨_, h⟩ | ⟨_, u, p, _, h⟩ | ⟨_, _, h⟩ <;> rw [h]
  · refine J_acq (J_setChallenge hJ hc) ?_ (acquireAccessToken_spec env now (setChallenge st ch) ch 1 _ _).1
    intro s hs
    simp at hs
    rcases hs with rfl | rfl
    · exact union_wf _ _ (requestable_wf (parseScope_wf _))
        (requestable_wf (union_wf _ _ (requestable_wf hw) (requestable_wf hr)))
    · exact requestable_wf (parseScope_wf _)
  · exact J_setChallenge hJ hc
  · exact J_setChallenge hJ hc

/-- Everything `setAuthorizationFromChallenge` sends, and the header it sets, is this host's. -/
theorem section2_own (env : Env) (now : Nat) (st : HostSt) (ch : Chal) (req : ReqInfo) (hJ : J st)
    (hc : ch.sender = st.host) :
    (∀ m ∈ (section2 env now st ch req).2.1, MsgOwn st.host m) ∧
    (∀ h acq, (section2 env now st ch req).2.2 = .added h acq → AuthOwn st.host h) := by
  rcases section2_cases env now st ch req with ⟨_, h⟩ | ⟨_, u, p, hb, h⟩ | ⟨_, _, h⟩ <;> rw [h]
  · have hs := acquireAccessToken_spec env now (setChallenge st ch) ch 1 (parseScope ch.scope) (union (requestable req.want) (requestable req.required))
    have hJ' := J_setChallenge hJ hc
    refine ⟨?_, ?_⟩
    · intro m hm
      rcases hs.2.1 m hm with h1 | h1
      · exact tokMsg_own hJ' hc h1
      · exact tokMsg_own hJ' hc h1
    · intro hd acq hh
      rcases hs.1.toks with ⟨h1, _⟩ | ⟨sc, tk, ac, rf, e, _, _, _, h1, _⟩
      · simp [h1] at hh
      · simp [h1] at hh; obtain ⟨rfl, _⟩ := hh; exact ⟨rfl, rfl⟩
  · refine ⟨by simp, ?_⟩
    intro hd acq hh; simp at hh; obtain ⟨rfl, _⟩ := hh
    exact hJ.basic_own u p hb
  · refine ⟨by simp, ?_⟩
    intro hd acq hh; simp at hh

/-- A Bearer token set in answer to a challenge was just delivered by the token
server in answer to a request for `challenge scope ∪ (want ∪ required)` (or,
after a 401, the challenge scope alone); it is recorded under the scope that was
asked for, which contains the challenge's scope, with an expiry at least a
second ahead; and `tokenAcquired` is reported. -/
-- F39: `want`, `required` are their requestable parts
theorem section2_bearer (env : Env) (now : Nat) (st : HostSt) (ch : Chal) (req : ReqInfo)
    (hr : WF req.required) (hw : WF req.want) {a : Atom} {acq : Bool}
    (h : (section2 env now st ch req).2.2 = .added (.bearer a) acq) :
    ch.scheme = .bearer ∧ acq = true ∧
    ∃ sc tk ac rf e,
      (sc = union (parseScope ch.scope) (union (requestable req.want) (requestable req.required)) ∨ sc = parseScope ch.scope) ∧
      Delivered env 1 tk ac rf e ∧ a = ⟨st.host, .access, pickToken tk ac⟩ ∧
      (section2 env now st ch req).1.toks = st.toks ++ [⟨sc, a, now + lifeOf e * 1000⟩] ∧
      (section2 env now st ch req).2.1 ≠ [] ∧
      contains sc (parseScope ch.scope) = true := by
  rcases section2_cases env now st ch req with ⟨hsch, he⟩ | ⟨_, u, p, hb, he⟩ | ⟨_, _, he⟩ <;> rw [he] at h ⊢
  · have hs := acquireAccessToken_spec env now (setChallenge st ch) ch 1 (parseScope ch.scope) (union (requestable req.want) (requestable req.required))
    rw [requestable_parseScope, requestable_union_requestable] at hs
    rcases hs.1.toks with ⟨h1, _⟩ | ⟨sc, tk, ac, rf, e, hsc, hd, _, h1, h2⟩
    · simp [h1] at h
    · simp only [h1, Sec2.added.injEq, AuthHdr.bearer.injEq] at h
      obtain ⟨rfl, rfl⟩ := h
      refine ⟨hsch, rfl, sc, tk, ac, rf, e, by simpa using hsc, hd, rfl, h2, hs.2.2.2 (by simp [h1]), ?_⟩
      simp at hsc
      rcases hsc with rfl | rfl
      · exact contains_union_left _ _ (parseScope_wf _) (union_wf _ _ (requestable_wf hw) (requestable_wf hr))
      · exact contains_refl _ (parseScope_wf _)
  · simp at h
  · simp at h

/-- Basic credentials are put on the retry only in answer to a Basic challenge;
no token is reported as acquired and nothing else is sent. -/
theorem section2_basic (env : Env) (now : Nat) (st : HostSt) (ch : Chal) (req : ReqInfo)
    {u p : Atom} {acq : Bool} (h : (section2 env now st ch req).2.2 = .added (.basic u p) acq) :
    ch.scheme = .basic ∧ acq = false ∧ st.basic = some (u, p) ∧ (section2 env now st ch req).2.1 = [] := by
  rcases section2_cases env now st ch req with ⟨hsch, he⟩ | ⟨hsch, u', p', hb, he⟩ | ⟨_, _, he⟩ <;> rw [he] at h ⊢
  · cases hx : (acquireAccessToken env now (setChallenge st ch) ch 1 (parseScope ch.scope) (union (requestable req.want) (requestable req.required))).2.2 <;>
      simp [hx] at h
  · simp at h; obtain ⟨⟨rfl, rfl⟩, rfl⟩ := h
    exact ⟨hsch, rfl, hb, rfl⟩
  · simp at h

theorem section2_added_none (env : Env) (now : Nat) (st : HostSt) (ch : Chal) (req : ReqInfo) {acq : Bool} :
    (section2 env now st ch req).2.2 ≠ .added .none acq := by
  intro h
  rcases section2_cases env now st ch req with ⟨hsch, he⟩ | ⟨hsch, u', p', hb, he⟩ | ⟨_, _, he⟩ <;> rw [he] at h
  · cases hx : (acquireAccessToken env now (setChallenge st ch) ch 1 (parseScope ch.scope) (union (requestable req.want) (requestable req.required))).2.2 <;>
      simp [hx] at h
  · simp at h
  · simp at h

/-- Token requests in the second section answer a Bearer challenge: they go to
its realm and ask for `challenge scope ∪ (want ∪ required)` or the challenge
scope. -/
-- F39: `want`, `required` are their requestable parts
theorem section2_tokmsgs (env : Env) (now : Nat) (st : HostSt) (ch : Chal) (req : ReqInfo) :
    ∀ m ∈ (section2 env now st ch req).2.1,
      ch.scheme = .bearer ∧
      (TokMsg (setChallenge st ch) ch (union (parseScope ch.scope) (union (requestable req.want) (requestable req.required))) m ∨
        TokMsg (setChallenge st ch) ch (parseScope ch.scope) m) ∧
      ch.realm ≠ [] ∧ env.realmOk ch.realm = true := by
  intro m hm
  rcases section2_cases env now st ch req with ⟨hsch, he⟩ | ⟨hsch, u', p', hb, he⟩ | ⟨_, _, he⟩ <;> rw [he] at hm
  · have hs := acquireAccessToken_spec env now (setChallenge st ch) ch 1 (parseScope ch.scope) (union (requestable req.want) (requestable req.required))
    rw [requestable_parseScope, requestable_union_requestable] at hs
    exact ⟨hsch, hs.2.1 m hm, hs.2.2.1 m hm⟩
  · simp at hm
  · simp at hm

/-! ### The whole call -/

theorem chalOf_sender {host : Bytes} {values : List Bytes} {ch : Chal} (h : chalOf host values = some ch) :
    ch.sender = host := by
  unfold chalOf at h
  split at h
  · simp at h; subst h; rfl
  · simp at h

/-- The ways through the part of `RoundTrip` that follows a 401 with a challenge. -/
theorem afterChallenge_cases (env : Env) (now : Nat) (st1 : HostSt) (sent1 : List Msg) (ch : Chal) (req : ReqInfo) :
    ((section2 env now st1 ch req).2.2 = .error ∧
      afterChallenge env now st1 sent1 ch req =
        ((section2 env now st1 ch req).1, sent1 ++ (section2 env now st1 ch req).2.1, .err)) ∨
    ((section2 env now st1 ch req).2.2 = .notAdded ∧
      afterChallenge env now st1 sent1 ch req =
        ((section2 env now st1 ch req).1, sent1 ++ (section2 env now st1 ch req).2.1, .resp 401)) ∨
    (∃ h2 acq, (section2 env now st1 ch req).2.2 = .added h2 acq ∧
      ((env.reg 1 = .fail ∧
        afterChallenge env now st1 sent1 ch req =
          ((section2 env now st1 ch req).1,
            sent1 ++ (section2 env now st1 ch req).2.1 ++ [Msg.registry st1.host h2], .err)) ∨
       (∃ s2 hd, env.reg 1 = .resp s2 hd ∧
        afterChallenge env now st1 sent1 ch req =
          ((section2 env now st1 ch req).1,
            sent1 ++ (section2 env now st1 ch req).2.1 ++ [Msg.registry st1.host h2],
            if s2 = 401 ∧ acq = true then .denied else .resp s2)))) := by
  unfold afterChallenge
  rcases hs : section2 env now st1 ch req with ⟨st2, ms2, r⟩
  cases r with
  | error => exact Or.inl ⟨rfl, rfl⟩
  | notAdded => exact Or.inr (Or.inl ⟨rfl, rfl⟩)
  | added h2 acq =>
    right; right
    refine ⟨h2, acq, rfl, ?_⟩
    cases hreg : env.reg 1 with
    | fail => exact Or.inl ⟨rfl, rfl⟩
    | resp s2 hd =>
      right
      refine ⟨s2, hd, rfl, ?_⟩
      simp only []
      split <;> rfl

/-- The ways through `RoundTrip`. -/
theorem roundTrip_cases (env : Env) (now : Nat) (st : HostSt) (req : ReqInfo) :
    ((section1 env now st req).2.2 = none ∧
      roundTrip env now st req = ((section1 env now st req).1, (section1 env now st req).2.1, .err)) ∨
    (∃ h1, (section1 env now st req).2.2 = some h1 ∧
      ((env.reg 0 = .fail ∧
        roundTrip env now st req =
          ((section1 env now st req).1, (section1 env now st req).2.1 ++ [Msg.registry st.host h1], .err)) ∨
       (∃ status hdrs, env.reg 0 = .resp status hdrs ∧ (status ≠ 401 ∨ chalOf st.host hdrs = none) ∧
        roundTrip env now st req =
          ((section1 env now st req).1, (section1 env now st req).2.1 ++ [Msg.registry st.host h1], .resp status)) ∨
       (∃ hdrs ch, env.reg 0 = .resp 401 hdrs ∧ chalOf st.host hdrs = some ch ∧
        roundTrip env now st req =
          afterChallenge env now (section1 env now st req).1
            ((section1 env now st req).2.1 ++ [Msg.registry st.host h1]) ch req))) := by
  unfold roundTrip
  rcases hs : section1 env now st req with ⟨st1, ms1, r⟩
  cases r with
  | none => exact Or.inl ⟨rfl, rfl⟩
  | some h1 =>
    right
    refine ⟨h1, rfl, ?_⟩
    cases hreg : env.reg 0 with
    | fail => exact Or.inl ⟨rfl, rfl⟩
    | resp status hdrs =>
      right
      simp only []
      by_cases h401 : status = 401
      · subst h401
        simp only [ne_eq, not_true_eq_false, if_false]
        cases hch : chalOf st.host hdrs with
        | none => exact Or.inl ⟨401, hdrs, rfl, Or.inr hch, rfl⟩
        | some ch => exact Or.inr ⟨hdrs, ch, rfl, hch, rfl⟩
      · simp only [ne_eq, h401, not_false_eq_true, if_true]
        exact Or.inl ⟨status, hdrs, rfl, Or.inl h401, rfl⟩

/-- Where a message of a call comes from: the first section, the first forwarded
request, the second section (in answer to the challenge of the first response),
or the second forwarded request. -/
theorem roundTrip_mem (env : Env) (now : Nat) (st : HostSt) (req : ReqInfo) {m : Msg}
    (hm : m ∈ (roundTrip env now st req).2.1) :
    m ∈ (section1 env now st req).2.1 ∨
    (∃ h1, (section1 env now st req).2.2 = some h1 ∧ m = Msg.registry st.host h1) ∨
    (∃ hdrs ch, env.reg 0 = .resp 401 hdrs ∧ chalOf st.host hdrs = some ch ∧
      (m ∈ (section2 env now (section1 env now st req).1 ch req).2.1 ∨
       ∃ h2 acq, (section2 env now (section1 env now st req).1 ch req).2.2 = .added h2 acq ∧
        m = Msg.registry st.host h2)) := by
  have hhost := section1_host env now st req
  rcases roundTrip_cases env now st req with ⟨_, he⟩ | ⟨h1, hh1, ⟨_, he⟩ | ⟨s, hd, _, _, he⟩ | ⟨hdrs, ch, hreg, hch, he⟩⟩
  · rw [he] at hm; exact Or.inl hm
  · rw [he] at hm
    rcases List.mem_append.mp hm with h | h
    · exact Or.inl h
    · simp at h; exact Or.inr (Or.inl ⟨h1, hh1, h⟩)
  · rw [he] at hm
    rcases List.mem_append.mp hm with h | h
    · exact Or.inl h
    · simp at h; exact Or.inr (Or.inl ⟨h1, hh1, h⟩)
  · rw [he] at hm
    have first : ∀ m, m ∈ (section1 env now st req).2.1 ++ [Msg.registry st.host h1] →
        m ∈ (section1 env now st req).2.1 ∨
        (∃ h1, (section1 env now st req).2.2 = some h1 ∧ m = Msg.registry st.host h1) := by
      intro m h
      rcases List.mem_append.mp h with h | h
      · exact Or.inl h
      · simp at h; exact Or.inr ⟨h1, hh1, h⟩
    rcases afterChallenge_cases env now (section1 env now st req).1
        ((section1 env now st req).2.1 ++ [Msg.registry st.host h1]) ch req with
      ⟨_, ha⟩ | ⟨_, ha⟩ | ⟨h2, acq, hadd, ⟨_, ha⟩ | ⟨s2, hd2, _, ha⟩⟩ <;> rw [ha] at hm
    · rcases List.mem_append.mp hm with h | h
      · rcases first m h with h | h
        · exact Or.inl h
        · exact Or.inr (Or.inl h)
      · exact Or.inr (Or.inr ⟨hdrs, ch, hreg, hch, Or.inl h⟩)
    · rcases List.mem_append.mp hm with h | h
      · rcases first m h with h | h
        · exact Or.inl h
        · exact Or.inr (Or.inl h)
      · exact Or.inr (Or.inr ⟨hdrs, ch, hreg, hch, Or.inl h⟩)
    · rcases List.mem_append.mp hm with h | h
      · rcases List.mem_append.mp h with h | h
        · rcases first m h with h | h
          · exact Or.inl h
          · exact Or.inr (Or.inl h)
        · exact Or.inr (Or.inr ⟨hdrs, ch, hreg, hch, Or.inl h⟩)
      · simp at h; rw [hhost] at h
        exact Or.inr (Or.inr ⟨hdrs, ch, hreg, hch, Or.inr ⟨h2, acq, hadd, h⟩⟩)
    · rcases List.mem_append.mp hm with h | h
      · rcases List.mem_append.mp h with h | h
        · rcases first m h with h | h
          · exact Or.inl h
          · exact Or.inr (Or.inl h)
        · exact Or.inr (Or.inr ⟨hdrs, ch, hreg, hch, Or.inl h⟩)
      · simp at h; rw [hhost] at h
        exact Or.inr (Or.inr ⟨hdrs, ch, hreg, hch, Or.inr ⟨h2, acq, hadd, h⟩⟩)

/-- The state after a call is the state after its first section, or after its
second section run on that. -/
theorem roundTrip_state (env : Env) (now : Nat) (st : HostSt) (req : ReqInfo) :
    (roundTrip env now st req).1 = (section1 env now st req).1 ∨
    ∃ hdrs ch, env.reg 0 = .resp 401 hdrs ∧ chalOf st.host hdrs = some ch ∧
      (roundTrip env now st req).1 = (section2 env now (section1 env now st req).1 ch req).1 := by
  rcases roundTrip_cases env now st req with ⟨_, he⟩ | ⟨h1, hh1, ⟨_, he⟩ | ⟨s, hd, _, _, he⟩ | ⟨hdrs, ch, hreg, hch, he⟩⟩
  · rw [he]; exact Or.inl rfl
  · rw [he]; exact Or.inl rfl
  · rw [he]; exact Or.inl rfl
  · right
    refine ⟨hdrs, ch, hreg, hch, ?_⟩
    rw [he]
    rcases afterChallenge_cases env now (section1 env now st req).1
        ((section1 env now st req).2.1 ++ [Msg.registry st.host h1]) ch req with
      ⟨_, ha⟩ | ⟨_, ha⟩ | ⟨h2, acq, hadd, ⟨_, ha⟩ | ⟨s2, hd2, _, ha⟩⟩ <;> rw [ha]

theorem roundTrip_host (env : Env) (now : Nat) (st : HostSt) (req : ReqInfo) :
    (roundTrip env now st req).1.host = st.host := by
  rcases roundTrip_state env now st req with h | ⟨_, ch, _, _, h⟩ <;> rw [h]
  · exact section1_host env now st req
  · rw [section2_host]; exact section1_host env now st req

/-- A call preserves the invariant. -/
theorem roundTrip_J (env : Env) (now : Nat) (st : HostSt) (req : ReqInfo) (hJ : J st)
    (hr : WF req.required) (hw : WF req.want) : J (roundTrip env now st req).1 := by
  have h1 := section1_J env now st req hJ hr hw
  rcases roundTrip_state env now st req with h | ⟨_, ch, _, hch, h⟩ <;> rw [h]
  · exact h1
  · exact section2_J env now _ ch req h1 (by rw [section1_host]; exact chalOf_sender hch) hr hw

/-- Every message of a call is this host's (see `MsgOwn`). -/
theorem roundTrip_own (env : Env) (now : Nat) (st : HostSt) (req : ReqInfo) (hJ : J st)
    (hr : WF req.required) (hw : WF req.want) :
    ∀ m ∈ (roundTrip env now st req).2.1, MsgOwn st.host m := by
  intro m hm
  have h1 := section1_own env now st req hJ
  have hJ1 := section1_J env now st req hJ hr hw
  have hh := section1_host env now st req
  rcases roundTrip_mem env now st req hm with h | ⟨h1', hh1, rfl⟩ | ⟨hdrs, ch, _, hch, h | ⟨h2, acq, hadd, rfl⟩⟩
  · exact h1.1 m h
  · exact ⟨rfl, h1.2 h1' hh1⟩
  · have := (section2_own env now _ ch req hJ1 (by rw [hh]; exact chalOf_sender hch)).1 m h
    rwa [hh] at this
  · have := (section2_own env now _ ch req hJ1 (by rw [hh]; exact chalOf_sender hch)).2 h2 acq hadd
    rw [hh] at this
    exact ⟨rfl, this⟩

def Msg.isRegistry : Msg → Bool
  | .registry _ _ => true
  | _ => false

/-- Number of requests forwarded to the registry among the messages. -/
def attempts (ms : List Msg) : Nat := (ms.filter Msg.isRegistry).length

theorem tokMsg_not_registry {st : HostSt} {ch : Chal} {sc : Scope} {m : Msg} (h : TokMsg st ch sc m) :
    m.isRegistry = false := by
  rcases h with ⟨rt, _, rfl⟩ | rfl <;> rfl

theorem attempts_eq_zero {ms : List Msg} (h : ∀ m ∈ ms, m.isRegistry = false) : attempts ms = 0 := by
  simp only [attempts, List.length_eq_zero_iff, List.filter_eq_nil_iff]
  intro m hm; simp [h m hm]

theorem attempts_append (a b : List Msg) : attempts (a ++ b) = attempts a + attempts b := by
  simp [attempts]

@[simp] theorem attempts_registry (h : Bytes) (a : AuthHdr) : attempts [Msg.registry h a] = 1 := rfl

theorem section1_attempts (env : Env) (now : Nat) (st : HostSt) (req : ReqInfo) :
    attempts (section1 env now st req).2.1 = 0 := by
  apply attempts_eq_zero
  intro m hm
  obtain ⟨ch, _, _, _, h | h, _⟩ := section1_tokmsgs env now st req m hm
  · exact tokMsg_not_registry h
  · exact tokMsg_not_registry h

theorem section2_attempts (env : Env) (now : Nat) (st : HostSt) (ch : Chal) (req : ReqInfo) :
    attempts (section2 env now st ch req).2.1 = 0 := by
  apply attempts_eq_zero
  intro m hm
  obtain ⟨_, h | h, _⟩ := section2_tokmsgs env now st ch req m hm
  · exact tokMsg_not_registry h
  · exact tokMsg_not_registry h

/-- At most two requests are forwarded to the registry per call. -/
theorem roundTrip_attempts (env : Env) (now : Nat) (st : HostSt) (req : ReqInfo) :
    attempts (roundTrip env now st req).2.1 ≤ 2 := by
  have a1 := section1_attempts env now st req
  rcases roundTrip_cases env now st req with ⟨_, he⟩ | ⟨h1, hh1, ⟨_, he⟩ | ⟨s, hd, _, _, he⟩ | ⟨hdrs, ch, hreg, hch, he⟩⟩
  · rw [he]; simp only []; omega
  · rw [he]; simp only [attempts_append, a1, attempts_registry]; omega
  · rw [he]; simp only [attempts_append, a1, attempts_registry]; omega
  · rw [he]
    have a2 := section2_attempts env now (section1 env now st req).1 ch req
    rcases afterChallenge_cases env now (section1 env now st req).1
        ((section1 env now st req).2.1 ++ [Msg.registry st.host h1]) ch req with
      ⟨_, ha⟩ | ⟨_, ha⟩ | ⟨h2, acq, hadd, ⟨_, ha⟩ | ⟨s2, hd2, _, ha⟩⟩ <;> rw [ha] <;>
      simp only [attempts_append, a1, a2, attempts_registry] <;> omega

/-- The synthesized 403 DENIED is returned exactly when the retry, made with a
token acquired in answer to the challenge of the first response, is answered 401. -/
theorem roundTrip_denied_iff (env : Env) (now : Nat) (st : HostSt) (req : ReqInfo) :
    (roundTrip env now st req).2.2 = .denied ↔
      ∃ h1 hdrs ch a hd2, (section1 env now st req).2.2 = some h1 ∧
        env.reg 0 = .resp 401 hdrs ∧ chalOf st.host hdrs = some ch ∧
        (section2 env now (section1 env now st req).1 ch req).2.2 = .added (.bearer a) true ∧
        env.reg 1 = .resp 401 hd2 := by
  constructor
  · intro h
    rcases roundTrip_cases env now st req with ⟨_, he⟩ | ⟨h1, hh1, ⟨_, he⟩ | ⟨s, hd, _, _, he⟩ | ⟨hdrs, ch, hreg, hch, he⟩⟩
    · rw [he] at h; simp at h
    · rw [he] at h; simp at h
    · rw [he] at h; simp at h
    · rw [he] at h
      rcases afterChallenge_cases env now (section1 env now st req).1
          ((section1 env now st req).2.1 ++ [Msg.registry st.host h1]) ch req with
        ⟨_, ha⟩ | ⟨_, ha⟩ | ⟨h2, acq, hadd, ⟨_, ha⟩ | ⟨s2, hd2, hreg2, ha⟩⟩ <;> rw [ha] at h
      · simp at h
      · simp at h
      · simp at h
      · simp only [] at h
        split at h
        · rename_i hc
          obtain ⟨rfl, rfl⟩ := hc
          cases h2 with
          | none => exact absurd hadd (section2_added_none env now _ ch req)
          | bearer a => exact ⟨h1, hdrs, ch, a, hd2, hh1, hreg, hch, hadd, hreg2⟩
          | basic u p => have := (section2_basic env now _ ch req hadd).2.1; cases this
        · simp at h
  · rintro ⟨h1', hdrs, ch, a, hd2, hh1', hreg, hch, hadd, hreg2⟩
    rcases roundTrip_cases env now st req with ⟨hn, he⟩ | ⟨h1, hh1, ⟨hf, he⟩ | ⟨s, hd, hr, hs, he⟩ | ⟨hdrs', ch', hreg', hch', he⟩⟩
    · rw [hn] at hh1'; cases hh1'
    · rw [hreg] at hf; cases hf
    · rw [hreg] at hr; cases hr
      rcases hs with h | h
      · exact absurd rfl h
      · rw [hch] at h; cases h
    · rw [hreg] at hreg'; cases hreg'
      rw [hch] at hch'; cases hch'
      rw [he]
      rcases afterChallenge_cases env now (section1 env now st req).1
          ((section1 env now st req).2.1 ++ [Msg.registry st.host h1]) ch req with
        ⟨h', ha⟩ | ⟨h', ha⟩ | ⟨h2, acq, hadd', ⟨hf, ha⟩ | ⟨s2, hd2', hreg2', ha⟩⟩
      · rw [hadd] at h'; cases h'
      · rw [hadd] at h'; cases h'
      · rw [hreg2] at hf; cases hf
      · rw [hadd] at hadd'; cases hadd'
        rw [hreg2] at hreg2'; cases hreg2'
        rw [ha]; simp

/-- The registry's first answer does not ask for (re-)authentication: a transport
error, a status other than 401, or a 401 without an acceptable challenge. -/
def NoChallenge (env : Env) (host : Bytes) : Prop :=
  env.reg 0 = .fail ∨ ∃ status hdrs, env.reg 0 = .resp status hdrs ∧ (status ≠ 401 ∨ chalOf host hdrs = none)

/-- With a cached token that is valid a second from now and covers the required
scope, the call starts with the forwarded request carrying a cached covering
token (no token request first), and if the registry does not challenge that is
the only message of the call. -/
theorem roundTrip_cache_hit (env : Env) (now : Nat) (st : HostSt) (req : ReqInfo)
    (h : ∃ t ∈ st.toks, now + marginMs ≤ t.expires ∧ contains t.scope req.required = true) :
    ∃ t' ∈ st.toks, now + marginMs ≤ t'.expires ∧ contains t'.scope req.required = true ∧
      (∃ rest, (roundTrip env now st req).2.1 = Msg.registry st.host (.bearer t'.tok) :: rest) ∧
      (NoChallenge env st.host →
        (roundTrip env now st req).2.1 = [Msg.registry st.host (.bearer t'.tok)] ∧
        (roundTrip env now st req).1 = prune now st) := by
  obtain ⟨t', ht', hexp, hcon, hs1⟩ := section1_cache_hit env now st req h
  refine ⟨t', ht', hexp, hcon, ?_, ?_⟩
  · rcases roundTrip_cases env now st req with ⟨hn, he⟩ | ⟨h1, hh1, ⟨_, he⟩ | ⟨s, hd, _, _, he⟩ | ⟨hdrs, ch, hreg, hch, he⟩⟩
    · rw [hs1] at hn; cases hn
    · rw [hs1] at hh1; cases hh1; rw [he, hs1]; exact ⟨[], rfl⟩
    · rw [hs1] at hh1; cases hh1; rw [he, hs1]; exact ⟨[], rfl⟩
    · rw [hs1] at hh1; cases hh1; rw [he]
      rcases afterChallenge_cases env now (section1 env now st req).1
          ((section1 env now st req).2.1 ++ [Msg.registry st.host (.bearer t'.tok)]) ch req with
        ⟨_, ha⟩ | ⟨_, ha⟩ | ⟨h2, acq, hadd, ⟨_, ha⟩ | ⟨s2, hd2, _, ha⟩⟩ <;> rw [ha, hs1] <;> simp
  · intro hnc
    rcases roundTrip_cases env now st req with ⟨hn, he⟩ | ⟨h1, hh1, ⟨_, he⟩ | ⟨s, hd, _, _, he⟩ | ⟨hdrs, ch, hreg, hch, he⟩⟩
    · rw [hs1] at hn; cases hn
    · rw [hs1] at hh1; cases hh1; rw [he, hs1]; exact ⟨rfl, rfl⟩
    · rw [hs1] at hh1; cases hh1; rw [he, hs1]; exact ⟨rfl, rfl⟩
    · rcases hnc with hf | ⟨s, hd, hr, hs⟩
      · rw [hreg] at hf; cases hf
      · rw [hreg] at hr; cases hr
        rcases hs with h | h
        · exact absurd rfl h
        · rw [hch] at h; cases h

/-- Before this host has sent any challenge, the call begins with the forwarded
request, which carries no credentials at all or a cached access token: no
password, no Basic header, no refresh token leaves on a first unauthenticated
request. -/
theorem roundTrip_first_unauthenticated (env : Env) (now : Nat) (st : HostSt) (req : ReqInfo)
    (hc : st.challenge = none) :
    ∃ h1 rest, (roundTrip env now st req).2.1 = Msg.registry st.host h1 :: rest ∧
      (h1 = .none ∨ ∃ t ∈ st.toks, h1 = .bearer t.tok) := by
  obtain ⟨hms, _, hh⟩ := section1_no_challenge env now st req hc
  have key : ∃ h1, (section1 env now st req).2.2 = some h1 ∧ (h1 = .none ∨ ∃ t ∈ st.toks, h1 = .bearer t.tok) := by
    rcases hh with h | ⟨t, ht, h⟩
    · exact ⟨_, h, Or.inl rfl⟩
    · exact ⟨_, h, Or.inr ⟨t, ht, rfl⟩⟩
  obtain ⟨h1, hh1, hform⟩ := key
  refine ⟨h1, ?_⟩
  rcases roundTrip_cases env now st req with ⟨hn, he⟩ | ⟨h1', hh1', ⟨_, he⟩ | ⟨s, hd, _, _, he⟩ | ⟨hdrs, ch, hreg, hch, he⟩⟩
  · rw [hh1] at hn; cases hn
  · rw [hh1] at hh1'; cases hh1'; rw [he, hms]; exact ⟨[], rfl, hform⟩
  · rw [hh1] at hh1'; cases hh1'; rw [he, hms]; exact ⟨[], rfl, hform⟩
  · rw [hh1] at hh1'; cases hh1'; rw [he]
    rcases afterChallenge_cases env now (section1 env now st req).1
        ((section1 env now st req).2.1 ++ [Msg.registry st.host h1]) ch req with
      ⟨_, ha⟩ | ⟨_, ha⟩ | ⟨h2, acq, hadd, ⟨_, ha⟩ | ⟨s2, hd2, _, ha⟩⟩ <;> rw [ha, hms] <;>
      exact ⟨_, rfl, hform⟩

/-- Basic credentials go to the registry only if it has issued a Basic challenge:
the stored one (from an earlier 401) or the one in the first response of this call. -/
theorem roundTrip_basic_needs_basic_challenge (env : Env) (now : Nat) (st : HostSt) (req : ReqInfo)
    {host : Bytes} {u p : Atom} (hm : Msg.registry host (.basic u p) ∈ (roundTrip env now st req).2.1) :
    (∃ ch, st.challenge = some ch ∧ ch.scheme = .basic) ∨
    (∃ hdrs ch, env.reg 0 = .resp 401 hdrs ∧ chalOf st.host hdrs = some ch ∧ ch.scheme = .basic) := by
  rcases roundTrip_mem env now st req hm with h | ⟨h1, hh1, he⟩ | ⟨hdrs, ch, hreg, hch, h | ⟨h2, acq, hadd, he⟩⟩
  · obtain ⟨ch, _, _, _, h' | h', _⟩ := section1_tokmsgs env now st req _ h <;>
      exact absurd (tokMsg_not_registry h') (by simp [Msg.isRegistry])
  · simp at he; obtain ⟨_, rfl⟩ := he
    obtain ⟨ch, hch, hs, _⟩ := section1_basic env now st req hh1
    exact Or.inl ⟨ch, hch, hs⟩
  · obtain ⟨_, h' | h', _⟩ := section2_tokmsgs env now _ ch req _ h <;>
      exact absurd (tokMsg_not_registry h') (by simp [Msg.isRegistry])
  · simp at he; obtain ⟨_, rfl⟩ := he
    exact Or.inr ⟨hdrs, ch, hreg, hch, (section2_basic env now _ ch req hadd).1⟩

/-- The realm and the naming host of a message (token requests only). -/
def Msg.realm? : Msg → Option (Bytes × Bytes)
  | .registry _ _ => none
  | .tokenPOST realm namedBy _ _ _ => some (realm, namedBy)
  | .tokenGET realm namedBy _ _ _ => some (realm, namedBy)

theorem tokMsg_realm {st : HostSt} {ch : Chal} {sc : Scope} {m : Msg} (h : TokMsg st ch sc m) :
    m.realm? = some (ch.realm, ch.sender) := by
  rcases h with ⟨rt, _, rfl⟩ | rfl <;> rfl

/-- Every token request of a call goes to the (non-empty) realm of a Bearer
challenge sent by this host: the stored one, or the one in the first response of
this call. -/
theorem roundTrip_token_realm (env : Env) (now : Nat) (st : HostSt) (req : ReqInfo)
    {m : Msg} {realm namedBy : Bytes} (hm : m ∈ (roundTrip env now st req).2.1)
    (hr : m.realm? = some (realm, namedBy)) :
    realm ≠ [] ∧
    ((∃ ch, st.challenge = some ch ∧ ch.scheme = .bearer ∧ ch.realm = realm ∧ ch.sender = namedBy) ∨
     (∃ hdrs ch, env.reg 0 = .resp 401 hdrs ∧ chalOf st.host hdrs = some ch ∧ ch.scheme = .bearer ∧
        ch.realm = realm ∧ ch.sender = namedBy)) := by
  rcases roundTrip_mem env now st req hm with h | ⟨h1, hh1, rfl⟩ | ⟨hdrs, ch, hreg, hch, h | ⟨h2, acq, hadd, rfl⟩⟩
  · obtain ⟨ch, hc, hs, _, h' | h', hne, _⟩ := section1_tokmsgs env now st req _ h <;>
    · have := tokMsg_realm h'
      rw [hr] at this; simp at this
      exact ⟨this.1 ▸ hne, Or.inl ⟨ch, hc, hs, this.1.symm, this.2.symm⟩⟩
  · simp [Msg.realm?] at hr
  · obtain ⟨hs, h' | h', hne, _⟩ := section2_tokmsgs env now _ ch req _ h <;>
    · have := tokMsg_realm h'
      rw [hr] at this; simp at this
      exact ⟨this.1 ▸ hne, Or.inr ⟨hdrs, ch, hreg, hch, hs, this.1.symm, this.2.symm⟩⟩
  · simp [Msg.realm?] at hr

/-- Where a Bearer token presented to the registry during a call comes from. -/
-- F39: a token acquired pre-emptively is recorded under a scope that contains the
-- requestable part of the required scope (the required scope itself when it is limited)
theorem roundTrip_bearer (env : Env) (now : Nat) (st : HostSt) (req : ReqInfo)
    (hr : WF req.required) (hw : WF req.want) {host : Bytes} {a : Atom}
    (hm : Msg.registry host (.bearer a) ∈ (roundTrip env now st req).2.1) :
    -- reused from the cache: still valid a second from now, recorded scope contains the required scope
    (∃ t ∈ st.toks, t.tok = a ∧ now + marginMs ≤ t.expires ∧ contains t.scope req.required = true) ∨
    -- delivered during the first section (refresh-token flow) for a scope that contains the required scope
    (∃ sc tk ac rf e, Delivered env 0 tk ac rf e ∧ a = ⟨st.host, .access, pickToken tk ac⟩ ∧
        contains sc (requestable req.required) = true ∧
        (⟨sc, a, now + lifeOf e * 1000⟩ : Tok) ∈ (section1 env now st req).1.toks) ∨
    -- delivered in answer to the challenge of the first response, for a scope that contains the challenge's
    (∃ hdrs ch sc tk ac rf e, env.reg 0 = .resp 401 hdrs ∧ chalOf st.host hdrs = some ch ∧
        ch.scheme = .bearer ∧ Delivered env 1 tk ac rf e ∧ a = ⟨st.host, .access, pickToken tk ac⟩ ∧
        contains sc (parseScope ch.scope) = true ∧
        (⟨sc, a, now + lifeOf e * 1000⟩ : Tok) ∈ (section2 env now (section1 env now st req).1 ch req).1.toks) := by
  rcases roundTrip_mem env now st req hm with h | ⟨h1, hh1, he⟩ | ⟨hdrs, ch, hreg, hch, h | ⟨h2, acq, hadd, he⟩⟩
  · obtain ⟨ch, _, _, _, h' | h', _⟩ := section1_tokmsgs env now st req _ h <;>
      exact absurd (tokMsg_not_registry h') (by simp [Msg.isRegistry])
  · simp at he; obtain ⟨_, rfl⟩ := he
    rcases section1_bearer env now st req hh1 with ⟨t, ht, rfl, hexp, hcon, _⟩ |
      ⟨ch, sc, tk, ac, rf, e, _, _, _, hsc, hd, ha, htoks, _⟩
    · exact Or.inl ⟨t, ht, rfl, hexp, hcon⟩
    · refine Or.inr (Or.inl ⟨sc, tk, ac, rf, e, hd, ha, ?_, ?_⟩)
      · rcases hsc with rfl | rfl
        · exact contains_union_left _ _ (requestable_wf hr) (requestable_wf hw)
        · exact contains_refl _ (requestable_wf hr)
      · rw [htoks]; simp
  · obtain ⟨_, h' | h', _⟩ := section2_tokmsgs env now _ ch req _ h <;>
      exact absurd (tokMsg_not_registry h') (by simp [Msg.isRegistry])
  · simp at he; obtain ⟨_, rfl⟩ := he
    obtain ⟨hs, _, sc, tk, ac, rf, e, _, hd, ha, htoks, _, hcon⟩ := section2_bearer env now _ ch req hr hw hadd
    refine Or.inr (Or.inr ⟨hdrs, ch, sc, tk, ac, rf, e, hreg, hch, hs, hd, ?_, hcon, ?_⟩)
    · rw [ha, section1_host]
    · rw [htoks]; simp

/-! ### The whole transport -/

/-- Every per-host state satisfies the invariant and sits under its own host. -/
def SysJ (sys : Sys) : Prop := ∀ h st, sys.lookup h = some st → J st ∧ st.host = h

theorem sysJ_nil : SysJ [] := by intro h st hl; simp at hl

theorem lookup_put (sys : Sys) (host : Bytes) (st : HostSt) (h : Bytes) :
    (sys.put host st).lookup h = if h = host then some st else sys.lookup h := by
  unfold Sys.put
  by_cases hh : h = host
  · subst hh; simp [List.lookup]
  · simp only [hh, if_false]
    have hne : (h == host) = false := by simpa using hh
    rw [List.lookup_cons, hne]
    induction sys with
    | nil => rfl
    | cons p rest ih =>
      obtain ⟨k, v⟩ := p
      by_cases hk : k = host
      · subst hk
        simp [List.filter, List.lookup, hne, ih]
      · have : (k != host) = true := by simpa using hk
        simp only [List.filter, this, List.lookup_cons]
        cases h == k <;> simp [ih]

theorem sys_get_J {cfg : Config} {sys : Sys} (hs : SysJ sys) {host : Bytes} {st : HostSt}
    (h : sys.get cfg host = some st) : J st ∧ st.host = host := by
  unfold Sys.get at h
  split at h
  · rename_i st' hl; cases h; exact hs host st hl
  · cases hc : cfg host with
    | none => simp [hc] at h
    | some e => simp [hc] at h; subst h; exact ⟨J_init host e, rfl⟩

/-- One call preserves the invariant of the whole transport. -/
theorem sysStep_J (cfg : Config) (env : Env) (now : Nat) (sys : Sys) (host : Bytes) (req : ReqInfo)
    (hs : SysJ sys) (hr : WF req.required) (hw : WF req.want) :
    SysJ (sysStep cfg env now sys host req).1 := by
  unfold sysStep
  cases hg : sys.get cfg host with
  | none => exact hs
  | some st =>
    obtain ⟨hJ, hh⟩ := sys_get_J hs hg
    intro h st' hl
    simp only [lookup_put] at hl
    split at hl
    · rename_i heq; cases hl; subst heq
      exact ⟨roundTrip_J env now st req hJ hr hw, by rw [roundTrip_host, hh]⟩
    · exact hs h st' hl

/-- One call touches only the state of the host it is addressed to. -/
theorem sysStep_frame (cfg : Config) (env : Env) (now : Nat) (sys : Sys) (host : Bytes) (req : ReqInfo)
    {h : Bytes} (hne : h ≠ host) : (sysStep cfg env now sys host req).1.lookup h = sys.lookup h := by
  unfold sysStep
  cases hg : sys.get cfg host with
  | none => rfl
  | some st => simp [lookup_put, hne]

/-- Every message of a call to `host` is `host`'s: credentials and tokens of
any other host cannot appear, whatever the states of the other hosts are. -/
theorem sysStep_own (cfg : Config) (env : Env) (now : Nat) (sys : Sys) (host : Bytes) (req : ReqInfo)
    (hs : SysJ sys) (hr : WF req.required) (hw : WF req.want) :
    ∀ m ∈ (sysStep cfg env now sys host req).2.1, MsgOwn host m := by
  unfold sysStep
  cases hg : sys.get cfg host with
  | none => simp
  | some st =>
    obtain ⟨hJ, hh⟩ := sys_get_J hs hg
    intro m hm
    have := roundTrip_own env now st req hJ hr hw m hm
    rwa [hh] at this

/-- A failing configuration lookup: an error and no message at all. -/
theorem sysStep_config_error (cfg : Config) (env : Env) (now : Nat) (sys : Sys) (host : Bytes) (req : ReqInfo)
    (hl : sys.lookup host = none) (hc : cfg host = none) :
    sysStep cfg env now sys host req = (sys, [], .err) := by
  simp [sysStep, Sys.get, hl, hc]

theorem run_J (cfg : Config) (sys : Sys) (calls : List Call) (hs : SysJ sys)
    (hwf : ∀ c ∈ calls, WF c.req.required ∧ WF c.req.want) : SysJ (run cfg sys calls).1 := by
  induction calls generalizing sys with
  | nil => exact hs
  | cons c cs ih =>
    simp only [run]
    exact ih _ (sysStep_J cfg c.env c.now sys c.host c.req hs (hwf c (by simp)).1 (hwf c (by simp)).2)
      (fun c' hc' => hwf c' (by simp [hc']))

/-- Over any history, every message sent during a call to host `h` is `h`'s. -/
theorem run_own (cfg : Config) (sys : Sys) (calls : List Call) (hs : SysJ sys)
    (hwf : ∀ c ∈ calls, WF c.req.required ∧ WF c.req.want) :
    ∀ e ∈ (run cfg sys calls).2, ∀ m ∈ e.2.1, MsgOwn e.1 m := by
  induction calls generalizing sys with
  | nil => simp [run]
  | cons c cs ih =>
    simp only [run]
    intro e he
    rcases List.mem_cons.mp he with rfl | he
    · exact sysStep_own cfg c.env c.now sys c.host c.req hs (hwf c (by simp)).1 (hwf c (by simp)).2
    · exact ih _ (sysStep_J cfg c.env c.now sys c.host c.req hs (hwf c (by simp)).1 (hwf c (by simp)).2)
        (fun c' hc' => hwf c' (by simp [hc'])) e he

/-! ### A token is recorded under the scope that was asked for -/

theorem finish_toks_grow {now : Nat} {st : HostSt} {ms : List Msg} {sc0 : Scope} {r : TokRes}
    {sc : Scope} {a : Atom} {exp : Nat}
    (h : (finish now st ms sc0 r).1.toks = st.toks ++ [⟨sc, a, exp⟩]) :
    sc = sc0 ∧ ∃ t ac rf e, r = .ok t ac rf e := by
  unfold finish at h
  split at h
  · rename_i t ac rf e
    split at h
    · simp at h
    · simp at h
      exact ⟨h.1.symm, t, ac, rf, e, rfl⟩
  · simp at h

/-- A token is recorded in the cache under exactly the scope whose text was sent
in a token request of the same acquisition. -/
theorem acquireAccessToken_recorded (env : Env) (now : Nat) (st : HostSt) (ch : Chal) (ph : Nat)
    (first second : Scope) {sc : Scope} {a : Atom} {exp : Nat}
    (h : (acquireAccessToken env now st ch ph first second).1.toks = st.toks ++ [⟨sc, a, exp⟩]) :
    ∃ m ∈ (acquireAccessToken env now st ch ph first second).2.1, TokMsg st ch sc m := by
  unfold acquireAccessToken at h ⊢
  generalize requestable first = first at h ⊢
  generalize requestable second = second at h ⊢
  split
  · rename_i h401
    simp only [h401, if_true] at h
    obtain ⟨rfl, t, ac, rf, e, hr⟩ := finish_toks_grow h
    obtain ⟨⟨m, hm⟩, _⟩ := acquireToken_ok env st ch ph 1 sc hr
    have hms := (finish_spec env ph now st
      ((acquireToken env st ch ph 0 (union sc second)).1 ++ (acquireToken env st ch ph 1 sc).1)
      sc (acquireToken env st ch ph 1 sc).2 (fun t a rf e h => (acquireToken_ok env st ch ph 1 sc h).2)).1
    rw [hms]
    exact ⟨m, List.mem_append.mpr (Or.inr hm), acquireToken_msgs _ _ _ _ _ _ m hm⟩
  · rename_i h401
    simp only [h401, if_false] at h
    obtain ⟨rfl, t, ac, rf, e, hr⟩ := finish_toks_grow h
    obtain ⟨⟨m, hm⟩, _⟩ := acquireToken_ok env st ch ph 0 (union first second) hr
    have hms := (finish_spec env ph now st (acquireToken env st ch ph 0 (union first second)).1
      (union first second) (acquireToken env st ch ph 0 (union first second)).2
      (fun t a rf e h => (acquireToken_ok env st ch ph 0 (union first second) h).2)).1
    rw [hms]
    exact ⟨m, hm, acquireToken_msgs _ _ _ _ _ _ m hm⟩

/-- Second section: the token cached in answer to a challenge is recorded under
the scope whose text was sent in one of this section's token requests. -/
theorem section2_recorded (env : Env) (now : Nat) (st : HostSt) (ch : Chal) (req : ReqInfo)
    {sc : Scope} {a : Atom} {exp : Nat}
    (h : (section2 env now st ch req).1.toks = st.toks ++ [⟨sc, a, exp⟩]) :
    ∃ m ∈ (section2 env now st ch req).2.1, TokMsg (setChallenge st ch) ch sc m := by
  rcases section2_cases env now st ch req with ⟨_, he⟩ | ⟨_, u, p, _, he⟩ | ⟨_, _, he⟩ <;> rw [he] at h ⊢
  · exact acquireAccessToken_recorded env now (setChallenge st ch) ch 1 _ _ h
  · simp at h
  · simp at h

/-- First section: likewise for the pre-emptive (refresh token) acquisition. -/
theorem section1_recorded (env : Env) (now : Nat) (st : HostSt) (req : ReqInfo)
    {sc : Scope} {a : Atom} {exp : Nat}
    (h : (section1 env now st req).1.toks = (prune now st).toks ++ [⟨sc, a, exp⟩]) :
    ∃ ch, st.challenge = some ch ∧ ∃ m ∈ (section1 env now st req).2.1, TokMsg (prune now st) ch sc m := by
  rcases section1_cases env now st req with ⟨t', ht', he⟩ | ⟨_, _, he⟩ | ⟨_, ch, rt, hch, hsch, hrt, he⟩ |
    ⟨_, ch, u', p', hch, hsch, hb, he⟩ | ⟨_, ch, hch, _, he⟩ <;> rw [he] at h ⊢
  · simp at h
  · simp at h
  · exact ⟨ch, hch, acquireAccessToken_recorded env now (prune now st) ch 0 _ _ h⟩
  · simp at h
  · simp at h

/-! ### Histories: states reachable under any interleaving of critical sections -/

/-- The states of host `host` (configured with entry `e`) reachable from the
initial state by any sequence of critical sections, each run with any
environment, time, request and (for the second section) any challenge sent by
this host. A sequential call is a first section followed, possibly, by a second
one; concurrent calls interleave their sections arbitrarily. The list records the
environments consulted so far. -/
inductive Reach (host : Bytes) (e : ConfigEntry) : HostSt → List Env → Prop
  | init : Reach host e (initSt host e) []
  | sec1 {st : HostSt} {envs : List Env} (env : Env) (now : Nat) (req : ReqInfo) :
      Reach host e st envs → WF req.required → WF req.want →
      Reach host e (section1 env now st req).1 (env :: envs)
  | sec2 {st : HostSt} {envs : List Env} (env : Env) (now : Nat) (ch : Chal) (req : ReqInfo) :
      Reach host e st envs → ch.sender = host → WF req.required → WF req.want →
      Reach host e (section2 env now st ch req).1 (env :: envs)

/-- The token value is the configured access token or was delivered by a token
server reply in one of the environments. -/
def Known (e : ConfigEntry) (envs : List Env) (v : Bytes) : Prop :=
  (v = e.accessToken ∧ v ≠ []) ∨
  ∃ env ∈ envs, ∃ ph tk ac rf ex, Delivered env ph tk ac rf ex ∧ v = pickToken tk ac

theorem Known.mono {e : ConfigEntry} {envs : List Env} {v : Bytes} (env : Env) (h : Known e envs v) :
    Known e (env :: envs) v := by
  rcases h with h | ⟨env', hm, rest⟩
  · exact Or.inl h
  · exact Or.inr ⟨env', List.mem_cons_of_mem _ hm, rest⟩

theorem reach_J {host : Bytes} {e : ConfigEntry} {st : HostSt} {envs : List Env}
    (h : Reach host e st envs) : J st ∧ st.host = host := by
  induction h with
  | init => exact ⟨J_init host e, rfl⟩
  | sec1 env now req _ hr hw ih =>
    exact ⟨section1_J env now _ req ih.1 hr hw, by rw [section1_host]; exact ih.2⟩
  | sec2 env now ch req _ hc hr hw ih =>
    exact ⟨section2_J env now _ ch req ih.1 (by rw [ih.2]; exact hc) hr hw, by rw [section2_host]; exact ih.2⟩

theorem section1_toks_prov (env : Env) (now : Nat) (st : HostSt) (req : ReqInfo) :
    ∀ t ∈ (section1 env now st req).1.toks,
      t ∈ st.toks ∨ ∃ tk ac rf ex, Delivered env 0 tk ac rf ex ∧ t.tok.val = pickToken tk ac := by
  intro t ht
  have hp : ∀ t ∈ (prune now st).toks, t ∈ st.toks := fun t h => ((mem_prune_toks now st t).mp h).1
  rcases section1_cases env now st req with ⟨t', ht', he⟩ | ⟨_, _, he⟩ | ⟨_, ch, rt, hch, hsch, hrt, he⟩ |
    ⟨_, ch, u', p', hch, hsch, hb, he⟩ | ⟨_, ch, hch, _, he⟩ <;> rw [he] at ht
  · exact Or.inl (hp t ht)
  · exact Or.inl (hp t ht)
  · have hs := acquireAccessToken_spec env now (prune now st) ch 0 req.required req.want
    rcases hs.1.toks with ⟨_, h2⟩ | ⟨sc, tk, ac, rf, ex, _, hd, _, _, h2⟩
    · rw [h2] at ht; exact Or.inl (hp t ht)
    · rw [h2] at ht
      rcases List.mem_append.mp ht with h3 | h3
      · exact Or.inl (hp t h3)
      · simp at h3; subst h3; exact Or.inr ⟨tk, ac, rf, ex, hd, rfl⟩
  · exact Or.inl (hp t ht)
  · exact Or.inl (hp t ht)

theorem section2_toks_prov (env : Env) (now : Nat) (st : HostSt) (ch : Chal) (req : ReqInfo) :
    ∀ t ∈ (section2 env now st ch req).1.toks,
      t ∈ st.toks ∨ ∃ tk ac rf ex, Delivered env 1 tk ac rf ex ∧ t.tok.val = pickToken tk ac := by
  intro t ht
  rcases section2_cases env now st ch req with ⟨hsch, he⟩ | ⟨hsch, u', p', hb, he⟩ | ⟨_, _, he⟩ <;> rw [he] at ht
  · have hs := acquireAccessToken_spec env now (setChallenge st ch) ch 1 (parseScope ch.scope) (union (requestable req.want) (requestable req.required))
    rcases hs.1.toks with ⟨_, h2⟩ | ⟨sc, tk, ac, rf, ex, _, hd, _, _, h2⟩
    · rw [h2] at ht; exact Or.inl ht
    · rw [h2] at ht
      rcases List.mem_append.mp ht with h3 | h3
      · exact Or.inl h3
      · simp at h3; subst h3; exact Or.inr ⟨tk, ac, rf, ex, hd, rfl⟩
  · exact Or.inl ht
  · exact Or.inl ht

/-- In every reachable state, every cached token is the configured one or was
delivered by a token server in answer to a request of this host's state. -/
theorem reach_known {host : Bytes} {e : ConfigEntry} {st : HostSt} {envs : List Env}
    (h : Reach host e st envs) : ∀ t ∈ st.toks, Known e envs t.tok.val := by
  induction h with
  | init =>
    intro t ht
    simp only [initSt] at ht
    split at ht
    · simp at ht
    · rename_i hne; simp at ht; subst ht; exact Or.inl ⟨rfl, hne⟩
  | sec1 env now req _ _ _ ih =>
    intro t ht
    rcases section1_toks_prov env now _ req t ht with h | ⟨tk, ac, rf, ex, hd, hv⟩
    · exact (ih t h).mono env
    · exact Or.inr ⟨env, by simp, 0, tk, ac, rf, ex, hd, hv⟩
  | sec2 env now ch req _ _ _ _ ih =>
    intro t ht
    rcases section2_toks_prov env now _ ch req t ht with h | ⟨tk, ac, rf, ex, hd, hv⟩
    · exact (ih t h).mono env
    · exact Or.inr ⟨env, by simp, 1, tk, ac, rf, ex, hd, hv⟩

/-! F39: a token server is never asked for the unlimited scope, and nothing it delivers is cached under it -/

theorem section1_toks_limited (env : Env) (now : Nat) (st : HostSt) (req : ReqInfo) :
    ∀ t ∈ (section1 env now st req).1.toks, t ∈ st.toks ∨ t.scope.unlimited = false := by
  intro t ht
  have hp : ∀ t ∈ (prune now st).toks, t ∈ st.toks := fun t h => ((mem_prune_toks now st t).mp h).1
  rcases section1_cases env now st req with ⟨t', ht', he⟩ | ⟨_, _, he⟩ | ⟨_, ch, rt, hch, hsch, hrt, he⟩ |
    ⟨_, ch, u', p', hch, hsch, hb, he⟩ | ⟨_, ch, hch, _, he⟩ <;> rw [he] at ht
  · exact Or.inl (hp t ht)
  · exact Or.inl (hp t ht)
  · have hs := acquireAccessToken_spec env now (prune now st) ch 0 req.required req.want
    rcases hs.1.toks with ⟨_, h2⟩ | ⟨sc, tk, ac, rf, ex, hsc, _, _, _, h2⟩
    · rw [h2] at ht; exact Or.inl (hp t ht)
    · rw [h2] at ht
      rcases List.mem_append.mp ht with h3 | h3
      · exact Or.inl (hp t h3)
      · simp at h3; subst h3
        simp at hsc
        rcases hsc with rfl | rfl
        · exact Or.inr (union_requestable_limited _ _)
        · exact Or.inr (requestable_limited _)
  · exact Or.inl (hp t ht)
  · exact Or.inl (hp t ht)

theorem section2_toks_limited (env : Env) (now : Nat) (st : HostSt) (ch : Chal) (req : ReqInfo) :
    ∀ t ∈ (section2 env now st ch req).1.toks, t ∈ st.toks ∨ t.scope.unlimited = false := by
  intro t ht
  rcases section2_cases env now st ch req with ⟨hsch, he⟩ | ⟨hsch, u', p', hb, he⟩ | ⟨_, _, he⟩ <;> rw [he] at ht
  · have hs := acquireAccessToken_spec env now (setChallenge st ch) ch 1 (parseScope ch.scope) (union (requestable req.want) (requestable req.required))
    rcases hs.1.toks with ⟨_, h2⟩ | ⟨sc, tk, ac, rf, ex, hsc, _, _, _, h2⟩
    · rw [h2] at ht; exact Or.inl ht
    · rw [h2] at ht
      rcases List.mem_append.mp ht with h3 | h3
      · exact Or.inl h3
      · simp at h3; subst h3
        simp at hsc
        rcases hsc with rfl | rfl
        · exact Or.inr (union_requestable_limited _ _)
        · exact Or.inr (requestable_limited _)
  · exact Or.inl ht
  · exact Or.inl ht

/-- In every reachable state the only cached token good for every scope is the
configured access token. -/
theorem reach_unlimited_configured {host : Bytes} {e : ConfigEntry} {st : HostSt} {envs : List Env}
    (h : Reach host e st envs) :
    ∀ t ∈ st.toks, t.scope.unlimited = true → t.tok = ⟨host, .access, e.accessToken⟩ ∧ e.accessToken ≠ [] := by
  induction h with
  | init =>
    intro t ht _
    simp only [initSt] at ht
    split at ht
    · simp at ht
    · rename_i hne; simp at ht; subst ht; exact ⟨rfl, hne⟩
  | sec1 env now req _ _ _ ih =>
    intro t ht hu
    rcases section1_toks_limited env now _ req t ht with h | h
    · exact ih t h hu
    · rw [h] at hu; cases hu
  | sec2 env now ch req _ _ _ _ ih =>
    intro t ht hu
    rcases section2_toks_limited env now _ ch req t ht with h | h
    · exact ih t h hu
    · rw [h] at hu; cases hu

/-- A sequential call keeps the state reachable. -/
theorem reach_roundTrip {host : Bytes} {e : ConfigEntry} {st : HostSt} {envs : List Env}
    (h : Reach host e st envs) (env : Env) (now : Nat) (req : ReqInfo)
    (hr : WF req.required) (hw : WF req.want) :
    Reach host e (roundTrip env now st req).1 (env :: envs) ∨
    Reach host e (roundTrip env now st req).1 (env :: env :: envs) := by
  have h1 := Reach.sec1 env now req h hr hw
  rcases roundTrip_state env now st req with hs | ⟨hdrs, ch, _, hch, hs⟩ <;> rw [hs]
  · exact Or.inl h1
  · exact Or.inr (Reach.sec2 env now ch req h1 (by rw [← (reach_J h).2]; exact chalOf_sender hch) hr hw)

/-! ### Where each kind of atom sits in a message -/

/-- The places of a message that can hold a secret. -/
inductive Place where
  | bearer | basicUser | basicPass | postRefresh | getUser | getPass
  deriving DecidableEq, Repr

/-- Every atom of a message with the place it sits in. -/
def Msg.atoms : Msg → List (Place × Atom)
  | .registry _ .none => []
  | .registry _ (.bearer t) => [(.bearer, t)]
  | .registry _ (.basic u p) => [(.basicUser, u), (.basicPass, p)]
  | .tokenPOST _ _ rt _ _ => [(.postRefresh, rt)]
  | .tokenGET _ _ none _ _ => []
  | .tokenGET _ _ (some (u, p)) _ _ => [(.getUser, u), (.getPass, p)]

/-- The place is one where that kind of atom belongs. -/
def Place.fits : Place → Kind → Prop
  | .bearer, k => k = .access
  | .basicUser, k => k = .username
  | .basicPass, k => k = .password
  | .postRefresh, k => k = .refresh
  | .getUser, k => k = .username
  | .getPass, k => k = .password

theorem msgOwn_atoms {h : Bytes} {m : Msg} (hm : MsgOwn h m) :
    ∀ pa ∈ m.atoms, pa.2.origin = h ∧ pa.1.fits pa.2.kind := by
  intro pa hpa
  cases m with
  | registry host a =>
    cases a with
    | none => simp [Msg.atoms] at hpa
    | bearer t => simp [Msg.atoms] at hpa; subst hpa; exact hm.2
    | basic u p =>
      simp [Msg.atoms] at hpa
      rcases hpa with rfl | rfl
      · exact hm.2.1
      · exact hm.2.2
  | tokenPOST realm nb rt sc sv => simp [Msg.atoms] at hpa; subst hpa; exact hm.2
  | tokenGET realm nb b sc sv =>
    cases b with
    | none => simp [Msg.atoms] at hpa
    | some up =>
      obtain ⟨u, p⟩ := up
      simp [Msg.atoms] at hpa
      have := hm.2 u p rfl
      rcases hpa with rfl | rfl
      · exact this.1
      · exact this.2

end OciModel.Auth
