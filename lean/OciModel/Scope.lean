/-
Model of `ociauth.Scope` (ociregistry/ociauth/scope.go).

Representation: Go keeps `repositories []string` and `actions []byte` as parallel
slices; the model zips them into a list of `Ent`. A mask byte `1<<pull | 1<<push`
is the pair of Booleans `(pull, push)`. Byte strings are ordered by core Lean's
lexicographic `compare` on `List UInt8`, which is Go's `strings.Compare`.
Binary searches over sorted slices are modelled by linear searches (equal on
sorted input; the representation invariant `WF` says the input is sorted).
-/
import OciModel.Base

namespace OciModel.Scope

/-- `(ResourceType, Resource, Action)`; `compare` on the triple is
`ResourceScope.Compare`. -/
abbrev RS := Bytes × Bytes × Bytes

/-- Lexicographic order on pairs (core's `lexOrd`, made an instance here). -/
instance instOrdProd {α β} [Ord α] [Ord β] : Ord (α × β) := lexOrd

example : Std.TransOrd RS := inferInstance
example : Std.LawfulEqOrd RS := inferInstance
example : Std.TransOrd Bytes := inferInstance
example : Std.LawfulEqOrd Bytes := inferInstance

def tyRepository : Bytes := [114, 101, 112, 111, 115, 105, 116, 111, 114, 121]
def tyRegistry   : Bytes := [114, 101, 103, 105, 115, 116, 114, 121]
def actPull      : Bytes := [112, 117, 108, 108]
def actPush      : Bytes := [112, 117, 115, 104]
def resCatalog   : Bytes := [99, 97, 116, 97, 108, 111, 103]
def actStar      : Bytes := [42]

def catalog : RS := (tyRegistry, resCatalog, actStar)

/-- One element of the zipped `repositories`/`actions` slices. The catalog scope
is the entry with the empty name and mask `1<<pull`. -/
structure Ent where
  name : Bytes
  pull : Bool
  push : Bool
  deriving DecidableEq, Repr

structure Scope where
  original  : Bytes
  unlimited : Bool
  repos     : List Ent
  others    : List RS
  deriving DecidableEq, Repr

def empty : Scope := ⟨[], false, [], []⟩
def unlimitedScope : Scope := ⟨[], true, [], []⟩

/-- `ResourceScope.isKnown`: a repository scope with a non-empty name and a known
action, or exactly the catalog scope. -/
def isKnown (r : RS) : Bool :=
  if r.1 = tyRepository then
    r.2.1 ≠ [] && (r.2.2 = actPull || r.2.2 = actPush)
  else if r.1 = tyRegistry then r = catalog
  else false

/-- Insert into a strictly ascending list, dropping duplicates:
`slices.SortFunc` followed by `slices.Compact` is `foldr insertU []`. -/
def insertU (r : RS) : List RS → List RS
  | [] => [r]
  | x :: xs =>
    match compare r x with
    | .lt => r :: x :: xs
    | .eq => x :: xs
    | .gt => x :: insertU r xs

def sortU (l : List RS) : List RS := l.foldr insertU []

def entOf (r : RS) : Ent := ⟨r.2.1, r.2.2 = actPull, r.2.2 = actPush⟩

/-- The loop of `NewScope` over the sorted, compacted list. Go merges an entry
with the *previous* element; the fold from the right merges it with the *next*
one, which is the same on a sorted list. -/
def build : List RS → List Ent × List RS
  | [] => ([], [])
  | r :: rest =>
    let (es, os) := build rest
    if !isKnown r then (es, r :: os)
    else if r.1 = tyRegistry then (⟨[], true, false⟩ :: es, os)
    else
      match es with
      | e :: es' =>
        if e.name = r.2.1 then (⟨e.name, e.pull || r.2.2 = actPull, e.push || r.2.2 = actPush⟩ :: es', os)
        else (entOf r :: es, os)
      | [] => ([entOf r], os)

def newScope (l : List RS) : Scope :=
  let (es, os) := build (sortU l)
  ⟨[], false, es, sortU os⟩

/-- The resource scopes one entry stands for, in order. -/
def expandEnt (e : Ent) : List RS :=
  if e.name = [] then [catalog]
  else (if e.pull then [(tyRepository, e.name, actPull)] else []) ++
       (if e.push then [(tyRepository, e.name, actPush)] else [])

def expand (es : List Ent) : List RS := es.flatMap expandEnt

/-- The interleaving done by `Iter`'s inner `yield`: before each known scope,
emit the `others` that compare below it; at the end emit what is left. -/
def mergeIter : List RS → List RS → List RS
  | [], os => os
  | k :: ks, os =>
    os.takeWhile (fun o => compare o k == .lt) ++ k :: mergeIter ks (os.dropWhile (fun o => compare o k == .lt))

/-- `Scope.Iter` as the list of yielded items (the unlimited scope yields none). -/
def iter (s : Scope) : List RS :=
  if s.unlimited then [] else mergeIter (expand s.repos) s.others

def entCount (e : Ent) : Nat := (if e.pull then 1 else 0) + (if e.push then 1 else 0)

/-- `Scope.Len` (bit count of the masks plus `len(others)`); panics when unlimited. -/
def len (s : Scope) : Outcome Nat :=
  if s.unlimited then .panic "Len called on unlimited scope"
  else .ok (s.others.length + (s.repos.map entCount).sum)

def isEmpty (s : Scope) : Bool := s.repos.isEmpty && s.others.isEmpty && !s.unlimited

def equal (a b : Scope) : Bool :=
  a.unlimited == b.unlimited && a.repos == b.repos && a.others == b.others

def orEnt (a b : Ent) : Ent := ⟨a.name, a.pull || b.pull, a.push || b.push⟩

def unionRepos : List Ent → List Ent → List Ent
  | [], l2 => l2
  | l1, [] => l1
  | e1 :: r1, e2 :: r2 =>
    match compare e1.name e2.name with
    | .eq => orEnt e1 e2 :: unionRepos r1 r2
    | .lt => e1 :: unionRepos r1 (e2 :: r2)
    | .gt => e2 :: unionRepos (e1 :: r1) r2
termination_by l1 l2 => l1.length + l2.length

def unionOthers : List RS → List RS → List RS
  | [], l2 => l2
  | l1, [] => l1
  | a1 :: r1, a2 :: r2 =>
    match compare a1 a2 with
    | .eq => a1 :: unionOthers r1 r2
    | .lt => a1 :: unionOthers r1 (a2 :: r2)
    | .gt => a2 :: unionOthers (a1 :: r1) r2
termination_by l1 l2 => l1.length + l2.length

/-- `Scope.Union`. -/
def union (s1 s2 : Scope) : Scope :=
  if s1.unlimited || s2.unlimited then unlimitedScope
  else if isEmpty s2 || equal s1 s2 then s1
  else
    let r : Scope := ⟨[], false, unionRepos s1.repos s2.repos, unionOthers s1.others s2.others⟩
    if equal r s1 then s1 else r

/-- `Scope.Holds`. -/
def holds (s : Scope) (r : RS) : Bool :=
  if s.unlimited then true
  else if r = catalog then s.repos.any (fun e => e.name = [])
  else if r.1 = tyRepository && r.2.1 ≠ [] && (r.2.2 = actPull || r.2.2 = actPush) then
    match s.repos.find? (fun e => e.name = r.2.1) with
    | some e => if r.2.2 = actPull then e.pull else e.push
    | none => false
  else s.others.contains r

def covers (e1 e2 : Ent) : Bool := (!e2.pull || e1.pull) && (!e2.push || e1.push)

def containsRepos : List Ent → List Ent → Bool
  | _, [] => true
  | [], _ :: _ => false
  | e1 :: r1, e2 :: r2 =>
    match compare e1.name e2.name with
    | .gt => false
    | .eq => if covers e1 e2 then containsRepos r1 r2 else false
    | .lt => containsRepos r1 (e2 :: r2)

def containsOthers : List RS → List RS → Bool
  | _, [] => true
  | [], _ :: _ => false
  | a1 :: r1, a2 :: r2 =>
    match compare a1 a2 with
    | .gt => false
    | .eq => containsOthers r1 r2
    | .lt => containsOthers r1 (a2 :: r2)

/-- `Scope.Contains`. -/
def contains (s1 s2 : Scope) : Bool :=
  if s1.unlimited then true
  else if s2.unlimited then false
  else containsRepos s1.repos s2.repos && containsOthers s1.others s2.others

/-! ### Printing and parsing -/

/-- The closure inside `Scope.String`, as a fold over the iterated items; the
state is Go's `prev` (initially the zero `ResourceScope`) and whether the buffer
is non-empty. -/
def renderGo : RS → Bool → List RS → Bytes
  | _, _, [] => []
  | prev, ne, s :: rest =>
    if s.1 = tyRepository && prev.1 = tyRepository && s.2.1 = prev.2.1 then
      (44 :: s.2.2) ++ renderGo s true rest
    else
      let piece : Bytes :=
        (if ne then [32] else []) ++ s.1 ++
          (if s.2.1 ≠ [] || s.2.2 ≠ [] then (58 :: s.2.1) ++ (58 :: s.2.2) else [])
      piece ++ renderGo s (ne || piece ≠ []) rest

/-- `Scope.String`. -/
def toStr (s : Scope) : Bytes :=
  if s.unlimited then [42]
  else if s.original ≠ [] || isEmpty s then s.original
  else renderGo ([], [], []) false (iter s)

/-- Width of a Unicode white-space rune at the head of a byte string, in the sense
of `unicode.IsSpace` after UTF-8 decoding (the lead bytes 0xC2, 0xE1, 0xE2, 0xE3
can only start a rune, so matching bytes is matching runes). -/
def spaceWidth : Bytes → Nat
  | 9 :: _ | 10 :: _ | 11 :: _ | 12 :: _ | 13 :: _ | 32 :: _ => 1
  | 0xC2 :: 0x85 :: _ | 0xC2 :: 0xA0 :: _ => 2
  | 0xE1 :: 0x9A :: 0x80 :: _ => 3
  | 0xE2 :: 0x80 :: c :: _ =>
    if (0x80 ≤ c ∧ c ≤ 0x8A) ∨ c = 0xA8 ∨ c = 0xA9 ∨ c = 0xAF then 3 else 0
  | 0xE2 :: 0x81 :: 0x9F :: _ => 3
  | 0xE3 :: 0x80 :: 0x80 :: _ => 3
  | _ => 0

/-- `strings.Fields`, with `fuel` = length of the input. `cur` is the field being
accumulated, reversed. -/
def fieldsAux : Nat → Bytes → Bytes → List Bytes
  | 0, _, cur => if cur = [] then [] else [cur.reverse]
  | _ + 1, [], cur => if cur = [] then [] else [cur.reverse]
  | fuel + 1, b :: rest, cur =>
    let w := spaceWidth (b :: rest)
    if w = 0 then fieldsAux fuel rest (b :: cur)
    else (if cur = [] then [] else [cur.reverse]) ++ fieldsAux fuel ((b :: rest).drop w) []

def fields (s : Bytes) : List Bytes := fieldsAux s.length s []

/-- `strings.Split(s, sep)` for a one-byte separator. Always returns ≥ 1 part. -/
def splitOn (sep : UInt8) : Bytes → List Bytes
  | [] => [[]]
  | b :: rest =>
    if b = sep then [] :: splitOn sep rest
    else match splitOn sep rest with
      | p :: ps => (b :: p) :: ps
      | [] => [[b]]

def parseField (f : Bytes) : List RS :=
  match splitOn 58 f with
  | [t, r, acts] => (splitOn 44 acts).map fun a => (t, r, a)
  | _ => [(f, [], [])]

/-- `ParseScope`. -/
def parseScope (s : Bytes) : Scope :=
  { newScope ((fields s).flatMap parseField) with original := s }

/-! ### Representation invariant and abstraction -/

def StrictAsc {α} [Ord α] : List α → Prop
  | [] => True
  | [_] => True
  | a :: b :: rest => compare a b = .lt ∧ StrictAsc (b :: rest)

def EntOk (e : Ent) : Prop :=
  if e.name = [] then e.pull = true ∧ e.push = false else (e.pull = true ∨ e.push = true)

/-- Representation invariant of a limited scope. -/
structure WF (s : Scope) : Prop where
  repos_sorted  : StrictAsc (s.repos.map (·.name))
  repos_ok      : ∀ e ∈ s.repos, EntOk e
  others_sorted : StrictAsc s.others
  others_unknown : ∀ r ∈ s.others, isKnown r = false
  unlimited_empty : s.unlimited = true → s.repos = [] ∧ s.others = []

/-- Abstraction: the finite set of resource scopes a limited scope stands for. -/
def Mem (r : RS) (s : Scope) : Prop := r ∈ iter s

end OciModel.Scope
