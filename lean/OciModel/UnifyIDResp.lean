/-
`goStr` (UnifyID.lean) generalises the string encoder of the response codec (`RespCodec.jsonStr`,
used for tag and repository names, which are ASCII): they agree on every string without a byte
≥ 0x80; beyond that `goStr` also mirrors U+FFFD replacement and the U+2028/9 escapes.
-/
import OciModel.UnifyID
import OciModel.RespCodec
namespace OciModel.UnifyID
open OciModel OciModel.Json

set_option maxRecDepth 8192 in
theorem asciiEsc_eq_jsonChar (c : UInt8) : asciiEsc c = RespCodec.jsonChar c := by
  have key : ∀ n, n < 256 → asciiEsc (UInt8.ofNat n) = RespCodec.jsonChar (UInt8.ofNat n) := by decide
  have := key c.toNat c.toNat_lt
  simpa using this

theorem goEsc_ascii (s : Bytes) (h : ∀ c ∈ s, c.toNat < 0x80) : goEsc 0 0 s = s.flatMap asciiEsc := by
  induction s with
  | nil => rfl
  | cons c s ih =>
    have hc := h c (by simp)
    simp [goEsc, hc, ih (fun x hx => h x (by simp [hx]))]

theorem goStr_eq_jsonStr (s : Bytes) (h : ∀ c ∈ s, c.toNat < 0x80) : goStr s = RespCodec.jsonStr s := by
  have e : (fun c => asciiEsc c) = RespCodec.jsonChar := funext asciiEsc_eq_jsonChar
  simp only [goStr, goEscape, goEsc_ascii s h, RespCodec.jsonStr, List.cons_append, List.nil_append]
  rw [show (List.flatMap asciiEsc s) = List.flatMap RespCodec.jsonChar s from by rw [← e]]

end OciModel.UnifyID
