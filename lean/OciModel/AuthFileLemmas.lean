/-
Helper lemmas for `OciModel/AuthFile.lean` (property C19).

The main result is `decodeWith_equiv`: the table built by `decodeConfigFile` answers
every lookup the same way whatever order the map was ranged over. It is proved by
characterising the table after any set `S` of visited original keys (`Inv`).
-/
import OciModel.AuthFile
namespace OciModel.AuthFile

/-! ### Maps -/

theorem lookup_insert (k k' : Bytes) (v : AuthConfig) (m : Auths) :
    (insert k v m).lookup k' = if k' = k then some v else m.lookup k' := by
  simp only [insert, List.lookup_cons]
  by_cases h : k' = k
  · simp [h]
  · have : (k' == k) = false := by simpa using h
    simp [h, this]

theorem lookup_initAuths (orig : List (Bytes × Entry)) (k : Bytes) :
    (initAuths orig).lookup k = (orig.lookup k).map fun e => { derivedFrom := [], e := e } := by
  induction orig with
  | nil => simp [initAuths]
  | cons p rest ih =>
    obtain ⟨k0, e0⟩ := p
    simp only [initAuths, List.map_cons, List.lookup_cons] at ih ⊢
    cases h : (k == k0) <;> simp [ih]

/-! ### `urlHost`, `hasSS` -/

theorem mem_of_hasSS {l : Bytes} (h : hasSS l = true) : (47 : UInt8) ∈ l := by
  fun_induction hasSS l with
  | case1 => simp at h
  | case2 => simp at h
  | case3 a b rest ih =>
    simp only [Bool.or_eq_true, Bool.and_eq_true, beq_iff_eq] at h
    rcases h with ⟨ha, _⟩ | h
    · simp [ha]
    · exact List.mem_cons_of_mem _ (ih h)

theorem of_mem_takeWhile {α} (p : α → Bool) (x : α) :
    ∀ l : List α, x ∈ l.takeWhile p → p x = true := by
  intro l
  induction l with
  | nil => simp
  | cons a as ih =>
    intro h
    rw [List.takeWhile_cons] at h
    cases hp : p a
    · simp [hp] at h
    · simp only [hp, if_true, List.mem_cons] at h
      rcases h with h | h
      · rw [h]; exact hp
      · exact ih h

theorem not_mem_urlHost (u : Bytes) : (47 : UInt8) ∉ urlHost u := by
  intro h
  have := of_mem_takeWhile _ _ _ h
  simp at this

/-- A derived host never looks like a URL: visiting it cannot derive anything further. -/
theorem hasSS_urlHost (u : Bytes) : hasSS (urlHost u) = false := by
  cases h : hasSS (urlHost u)
  · rfl
  · exact absurd (mem_of_hasSS h) (not_mem_urlHost u)

/-- The test `addr1 == addr` in `decodeConfigFile` never succeeds after
`strings.Contains(addr, "//")` did. -/
theorem urlHost_ne_of_hasSS {u : Bytes} (h : hasSS u = true) : urlHost u ≠ u := by
  intro e
  have := not_mem_urlHost u
  rw [e] at this
  exact this (mem_of_hasSS h)

/-! ### Sorting -/

theorem insertSorted_perm (k : Bytes) (l : List Bytes) : (insertSorted k l).Perm (k :: l) := by
  induction l with
  | nil => simp [insertSorted]
  | cons x xs ih =>
    simp only [insertSorted]
    split
    · exact List.Perm.refl _
    · exact ((List.Perm.cons x ih).trans (List.Perm.swap k x xs))

theorem sortKeys_perm (l : List Bytes) : (sortKeys l).Perm l := by
  induction l with
  | nil => simp [sortKeys]
  | cons x xs ih =>
    have : sortKeys (x :: xs) = insertSorted x (sortKeys xs) := rfl
    rw [this]
    exact (insertSorted_perm x _).trans (List.Perm.cons x ih)

/-! ### `decodeEntry` -/

/-- The entry as it is stored once its key has been visited. -/
def decoded (e : Entry) : Entry := (decodeEntry e).getD e

theorem decodeEntry_decoded {e e' : Entry} (h : decodeEntry e = some e') :
    decodeEntry e' = some e' := by
  unfold decodeEntry at h ⊢
  by_cases ha : e.auth = []
  · simp [ha] at h; subst h; simp [ha]
  · simp only [ha, if_false] at h
    cases hd : decodeAuth e.auth with
    | none => simp [hd] at h
    | some up =>
      obtain ⟨u, p⟩ := up
      simp only [hd, Option.some.injEq] at h
      subst h
      simp [ha, hd]

theorem decoded_of_some {e e' : Entry} (h : decodeEntry e = some e') : decoded e = e' := by
  simp [decoded, h]

/-! ### The invariant -/

/-- `k` is an original key. -/
def inOrig (orig : List (Bytes × Entry)) (k : Bytes) : Bool := (orig.lookup k).isSome

/-- `k` is a URL-form key deriving host `h`. -/
def isUrlKeyFor (h k : Bytes) : Bool := hasSS k && urlHost k == h

/-- The visited URL-form keys deriving `h`. -/
def urlKeys (S : List Bytes) (h : Bytes) : List Bytes := S.filter (isUrlKeyFor h)

/-- What the table looks like after exactly the original keys in `S` have been visited
(and any number of derived keys). -/
structure Inv (orig : List (Bytes × Entry)) (S : List Bytes) (m : Auths) : Prop where
  /-- original keys keep their own entry, never marked as derived; decoded once visited -/
  origKey : ∀ k e, orig.lookup k = some e →
    m.lookup k = some { derivedFrom := [], e := if k ∈ S then decoded e else e }
  /-- every visited entry decoded (otherwise the loop has returned) -/
  visitedOk : ∀ k, k ∈ S → ∀ e, orig.lookup k = some e → (decodeEntry e).isSome = true
  /-- other hosts: present iff some visited URL-form key derives them; `derivedFrom` is
  those keys; the credentials are those of one of them -/
  derived : ∀ h, orig.lookup h = none →
    match m.lookup h with
    | none => urlKeys S h = []
    | some ac => ac.derivedFrom.Perm (urlKeys S h) ∧ urlKeys S h ≠ [] ∧
        ∃ k, k ∈ urlKeys S h ∧ ∃ e, orig.lookup k = some e ∧ ac.e = decoded e

theorem Inv.congr {orig S m m'} (hI : Inv orig S m) (h : ∀ k, m'.lookup k = m.lookup k) :
    Inv orig S m' := by
  refine ⟨fun k e hk => ?_, hI.visitedOk, fun k hk => ?_⟩
  · rw [h]; exact hI.origKey k e hk
  · rw [h]; exact hI.derived k hk

theorem inv_init (orig : List (Bytes × Entry)) : Inv orig [] (initAuths orig) := by
  refine ⟨fun k e hk => ?_, fun k hk => by simp at hk, fun h hh => ?_⟩
  · simp [lookup_initAuths, hk]
  · simp [lookup_initAuths, hh, urlKeys]

theorem urlKeys_append (S : List Bytes) (k h : Bytes) :
    urlKeys (S ++ [k]) h = urlKeys S h ++ (if isUrlKeyFor h k then [k] else []) := by
  simp only [urlKeys, List.filter_append, List.filter_cons, List.filter_nil]

theorem urlKeys_append_of_not {S : List Bytes} {k h : Bytes} (hn : isUrlKeyFor h k = false) :
    urlKeys (S ++ [k]) h = urlKeys S h := by
  simp [urlKeys_append, hn]

/-- Visiting a key that was not in the document (a derived host, or a key that is not
in the map at all) changes no lookup. -/
theorem visit_nonorig {orig S m k} (hI : Inv orig S m) (hk : orig.lookup k = none) :
    ∃ m', visit m k = some m' ∧ ∀ h, m'.lookup h = m.lookup h := by
  have hd := hI.derived k hk
  cases hm : m.lookup k with
  | none => exact ⟨m, by simp [visit, hm], fun _ => rfl⟩
  | some ac =>
    rw [hm] at hd
    obtain ⟨_, hne, k0, hk0, e, he, hace⟩ := hd
    have hk0S : k0 ∈ S := (List.mem_filter.mp hk0).1
    have hurl : isUrlKeyFor k k0 = true := (List.mem_filter.mp hk0).2
    have hok := hI.visitedOk k0 hk0S e he
    obtain ⟨e', he'⟩ := Option.isSome_iff_exists.mp hok
    have hdec : decodeEntry ac.e = some ac.e := by
      rw [hace, decoded_of_some he']; exact decodeEntry_decoded he'
    have hkk : k = urlHost k0 := by
      simp only [isUrlKeyFor, Bool.and_eq_true, beq_iff_eq] at hurl
      exact hurl.2.symm
    have hss : hasSS k = false := by rw [hkk]; exact hasSS_urlHost k0
    refine ⟨insert k ac m, ?_, fun h => ?_⟩
    · simp [visit, hm, hdec, hss]
    · rw [lookup_insert]
      by_cases hh : h = k
      · simp [hh, hm]
      · simp [hh]

/-- Visiting an original key for the first time: the loop returns iff its `auth` does not
decode; otherwise the invariant holds with the key added to the visited set. -/
theorem visit_orig {orig S m k e} (hI : Inv orig S m) (hk : orig.lookup k = some e)
    (hkS : k ∉ S) :
    match visit m k with
    | none => decodeEntry e = none
    | some m' => (decodeEntry e).isSome = true ∧ Inv orig (S ++ [k]) m' := by
  have hmk := hI.origKey k e hk
  simp only [hkS, if_false] at hmk
  cases hde : decodeEntry e with
  | none => simp [visit, hmk, hde]
  | some e' =>
    have hdec : decoded e = e' := decoded_of_some hde
    -- the map after `f.Auths[addr] = ac`
    let m1 := insert k { derivedFrom := [], e := e' } m
    -- facts about `m1`
    have hm1 : ∀ h, m1.lookup h = if h = k then some { derivedFrom := [], e := e' } else m.lookup h :=
      fun h => lookup_insert k h _ m
    have origKey1 : ∀ k' e'', orig.lookup k' = some e'' →
        m1.lookup k' = some { derivedFrom := [], e := if k' ∈ S ++ [k] then decoded e'' else e'' } := by
      intro k' e'' hk'
      rw [hm1]
      by_cases hkk : k' = k
      · subst hkk
        rw [hk] at hk'
        cases hk'
        simp [hdec]
      · have := hI.origKey k' e'' hk'
        simp [hkk, this]
    have visitedOk1 : ∀ k', k' ∈ S ++ [k] → ∀ e'', orig.lookup k' = some e'' →
        (decodeEntry e'').isSome = true := by
      intro k' hk' e'' he''
      rcases List.mem_append.mp hk' with h | h
      · exact hI.visitedOk k' h e'' he''
      · have : k' = k := by simpa using h
        subst this
        rw [hk] at he''
        cases he''
        simp [hde]
    -- derived hosts other than the one this key derives are untouched
    have derivedOther : ∀ (m' : Auths) h, orig.lookup h = none → isUrlKeyFor h k = false →
        m'.lookup h = m.lookup h →
        match m'.lookup h with
        | none => urlKeys (S ++ [k]) h = []
        | some ac => ac.derivedFrom.Perm (urlKeys (S ++ [k]) h) ∧ urlKeys (S ++ [k]) h ≠ [] ∧
            ∃ k0, k0 ∈ urlKeys (S ++ [k]) h ∧ ∃ e0, orig.lookup k0 = some e0 ∧ ac.e = decoded e0 := by
      intro m' h hh hn hl
      rw [hl, urlKeys_append_of_not hn]
      exact hI.derived h hh
    have hm1other : ∀ h, orig.lookup h = none → m1.lookup h = m.lookup h := by
      intro h hh
      rw [hm1]
      have : h ≠ k := by
        intro e0; rw [e0, hk] at hh; cases hh
      simp [this]
    -- the case where nothing is derived from this key
    have plain : (∀ h, isUrlKeyFor h k = false) → Inv orig (S ++ [k]) m1 := by
      intro hn
      exact ⟨origKey1, visitedOk1, fun h hh => derivedOther m1 h hh (hn h) (hm1other h hh)⟩
    cases hss : hasSS k with
    | false =>
      have hv : visit m k = some m1 := by simp [visit, hmk, hde, hss, m1]
      rw [hv]
      refine ⟨by simp, plain fun h => ?_⟩
      simp [isUrlKeyFor, hss]
    | true =>
      have hne : urlHost k ≠ k := urlHost_ne_of_hasSS hss
      have hurl : ∀ h, isUrlKeyFor h k = true ↔ h = urlHost k := by
        intro h
        simp only [isUrlKeyFor, hss, Bool.true_and, beq_iff_eq]
        exact eq_comm
      have hurlF : ∀ h, h ≠ urlHost k → isUrlKeyFor h k = false := by
        intro h hh
        cases hc : isUrlKeyFor h k
        · rfl
        · exact absurd ((hurl h).mp hc) hh
      have hm1a : m1.lookup (urlHost k) = m.lookup (urlHost k) := by
        rw [hm1]; simp [hne]
      cases hl : m.lookup (urlHost k) with
      | some ac1 =>
        by_cases hdf : ac1.derivedFrom = []
        · -- an explicit entry: not overridden
          have hv : visit m k = some m1 := by
            simp [visit, hmk, hde, hss, hne, m1, lookup_insert, hl, hdf]
          rw [hv]
          refine ⟨by simp, origKey1, visitedOk1, fun h hh => ?_⟩
          have hhne : h ≠ urlHost k := by
            intro e0
            subst e0
            have := hI.derived _ hh
            rw [hl] at this
            obtain ⟨hp, hne', _⟩ := this
            rw [hdf] at hp
            exact hne' (List.Perm.nil_eq hp).symm
          exact derivedOther m1 h hh (hurlF h hhne) (hm1other h hh)
        · -- a host derived before: one more key recorded, credentials kept
          have horig1 : orig.lookup (urlHost k) = none := by
            cases ho : orig.lookup (urlHost k) with
            | none => rfl
            | some e1 =>
              have := hI.origKey _ e1 ho
              rw [hl] at this
              cases this
              exact absurd rfl hdf
          let ac2 : AuthConfig := { ac1 with derivedFrom := sortKeys (ac1.derivedFrom ++ [k]) }
          let m2 := insert (urlHost k) ac2 m1
          have hv : visit m k = some m2 := by
            simp [visit, hmk, hde, hss, hne, m1, m2, ac2, lookup_insert, hl, hdf]
          rw [hv]
          have hm2 : ∀ h, m2.lookup h = if h = urlHost k then some ac2 else m1.lookup h :=
            fun h => lookup_insert (urlHost k) h _ m1
          refine ⟨by simp, fun k' e'' hk' => ?_, visitedOk1, fun h hh => ?_⟩
          · rw [hm2]
            have : k' ≠ urlHost k := by
              intro e0; rw [e0, horig1] at hk'; cases hk'
            simp only [this, if_false]
            exact origKey1 k' e'' hk'
          · by_cases hhu : h = urlHost k
            · subst hhu
              have hd := hI.derived _ hh
              rw [hl] at hd
              obtain ⟨hp, _, k0, hk0, e0, he0, hace⟩ := hd
              rw [hm2]
              simp only [if_true]
              have hU : urlKeys (S ++ [k]) (urlHost k) = urlKeys S (urlHost k) ++ [k] := by
                rw [urlKeys_append]; simp [(hurl (urlHost k)).mpr rfl]
              rw [hU]
              refine ⟨(sortKeys_perm _).trans (List.Perm.append_right [k] hp), by simp, k0, ?_, e0, he0, hace⟩
              exact List.mem_append_left _ hk0
            · have : m2.lookup h = m.lookup h := by
                rw [hm2]; simp only [hhu, if_false]; exact hm1other h hh
              exact derivedOther m2 h hh (hurlF h hhu) this
      | none =>
        -- first URL-form key for this host
        have horig1 : orig.lookup (urlHost k) = none := by
          cases ho : orig.lookup (urlHost k) with
          | none => rfl
          | some e1 =>
            have := hI.origKey _ e1 ho
            rw [hl] at this
            cases this
        let ac2 : AuthConfig := { derivedFrom := sortKeys ([] ++ [k]), e := e' }
        let m2 := insert (urlHost k) ac2 m1
        have hv : visit m k = some m2 := by
          simp [visit, hmk, hde, hss, hne, m1, m2, ac2, lookup_insert, hl]
        rw [hv]
        have hm2 : ∀ h, m2.lookup h = if h = urlHost k then some ac2 else m1.lookup h :=
          fun h => lookup_insert (urlHost k) h _ m1
        refine ⟨by simp, fun k' e'' hk' => ?_, visitedOk1, fun h hh => ?_⟩
        · rw [hm2]
          have : k' ≠ urlHost k := by
            intro e0; rw [e0, horig1] at hk'; cases hk'
          simp only [this, if_false]
          exact origKey1 k' e'' hk'
        · by_cases hhu : h = urlHost k
          · subst hhu
            have hd := hI.derived _ hh
            rw [hl] at hd
            rw [hm2]
            simp only [if_true]
            have hU : urlKeys (S ++ [k]) (urlHost k) = [k] := by
              rw [urlKeys_append, hd]; simp [(hurl (urlHost k)).mpr rfl]
            rw [hU]
            refine ⟨sortKeys_perm _, by simp, k, by simp, e, hk, ?_⟩
            simp [ac2, hdec]
          · have : m2.lookup h = m.lookup h := by
              rw [hm2]; simp only [hhu, if_false]; exact hm1other h hh
            exact derivedOther m2 h hh (hurlF h hhu) this

/-- The original keys of a visiting sequence, in visiting order. -/
def origPart (orig : List (Bytes × Entry)) (v : List Bytes) : List Bytes := v.filter (inOrig orig)

/-- `decodeEntry` fails on the original entry of `k`. -/
def BadKey (orig : List (Bytes × Entry)) (k : Bytes) : Prop :=
  ∃ e, orig.lookup k = some e ∧ decodeEntry e = none

theorem visitAll_inv {orig} (v : List Bytes) : ∀ {S m}, Inv orig S m →
    (S ++ origPart orig v).Nodup →
    match visitAll m v with
    | none => ∃ k, k ∈ origPart orig v ∧ BadKey orig k
    | some m' => Inv orig (S ++ origPart orig v) m' := by
  induction v with
  | nil => intro S m hI _; simpa [visitAll, origPart] using hI
  | cons k ks ih =>
    intro S m hI hnd
    cases hk : orig.lookup k with
    | none =>
      have hin : inOrig orig k = false := by simp [inOrig, hk]
      have hop : origPart orig (k :: ks) = origPart orig ks := by simp [origPart, hin]
      obtain ⟨m', hv, hl⟩ := visit_nonorig hI hk
      rw [hop] at hnd ⊢
      simp only [visitAll, hv]
      exact ih (hI.congr hl) hnd
    | some e =>
      have hin : inOrig orig k = true := by simp [inOrig, hk]
      have hop : origPart orig (k :: ks) = k :: origPart orig ks := by simp [origPart, hin]
      rw [hop] at hnd ⊢
      have hkS : k ∉ S := by
        intro h
        have := (List.nodup_append.mp hnd).2.2 k h k (by simp)
        exact this rfl
      have hstep := visit_orig hI hk hkS
      cases hv : visit m k with
      | none =>
        rw [hv] at hstep
        simp only [visitAll, hv]
        exact ⟨k, by simp, e, hk, hstep⟩
      | some m' =>
        rw [hv] at hstep
        simp only [visitAll, hv]
        have hnd' : ((S ++ [k]) ++ origPart orig ks).Nodup := by simpa using hnd
        have := ih hstep.2 hnd'
        cases hr : visitAll m' ks with
        | none =>
          rw [hr] at this
          obtain ⟨k', hk', hb⟩ := this
          exact ⟨k', List.mem_cons_of_mem _ hk', hb⟩
        | some m'' =>
          rw [hr] at this
          simpa using this

/-! ### Lookups in the finished table -/

theorem tableLookup_of_lookup_eq {m₁ m₂ : Auths} {h : Bytes} (e : m₁.lookup h = m₂.lookup h) :
    tableLookup m₁ h = tableLookup m₂ h := by
  simp [tableLookup, e]

theorem tableLookup_collision {m : Auths} {h : Bytes} {ac : AuthConfig}
    (hl : m.lookup h = some ac) (hlen : ac.derivedFrom.length > 1) : tableLookup m h = none := by
  simp only [tableLookup, hl, Option.getD_some]
  split
  · rfl
  · simp

/-- Two tables satisfying the invariant for the same set of visited keys answer every
lookup identically. -/
theorem inv_lookup_eq {orig S₁ S₂ m₁ m₂} (h₁ : Inv orig S₁ m₁) (h₂ : Inv orig S₂ m₂)
    (hp : S₁.Perm S₂) (h : Bytes) : tableLookup m₁ h = tableLookup m₂ h := by
  cases ho : orig.lookup h with
  | some e =>
    apply tableLookup_of_lookup_eq
    rw [h₁.origKey h e ho, h₂.origKey h e ho]
    simp [hp.mem_iff]
  | none =>
    have d₁ := h₁.derived h ho
    have d₂ := h₂.derived h ho
    have hU : (urlKeys S₁ h).Perm (urlKeys S₂ h) := hp.filter _
    cases l₁ : m₁.lookup h with
    | none =>
      rw [l₁] at d₁
      cases l₂ : m₂.lookup h with
      | none => exact tableLookup_of_lookup_eq (l₁.trans l₂.symm)
      | some ac₂ =>
        rw [l₂] at d₂
        rw [d₁] at hU
        exact absurd (List.Perm.nil_eq hU).symm d₂.2.1
    | some ac₁ =>
      rw [l₁] at d₁
      cases l₂ : m₂.lookup h with
      | none =>
        rw [l₂] at d₂
        rw [d₂] at hU
        exact absurd (List.Perm.eq_nil hU) d₁.2.1
      | some ac₂ =>
        rw [l₂] at d₂
        obtain ⟨p₁, _, k₁, hk₁, e₁, he₁, ha₁⟩ := d₁
        obtain ⟨p₂, _, k₂, hk₂, e₂, he₂, ha₂⟩ := d₂
        have hlen : ac₁.derivedFrom.length = ac₂.derivedFrom.length :=
          (p₁.trans (hU.trans p₂.symm)).length_eq
        by_cases hgt : ac₁.derivedFrom.length > 1
        · rw [tableLookup_collision l₁ hgt, tableLookup_collision l₂ (hlen ▸ hgt)]
        · -- exactly one URL-form key: both tables took its credentials
          have hl1 : (urlKeys S₁ h).length ≤ 1 := by rw [← p₁.length_eq]; omega
          have hk : k₁ = k₂ := by
            have hk₂' : k₂ ∈ urlKeys S₁ h := hU.mem_iff.mpr hk₂
            match hu : urlKeys S₁ h, hl1, hk₁, hk₂' with
            | [x], _, a, b =>
              simp at a b
              rw [a, b]
            | [], _, a, _ => simp at a
            | _ :: _ :: _, c, _, _ => simp at c
          subst hk
          rw [he₁] at he₂
          cases he₂
          have he : ac₁.e = ac₂.e := ha₁.trans ha₂.symm
          simp only [tableLookup, l₁, l₂, Option.getD_some, he, hlen]  -- hlen rewrites the length test

/-- Outcomes of two loads are equivalent: both fail, or both succeed with tables that
answer every lookup identically. -/
def LoadEquiv : Option Auths → Option Auths → Prop
  | none, none => True
  | some a, some b => ∀ h, tableLookup a h = tableLookup b h
  | _, _ => False

theorem decodeWith_equiv (orig : List (Bytes × Entry)) (v₁ v₂ : List Bytes)
    (hnd : (origPart orig v₁).Nodup) (hp : (origPart orig v₁).Perm (origPart orig v₂)) :
    LoadEquiv (decodeWith orig v₁) (decodeWith orig v₂) := by
  have hnd₂ : (origPart orig v₂).Nodup := hp.nodup_iff.mp hnd
  have r₁ := visitAll_inv v₁ (inv_init orig) (by simpa using hnd)
  have r₂ := visitAll_inv v₂ (inv_init orig) (by simpa using hnd₂)
  simp only [List.nil_append] at r₁ r₂
  unfold decodeWith
  -- a bad key in one sequence is a visited key of the other
  have clash : ∀ {va vb : List Bytes} {m}, (origPart orig va).Perm (origPart orig vb) →
      (∃ k, k ∈ origPart orig va ∧ BadKey orig k) → Inv orig (origPart orig vb) m → False := by
    intro va vb m hpp hbad hI
    obtain ⟨k, hk, e, he, hb⟩ := hbad
    have := hI.visitedOk k (hpp.mem_iff.mp hk) e he
    simp [hb] at this
  cases e₁ : visitAll (initAuths orig) v₁ with
  | none =>
    rw [e₁] at r₁
    cases e₂ : visitAll (initAuths orig) v₂ with
    | none => trivial
    | some m₂ => rw [e₂] at r₂; exact (clash hp r₁ r₂).elim
  | some m₁ =>
    rw [e₁] at r₁
    cases e₂ : visitAll (initAuths orig) v₂ with
    | none => rw [e₂] at r₂; exact (clash hp.symm r₂ r₁).elim
    | some m₂ =>
      rw [e₂] at r₂
      exact fun h => inv_lookup_eq r₁ r₂ hp h

/-! ### Admissible visiting sequences -/

/-- A visiting sequence the Go loop can follow: every key of the document is produced
exactly once; keys that are not in the document (hosts inserted by the loop itself) may
be produced anywhere, any number of times. -/
def Admissible (orig : List (Bytes × Entry)) (v : List Bytes) : Prop :=
  (origPart orig v).Nodup ∧ ∀ k, inOrig orig k = true → k ∈ v

theorem mem_keys_of_inOrig {orig : List (Bytes × Entry)} {k : Bytes} (h : inOrig orig k = true) :
    k ∈ orig.map Prod.fst := by
  induction orig with
  | nil => simp [inOrig] at h
  | cons p rest ih =>
    obtain ⟨k0, e0⟩ := p
    simp only [inOrig, List.lookup_cons] at h ih
    cases hk : (k == k0)
    · simp only [hk] at h
      exact List.mem_cons_of_mem _ (ih h)
    · have : k = k0 := by simpa using hk
      simp [this]

/-- The keys of the document in any order without repetition, with derived hosts anywhere. -/
theorem admissible_of_keys {orig : List (Bytes × Entry)} {v : List Bytes}
    (hnd : (origPart orig v).Nodup) (hall : ∀ k ∈ orig.map Prod.fst, k ∈ v) : Admissible orig v :=
  ⟨hnd, fun k hk => hall k (mem_keys_of_inOrig hk)⟩

theorem mem_origPart {orig v k} : k ∈ origPart orig v ↔ k ∈ v ∧ inOrig orig k = true := by
  simp [origPart]

theorem Admissible.perm {orig v₁ v₂} (h₁ : Admissible orig v₁) (h₂ : Admissible orig v₂) :
    (origPart orig v₁).Perm (origPart orig v₂) := by
  refine (List.perm_ext_iff_of_nodup h₁.1 h₂.1).mpr fun k => ?_
  simp only [mem_origPart]
  constructor
  · intro h; exact ⟨h₂.2 k h.2, h.2⟩
  · intro h; exact ⟨h₁.2 k h.2, h.2⟩

/-- The table after a complete pass satisfies the invariant for the set of all keys. -/
theorem decodeWith_inv {orig v} (h : Admissible orig v) :
    match decodeWith orig v with
    | none => ∃ k, BadKey orig k
    | some m => Inv orig (origPart orig v) m := by
  have r := visitAll_inv v (inv_init orig) (by simpa using h.1)
  simp only [List.nil_append] at r
  unfold decodeWith
  cases e : visitAll (initAuths orig) v with
  | none => rw [e] at r; obtain ⟨k, _, hb⟩ := r; exact ⟨k, hb⟩
  | some m => rw [e] at r; exact r

theorem two_le_length_of_nodup {α} {l : List α} {a b : α} (hn : l.Nodup) (ha : a ∈ l) (hb : b ∈ l)
    (hab : a ≠ b) : 2 ≤ l.length := by
  match l, hn, ha, hb with
  | [], _, ha, _ => simp at ha
  | [x], _, ha, hb =>
    simp at ha hb
    exact absurd (ha.trans hb.symm) hab
  | _ :: _ :: _, _, _, _ => simp

/-! ### `decodeAuth` round trip -/

theorem cutColon_append (u p : Bytes) (h : (58 : UInt8) ∉ u) :
    cutColon (u ++ 58 :: p) = some (u, p) := by
  induction u with
  | nil => simp [cutColon]
  | cons c cs ih =>
    have hc : c ≠ 58 := fun e => h (by simp [e])
    have hcs : (58 : UInt8) ∉ cs := fun e => h (List.mem_cons_of_mem _ e)
    simp [cutColon, hc, ih hcs]

theorem dropNul_id {p : Bytes} (h : p.head? ≠ some 0) : dropNul p = p := by
  cases p with
  | nil => rfl
  | cons a as =>
    have : a ≠ 0 := by simpa using h
    simp [dropNul, this]

theorem trimNul_id {p : Bytes} (h₁ : p.head? ≠ some 0) (h₂ : p.getLast? ≠ some 0) :
    trimNul p = p := by
  unfold trimNul
  rw [dropNul_id h₁, dropNul_id (by rwa [List.head?_reverse]), List.reverse_reverse]

/-! ### Characterisation of the finished table (statements repeated in `Props/C19.lean`) -/

theorem load_fails_iff (orig : List (Bytes × Entry)) (v : List Bytes) (h : Admissible orig v) :
    decodeWith orig v = none ↔ ∃ k, BadKey orig k := by
  have r := decodeWith_inv h
  constructor
  · intro e; rw [e] at r; exact r
  · intro ⟨k, e, he, hb⟩
    cases hm : decodeWith orig v with
    | none => rfl
    | some m =>
      rw [hm] at r
      have hin : k ∈ origPart orig v := mem_origPart.mpr ⟨h.2 k (by simp [inOrig, he]), by simp [inOrig, he]⟩
      have := r.visitedOk k hin e he
      simp [hb] at this

theorem explicit_wins (orig : List (Bytes × Entry)) (v : List Bytes) (h : Admissible orig v)
    (m : Auths) (hm : decodeWith orig v = some m) (host : Bytes) (e : Entry)
    (he : orig.lookup host = some e) :
    m.lookup host = some { derivedFrom := [], e := decoded e } := by
  have r := decodeWith_inv h
  rw [hm] at r
  have hin : host ∈ origPart orig v :=
    mem_origPart.mpr ⟨h.2 host (by simp [inOrig, he]), by simp [inOrig, he]⟩
  have := r.origKey host e he
  simpa [hin] using this

theorem collision_fails (orig : List (Bytes × Entry)) (v : List Bytes) (h : Admissible orig v)
    (m : Auths) (hm : decodeWith orig v = some m) (host k₁ k₂ : Bytes)
    (hne : k₁ ≠ k₂) (hx : orig.lookup host = none)
    (i₁ : inOrig orig k₁ = true) (i₂ : inOrig orig k₂ = true)
    (s₁ : hasSS k₁ = true) (s₂ : hasSS k₂ = true)
    (u₁ : urlHost k₁ = host) (u₂ : urlHost k₂ = host) :
    tableLookup m host = none := by
  have r := decodeWith_inv h
  rw [hm] at r
  have d := r.derived host hx
  have mem : ∀ k, inOrig orig k = true → hasSS k = true → urlHost k = host →
      k ∈ urlKeys (origPart orig v) host := by
    intro k i s u
    exact List.mem_filter.mpr ⟨mem_origPart.mpr ⟨h.2 k i, i⟩, by simp [isUrlKeyFor, s, u]⟩
  have hnd : (urlKeys (origPart orig v) host).Nodup := h.1.filter _
  have hlen := two_le_length_of_nodup hnd (mem k₁ i₁ s₁ u₁) (mem k₂ i₂ s₂ u₂) hne
  cases hl : m.lookup host with
  | none =>
    rw [hl] at d
    rw [d] at hlen
    simp at hlen
  | some ac =>
    rw [hl] at d
    exact tableLookup_collision hl (by rw [d.1.length_eq]; omega)

theorem single_url_key (orig : List (Bytes × Entry)) (v : List Bytes) (h : Admissible orig v)
    (m : Auths) (hm : decodeWith orig v = some m) (host k : Bytes) (e : Entry)
    (hx : orig.lookup host = none) (hk : orig.lookup k = some e)
    (s : hasSS k = true) (u : urlHost k = host)
    (uniq : ∀ k', inOrig orig k' = true → hasSS k' = true → urlHost k' = host → k' = k) :
    m.lookup host = some { derivedFrom := [k], e := decoded e } := by
  have r := decodeWith_inv h
  rw [hm] at r
  have d := r.derived host hx
  have i : inOrig orig k = true := by simp [inOrig, hk]
  have hkU : k ∈ urlKeys (origPart orig v) host :=
    List.mem_filter.mpr ⟨mem_origPart.mpr ⟨h.2 k i, i⟩, by simp [isUrlKeyFor, s, u]⟩
  have hall : ∀ k', k' ∈ urlKeys (origPart orig v) host → k' = k := by
    intro k' hk'
    have h1 := List.mem_filter.mp hk'
    have h2 := mem_origPart.mp h1.1
    simp only [isUrlKeyFor, Bool.and_eq_true, beq_iff_eq] at h1
    exact uniq k' h2.2 h1.2.1 h1.2.2
  have hnd : (urlKeys (origPart orig v) host).Nodup := h.1.filter _
  have hU : urlKeys (origPart orig v) host = [k] := by
    match hu : urlKeys (origPart orig v) host, hnd, hkU, hall with
    | [], _, a, _ => simp at a
    | [x], _, a, _ => simp at a; rw [a]
    | x :: y :: _, nd, _, al =>
      have hx := al x (by simp)
      have hy := al y (by simp)
      simp [hx, hy] at nd
  cases hl : m.lookup host with
  | none => rw [hl] at d; rw [hU] at d; simp at d
  | some ac =>
    rw [hl, hU] at d
    obtain ⟨p, _, k0, hk0, e0, he0, ha⟩ := d
    have hk0' : k0 = k := by simpa using hk0
    subst hk0'
    rw [hk] at he0
    cases he0
    have hdf : ac.derivedFrom = [k0] := List.perm_singleton.mp p
    cases ac
    simp_all

theorem absent_host (orig : List (Bytes × Entry)) (v : List Bytes) (h : Admissible orig v)
    (m : Auths) (hm : decodeWith orig v = some m) (host : Bytes)
    (hx : orig.lookup host = none)
    (none_derives : ∀ k, inOrig orig k = true → hasSS k = true → urlHost k ≠ host) :
    m.lookup host = none ∧ tableLookup m host = some {} := by
  have r := decodeWith_inv h
  rw [hm] at r
  have d := r.derived host hx
  have hU : urlKeys (origPart orig v) host = [] := by
    apply List.filter_eq_nil_iff.mpr
    intro k hk
    have h2 := mem_origPart.mp hk
    simp only [isUrlKeyFor, Bool.and_eq_true, beq_iff_eq, not_and]
    exact fun s => none_derives k h2.2 s
  cases hl : m.lookup host with
  | none => exact ⟨rfl, by simp [tableLookup, hl]⟩
  | some ac => rw [hl, hU] at d; exact absurd rfl d.2.1

end OciModel.AuthFile
