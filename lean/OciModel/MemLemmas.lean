/-
Helper lemmas about the `ocimem` model (`OciModel/Mem.lean`): association-list
laws, `getRepo`/`putRepo`/`makeRepo` laws, sorting lemmas, and per-operation
preservation lemmas for the two invariants (`Inv`: stored content hashes to its
key; `KeysUnique`: the association lists really are maps).

Nothing here assumes anything about the hash parameter `H`.
-/
import OciModel.Mem

namespace OciModel.Mem

/-! ### Association lists -/

section AList
variable {β : Type}

@[simp] theorem alookup_nil (k : Bytes) : alookup k ([] : List (Bytes × β)) = none := rfl

theorem alookup_cons (k k' : Bytes) (v : β) (m : List (Bytes × β)) :
    alookup k ((k', v) :: m) = if k' = k then some v else alookup k m := rfl

@[simp] theorem aerase_nil (k : Bytes) : aerase k ([] : List (Bytes × β)) = [] := rfl

theorem aerase_cons (k k' : Bytes) (v : β) (m : List (Bytes × β)) :
    aerase k ((k', v) :: m) = if k' = k then aerase k m else (k', v) :: aerase k m := rfl

theorem alookup_aerase_eq (k : Bytes) (m : List (Bytes × β)) : alookup k (aerase k m) = none := by
  induction m with
  | nil => rfl
  | cons p m ih =>
    obtain ⟨k', v⟩ := p
    by_cases h : k' = k
    · simp [aerase_cons, h, ih]
    · simp [aerase_cons, alookup_cons, h, ih]

theorem alookup_aerase_ne {k k' : Bytes} (hne : k ≠ k') (m : List (Bytes × β)) :
    alookup k' (aerase k m) = alookup k' m := by
  induction m with
  | nil => rfl
  | cons p m ih =>
    obtain ⟨k'', v⟩ := p
    by_cases h : k'' = k
    · have : ¬ k'' = k' := by rw [h]; exact hne
      simp [aerase_cons, alookup_cons, h, ih, hne]
    · by_cases h2 : k'' = k'
      · subst h2; simp [aerase_cons, alookup_cons, h]
      · simp [aerase_cons, alookup_cons, h, h2, ih]

theorem alookup_aerase (k k' : Bytes) (m : List (Bytes × β)) :
    alookup k' (aerase k m) = if k = k' then none else alookup k' m := by
  by_cases h : k = k'
  · subst h; simp [alookup_aerase_eq]
  · simp [h, alookup_aerase_ne h]

theorem alookup_ainsert_eq (k : Bytes) (v : β) (m : List (Bytes × β)) :
    alookup k (ainsert k v m) = some v := by
  simp [ainsert, alookup_cons]

theorem alookup_ainsert_ne {k k' : Bytes} (hne : k ≠ k') (v : β) (m : List (Bytes × β)) :
    alookup k' (ainsert k v m) = alookup k' m := by
  simp [ainsert, alookup_cons, hne, alookup_aerase_ne hne]

theorem alookup_ainsert (k k' : Bytes) (v : β) (m : List (Bytes × β)) :
    alookup k' (ainsert k v m) = if k = k' then some v else alookup k' m := by
  by_cases h : k = k'
  · subst h; simp [alookup_ainsert_eq]
  · simp [h, alookup_ainsert_ne h]

/-- A successful lookup names a member of the list. -/
theorem mem_of_alookup {k : Bytes} {v : β} {m : List (Bytes × β)} (h : alookup k m = some v) :
    (k, v) ∈ m := by
  induction m with
  | nil => simp at h
  | cons p m ih =>
    obtain ⟨k', v'⟩ := p
    rw [alookup_cons] at h
    by_cases hk : k' = k
    · simp [hk] at h; simp [hk, h]
    · simp [hk] at h; exact List.mem_cons_of_mem _ (ih h)

theorem alookup_isSome_iff {k : Bytes} {m : List (Bytes × β)} :
    (alookup k m).isSome ↔ k ∈ m.map (·.1) := by
  induction m with
  | nil => simp
  | cons p m ih =>
    obtain ⟨k', v'⟩ := p
    rw [alookup_cons]
    by_cases hk : k' = k
    · simp [hk]
    · have : ¬ k = k' := fun h => hk h.symm
      simp [hk, this, ih]

theorem alookup_eq_none_iff {k : Bytes} {m : List (Bytes × β)} :
    alookup k m = none ↔ k ∉ m.map (·.1) := by
  rw [← alookup_isSome_iff]; cases alookup k m <;> simp

theorem mem_aerase {p : Bytes × β} {k : Bytes} {m : List (Bytes × β)} :
    p ∈ aerase k m ↔ p ∈ m ∧ p.1 ≠ k := by
  induction m with
  | nil => simp
  | cons q m ih =>
    obtain ⟨k', v'⟩ := q
    rw [aerase_cons]
    by_cases hk : k' = k
    · simp only [hk, if_true, ih, List.mem_cons]
      constructor
      · rintro ⟨h1, h2⟩; exact ⟨Or.inr h1, h2⟩
      · rintro ⟨h1 | h1, h2⟩
        · subst h1; exact absurd rfl h2
        · exact ⟨h1, h2⟩
    · simp only [hk, if_false, List.mem_cons, ih]
      constructor
      · rintro (h1 | ⟨h1, h2⟩)
        · subst h1; exact ⟨Or.inl rfl, hk⟩
        · exact ⟨Or.inr h1, h2⟩
      · rintro ⟨h1 | h1, h2⟩
        · exact Or.inl h1
        · exact Or.inr ⟨h1, h2⟩

theorem aerase_sublist (k : Bytes) (m : List (Bytes × β)) : (aerase k m).Sublist m := by
  induction m with
  | nil => exact List.Sublist.refl _
  | cons q m ih =>
    obtain ⟨k', v'⟩ := q
    rw [aerase_cons]
    by_cases hk : k' = k
    · simp only [hk, if_true]; exact List.Sublist.cons _ ih
    · simp only [hk, if_false]; exact List.Sublist.cons_cons _ ih

theorem mem_keys_aerase {k k' : Bytes} {m : List (Bytes × β)} :
    k' ∈ (aerase k m).map (·.1) ↔ k' ∈ m.map (·.1) ∧ k' ≠ k := by
  simp only [List.mem_map, mem_aerase]
  constructor
  · rintro ⟨p, ⟨hp, hne⟩, rfl⟩; exact ⟨⟨p, hp, rfl⟩, hne⟩
  · rintro ⟨⟨p, hp, rfl⟩, hne⟩; exact ⟨p, ⟨hp, hne⟩, rfl⟩

theorem mem_keys_ainsert {k k' : Bytes} {v : β} {m : List (Bytes × β)} :
    k' ∈ (ainsert k v m).map (·.1) ↔ k' = k ∨ k' ∈ m.map (·.1) := by
  simp only [ainsert, List.map_cons, List.mem_cons, mem_keys_aerase]
  by_cases h : k' = k <;> simp [h]

/-- Key uniqueness: the association list is a map. -/
def KU (m : List (Bytes × β)) : Prop := (m.map (·.1)).Nodup

theorem KU_nil : KU ([] : List (Bytes × β)) := List.nodup_nil

theorem KU_aerase {m : List (Bytes × β)} (k : Bytes) (h : KU m) : KU (aerase k m) :=
  List.Nodup.sublist ((aerase_sublist k m).map _) h

theorem KU_ainsert {m : List (Bytes × β)} (k : Bytes) (v : β) (h : KU m) : KU (ainsert k v m) := by
  unfold KU ainsert
  rw [List.map_cons, List.nodup_cons]
  refine ⟨?_, KU_aerase k h⟩
  intro hm
  exact (mem_keys_aerase.mp hm).2 rfl

/-- Under key uniqueness membership and lookup coincide. -/
theorem alookup_of_mem {k : Bytes} {v : β} {m : List (Bytes × β)} (hu : KU m) (h : (k, v) ∈ m) :
    alookup k m = some v := by
  induction m with
  | nil => simp at h
  | cons p m ih =>
    obtain ⟨k', v'⟩ := p
    unfold KU at hu
    rw [List.map_cons, List.nodup_cons] at hu
    rw [alookup_cons]
    rcases List.mem_cons.mp h with h | h
    · cases h; simp
    · have hk : k ∈ m.map (·.1) := List.mem_map.mpr ⟨(k, v), h, rfl⟩
      have : ¬ k' = k := fun e => hu.1 (by simpa [e] using hk)
      simp [this, ih hu.2 h]

theorem mem_iff_alookup {k : Bytes} {v : β} {m : List (Bytes × β)} (hu : KU m) :
    (k, v) ∈ m ↔ alookup k m = some v :=
  ⟨alookup_of_mem hu, mem_of_alookup⟩

end AList

/-! ### `getRepo` / `putRepo` / `makeRepo` -/

theorem getRepo_putRepo (s : State) (r r' : Bytes) (rp : Repo) :
    getRepo (putRepo s r rp) r' = if r = r' then some rp else getRepo s r' := by
  simp [getRepo, putRepo, alookup_ainsert]

theorem getRepo_putRepo_eq (s : State) (r : Bytes) (rp : Repo) :
    getRepo (putRepo s r rp) r = some rp := by
  simp [getRepo_putRepo]

theorem getRepo_putRepo_ne (s : State) {r r' : Bytes} (h : r ≠ r') (rp : Repo) :
    getRepo (putRepo s r rp) r' = getRepo s r' := by
  simp [getRepo_putRepo, h]

@[simp] theorem putRepo_immutableTags (s : State) (r : Bytes) (rp : Repo) :
    (putRepo s r rp).immutableTags = s.immutableTags := rfl

@[simp] theorem putRepo_nextID (s : State) (r : Bytes) (rp : Repo) :
    (putRepo s r rp).nextID = s.nextID := rfl

@[simp] theorem getRepo_setNextID (s : State) (n : Nat) (r : Bytes) :
    getRepo { s with nextID := n } r = getRepo s r := rfl

theorem getRepo_init (imm : Bool) (r : Bytes) : getRepo (init imm) r = none := rfl

theorem makeRepo_eq_none {s : State} {r : Bytes} : makeRepo s r = none ↔ Ref.isRepo r = false := by
  unfold makeRepo
  cases hr : Ref.isRepo r <;> cases hg : getRepo s r <;> simp

/-- Everything one needs to know about a successful `makeRepo`. -/
theorem makeRepo_spec {s s1 : State} {r : Bytes} {rp : Repo} (h : makeRepo s r = some (s1, rp)) :
    Ref.isRepo r = true ∧ getRepo s1 r = some rp ∧
      ((s1 = s ∧ getRepo s r = some rp) ∨
       (getRepo s r = none ∧ rp = emptyRepo ∧ s1 = putRepo s r emptyRepo)) := by
  unfold makeRepo at h
  cases hr : Ref.isRepo r
  · simp [hr] at h
  · cases hg : getRepo s r with
    | none =>
      simp [hr, hg] at h
      obtain ⟨h1, h2⟩ := h
      subst h1; subst h2
      exact ⟨rfl, getRepo_putRepo_eq _ _ _, Or.inr ⟨rfl, rfl, rfl⟩⟩
    | some rp0 =>
      simp [hr, hg] at h
      obtain ⟨h1, h2⟩ := h
      subst h1; subst h2
      exact ⟨rfl, hg, Or.inl ⟨rfl, rfl⟩⟩

theorem makeRepo_immutableTags {s s1 : State} {r : Bytes} {rp : Repo}
    (h : makeRepo s r = some (s1, rp)) : s1.immutableTags = s.immutableTags := by
  rcases (makeRepo_spec h).2.2 with ⟨h1, _⟩ | ⟨_, _, h1⟩ <;> subst h1 <;> rfl

/-- Other repositories are untouched by `makeRepo`. -/
theorem makeRepo_getRepo_ne {s s1 : State} {r r' : Bytes} {rp : Repo}
    (h : makeRepo s r = some (s1, rp)) (hne : r ≠ r') : getRepo s1 r' = getRepo s r' := by
  rcases (makeRepo_spec h).2.2 with ⟨h1, _⟩ | ⟨_, _, h1⟩ <;> subst h1
  · rfl
  · exact getRepo_putRepo_ne _ hne _

theorem getBuffer_spec {s : State} {r id : Bytes} {rp : Repo} {b : Buffer}
    (h : getBuffer s r id = some (rp, b)) : getRepo s r = some rp ∧ alookup id rp.uploads = some b := by
  unfold getBuffer at h
  cases hg : getRepo s r with
  | none => simp [hg] at h
  | some rp0 =>
    simp only [hg] at h
    cases hl : alookup id rp0.uploads with
    | none => simp [hl] at h
    | some b0 =>
      simp [hl] at h
      obtain ⟨h1, h2⟩ := h
      subst h1; subst h2
      exact ⟨rfl, hl⟩

theorem getBuffer_eq_some {s : State} {r id : Bytes} {rp : Repo} {b : Buffer}
    (h1 : getRepo s r = some rp) (h2 : alookup id rp.uploads = some b) :
    getBuffer s r id = some (rp, b) := by
  simp [getBuffer, h1, h2]

theorem blobFor_ok {s : State} {r d : Bytes} {b : Blob} :
    blobFor s r d = .ok b ↔ ∃ rp, getRepo s r = some rp ∧ alookup d rp.blobs = some b := by
  unfold blobFor
  cases hg : getRepo s r with
  | none => simp
  | some rp => cases hl : alookup d rp.blobs <;> simp [hl]

theorem manifestFor_ok {s : State} {r d : Bytes} {b : Blob} :
    manifestFor s r d = .ok b ↔ ∃ rp, getRepo s r = some rp ∧ alookup d rp.manifests = some b := by
  unfold manifestFor
  cases hg : getRepo s r with
  | none => simp
  | some rp => cases hl : alookup d rp.manifests <;> simp [hl]

/-! ### `checkDescData` -/

variable (H : Bytes → Bytes)

theorem checkDescData_none {d : Desc} {data : Bytes} (h : checkDescData H d data = none) :
    Ref.isDigest d.digest = true ∧ H data = d.digest ∧ d.size = data.length ∧ d.mediaType ≠ [] := by
  unfold checkDescData at h
  cases h1 : Ref.isDigest d.digest
  · simp [h1] at h
  · by_cases h2 : H data = d.digest
    · by_cases h3 : d.size = data.length
      · by_cases h4 : d.mediaType = []
        · simp [h1, h2, h3, h4] at h
        · exact ⟨rfl, h2, h3, h4⟩
      · simp [h1, h2, h3] at h
    · simp [h1, h2] at h

theorem checkDescData_mismatch {d : Desc} {data : Bytes}
    (h : H data ≠ d.digest ∨ d.size ≠ data.length) : ∃ e, checkDescData H d data = some e := by
  cases hc : checkDescData H d data with
  | some e => exact ⟨e, rfl⟩
  | none =>
    have := checkDescData_none H hc
    rcases h with h | h
    · exact absurd this.2.1 h
    · exact absurd this.2.2.1 h


/-! ### `pushManifest` in closed form -/

/-- The repository after a manifest has been stored (and tagged when `t ≠ []`). -/
def storeManifest (rp : Repo) (t : Bytes) (desc : Desc) (b : Blob) : Repo :=
  { rp with
    manifests := ainsert desc.digest b rp.manifests,
    tags := if t ≠ [] then ainsert t desc rp.tags else rp.tags }

/-- The reference list a decoded manifest is checked against. -/
def decRefs : Decoded → Option (List RefInfo)
  | .opaque => some []
  | .malformed => none
  | .refs rs => some rs

/-- The re-typing refusal of immutable-tags mode: a manifest already stored under
`dig` with another media type and reachable from a tag. -/
def retyped (imm : Bool) (rp : Repo) (dig mt : Bytes) : Bool :=
  imm && (match alookup dig rp.manifests with
    | some b => b.mediaType != mt && taggedRefersTo rp dig
    | none => false)

/-- The three possible outcomes of `pushManifest`: an error (state unchanged up
to the creation of the empty repository), the idempotent re-push of the same
content under an immutable tag, or a store. -/
theorem pushManifest_spec (s : State) (r t data mt : Bytes) (dec : Decoded) :
    (∃ e s1, step H s (.pushManifest r t data mt dec) = (s1, .err e) ∧
        (s1 = s ∨ ∃ rp, makeRepo s r = some (s1, rp)))
    ∨ (∃ rp cur, t ≠ [] ∧ s.immutableTags = true ∧ Ref.isRepo r = true ∧ Ref.isTag t = true ∧
        getRepo s r = some rp ∧ alookup t rp.tags = some cur ∧
        cur.digest = H data ∧ cur.mediaType = mt ∧
        step H s (.pushManifest r t data mt dec) = (s, .okDesc cur))
    ∨ (∃ s1 rp rs subj, makeRepo s r = some (s1, rp) ∧ (t = [] ∨ Ref.isTag t = true) ∧
        (t ≠ [] → s.immutableTags = true → alookup t rp.tags = none) ∧
        retyped s.immutableTags rp (H data) mt = false ∧
        checkDescData H ⟨mt, H data, data.length⟩ data = none ∧
        decRefs dec = some rs ∧ checkRefs rp rs [] = some subj ∧
        step H s (.pushManifest r t data mt dec) =
          (putRepo s1 r (storeManifest rp t ⟨mt, H data, data.length⟩ ⟨mt, data, subj, rs⟩),
           .okDesc ⟨mt, H data, data.length⟩)) := by
  simp only [step]
  split
  · exact Or.inl ⟨_, _, rfl, Or.inl rfl⟩
  · rename_i s1 rp hm
    have himm := makeRepo_immutableTags hm
    split
    · exact Or.inl ⟨_, _, rfl, Or.inr ⟨rp, hm⟩⟩
    · rename_i htag
      have htag' : t = [] ∨ Ref.isTag t = true := by
        by_cases ht : t = []
        · exact Or.inl ht
        · right; cases hit : Ref.isTag t
          · exact absurd ⟨ht, by simp [hit]⟩ htag
          · rfl
      split
      · rename_i cur hex
        have hex' : t ≠ [] ∧ s1.immutableTags = true ∧ alookup t rp.tags = some cur := by
          by_cases hc : t ≠ [] ∧ s1.immutableTags = true
          · rw [if_pos hc] at hex; exact ⟨hc.1, hc.2, hex⟩
          · rw [if_neg hc] at hex; cases hex
        obtain ⟨ht, hi, hl⟩ := hex'
        have hs1 : s1 = s ∧ getRepo s r = some rp := by
          rcases (makeRepo_spec hm).2.2 with h | ⟨_, h2, _⟩
          · exact h
          · subst h2; simp [emptyRepo] at hl
        obtain ⟨hs1, hg⟩ := hs1
        subst hs1
        split
        · rename_i hd
          split
          · exact Or.inl ⟨_, _, rfl, Or.inl rfl⟩
          · rename_i hmt
            refine Or.inr (Or.inl ⟨rp, cur, ht, hi, (makeRepo_spec hm).1, ?_, hg, hl, hd, Classical.not_not.mp hmt, rfl⟩)
            rcases htag' with h | h
            · exact absurd h ht
            · exact h
        · exact Or.inl ⟨_, _, rfl, Or.inl rfl⟩
      · rename_i hex
        have hex' : t ≠ [] → s.immutableTags = true → alookup t rp.tags = none := by
          intro ht hi
          rw [if_pos ⟨ht, himm.trans hi⟩] at hex; exact hex
        generalize hc : (s1.immutableTags && _) = c
        have hc' : retyped s1.immutableTags rp (H data) mt = c := by rw [← hc]; rfl
        rw [himm] at hc'
        cases c
        case true => exact Or.inl ⟨_, _, rfl, Or.inr ⟨rp, hm⟩⟩
        have hre' : retyped s.immutableTags rp (H data) mt = false := hc'
        simp only [Bool.false_eq_true, if_false]
        split
        · exact Or.inl ⟨_, _, rfl, Or.inr ⟨rp, hm⟩⟩
        · rename_i hcd
          have hcd' : checkDescData H ⟨mt, H data, data.length⟩ data = none := by
            cases hh : checkDescData H ⟨mt, H data, data.length⟩ data with
            | none => rfl
            | some e => rw [hh] at hcd; simp at hcd
          split
          · exact Or.inl ⟨_, _, rfl, Or.inr ⟨rp, hm⟩⟩
          · rename_i rs hrs
            split
            · exact Or.inl ⟨_, _, rfl, Or.inr ⟨rp, hm⟩⟩
            · rename_i subj hsubj
              refine Or.inr (Or.inr ⟨s1, rp, rs, subj, hm, htag', hex', hre', hcd', ?_, hsubj, ?_⟩)
              · cases dec <;> simp [decRefs] at hrs ⊢ <;> exact hrs
              · unfold storeManifest
                by_cases ht : t = [] <;> simp [ht]


theorem makeRepo_rp {s s1 : State} {r : Bytes} {rp : Repo} (hm : makeRepo s r = some (s1, rp)) :
    rp = (getRepo s r).getD emptyRepo := by
  rcases (makeRepo_spec hm).2.2 with ⟨_, h2⟩ | ⟨h0, h2, _⟩
  · simp [h2]
  · simp [h0, h2]

@[simp] theorem storeManifest_blobs (rp t desc b) : (storeManifest rp t desc b).blobs = rp.blobs := rfl
@[simp] theorem storeManifest_uploads (rp t desc b) : (storeManifest rp t desc b).uploads = rp.uploads := rfl
@[simp] theorem storeManifest_manifests (rp t desc b) :
    (storeManifest rp t desc b).manifests = ainsert desc.digest b rp.manifests := rfl
@[simp] theorem storeManifest_tags (rp t desc b) :
    (storeManifest rp t desc b).tags = if t ≠ [] then ainsert t desc rp.tags else rp.tags := rfl



theorem refersTo_of_mem (rp : Repo) (target : Bytes) (fuel : Nat) (l : List RefInfo)
    (h : ∃ x ∈ l, x.desc.digest = target) : refersTo rp target (fuel + 1) l = true := by
  induction l with
  | nil => obtain ⟨x, hx, _⟩ := h; cases hx
  | cons y ys ih =>
    rw [refersTo]
    by_cases hy : y.desc.digest = target
    · simp [hy]
    · obtain ⟨x, hx, hxd⟩ := h
      rcases List.mem_cons.mp hx with rfl | hx
      · exact absurd hxd hy
      · simp [hy, ih ⟨x, hx, hxd⟩]

/-- A digest some tag points at directly is "referred to by a tag". -/
theorem taggedRefersTo_of_tag {rp : Repo} {t : Bytes} {td : Desc} (h : alookup t rp.tags = some td) :
    taggedRefersTo rp td.digest = true := by
  unfold taggedRefersTo
  apply refersTo_of_mem
  exact ⟨⟨1, td⟩, List.mem_map.mpr ⟨(t, td), mem_of_alookup h, rfl⟩, rfl⟩


theorem retyped_of_tag {imm : Bool} {rp : Repo} {t' dig mt : Bytes} {td : Desc} {b : Blob}
    (himm : imm = true) (ht : alookup t' rp.tags = some td) (hd : td.digest = dig)
    (hb : alookup dig rp.manifests = some b) (hmt : b.mediaType ≠ mt) :
    retyped imm rp dig mt = true := by
  subst hd
  simp [retyped, himm, hb, hmt, taggedRefersTo_of_tag ht]

/-! ### The digest invariant -/

/-- Every entry of a content map is stored under the hash of its bytes. -/
def MapOK (m : List (Bytes × Blob)) : Prop := ∀ d b, alookup d m = some b → H b.data = d

def RepoOK (rp : Repo) : Prop := MapOK H rp.blobs ∧ MapOK H rp.manifests

/-- The digest invariant (C01/I1). Unfolds to: for every repository, every blob
and every manifest is stored under `H` of its data. -/
def Inv (s : State) : Prop := ∀ r rp, getRepo s r = some rp → RepoOK H rp

theorem mapOK_nil : MapOK H [] := by intro d b h; simp at h

theorem mapOK_ainsert {m : List (Bytes × Blob)} {k : Bytes} {v : Blob}
    (hv : H v.data = k) (hm : MapOK H m) : MapOK H (ainsert k v m) := by
  intro d b h
  rw [alookup_ainsert] at h
  by_cases hk : k = d
  · simp [hk] at h; subst h; rw [hv, hk]
  · simp [hk] at h; exact hm d b h

theorem mapOK_aerase {m : List (Bytes × Blob)} (k : Bytes) (hm : MapOK H m) : MapOK H (aerase k m) := by
  intro d b h
  rw [alookup_aerase] at h
  by_cases hk : k = d
  · simp [hk] at h
  · simp [hk] at h; exact hm d b h

theorem repoOK_empty : RepoOK H emptyRepo := ⟨mapOK_nil H, mapOK_nil H⟩

theorem inv_putRepo {s : State} {r : Bytes} {rp : Repo} (hs : Inv H s) (hrp : RepoOK H rp) :
    Inv H (putRepo s r rp) := by
  intro r' rp' h
  rw [getRepo_putRepo] at h
  by_cases hr : r = r'
  · simp [hr] at h; subst h; exact hrp
  · simp [hr] at h; exact hs r' rp' h

theorem inv_setNextID {s : State} (n : Nat) (hs : Inv H s) : Inv H { s with nextID := n } := hs

theorem inv_putBuffer {s : State} {r id : Bytes} {rp : Repo} {b : Buffer} (hs : Inv H s) (hrp : RepoOK H rp) :
    Inv H (putBuffer s r rp id b) :=
  inv_putRepo H hs ⟨hrp.1, hrp.2⟩

theorem inv_makeRepo {s s1 : State} {r : Bytes} {rp : Repo} (hs : Inv H s)
    (h : makeRepo s r = some (s1, rp)) : Inv H s1 ∧ RepoOK H rp := by
  rcases (makeRepo_spec h).2.2 with ⟨h1, h2⟩ | ⟨_, h2, h1⟩
  · subst h1; exact ⟨hs, hs r rp h2⟩
  · subst h1; subst h2; exact ⟨inv_putRepo H hs (repoOK_empty H), repoOK_empty H⟩

theorem inv_getBuffer {s : State} {r id : Bytes} {rp : Repo} {b : Buffer} (hs : Inv H s)
    (h : getBuffer s r id = some (rp, b)) : RepoOK H rp :=
  hs r rp (getBuffer_spec h).1

theorem inv_init (imm : Bool) : Inv H (init imm) := by
  intro r rp h; simp [getRepo_init] at h

/-- I1: every operation preserves the digest invariant. -/
theorem inv_step (s : State) (op : Op) (hs : Inv H s) : Inv H (step H s op).1 := by
  cases op with
  | getBlob r d => simp only [step]; split <;> exact hs
  | getBlobRange r d o0 o1 => simp only [step]; repeat' split
                              all_goals exact hs
  | getManifest r d => simp only [step]; split <;> exact hs
  | getTag r t => simp only [step]; repeat' split
                  all_goals exact hs
  | resolveBlob r d => simp only [step]; split <;> exact hs
  | resolveManifest r d => simp only [step]; split <;> exact hs
  | resolveTag r t => simp only [step]; repeat' split
                      all_goals exact hs
  | pushBlob r desc data =>
    simp only [step]
    split
    · exact hs
    · rename_i hc
      split
      · exact hs
      · rename_i s1 rp hm
        have := inv_makeRepo H hs hm
        exact inv_putRepo H this.1 ⟨mapOK_ainsert H (checkDescData_none H hc).2.1 this.2.1, this.2.2⟩
  | pushChunked r =>
    simp only [step]
    split
    · exact hs
    · rename_i s1 rp hm
      have := inv_makeRepo H hs hm
      exact inv_setNextID H _ (inv_putBuffer H this.1 this.2)
  | resume r id offset =>
    simp only [step]
    split
    · exact hs
    · rename_i s1 rp hm
      have := inv_makeRepo H hs hm
      split
      · exact inv_putBuffer H this.1 this.2
      · split
        · exact inv_setNextID H _ (inv_putBuffer H this.1 this.2)
        · exact inv_putBuffer H this.1 this.2
  | wWrite r id data =>
    simp only [step]
    split
    · exact hs
    · rename_i rp b hb
      split
      · exact hs
      · exact inv_putBuffer H hs (inv_getBuffer H hs hb)
  | wSize r id => simp only [step]; split <;> exact hs
  | wCancel r id =>
    simp only [step]
    split
    · exact hs
    · rename_i rp b hb
      exact inv_putBuffer H hs (inv_getBuffer H hs hb)
  | wCommit r id dig =>
    simp only [step]
    split
    · exact hs
    · rename_i rp b hb
      have hrp := inv_getBuffer H hs hb
      split
      · exact hs
      · split
        · exact inv_putBuffer H hs hrp
        · rename_i hd
          have hd' : H b.buf = dig := Classical.not_not.mp hd
          exact inv_putRepo H hs ⟨mapOK_ainsert H hd' hrp.1, hrp.2⟩
  | mount fromR toR d =>
    simp only [step]
    split
    · exact hs
    · rename_i s1 rp hm
      have hs1 := (inv_makeRepo H hs hm).1
      split
      · exact hs1
      · rename_i b hb
        obtain ⟨rpf, hg, hl⟩ := blobFor_ok.mp hb
        have hbd : H b.data = d := (hs1 fromR rpf hg).1 d b hl
        split
        · exact hs1
        · rename_i rto hgt
          have hrto := hs1 toR rto hgt
          exact inv_putRepo H hs1 ⟨mapOK_ainsert H hbd hrto.1, hrto.2⟩
  | pushManifest r0 t data mt dec =>
    rcases pushManifest_spec H s r0 t data mt dec with
      ⟨e, s1, hst, hs1⟩ | ⟨rp, cur, _, _, _, _, _, _, _, _, hst⟩ |
      ⟨s1, rp, rs, subj, hm, _, _, _, _, _, _, hst⟩
    · rw [hst]
      rcases hs1 with rfl | ⟨rp, hm⟩
      · exact hs
      · exact (inv_makeRepo H hs hm).1
    · rw [hst]; exact hs
    · rw [hst]
      have ⟨hs1, hrp⟩ := inv_makeRepo H hs hm
      exact inv_putRepo H hs1 ⟨hrp.1, mapOK_ainsert H rfl hrp.2⟩
  | deleteBlob r d =>
    simp only [step]
    split
    · exact hs
    · split
      · exact hs
      · rename_i rp hg
        split
        · exact hs
        · have hrp := hs r rp hg
          exact inv_putRepo H hs ⟨mapOK_aerase H d hrp.1, hrp.2⟩
  | deleteManifest r d =>
    simp only [step]
    split
    · exact hs
    · split
      · exact hs
      · rename_i rp hg
        split
        · exact hs
        · have hrp := hs r rp hg
          exact inv_putRepo H hs ⟨hrp.1, mapOK_aerase H d hrp.2⟩
  | deleteTag r t =>
    simp only [step]
    split
    · exact hs
    · rename_i rp hg
      split
      · exact hs
      · split
        · exact hs
        · have hrp := hs r rp hg
          exact inv_putRepo H hs ⟨hrp.1, hrp.2⟩
  | repositories start => exact hs
  | tags r start => simp only [step]; split <;> exact hs
  | referrers r d => simp only [step]; split <;> exact hs

theorem inv_run (s : State) (ops : List Op) (hs : Inv H s) : Inv H (run H s ops).1 := by
  induction ops generalizing s with
  | nil => exact hs
  | cons op rest ih =>
    simp only [run]
    exact ih _ (inv_step H s op hs)

/-! ### Key uniqueness -/

def RepoKU (rp : Repo) : Prop := KU rp.tags ∧ KU rp.manifests ∧ KU rp.blobs ∧ KU rp.uploads

/-- R1: all association lists of the state are maps. -/
def KeysUnique (s : State) : Prop := KU s.repos ∧ ∀ p ∈ s.repos, RepoKU p.2

theorem repoKU_empty : RepoKU emptyRepo := ⟨KU_nil, KU_nil, KU_nil, KU_nil⟩

theorem ku_init (imm : Bool) : KeysUnique (init imm) := ⟨KU_nil, by intro p hp; simp [init] at hp⟩

theorem ku_getRepo {s : State} {r : Bytes} {rp : Repo} (hs : KeysUnique s) (h : getRepo s r = some rp) :
    RepoKU rp := hs.2 (r, rp) (mem_of_alookup h)

theorem ku_putRepo {s : State} {r : Bytes} {rp : Repo} (hs : KeysUnique s) (hrp : RepoKU rp) :
    KeysUnique (putRepo s r rp) := by
  refine ⟨KU_ainsert r rp hs.1, ?_⟩
  intro p hp
  simp only [putRepo, ainsert, List.mem_cons] at hp
  rcases hp with hp | hp
  · subst hp; exact hrp
  · exact hs.2 p (mem_aerase.mp hp).1

theorem ku_setNextID {s : State} (n : Nat) (hs : KeysUnique s) : KeysUnique { s with nextID := n } := hs

theorem ku_putBuffer {s : State} {r id : Bytes} {rp : Repo} {b : Buffer} (hs : KeysUnique s) (hrp : RepoKU rp) :
    KeysUnique (putBuffer s r rp id b) :=
  ku_putRepo hs ⟨hrp.1, hrp.2.1, hrp.2.2.1, KU_ainsert id b hrp.2.2.2⟩

theorem ku_makeRepo {s s1 : State} {r : Bytes} {rp : Repo} (hs : KeysUnique s)
    (h : makeRepo s r = some (s1, rp)) : KeysUnique s1 ∧ RepoKU rp := by
  rcases (makeRepo_spec h).2.2 with ⟨h1, h2⟩ | ⟨_, h2, h1⟩
  · subst h1; exact ⟨hs, ku_getRepo hs h2⟩
  · subst h1; subst h2; exact ⟨ku_putRepo hs repoKU_empty, repoKU_empty⟩

theorem ku_getBuffer {s : State} {r id : Bytes} {rp : Repo} {b : Buffer} (hs : KeysUnique s)
    (h : getBuffer s r id = some (rp, b)) : RepoKU rp :=
  ku_getRepo hs (getBuffer_spec h).1

/-- R1: every operation preserves key uniqueness. -/
theorem ku_step (s : State) (op : Op) (hs : KeysUnique s) : KeysUnique (step H s op).1 := by
  cases op with
  | getBlob r d => simp only [step]; split <;> exact hs
  | getBlobRange r d o0 o1 => simp only [step]; repeat' split
                              all_goals exact hs
  | getManifest r d => simp only [step]; split <;> exact hs
  | getTag r t => simp only [step]; repeat' split
                  all_goals exact hs
  | resolveBlob r d => simp only [step]; split <;> exact hs
  | resolveManifest r d => simp only [step]; split <;> exact hs
  | resolveTag r t => simp only [step]; repeat' split
                      all_goals exact hs
  | pushBlob r desc data =>
    simp only [step]
    split
    · exact hs
    · split
      · exact hs
      · rename_i s1 rp hm
        have ⟨h1, h2⟩ := ku_makeRepo hs hm
        exact ku_putRepo h1 ⟨h2.1, h2.2.1, KU_ainsert _ _ h2.2.2.1, h2.2.2.2⟩
  | pushChunked r =>
    simp only [step]
    split
    · exact hs
    · rename_i s1 rp hm
      have ⟨h1, h2⟩ := ku_makeRepo hs hm
      exact ku_setNextID _ (ku_putBuffer h1 h2)
  | resume r id offset =>
    simp only [step]
    split
    · exact hs
    · rename_i s1 rp hm
      have ⟨h1, h2⟩ := ku_makeRepo hs hm
      split
      · exact ku_putBuffer h1 h2
      · split
        · exact ku_setNextID _ (ku_putBuffer h1 h2)
        · exact ku_putBuffer h1 h2
  | wWrite r id data =>
    simp only [step]
    split
    · exact hs
    · rename_i rp b hb
      split
      · exact hs
      · exact ku_putBuffer hs (ku_getBuffer hs hb)
  | wSize r id => simp only [step]; split <;> exact hs
  | wCancel r id =>
    simp only [step]
    split
    · exact hs
    · rename_i rp b hb
      exact ku_putBuffer hs (ku_getBuffer hs hb)
  | wCommit r id dig =>
    simp only [step]
    split
    · exact hs
    · rename_i rp b hb
      have hrp := ku_getBuffer hs hb
      split
      · exact hs
      · split
        · exact ku_putBuffer hs hrp
        · exact ku_putRepo hs ⟨hrp.1, hrp.2.1, KU_ainsert _ _ hrp.2.2.1, KU_ainsert _ _ hrp.2.2.2⟩
  | mount fromR toR d =>
    simp only [step]
    split
    · exact hs
    · rename_i s1 rp hm
      have hs1 := (ku_makeRepo hs hm).1
      split
      · exact hs1
      · split
        · exact hs1
        · rename_i rto hgt
          have hrto := ku_getRepo hs1 hgt
          exact ku_putRepo hs1 ⟨hrto.1, hrto.2.1, KU_ainsert _ _ hrto.2.2.1, hrto.2.2.2⟩
  | pushManifest r0 t data mt dec =>
    rcases pushManifest_spec H s r0 t data mt dec with
      ⟨e, s1, hst, hs1⟩ | ⟨rp, cur, _, _, _, _, _, _, _, _, hst⟩ |
      ⟨s1, rp, rs, subj, hm, _, _, _, _, _, _, hst⟩
    · rw [hst]
      rcases hs1 with rfl | ⟨rp, hm⟩
      · exact hs
      · exact (ku_makeRepo hs hm).1
    · rw [hst]; exact hs
    · rw [hst]
      have ⟨hs1, hrp⟩ := ku_makeRepo hs hm
      refine ku_putRepo hs1 ⟨?_, KU_ainsert _ _ hrp.2.1, hrp.2.2.1, hrp.2.2.2⟩
      show KU (if t ≠ [] then _ else _)
      split
      · exact KU_ainsert _ _ hrp.1
      · exact hrp.1
  | deleteBlob r d =>
    simp only [step]
    split
    · exact hs
    · split
      · exact hs
      · rename_i rp hg
        split
        · exact hs
        · have hrp := ku_getRepo hs hg
          exact ku_putRepo hs ⟨hrp.1, hrp.2.1, KU_aerase _ hrp.2.2.1, hrp.2.2.2⟩
  | deleteManifest r d =>
    simp only [step]
    split
    · exact hs
    · split
      · exact hs
      · rename_i rp hg
        split
        · exact hs
        · have hrp := ku_getRepo hs hg
          exact ku_putRepo hs ⟨hrp.1, KU_aerase _ hrp.2.1, hrp.2.2.1, hrp.2.2.2⟩
  | deleteTag r t =>
    simp only [step]
    split
    · exact hs
    · rename_i rp hg
      split
      · exact hs
      · split
        · exact hs
        · have hrp := ku_getRepo hs hg
          exact ku_putRepo hs ⟨KU_aerase _ hrp.1, hrp.2.1, hrp.2.2.1, hrp.2.2.2⟩
  | repositories start => exact hs
  | tags r start => simp only [step]; split <;> exact hs
  | referrers r d => simp only [step]; split <;> exact hs

theorem ku_run (s : State) (ops : List Op) (hs : KeysUnique s) : KeysUnique (run H s ops).1 := by
  induction ops generalizing s with
  | nil => exact hs
  | cons op rest ih =>
    simp only [run]
    exact ih _ (ku_step H s op hs)

/-! ### Sorting -/

/-- Strictly ascending w.r.t. `compare` on byte strings. -/
def StrictAscB (l : List Bytes) : Prop := l.Pairwise (fun a b => compare a b = .lt)

theorem mem_insertSorted {k x : Bytes} {l : List Bytes} : x ∈ insertSorted k l ↔ x = k ∨ x ∈ l := by
  induction l with
  | nil => simp [insertSorted]
  | cons y ys ih =>
    unfold insertSorted
    split
    · simp only [List.mem_cons, ih]
      constructor
      · rintro (h | h | h)
        · exact Or.inr (Or.inl h)
        · exact Or.inl h
        · exact Or.inr (Or.inr h)
      · rintro (h | h | h)
        · exact Or.inr (Or.inl h)
        · exact Or.inl h
        · exact Or.inr (Or.inr h)
    · simp

theorem mem_sortBytes {x : Bytes} {l : List Bytes} : x ∈ sortBytes l ↔ x ∈ l := by
  induction l with
  | nil => simp [sortBytes]
  | cons y ys ih =>
    have : sortBytes (y :: ys) = insertSorted y (sortBytes ys) := rfl
    rw [this, mem_insertSorted, ih, List.mem_cons]

theorem strictAsc_insertSorted {k : Bytes} {l : List Bytes} (hk : k ∉ l) (hl : StrictAscB l) :
    StrictAscB (insertSorted k l) := by
  induction l with
  | nil => simp [insertSorted, StrictAscB]
  | cons y ys ih =>
    unfold StrictAscB at hl
    rw [List.pairwise_cons] at hl
    unfold insertSorted
    split
    · rename_i hgt
      have hgt' : compare k y = .gt := by simpa using hgt
      have hyk : compare y k = .lt := Std.OrientedCmp.gt_iff_lt.mp hgt'
      unfold StrictAscB
      rw [List.pairwise_cons]
      refine ⟨?_, ih (fun h => hk (List.mem_cons_of_mem _ h)) hl.2⟩
      intro a ha
      rcases mem_insertSorted.mp ha with ha | ha
      · subst ha; exact hyk
      · exact hl.1 a ha
    · rename_i hgt
      have hne : compare k y ≠ .gt := by simpa using hgt
      have hney : compare k y ≠ .eq := by
        intro h
        exact hk (by rw [Std.LawfulEqCmp.compare_eq_iff_eq.mp h]; exact List.mem_cons_self)
      have hlt : compare k y = .lt := by
        cases hc : compare k y <;> simp_all
      unfold StrictAscB
      rw [List.pairwise_cons]
      refine ⟨?_, List.pairwise_cons.mpr hl⟩
      intro a ha
      rcases List.mem_cons.mp ha with ha | ha
      · subst ha; exact hlt
      · exact Std.TransCmp.lt_trans hlt (hl.1 a ha)

theorem strictAsc_sortBytes {l : List Bytes} (hl : l.Nodup) : StrictAscB (sortBytes l) := by
  induction l with
  | nil => simp [sortBytes, StrictAscB]
  | cons y ys ih =>
    rw [List.nodup_cons] at hl
    have : sortBytes (y :: ys) = insertSorted y (sortBytes ys) := rfl
    rw [this]
    exact strictAsc_insertSorted (fun h => hl.1 (mem_sortBytes.mp h)) (ih hl.2)

theorem strictAsc_nodup {l : List Bytes} (h : StrictAscB l) : l.Nodup := by
  unfold StrictAscB at h
  refine List.Pairwise.imp ?_ h
  intro a b hab heq
  subst heq
  rw [Std.ReflOrd.compare_self] at hab
  cases hab

/-- R2 (membership): the listing contains exactly the keys strictly after `start`. -/
theorem mem_keysAfter {β} {m : List (Bytes × β)} {start k : Bytes} :
    k ∈ keysAfter m start ↔ (k ∈ m.map (·.1) ∧ compare start k = .lt) := by
  unfold keysAfter
  rw [mem_sortBytes, List.mem_filter]
  simp

/-- R2 (order): under key uniqueness the listing is strictly ascending. -/
theorem keysAfter_sorted {β} {m : List (Bytes × β)} (hm : KU m) (start : Bytes) :
    StrictAscB (keysAfter m start) :=
  strictAsc_sortBytes (List.Nodup.sublist List.filter_sublist hm)

/-! ### Referrers -/

/-- Ascending by digest (non-strictly). -/
def AscDesc (l : List Desc) : Prop := l.Pairwise (fun a b => compare a.digest b.digest ≠ .gt)
/-- Strictly ascending by digest. -/
def StrictAscDesc (l : List Desc) : Prop := l.Pairwise (fun a b => compare a.digest b.digest = .lt)

theorem cmp_le_trans {a b c : Bytes} (h1 : compare a b ≠ .gt) (h2 : compare b c ≠ .gt) :
    compare a c ≠ .gt := by
  have e1 : (compare a b).isLE = true := by cases h : compare a b <;> simp_all [Ordering.isLE]
  have e2 : (compare b c).isLE = true := by cases h : compare b c <;> simp_all [Ordering.isLE]
  have e3 := Std.TransCmp.isLE_trans e1 e2
  intro h; rw [h] at e3; cases e3

theorem mem_insertDesc {d x : Desc} {l : List Desc} : x ∈ insertDesc d l ↔ x = d ∨ x ∈ l := by
  induction l with
  | nil => simp [insertDesc]
  | cons y ys ih =>
    unfold insertDesc
    split
    · simp only [List.mem_cons, ih]
      constructor
      · rintro (h | h | h)
        · exact Or.inr (Or.inl h)
        · exact Or.inl h
        · exact Or.inr (Or.inr h)
      · rintro (h | h | h)
        · exact Or.inr (Or.inl h)
        · exact Or.inl h
        · exact Or.inr (Or.inr h)
    · simp

theorem mem_foldr_insertDesc {x : Desc} {l : List Desc} : x ∈ l.foldr insertDesc [] ↔ x ∈ l := by
  induction l with
  | nil => simp
  | cons y ys ih => rw [List.foldr_cons, mem_insertDesc, ih, List.mem_cons]

theorem asc_insertDesc {d : Desc} {l : List Desc} (hl : AscDesc l) : AscDesc (insertDesc d l) := by
  induction l with
  | nil => simp [insertDesc, AscDesc]
  | cons y ys ih =>
    unfold AscDesc at hl
    rw [List.pairwise_cons] at hl
    unfold insertDesc
    split
    · rename_i hgt
      have hgt' : compare d.digest y.digest = .gt := by simpa using hgt
      have hyk : compare y.digest d.digest = .lt := Std.OrientedCmp.gt_iff_lt.mp hgt'
      unfold AscDesc
      rw [List.pairwise_cons]
      refine ⟨?_, ih hl.2⟩
      intro a ha
      rcases mem_insertDesc.mp ha with ha | ha
      · subst ha; rw [hyk]; simp
      · exact hl.1 a ha
    · rename_i hgt
      have hne : compare d.digest y.digest ≠ .gt := by simpa using hgt
      unfold AscDesc
      rw [List.pairwise_cons]
      refine ⟨?_, List.pairwise_cons.mpr hl⟩
      intro a ha
      rcases List.mem_cons.mp ha with ha | ha
      · subst ha; exact hne
      · exact cmp_le_trans hne (hl.1 a ha)

theorem asc_foldr_insertDesc (l : List Desc) : AscDesc (l.foldr insertDesc []) := by
  induction l with
  | nil => simp [AscDesc]
  | cons y ys ih => rw [List.foldr_cons]; exact asc_insertDesc ih

theorem strict_insertDesc {d : Desc} {l : List Desc} (hd : d.digest ∉ l.map (·.digest))
    (hl : StrictAscDesc l) : StrictAscDesc (insertDesc d l) := by
  induction l with
  | nil => simp [insertDesc, StrictAscDesc]
  | cons y ys ih =>
    unfold StrictAscDesc at hl
    rw [List.pairwise_cons] at hl
    rw [List.map_cons, List.mem_cons, not_or] at hd
    unfold insertDesc
    split
    · rename_i hgt
      have hgt' : compare d.digest y.digest = .gt := by simpa using hgt
      have hyk : compare y.digest d.digest = .lt := Std.OrientedCmp.gt_iff_lt.mp hgt'
      unfold StrictAscDesc
      rw [List.pairwise_cons]
      refine ⟨?_, ih hd.2 hl.2⟩
      intro a ha
      rcases mem_insertDesc.mp ha with ha | ha
      · subst ha; exact hyk
      · exact hl.1 a ha
    · rename_i hgt
      have hne : compare d.digest y.digest ≠ .gt := by simpa using hgt
      have hney : compare d.digest y.digest ≠ .eq := by
        intro h
        exact hd.1 (Std.LawfulEqCmp.compare_eq_iff_eq.mp h)
      have hlt : compare d.digest y.digest = .lt := by
        cases hc : compare d.digest y.digest <;> simp_all
      unfold StrictAscDesc
      rw [List.pairwise_cons]
      refine ⟨?_, List.pairwise_cons.mpr hl⟩
      intro a ha
      rcases List.mem_cons.mp ha with ha | ha
      · subst ha; exact hlt
      · exact Std.TransCmp.lt_trans hlt (hl.1 a ha)

theorem strict_foldr_insertDesc {l : List Desc} (hl : (l.map (·.digest)).Nodup) :
    StrictAscDesc (l.foldr insertDesc []) := by
  induction l with
  | nil => simp [StrictAscDesc]
  | cons y ys ih =>
    rw [List.map_cons, List.nodup_cons] at hl
    rw [List.foldr_cons]
    refine strict_insertDesc ?_ (ih hl.2)
    intro h
    apply hl.1
    obtain ⟨x, hx, hxe⟩ := List.mem_map.mp h
    exact List.mem_map.mpr ⟨x, mem_foldr_insertDesc.mp hx, hxe⟩

/-- The list `.referrers r d` returns for a repository `rp`. -/
def referrersOf (rp : Repo) (d : Bytes) : List Desc :=
  ((rp.manifests.filter fun (_, b) => b.subject = d).map fun (_, b) => descOf H b).foldr insertDesc []

theorem mem_referrersOf {rp : Repo} {d : Bytes} {x : Desc} :
    x ∈ referrersOf H rp d ↔ ∃ k b, (k, b) ∈ rp.manifests ∧ b.subject = d ∧ x = descOf H b := by
  unfold referrersOf
  rw [mem_foldr_insertDesc, List.mem_map]
  constructor
  · rintro ⟨⟨k, b⟩, hp, rfl⟩
    rw [List.mem_filter] at hp
    exact ⟨k, b, hp.1, by simpa using hp.2, rfl⟩
  · rintro ⟨k, b, hm, hs, rfl⟩
    exact ⟨(k, b), List.mem_filter.mpr ⟨hm, by simpa using hs⟩, rfl⟩

theorem referrersOf_asc (rp : Repo) (d : Bytes) : AscDesc (referrersOf H rp d) :=
  asc_foldr_insertDesc _

theorem referrersOf_strict {rp : Repo} (d : Bytes) (hok : MapOK H rp.manifests) (hku : KU rp.manifests) :
    StrictAscDesc (referrersOf H rp d) := by
  unfold referrersOf
  apply strict_foldr_insertDesc
  rw [List.map_map]
  have : List.map ((fun x : Desc => x.digest) ∘ fun x : Bytes × Blob => match x with | (_, b) => descOf H b)
      (rp.manifests.filter fun (_, b) => b.subject = d)
      = List.map (·.1) (rp.manifests.filter fun (_, b) => b.subject = d) := by
    apply List.map_congr_left
    rintro ⟨k, b⟩ hp
    have hm : (k, b) ∈ rp.manifests := (List.mem_filter.mp hp).1
    exact hok k b (alookup_of_mem hku hm)
  rw [this]
  exact List.Nodup.sublist (List.Sublist.map _ List.filter_sublist) hku

/-! ### Field lookups through the state, and how operations change them -/

/-- Look a key up in one of the maps of repository `r` (absent repository: `none`). -/
def look {β} (f : Repo → List (Bytes × β)) (s : State) (r k : Bytes) : Option β :=
  (getRepo s r).bind (fun rp => alookup k (f rp))

section Look
variable {β : Type} (f : Repo → List (Bytes × β))

theorem look_putRepo (s : State) (r r' : Bytes) (rp : Repo) (k : Bytes) :
    look f (putRepo s r rp) r' k = if r = r' then alookup k (f rp) else look f s r' k := by
  unfold look
  rw [getRepo_putRepo]
  by_cases h : r = r' <;> simp [h]

theorem look_of_getRepo {s : State} {r : Bytes} {rp : Repo} (h : getRepo s r = some rp) (k : Bytes) :
    look f s r k = alookup k (f rp) := by
  simp [look, h]

theorem look_of_getRepo_none {s : State} {r : Bytes} (h : getRepo s r = none) (k : Bytes) :
    look f s r k = none := by
  simp [look, h]

@[simp] theorem look_setNextID (s : State) (n : Nat) (r k : Bytes) :
    look f { s with nextID := n } r k = look f s r k := rfl

theorem look_makeRepo {s s1 : State} {r0 : Bytes} {rp : Repo} (hf0 : f emptyRepo = [])
    (hm : makeRepo s r0 = some (s1, rp)) :
    (∀ r k, look f s1 r k = look f s r k) ∧ (∀ k, alookup k (f rp) = look f s r0 k) := by
  rcases (makeRepo_spec hm).2.2 with ⟨h1, h2⟩ | ⟨h0, h2, h1⟩
  · subst h1
    exact ⟨fun _ _ => rfl, fun k => (look_of_getRepo f h2 k).symm⟩
  · subst h1; subst h2
    refine ⟨?_, ?_⟩
    · intro r k
      rw [look_putRepo]
      by_cases h : r0 = r
      · subst h; simp [hf0, look_of_getRepo_none f h0]
      · simp [h]
    · intro k; simp [hf0, look_of_getRepo_none f h0]

/-- Replacing a repository by one with the same `f`-map changes no `f`-lookup. -/
theorem look_putRepo_same {s : State} {r0 : Bytes} {rp rp' : Repo} (hg : getRepo s r0 = some rp)
    (hf : f rp' = f rp) (r k : Bytes) : look f (putRepo s r0 rp') r k = look f s r k := by
  rw [look_putRepo]
  by_cases h : r0 = r
  · subst h; simp [hf, look_of_getRepo f hg]
  · simp [h]

theorem look_putRepo_make {s s1 : State} {r0 : Bytes} {rp rp' : Repo} (hf0 : f emptyRepo = [])
    (hm : makeRepo s r0 = some (s1, rp)) (hf : f rp' = f rp) (r k : Bytes) :
    look f (putRepo s1 r0 rp') r k = look f s r k := by
  rw [look_putRepo_same f (makeRepo_spec hm).2.1 hf]
  exact (look_makeRepo f hf0 hm).1 r k

end Look


theorem blob_frame (s : State) (op : Op) (r d : Bytes) :
    look (·.blobs) (step H s op).1 r d = look (·.blobs) s r d
    ∨ (∃ desc data, op = .pushBlob r desc data ∧ desc.digest = d ∧ (step H s op).2 = .okDesc desc
        ∧ look (·.blobs) (step H s op).1 r d = some ⟨desc.mediaType, data, [], []⟩)
    ∨ (∃ id rp b, op = .wCommit r id d ∧ getBuffer s r id = some (rp, b)
        ∧ (step H s op).2 = .okDesc ⟨octetStream, d, b.buf.length⟩
        ∧ look (·.blobs) (step H s op).1 r d = some ⟨octetStream, b.buf, [], []⟩)
    ∨ (∃ fromR b, op = .mount fromR r d ∧ blobFor s fromR d = .ok b
        ∧ (step H s op).2 = .okDesc (descOf H b)
        ∧ look (·.blobs) (step H s op).1 r d = some b)
    ∨ (op = .deleteBlob r d ∧ (step H s op).2 = .okUnit ∧ look (·.blobs) (step H s op).1 r d = none) := by
  cases op with
  | getBlob r0 d0 => simp only [step]; split <;> exact Or.inl rfl
  | getBlobRange r0 d0 o0 o1 => simp only [step]; repeat' split
                                all_goals exact Or.inl rfl
  | getManifest r0 d0 => simp only [step]; split <;> exact Or.inl rfl
  | getTag r0 t => simp only [step]; repeat' split
                   all_goals exact Or.inl rfl
  | resolveBlob r0 d0 => simp only [step]; split <;> exact Or.inl rfl
  | resolveManifest r0 d0 => simp only [step]; split <;> exact Or.inl rfl
  | resolveTag r0 t => simp only [step]; repeat' split
                       all_goals exact Or.inl rfl
  | pushBlob r0 desc data =>
    simp only [step]
    split
    · exact Or.inl rfl
    · split
      · exact Or.inl rfl
      · rename_i s1 rp hm
        have ⟨hl1, hl2⟩ := look_makeRepo (·.blobs) rfl hm
        by_cases hr : r0 = r
        · subst hr
          by_cases hd : desc.digest = d
          · subst hd
            refine Or.inr (Or.inl ⟨desc, data, rfl, rfl, rfl, ?_⟩)
            simp [look_putRepo, alookup_ainsert_eq]
          · left
            simp only [look_putRepo, if_true, alookup_ainsert_ne hd]
            exact hl2 d
        · left
          simp only [look_putRepo, hr, if_false]
          exact hl1 r d
  | pushChunked r0 =>
    simp only [step]
    split
    · exact Or.inl rfl
    · rename_i s1 rp hm
      refine Or.inl ?_
      simp only [look_setNextID]
      exact look_putRepo_make (·.blobs) rfl hm (by rfl) r d
  | resume r0 id offset =>
    simp only [step]
    split
    · exact Or.inl rfl
    · rename_i s1 rp hm
      repeat' split
      all_goals refine Or.inl ?_
      all_goals try simp only [look_setNextID]
      all_goals exact look_putRepo_make (·.blobs) rfl hm (by rfl) r d
  | wWrite r0 id data =>
    simp only [step]
    split
    · exact Or.inl rfl
    · rename_i rp b hb
      split
      · exact Or.inl rfl
      · exact Or.inl (look_putRepo_same (·.blobs) (getBuffer_spec hb).1 (by rfl) r d)
  | wSize r0 id => simp only [step]; split <;> exact Or.inl rfl
  | wCancel r0 id =>
    simp only [step]
    split
    · exact Or.inl rfl
    · rename_i rp b hb
      exact Or.inl (look_putRepo_same (·.blobs) (getBuffer_spec hb).1 (by rfl) r d)
  | wCommit r0 id dig =>
    simp only [step]
    split
    · exact Or.inl rfl
    · rename_i rp b hb
      have hg := (getBuffer_spec hb).1
      split
      · exact Or.inl rfl
      · split
        · exact Or.inl (look_putRepo_same (·.blobs) hg (by rfl) r d)
        · by_cases hr : r0 = r
          · subst hr
            by_cases hd : dig = d
            · subst hd
              refine Or.inr (Or.inr (Or.inl ⟨id, rp, b, rfl, hb, rfl, ?_⟩))
              simp [look_putRepo, alookup_ainsert_eq]
            · left
              simp only [look_putRepo, if_true, alookup_ainsert_ne hd]
              exact (look_of_getRepo (·.blobs) hg d).symm
          · left
            simp only [look_putRepo, hr, if_false]
  | mount fromR toR d0 =>
    simp only [step]
    split
    · exact Or.inl rfl
    · rename_i s1 rp hm
      have ⟨hl1, hl2⟩ := look_makeRepo (·.blobs) rfl hm
      split
      · exact Or.inl (hl1 r d)
      · rename_i b hb
        split
        · exact Or.inl (hl1 r d)
        · rename_i rto hgt
          by_cases hr : toR = r
          · subst hr
            by_cases hd : d0 = d
            · subst hd
              refine Or.inr (Or.inr (Or.inr (Or.inl ⟨fromR, b, rfl, ?_, rfl, ?_⟩)))
              · obtain ⟨rpf, hgf, hlf⟩ := blobFor_ok.mp hb
                have e1 : look (·.blobs) s1 fromR d0 = some b := by rw [look_of_getRepo _ hgf]; exact hlf
                rw [hl1] at e1
                unfold look at e1
                cases hgs : getRepo s fromR with
                | none => simp [hgs] at e1
                | some rps => simp [hgs] at e1; exact blobFor_ok.mpr ⟨rps, hgs, e1⟩
              · simp [look_putRepo, alookup_ainsert_eq]
            · left
              simp only [look_putRepo, if_true, alookup_ainsert_ne hd]
              rw [← look_of_getRepo (·.blobs) hgt d]; exact hl1 _ d
          · left
            simp only [look_putRepo, hr, if_false]
            exact hl1 r d
  | pushManifest r0 t data mt dec =>
    rcases pushManifest_spec H s r0 t data mt dec with
      ⟨e, s1, hst, hs1⟩ | ⟨rp, cur, _, _, _, _, _, _, _, _, hst⟩ |
      ⟨s1, rp, rs, subj, hm, _, _, _, _, _, _, hst⟩
    · rw [hst]
      rcases hs1 with rfl | ⟨rp, hm⟩
      · exact Or.inl rfl
      · exact Or.inl ((look_makeRepo (·.blobs) rfl hm).1 r d)
    · rw [hst]; exact Or.inl rfl
    · rw [hst]
      exact Or.inl (look_putRepo_make (·.blobs) rfl hm (by rfl) r d)
  | deleteBlob r0 d0 =>
    simp only [step]
    split
    · exact Or.inl rfl
    · split
      · exact Or.inl rfl
      · rename_i rp hg
        split
        · exact Or.inl rfl
        · by_cases hr : r0 = r
          · subst hr
            by_cases hd : d0 = d
            · subst hd
              refine Or.inr (Or.inr (Or.inr (Or.inr ⟨rfl, rfl, ?_⟩)))
              simp [look_putRepo, alookup_aerase_eq]
            · left
              simp only [look_putRepo, if_true, alookup_aerase_ne hd]
              exact (look_of_getRepo (·.blobs) hg d).symm
          · left
            simp only [look_putRepo, hr, if_false]
  | deleteManifest r0 d0 =>
    simp only [step]
    split
    · exact Or.inl rfl
    · split
      · exact Or.inl rfl
      · rename_i rp hg
        split
        · exact Or.inl rfl
        · exact Or.inl (look_putRepo_same (·.blobs) hg (by rfl) r d)
  | deleteTag r0 t =>
    simp only [step]
    split
    · exact Or.inl rfl
    · rename_i rp hg
      split
      · exact Or.inl rfl
      · split
        · exact Or.inl rfl
        · exact Or.inl (look_putRepo_same (·.blobs) hg (by rfl) r d)
  | repositories start => exact Or.inl rfl
  | tags r0 start => simp only [step]; split <;> exact Or.inl rfl
  | referrers r0 d0 => simp only [step]; split <;> exact Or.inl rfl




theorem manifest_frame (s : State) (op : Op) (r d : Bytes) :
    look (·.manifests) (step H s op).1 r d = look (·.manifests) s r d
    ∨ (∃ t data mt dec rs subj, op = .pushManifest r t data mt dec ∧ H data = d
        ∧ (step H s op).2 = .okDesc ⟨mt, d, data.length⟩
        ∧ decRefs dec = some rs ∧ checkRefs ((getRepo s r).getD emptyRepo) rs [] = some subj
        ∧ look (·.manifests) (step H s op).1 r d = some ⟨mt, data, subj, rs⟩)
    ∨ (op = .deleteManifest r d ∧ (step H s op).2 = .okUnit
        ∧ look (·.manifests) (step H s op).1 r d = none) := by
  cases op with
  | getBlob r0 d0 => simp only [step]; split <;> exact Or.inl rfl
  | getBlobRange r0 d0 o0 o1 => simp only [step]; repeat' split
                                all_goals exact Or.inl rfl
  | getManifest r0 d0 => simp only [step]; split <;> exact Or.inl rfl
  | getTag r0 t => simp only [step]; repeat' split
                   all_goals exact Or.inl rfl
  | resolveBlob r0 d0 => simp only [step]; split <;> exact Or.inl rfl
  | resolveManifest r0 d0 => simp only [step]; split <;> exact Or.inl rfl
  | resolveTag r0 t => simp only [step]; repeat' split
                       all_goals exact Or.inl rfl
  | pushBlob r0 desc data =>
    simp only [step]
    split
    · exact Or.inl rfl
    · split
      · exact Or.inl rfl
      · rename_i s1 rp hm
        exact Or.inl (look_putRepo_make (·.manifests) rfl hm (by rfl) r d)
  | pushChunked r0 =>
    simp only [step]
    split
    · exact Or.inl rfl
    · rename_i s1 rp hm
      refine Or.inl ?_
      simp only [look_setNextID]
      exact look_putRepo_make (·.manifests) rfl hm (by rfl) r d
  | resume r0 id offset =>
    simp only [step]
    split
    · exact Or.inl rfl
    · rename_i s1 rp hm
      repeat' split
      all_goals refine Or.inl ?_
      all_goals try simp only [look_setNextID]
      all_goals exact look_putRepo_make (·.manifests) rfl hm (by rfl) r d
  | wWrite r0 id data =>
    simp only [step]
    split
    · exact Or.inl rfl
    · rename_i rp b hb
      split
      · exact Or.inl rfl
      · exact Or.inl (look_putRepo_same (·.manifests) (getBuffer_spec hb).1 (by rfl) r d)
  | wSize r0 id => simp only [step]; split <;> exact Or.inl rfl
  | wCancel r0 id =>
    simp only [step]
    split
    · exact Or.inl rfl
    · rename_i rp b hb
      exact Or.inl (look_putRepo_same (·.manifests) (getBuffer_spec hb).1 (by rfl) r d)
  | wCommit r0 id dig =>
    simp only [step]
    split
    · exact Or.inl rfl
    · rename_i rp b hb
      have hg := (getBuffer_spec hb).1
      split
      · exact Or.inl rfl
      · split
        · exact Or.inl (look_putRepo_same (·.manifests) hg (by rfl) r d)
        · exact Or.inl (look_putRepo_same (·.manifests) hg (by rfl) r d)
  | mount fromR toR d0 =>
    simp only [step]
    split
    · exact Or.inl rfl
    · rename_i s1 rp hm
      have ⟨hl1, hl2⟩ := look_makeRepo (·.manifests) rfl hm
      split
      · exact Or.inl (hl1 r d)
      · split
        · exact Or.inl (hl1 r d)
        · rename_i rto hgt
          left
          show look (·.manifests) (putRepo s1 toR _) r d = _
          rw [look_putRepo_same (·.manifests) hgt (by rfl)]; exact hl1 r d
  | pushManifest r0 t data mt dec =>
    rcases pushManifest_spec H s r0 t data mt dec with
      ⟨e, s1, hst, hs1⟩ | ⟨rp, cur, _, _, _, _, _, _, _, _, hst⟩ |
      ⟨s1, rp, rs, subj, hm, _, _, _, _, hdec, hchk, hst⟩
    · rw [hst]
      rcases hs1 with hs1 | ⟨rp, hm⟩
      · subst hs1; exact Or.inl rfl
      · exact Or.inl ((look_makeRepo (·.manifests) rfl hm).1 r d)
    · rw [hst]; exact Or.inl rfl
    · rw [hst]
      have ⟨hl1, hl2⟩ := look_makeRepo (·.manifests) rfl hm
      by_cases hr : r0 = r
      · subst hr
        by_cases hd : H data = d
        · subst hd
          refine Or.inr (Or.inl ⟨t, data, mt, dec, rs, subj, rfl, rfl, rfl, hdec, ?_, ?_⟩)
          · rw [← makeRepo_rp hm]; exact hchk
          · simp [look_putRepo, alookup_ainsert_eq]
        · left
          simp only [look_putRepo, if_true, storeManifest_manifests, alookup_ainsert_ne hd]
          exact hl2 d
      · left
        simp only [look_putRepo, hr, if_false]
        exact hl1 r d
  | deleteBlob r0 d0 =>
    simp only [step]
    split
    · exact Or.inl rfl
    · split
      · exact Or.inl rfl
      · rename_i rp hg
        split
        · exact Or.inl rfl
        · exact Or.inl (look_putRepo_same (·.manifests) hg (by rfl) r d)
  | deleteManifest r0 d0 =>
    simp only [step]
    split
    · exact Or.inl rfl
    · split
      · exact Or.inl rfl
      · rename_i rp hg
        split
        · exact Or.inl rfl
        · by_cases hr : r0 = r
          · subst hr
            by_cases hd : d0 = d
            · subst hd
              refine Or.inr (Or.inr ⟨rfl, rfl, ?_⟩)
              simp [look_putRepo, alookup_aerase_eq]
            · left
              simp only [look_putRepo, if_true, alookup_aerase_ne hd]
              exact (look_of_getRepo (·.manifests) hg d).symm
          · left
            simp only [look_putRepo, hr, if_false]
  | deleteTag r0 t =>
    simp only [step]
    split
    · exact Or.inl rfl
    · rename_i rp hg
      split
      · exact Or.inl rfl
      · split
        · exact Or.inl rfl
        · exact Or.inl (look_putRepo_same (·.manifests) hg (by rfl) r d)
  | repositories start => exact Or.inl rfl
  | tags r0 start => simp only [step]; split <;> exact Or.inl rfl
  | referrers r0 d0 => simp only [step]; split <;> exact Or.inl rfl

theorem tag_frame (s : State) (op : Op) (r d : Bytes) :
    look (·.tags) (step H s op).1 r d = look (·.tags) s r d
    ∨ (∃ data mt dec, op = .pushManifest r d data mt dec ∧ d ≠ []
        ∧ (step H s op).2 = .okDesc ⟨mt, H data, data.length⟩
        ∧ look (·.tags) (step H s op).1 r d = some ⟨mt, H data, data.length⟩)
    ∨ (op = .deleteTag r d ∧ (step H s op).2 = .okUnit
        ∧ look (·.tags) (step H s op).1 r d = none) := by
  cases op with
  | getBlob r0 d0 => simp only [step]; split <;> exact Or.inl rfl
  | getBlobRange r0 d0 o0 o1 => simp only [step]; repeat' split
                                all_goals exact Or.inl rfl
  | getManifest r0 d0 => simp only [step]; split <;> exact Or.inl rfl
  | getTag r0 t => simp only [step]; repeat' split
                   all_goals exact Or.inl rfl
  | resolveBlob r0 d0 => simp only [step]; split <;> exact Or.inl rfl
  | resolveManifest r0 d0 => simp only [step]; split <;> exact Or.inl rfl
  | resolveTag r0 t => simp only [step]; repeat' split
                       all_goals exact Or.inl rfl
  | pushBlob r0 desc data =>
    simp only [step]
    split
    · exact Or.inl rfl
    · split
      · exact Or.inl rfl
      · rename_i s1 rp hm
        exact Or.inl (look_putRepo_make (·.tags) rfl hm (by rfl) r d)
  | pushChunked r0 =>
    simp only [step]
    split
    · exact Or.inl rfl
    · rename_i s1 rp hm
      refine Or.inl ?_
      simp only [look_setNextID]
      exact look_putRepo_make (·.tags) rfl hm (by rfl) r d
  | resume r0 id offset =>
    simp only [step]
    split
    · exact Or.inl rfl
    · rename_i s1 rp hm
      repeat' split
      all_goals refine Or.inl ?_
      all_goals try simp only [look_setNextID]
      all_goals exact look_putRepo_make (·.tags) rfl hm (by rfl) r d
  | wWrite r0 id data =>
    simp only [step]
    split
    · exact Or.inl rfl
    · rename_i rp b hb
      split
      · exact Or.inl rfl
      · exact Or.inl (look_putRepo_same (·.tags) (getBuffer_spec hb).1 (by rfl) r d)
  | wSize r0 id => simp only [step]; split <;> exact Or.inl rfl
  | wCancel r0 id =>
    simp only [step]
    split
    · exact Or.inl rfl
    · rename_i rp b hb
      exact Or.inl (look_putRepo_same (·.tags) (getBuffer_spec hb).1 (by rfl) r d)
  | wCommit r0 id dig =>
    simp only [step]
    split
    · exact Or.inl rfl
    · rename_i rp b hb
      have hg := (getBuffer_spec hb).1
      split
      · exact Or.inl rfl
      · split
        · exact Or.inl (look_putRepo_same (·.tags) hg (by rfl) r d)
        · exact Or.inl (look_putRepo_same (·.tags) hg (by rfl) r d)
  | mount fromR toR d0 =>
    simp only [step]
    split
    · exact Or.inl rfl
    · rename_i s1 rp hm
      have ⟨hl1, hl2⟩ := look_makeRepo (·.tags) rfl hm
      split
      · exact Or.inl (hl1 r d)
      · split
        · exact Or.inl (hl1 r d)
        · rename_i rto hgt
          left
          show look (·.tags) (putRepo s1 toR _) r d = _
          rw [look_putRepo_same (·.tags) hgt (by rfl)]; exact hl1 r d
  | pushManifest r0 t data mt dec =>
    rcases pushManifest_spec H s r0 t data mt dec with
      ⟨e, s1, hst, hs1⟩ | ⟨rp, cur, _, _, _, _, _, _, _, _, hst⟩ |
      ⟨s1, rp, rs, subj, hm, _, _, _, _, hdec, hchk, hst⟩
    · rw [hst]
      rcases hs1 with hs1 | ⟨rp, hm⟩
      · subst hs1; exact Or.inl rfl
      · exact Or.inl ((look_makeRepo (·.tags) rfl hm).1 r d)
    · rw [hst]; exact Or.inl rfl
    · rw [hst]
      have ⟨hl1, hl2⟩ := look_makeRepo (·.tags) rfl hm
      by_cases hr : r0 = r
      · subst hr
        by_cases ht : t = []
        · left
          simp only [look_putRepo, if_true, storeManifest_tags, ht, ne_eq, not_true_eq_false, if_false]
          exact hl2 d
        · by_cases hd : t = d
          · subst hd
            refine Or.inr (Or.inl ⟨data, mt, dec, rfl, ht, rfl, ?_⟩)
            simp [look_putRepo, ht, alookup_ainsert_eq]
          · left
            simp only [look_putRepo, if_true, storeManifest_tags, ne_eq, ht, not_false_eq_true, alookup_ainsert_ne hd]
            exact hl2 d
      · left
        simp only [look_putRepo, hr, if_false]
        exact hl1 r d
  | deleteBlob r0 d0 =>
    simp only [step]
    split
    · exact Or.inl rfl
    · split
      · exact Or.inl rfl
      · rename_i rp hg
        split
        · exact Or.inl rfl
        · exact Or.inl (look_putRepo_same (·.tags) hg (by rfl) r d)
  | deleteManifest r0 d0 =>
    simp only [step]
    split
    · exact Or.inl rfl
    · split
      · exact Or.inl rfl
      · rename_i rp hg
        split
        · exact Or.inl rfl
        · exact Or.inl (look_putRepo_same (·.tags) hg (by rfl) r d)
  | deleteTag r0 t =>
    simp only [step]
    split
    · exact Or.inl rfl
    · rename_i rp hg
      split
      · exact Or.inl rfl
      · split
        · exact Or.inl rfl
        · by_cases hr : r0 = r
          · subst hr
            by_cases hd : t = d
            · subst hd
              refine Or.inr (Or.inr ⟨rfl, rfl, ?_⟩)
              simp [look_putRepo, alookup_aerase_eq]
            · left
              simp only [look_putRepo, if_true, alookup_aerase_ne hd]
              exact (look_of_getRepo (·.tags) hg d).symm
          · left
            simp only [look_putRepo, hr, if_false]
  | repositories start => exact Or.inl rfl
  | tags r0 start => simp only [step]; split <;> exact Or.inl rfl
  | referrers r0 d0 => simp only [step]; split <;> exact Or.inl rfl


/-! ### Read operations -/

theorem inv_blobFor {s : State} {r d : Bytes} {b : Blob} (hs : Inv H s) (h : blobFor s r d = .ok b) :
    H b.data = d := by
  obtain ⟨rp, hg, hl⟩ := blobFor_ok.mp h
  exact (hs r rp hg).1 d b hl

theorem inv_manifestFor {s : State} {r d : Bytes} {b : Blob} (hs : Inv H s) (h : manifestFor s r d = .ok b) :
    H b.data = d := by
  obtain ⟨rp, hg, hl⟩ := manifestFor_ok.mp h
  exact (hs r rp hg).2 d b hl

theorem step_getBlob_okRead {s s' : State} {r d : Bytes} {desc : Desc} {data : Bytes}
    (h : step H s (.getBlob r d) = (s', .okRead desc data)) :
    s' = s ∧ ∃ b, blobFor s r d = .ok b ∧ desc = descOf H b ∧ data = b.data := by
  simp only [step] at h
  split at h
  · cases h
  · rename_i b hb
    cases h
    exact ⟨rfl, b, hb, rfl, rfl⟩

theorem step_getManifest_okRead {s s' : State} {r d : Bytes} {desc : Desc} {data : Bytes}
    (h : step H s (.getManifest r d) = (s', .okRead desc data)) :
    s' = s ∧ ∃ b, manifestFor s r d = .ok b ∧ desc = descOf H b ∧ data = b.data := by
  simp only [step] at h
  split at h
  · cases h
  · rename_i b hb
    cases h
    exact ⟨rfl, b, hb, rfl, rfl⟩

theorem step_getTag_okRead {s s' : State} {r t : Bytes} {desc : Desc} {data : Bytes}
    (h : step H s (.getTag r t) = (s', .okRead desc data)) :
    s' = s ∧ ∃ rp td b, getRepo s r = some rp ∧ alookup t rp.tags = some td ∧
      alookup td.digest rp.manifests = some b ∧ desc = descOf H b ∧ data = b.data := by
  simp only [step] at h
  split at h
  · cases h
  · rename_i rp hg
    split at h
    · cases h
    · rename_i td ht
      split at h
      · cases h
      · rename_i b hb
        cases h
        exact ⟨rfl, rp, td, b, hg, ht, hb, rfl, rfl⟩

theorem step_resolveBlob_okDesc {s s' : State} {r d : Bytes} {desc : Desc}
    (h : step H s (.resolveBlob r d) = (s', .okDesc desc)) :
    s' = s ∧ ∃ b, blobFor s r d = .ok b ∧ desc = descOf H b := by
  simp only [step] at h
  split at h
  · cases h
  · rename_i b hb
    cases h
    exact ⟨rfl, b, hb, rfl⟩

theorem step_resolveManifest_okDesc {s s' : State} {r d : Bytes} {desc : Desc}
    (h : step H s (.resolveManifest r d) = (s', .okDesc desc)) :
    s' = s ∧ ∃ b, manifestFor s r d = .ok b ∧ desc = descOf H b := by
  simp only [step] at h
  split at h
  · cases h
  · rename_i b hb
    cases h
    exact ⟨rfl, b, hb, rfl⟩

theorem step_getBlobRange_okRead {s s' : State} {r d : Bytes} {o0 o1 : Int} {desc : Desc} {data : Bytes}
    (h : step H s (.getBlobRange r d o0 o1) = (s', .okRead desc data)) :
    s' = s ∧ ∃ b, blobFor s r d = .ok b ∧ desc = descOf H b ∧ 0 ≤ o0 ∧
      o0 ≤ (if o1 < 0 ∨ o1 > b.data.length then (b.data.length : Int) else o1) ∧
      data = (b.data.drop o0.toNat).take
        ((if o1 < 0 ∨ o1 > b.data.length then (b.data.length : Int) else o1) - o0).toNat := by
  simp only [step] at h
  split at h
  · cases h
  · rename_i b hb
    refine (fun (hgen : ∀ o1' : Int, (if o0 < 0 ∨ o0 > o1' then (s, Out.err "ERR")
          else (s, Out.okRead (descOf H b) ((b.data.drop o0.toNat).take (o1' - o0).toNat)))
          = (s', Out.okRead desc data) →
          s' = s ∧ ∃ b', blobFor s r d = .ok b' ∧ desc = descOf H b' ∧ 0 ≤ o0 ∧ o0 ≤ o1' ∧
            data = (b.data.drop o0.toNat).take (o1' - o0).toNat ∧ b' = b) => ?_) ?_
    · obtain ⟨h1, b', h2, h3, h4, h5, h6, h7⟩ := hgen _ h
      subst h7
      exact ⟨h1, b', h2, h3, h4, h5, h6⟩
    · intro o1' h
      split at h
      · cases h
      · rename_i hcond
        cases h
        have hc := not_or.mp hcond
        exact ⟨rfl, b, hb, rfl, Int.not_lt.mp hc.1, Int.not_lt.mp hc.2, rfl, rfl⟩

/-! ### Push then read -/

theorem push_then_get {s s1 : State} {r : Bytes} {desc dd : Desc} {data : Bytes}
    (h : step H s (.pushBlob r desc data) = (s1, .okDesc dd)) :
    step H s1 (.getBlob r desc.digest) = (s1, .okRead ⟨desc.mediaType, H data, data.length⟩ data) := by
  simp only [step] at h
  split at h
  · cases h
  · split at h
    · cases h
    · cases h
      simp [step, blobFor, getRepo_putRepo_eq, alookup_ainsert_eq, descOf]

theorem push_mismatch_rejected (s : State) (r : Bytes) {desc : Desc} {data : Bytes}
    (h : H data ≠ desc.digest ∨ desc.size ≠ data.length) :
    ∃ e, step H s (.pushBlob r desc data) = (s, .err e) := by
  obtain ⟨e, he⟩ := checkDescData_mismatch H h
  exact ⟨e, by simp [step, he]⟩

theorem getRepo_putRepo_map {γ} (f : Repo → γ) {s : State} {r : Bytes} {rp rp' : Repo}
    (hg : getRepo s r = some rp) (hf : f rp' = f rp) (r' : Bytes) :
    (getRepo (putRepo s r rp') r').map f = (getRepo s r').map f := by
  rw [getRepo_putRepo]
  by_cases h : r = r'
  · subst h; simp [hg, hf]
  · simp [h]

theorem commit_mismatch_stores_nothing {s : State} {r id dig : Bytes} {rp : Repo} {b : Buffer}
    (hb : getBuffer s r id = some (rp, b)) (hne : H b.buf ≠ dig) :
    (∃ e, (step H s (.wCommit r id dig)).2 = .err e) ∧
    ∀ r', (getRepo (step H s (.wCommit r id dig)).1 r').map (·.blobs) = (getRepo s r').map (·.blobs) ∧
          (getRepo (step H s (.wCommit r id dig)).1 r').map (·.manifests) = (getRepo s r').map (·.manifests) ∧
          (getRepo (step H s (.wCommit r id dig)).1 r').map (·.tags) = (getRepo s r').map (·.tags) := by
  have hg := (getBuffer_spec hb).1
  simp only [step, hb]
  split
  · exact ⟨⟨_, rfl⟩, fun r' => ⟨rfl, rfl, rfl⟩⟩
  · rw [if_pos hne]
    refine ⟨⟨_, rfl⟩, fun r' => ⟨?_, ?_, ?_⟩⟩
    · exact getRepo_putRepo_map (·.blobs) hg (by rfl) r'
    · exact getRepo_putRepo_map (·.manifests) hg (by rfl) r'
    · exact getRepo_putRepo_map (·.tags) hg (by rfl) r'

/-! ### Manifest push: what acceptance implies, and what the tag then resolves to -/

theorem checkRefs_some {rp : Repo} {rs : List RefInfo} {subj0 subj : Bytes}
    (h : checkRefs rp rs subj0 = some subj) :
    ∀ ref ∈ rs, checkDescNil ref.desc = true ∧
      (ref.kind = 0 → (alookup ref.desc.digest rp.blobs).isSome = true) ∧
      (ref.kind = 1 → (alookup ref.desc.digest rp.manifests).isSome = true) := by
  induction rs generalizing subj0 with
  | nil => intro ref hr; cases hr
  | cons x xs ih =>
    unfold checkRefs at h
    cases hc : checkDescNil x.desc
    · simp [hc] at h
    · simp only [hc, Bool.not_true, Bool.false_eq_true, if_false] at h
      by_cases h0 : x.kind = 0
      · simp only [h0, if_true] at h
        cases hb : (alookup x.desc.digest rp.blobs).isSome
        · simp [hb] at h
        · simp only [hb, if_true] at h
          intro ref hr
          rcases List.mem_cons.mp hr with rfl | hr
          · exact ⟨hc, fun _ => hb, fun h1 => by omega⟩
          · exact ih h ref hr
      · simp only [h0, if_false] at h
        by_cases h1 : x.kind = 1
        · simp only [h1, if_true] at h
          cases hb : (alookup x.desc.digest rp.manifests).isSome
          · simp [hb] at h
          · simp only [hb, if_true] at h
            intro ref hr
            rcases List.mem_cons.mp hr with rfl | hr
            · exact ⟨hc, fun h => absurd h h0, fun _ => hb⟩
            · exact ih h ref hr
        · simp only [h1, if_false] at h
          intro ref hr
          rcases List.mem_cons.mp hr with rfl | hr
          · exact ⟨hc, fun h => absurd h h0, fun h => absurd h h1⟩
          · exact ih h ref hr

theorem step_resolveTag_of {s : State} {r t : Bytes} {rp : Repo} {td : Desc}
    (hg : getRepo s r = some rp) (ht : alookup t rp.tags = some td) :
    step H s (.resolveTag r t) = (s, .okDesc td) := by
  simp [step, hg, ht]

theorem step_getTag_of {s : State} {r t : Bytes} {rp : Repo} {td : Desc} {b : Blob}
    (hg : getRepo s r = some rp) (ht : alookup t rp.tags = some td)
    (hb : alookup td.digest rp.manifests = some b) :
    step H s (.getTag r t) = (s, .okRead (descOf H b) b.data) := by
  simp [step, hg, ht, hb]

theorem tag_resolves_last_push {s s1 : State} {r t data mt : Bytes} {dec : Decoded} {dd : Desc}
    (h : step H s (.pushManifest r t data mt dec) = (s1, .okDesc dd)) (ht : t ≠ []) :
    step H s1 (.resolveTag r t) = (s1, .okDesc dd) ∧ dd.digest = H data := by
  rcases pushManifest_spec H s r t data mt dec with
    ⟨e, s2, hst, _⟩ | ⟨rp, cur, _, _, _, _, hg, hl, hd, _, hst⟩ |
    ⟨s2, rp, rs, subj, hm, _, _, _, _, _, _, hst⟩
  · rw [hst] at h; cases h
  · rw [hst] at h; cases h
    exact ⟨step_resolveTag_of H hg hl, hd⟩
  · rw [hst] at h; cases h
    refine ⟨step_resolveTag_of H (getRepo_putRepo_eq _ _ _) ?_, rfl⟩
    simp [ht, alookup_ainsert_eq]

theorem tag_gets_last_push {s s1 : State} {r t data mt : Bytes} {dec : Decoded} {dd : Desc}
    (h : step H s (.pushManifest r t data mt dec) = (s1, .okDesc dd)) (ht : t ≠ [])
    (hfresh : s.immutableTags = false ∨ ∀ rp, getRepo s r = some rp → alookup t rp.tags = none) :
    step H s1 (.getTag r t) = (s1, .okRead ⟨mt, H data, data.length⟩ data) := by
  rcases pushManifest_spec H s r t data mt dec with
    ⟨e, s2, hst, _⟩ | ⟨rp, cur, _, hi, _, _, hg, hl, hd, _, hst⟩ |
    ⟨s2, rp, rs, subj, hm, _, _, _, _, _, _, hst⟩
  · rw [hst] at h; cases h
  · rcases hfresh with hf | hf
    · rw [hi] at hf; cases hf
    · rw [hf rp hg] at hl; cases hl
  · rw [hst] at h; cases h
    have := step_getTag_of H (s := putRepo s2 r (storeManifest rp t ⟨mt, H data, data.length⟩ ⟨mt, data, subj, rs⟩))
      (r := r) (t := t) (td := ⟨mt, H data, data.length⟩) (b := ⟨mt, data, subj, rs⟩)
      (getRepo_putRepo_eq _ _ _) (by simp [ht, alookup_ainsert_eq]) (by simp [alookup_ainsert_eq])
    exact this

theorem manifest_accepted_only_if {s s1 : State} {r t data mt : Bytes} {dec : Decoded} {dd : Desc}
    (h : step H s (.pushManifest r t data mt dec) = (s1, .okDesc dd)) :
    Ref.isRepo r = true ∧ (t = [] ∨ Ref.isTag t = true) ∧
    ((s1 = s ∧ t ≠ [] ∧ s.immutableTags = true ∧
        ∃ rp, getRepo s r = some rp ∧ alookup t rp.tags = some dd ∧ dd.digest = H data ∧ dd.mediaType = mt)
     ∨ (dd = ⟨mt, H data, data.length⟩ ∧ Ref.isDigest (H data) = true ∧ mt ≠ [] ∧ dec ≠ .malformed ∧
        retyped s.immutableTags ((getRepo s r).getD emptyRepo) (H data) mt = false ∧
        ∃ rs, decRefs dec = some rs ∧
          ∀ ref ∈ rs, checkDescNil ref.desc = true ∧
            (ref.kind = 0 → (alookup ref.desc.digest ((getRepo s r).getD emptyRepo).blobs).isSome = true) ∧
            (ref.kind = 1 → (alookup ref.desc.digest ((getRepo s r).getD emptyRepo).manifests).isSome = true))) := by
  rcases pushManifest_spec H s r t data mt dec with
    ⟨e, s2, hst, _⟩ | ⟨rp, cur, ht, hi, hrepo, htag, hg, hl, hd, hmt, hst⟩ |
    ⟨s2, rp, rs, subj, hm, htag, _, hre, hcd, hdec, hchk, hst⟩
  · rw [hst] at h; cases h
  · rw [hst] at h; cases h
    exact ⟨hrepo, Or.inr htag, Or.inl ⟨rfl, ht, hi, rp, hg, hl, hd, hmt⟩⟩
  · rw [hst] at h; cases h
    have hc := checkDescData_none H hcd
    refine ⟨(makeRepo_spec hm).1, htag, Or.inr ⟨rfl, hc.1, hc.2.2.2, ?_, by rw [← makeRepo_rp hm]; exact hre, rs, hdec, ?_⟩⟩
    · intro hmal; subst hmal; simp [decRefs] at hdec
    · rw [← makeRepo_rp hm]; exact checkRefs_some hchk

end OciModel.Mem
