/-
The specification side of the composed model (`OciModel/Wire.lean`): which call the backend is to receive
(`onWire`), what the caller is to get for the backend's answer (`expect`: the answer restricted to what the
wire carries), the calls and answers the statements quantify over (`WF`, `Carriable`), and the property's
equivalence between a caller's result and a backend's answer (`Equiv`).
Core Lean only.
-/
import OciModel.Wire

namespace OciModel.Wire
open OciModel OciModel.Ref OciModel.ReqCodec OciModel.RespCodec
open OciModel.ErrCodec (Err)

/-! ## The call the backend receives -/

/-- The call as the backend behind the server receives it. It is the caller's call, except for what the
protocol has no place for:
* chunk-size hints are not sent: the backend gets `0` for a new upload or an upload-info query, and the
  length of the data for a chunk;
* `GetBlobRange(0, <0)` is a plain GET, i.e. `GetBlob`; a range open at the end arrives as `-1`. -/
def onWire : Call → Call
  | .getBlobRange repo dg o0 o1 =>
    if o0 = 0 ∧ o1 < 0 then .getBlob repo dg
    else if o1 < 0 then .getBlobRange repo dg o0 (-1)
    else .getBlobRange repo dg o0 o1
  | .startUpload repo _ => .startUpload repo 0
  | .uploadInfo repo id _ => .uploadInfo repo id 0
  | .uploadChunk repo id start _ data => .uploadChunk repo id start data.length data
  | .uploadCommit repo id start _ data dg => .uploadCommit repo id start data.length data dg
  | c => c

/-- Calls that carry no hint and no range: for these `onWire` is the identity. -/
def Call.plain : Call → Bool
  | .getBlobRange .. | .startUpload .. | .uploadInfo .. | .uploadChunk .. | .uploadCommit .. => false
  | _ => true

/-- The calls answered by one request that leads to one backend call (under the given options).
`PushBlob` is POST-then-PUT, a listing is one request per page, and a tag GET against a server that
omits the digest may need a HEAD as well: these have their own statements. -/
def Single (cfg : Cfg) : Call → Prop
  | .pushBlob .. | .tags .. | .repositories .. => False
  | .getTag .. => cfg.o.omitDigest = false
  | .referrers .. => cfg.o.disableReferrers = false
  | _ => True

/-! ## Well-formed calls -/

def okSize (n : Int) : Prop := 0 ≤ n ∧ n ≤ maxI64

def okID (id : Bytes) : Prop := id ≠ [] ∧ B64Url.validUTF8 id = true

/-- "Well-formed names" (and arguments a Go caller can pass): valid repository names, tags and digests;
offsets that fit an `int64`; a ranged read asks for a non-empty range (the empty one is finding F3:
`getBlobRange_empty_exception`); a pushed blob has the length its descriptor says (the client refuses
anything else before the PUT); a manifest is pushed with a media type; an upload ID is a non-empty string. -/
def WF (cfg : Cfg) : Call → Prop
  | .getBlob repo dg | .getManifest repo dg | .resolveBlob repo dg | .resolveManifest repo dg
  | .deleteBlob repo dg | .deleteManifest repo dg | .referrers repo dg => isRepo repo = true ∧ isDigest dg = true
  | .getBlobRange repo dg o0 o1 =>
    isRepo repo = true ∧ isDigest dg = true ∧ okSize o0 ∧ o1 ≤ maxI64 ∧ (o1 < 0 ∨ o0 < o1)
  | .getTag repo tag | .resolveTag repo tag | .deleteTag repo tag => isRepo repo = true ∧ isTag tag = true
  | .pushBlob repo d content =>
    isRepo repo = true ∧ isDigest d.digest = true ∧ (content.length : Int) = d.size ∧ d.size ≤ maxI64
  | .pushManifest repo tag content mt =>
    isRepo repo = true ∧ (tag = [] ∨ isTag tag = true) ∧ mt ≠ [] ∧ isDigest (cfg.H content) = true
  | .mountBlob fromRepo toRepo dg => isRepo fromRepo = true ∧ isRepo toRepo = true ∧ isDigest dg = true
  | .startUpload repo _ => isRepo repo = true
  | .uploadInfo repo id _ => isRepo repo = true ∧ okID id
  | .uploadChunk repo id start _ data =>
    isRepo repo = true ∧ okID id ∧ 0 ≤ start ∧ data ≠ [] ∧ start + data.length ≤ maxI64
  | .uploadCommit repo id start _ data dg =>
    isRepo repo = true ∧ okID id ∧ 0 ≤ start ∧ start + data.length ≤ maxI64 ∧ isDigest dg = true
  | .tags repo _ => isRepo repo = true
  | .repositories _ => True

/-! ## Answers the headers can carry -/

/-- The backend's answer has the type of the call (Go's type system guarantees it) and its numbers and names
are ones the headers can carry: sizes fit an `int64`, a descriptor's digest is a digest wherever the
`Docker-Content-Digest` header is how it travels, an upload ID is a non-empty UTF-8 string
(`MustConstruct` panics otherwise: `C03R.location_needs_valid_id`). Errors are unrestricted. -/
def Carriable (cfg : Cfg) : Call → Answer → Prop
  | _, .err _ => True
  | .getBlob .., .ok (.reader d _) => okSize d.size
  | .getBlobRange .., .ok (.reader d _) => okSize d.size
  | .getManifest .., .ok (.reader d _) | .getTag .., .ok (.reader d _) =>
    okSize d.size ∧ (cfg.o.omitDigest = false → isDigest d.digest = true)
  | .resolveBlob .., .ok (.desc d) | .resolveTag .., .ok (.desc d) | .resolveManifest .., .ok (.desc d) =>
    okSize d.size ∧ isDigest d.digest = true
  | .pushManifest .., .ok (.desc _) => True
  | .mountBlob .., .ok (.desc d) => isDigest d.digest = true
  | .deleteBlob .., .ok .unit | .deleteManifest .., .ok .unit | .deleteTag .., .ok .unit => True
  | .startUpload .., .ok (.writer id _ chunk) => okID id ∧ okSize chunk
  | .uploadInfo .., .ok (.writer id size _) => okID id ∧ okSize size
  | .uploadChunk .., .ok (.writer id _ _) => okID id
  | .uploadCommit .., .ok (.commit _ _) => True
  | .referrers .., .ok (.descs l) => cfg.decIndex (encIndex l) = some l     -- `encoding/json` reads the index back
  | .tags .., .ok (.items _) | .repositories .., .ok (.items _) => True
  | _, _ => False

/-! ## What the caller gets -/

/-- the client's own chunk size after defaulting (ociclient/writer.go:161-163) -/
def ownChunk (c : Int) : Int := if c ≤ 0 then defaultChunkSize else c

/-- `makeError` on what `WriteError` wrote for an error: over a HEAD carrier the body is invisible and a
standard error is made up from the status (finding F11); a body over 8 KiB is not decoded (finding F24);
otherwise the wire error comes back under the status. -/
def faultOf (cfg : Cfg) (head : Bool) (m : Nat × ErrCodec.Wire) : Fault :=
  if head then .reg (ErrCodec.unmarshal cfg.stdMsg true m)
  else if (cfg.errBody m.2).length > errorBodySizeLimit then .reg (.http m.1 (.plain tooLarge))
  else .reg (ErrCodec.unmarshal cfg.stdMsg false m)

def mar (cfg : Cfg) (e : Err) : Nat × ErrCodec.Wire := ErrCodec.marshal cfg.S cfg.C cfg.compact cfg.table e

/-- the calls whose request is a HEAD -/
def Call.isHead : Call → Bool
  | .resolveBlob .. | .resolveManifest .. | .resolveTag .. => true
  | _ => false

/-- the digest a call names (reads, resolves and mounts BY DIGEST): F31 -/
def Call.requested : Call → Option Bytes
  | .getBlob _ dg | .getBlobRange _ dg _ _ | .getManifest _ dg | .resolveBlob _ dg | .resolveManifest _ dg
  | .mountBlob _ _ dg => some dg
  | _ => none

/-- the descriptor of a successful result -/
def Result.desc? : Result → Option Desc
  | .desc d => some d
  | .reader d _ _ => some d
  | _ => none

/-- The backend's successful answer as it arrives: what the wire carries of it. -/
def expectOk (cfg : Cfg) : Call → BRes → Result
  | .getBlob _ dg, .reader d content =>
    .reader { mediaType := orOctetStream d.mediaType, digest := dg, size := d.size } true content
  | .getBlobRange _ dg o0 o1, .reader d content =>
    if o0 = 0 ∧ o1 < 0 then .reader { mediaType := orOctetStream d.mediaType, digest := dg, size := d.size } true content
    else if o0 ≤ d.size then .reader { mediaType := orOctetStream d.mediaType, digest := dg, size := d.size } false content
    else .fail (faultOf cfg false (mar cfg (serrErr .range416)))
  | .getManifest _ dg, .reader d content =>
    -- F31 (client.go `descriptorFromResponse`, reader.go:141): the digest asked for, with or without the header
    .reader { mediaType := orOctetStream d.mediaType, digest := dg, size := d.size } true content
  | .getTag _ _, .reader d content =>
    .reader { mediaType := orOctetStream d.mediaType, digest := d.digest, size := d.size } true content
  -- F31 (reader.go:100 `resolve`): a resolve by digest reports the digest asked for, not the header's
  | .resolveBlob _ dg, .desc d => .desc { mediaType := octetStream, digest := dg, size := d.size }
  | .resolveManifest _ dg, .desc d => .desc { mediaType := orOctetStream d.mediaType, digest := dg, size := d.size }
  | .resolveTag _ _, .desc d => .desc { mediaType := orOctetStream d.mediaType, digest := d.digest, size := d.size }
  | .pushManifest _ _ content mt, .desc _ =>
    .desc { mediaType := mt, digest := cfg.H content, size := content.length }
  -- F31 (writer.go:86 `MountBlob`): the digest asked to be mounted, not the header's
  | .mountBlob _ _ dg, .desc _ => .desc { mediaType := octetStream, digest := dg, size := 0 }
  | .deleteBlob .., .unit | .deleteManifest .., .unit | .deleteTag .., .unit => .unit
  | .startUpload repo cs, .writer id _ chunk =>
    .writer (uploadLoc repo id) (if chunk > ownChunk cs then chunk else ownChunk cs) 0
  | .uploadInfo repo _ cs, .writer id size _ => .writer (uploadLoc repo id) (ownChunk cs) (if size = 1 then 0 else size)
  | .uploadChunk repo _ _ _ _, .writer id _ _ => .writer (uploadLoc repo id) 0 0
  | .uploadCommit _ _ start _ data dg, .commit _ _ =>
    .desc { mediaType := octetStream, digest := dg, size := start + data.length }
  | .referrers _ _, .descs l => .descs l
  | _, _ => .panic       -- an answer of the wrong type (excluded by `Carriable`)

/-- The backend's answer as the caller of the client gets it. -/
def expect (cfg : Cfg) (c : Call) : Answer → Result
  | .ok b => expectOk cfg c b
  | .err e => .fail (faultOf cfg c.isHead (mar cfg e))

/-! ## The property's equivalence -/

/-- The error the caller holds stands for the backend's error `e`: the same status, and — unless the
answer came over a HEAD carrier, which has no body — the same OCI code (`UNKNOWN` for an error that has
none, as `MarshalError` names it). -/
def ErrEquiv (cfg : Cfg) (head : Bool) (f : Fault) (e : Err) : Prop :=
  ∃ e', f = .reg e' ∧ ErrCodec.asHTTP e' = some (ErrCodec.wireStatus cfg.table e) ∧
    (head = false → ErrCodec.codeOf e' = ErrCodec.wireCode e)

/-- calls whose descriptor's media type the protocol carries (manifests; a blob's is not sent) -/
def Call.carriesMediaType : Call → Bool
  | .getManifest .. | .getTag .. | .resolveManifest .. | .resolveTag .. | .pushManifest .. => true
  | _ => false

/-- Same digest, same size, and for manifests the same media type (an empty one reads as the default). -/
def DescEquiv (c : Call) (d' d : Desc) : Prop :=
  d'.digest = d.digest ∧ d'.size = d.size ∧ (c.carriesMediaType = true → d'.mediaType = orOctetStream d.mediaType)

/-- "The same success/failure, the same OCI error code (the same HTTP status for the body-less HEAD-based
resolves), the same descriptor digest, size and media type, and the same bytes." A mount carries the digest
only; an upload's writer is named by the location of the backend's ID. -/
def Equiv (cfg : Cfg) (c : Call) (res : Result) : Answer → Prop
  | .err e => ∃ f, res = .fail f ∧ ErrEquiv cfg c.isHead f e
  | .ok (.desc d) =>
    match c with
    | .mountBlob .. => ∃ d', res = .desc d' ∧ d'.digest = d.digest
    | _ => ∃ d', res = .desc d' ∧ DescEquiv c d' d
  | .ok (.reader d content) => ∃ d' v, res = .reader d' v content ∧ DescEquiv c d' d
  | .ok (.writer id _ _) =>
    match c with
    | .startUpload repo _ | .uploadInfo repo _ _ | .uploadChunk repo _ _ _ _ => ∃ cs off, res = .writer (uploadLoc repo id) cs off
    | _ => False
  | .ok (.commit _ d) => ∃ d', res = .desc d' ∧ DescEquiv c d' d
  | .ok .unit => res = .unit
  | .ok (.items l) => res = .items l none
  | .ok (.descs l) => res = .descs l

/-- The backend's answer agrees with the request, as a registry's does: whatever is read, resolved or mounted
BY DIGEST is described by the digest it was asked for; a pushed manifest by the hash, length and media type of
what was pushed; a committed upload by the digest it was committed under and the bytes written; a range read
starts inside the blob. Where the client does not read the answer but reports its own account (`PushManifest`,
`Commit`) or the digest it asked for (every call by digest, since fix F31), this is what makes the two the same.

F31: `GetManifest` / `ResolveManifest` used to need this only under `OmitDigestFromTagGetResponse`, and
`ResolveBlob` / `MountBlob` not at all (the client reported the `Docker-Content-Digest` header); the client now
reports the digest asked for in all of them (client.go `descriptorFromResponse`: `if knownDigest != "" { digest =
knownDigest }`; callers reader.go:63, :100, :141, writer.go:86). -/
def Faithful (cfg : Cfg) : Call → Answer → Prop
  | .getBlob _ dg, .ok (.reader d _) => d.digest = dg
  | .getBlobRange _ dg o0 _, .ok (.reader d _) => d.digest = dg ∧ o0 ≤ d.size
  | .getManifest _ dg, .ok (.reader d _) => d.digest = dg
  | .resolveBlob _ dg, .ok (.desc d) => d.digest = dg
  | .resolveManifest _ dg, .ok (.desc d) => d.digest = dg
  | .mountBlob _ _ dg, .ok (.desc d) => d.digest = dg
  | .pushManifest _ _ content mt, .ok (.desc d) =>
    d.digest = cfg.H content ∧ d.size = content.length ∧ orOctetStream d.mediaType = mt
  | .uploadCommit _ _ start _ data dg, .ok (.commit _ d) => d.digest = dg ∧ d.size = start + data.length
  | _, _ => True

/-! ## Tables -/

/-- The client's JSON decoders read what the server's encoders write (`encoding/json` is a parameter;
`RespCodec.decTagsImage` / `decCatalogImage` are concrete instances: `C03R.json_tags_round_trip`). -/
def DecodersOK (cfg : Cfg) : Prop :=
  (∀ repo l, cfg.decTags (encTags repo l) = some l) ∧ (∀ l, cfg.decCatalog (encCatalog l) = some l)

/-- Every status of the table is an error status (true of `errorStatuses`: `C03W.generated_table_error_statuses`). -/
def TableOK (table : List (Bytes × Nat)) : Prop := ∀ p ∈ table, 400 ≤ p.2 ∧ p.2 ≤ 599

end OciModel.Wire

namespace OciModel.Wire
open OciModel OciModel.Ref OciModel.ReqCodec OciModel.RespCodec
open OciModel.ErrCodec (Err)

/-! ## The multi-request flows, as calls on the backend -/

/-- What `PushBlob` through the wire amounts to on the backend: the POST-then-PUT of the protocol, i.e. a
new upload that is committed with the whole content in one step (the client does not use the single POST).
The result is the caller's own descriptor. -/
def pushBlobDirect {σ : Type} (cfg : Cfg) (B : SBackend σ) (s : σ) (repo : Bytes) (d : Desc) (content : Bytes) :
    σ × List Call × Result :=
  match (B s (.startUpload repo 0)).2 with
  | .err e => ((B s (.startUpload repo 0)).1, [.startUpload repo 0], .fail (faultOf cfg false (mar cfg e)))
  | .ok (.writer id _ _) =>
    ((B (B s (.startUpload repo 0)).1 (.uploadCommit repo id 0 d.size content d.digest)).1,
     [.startUpload repo 0, .uploadCommit repo id 0 d.size content d.digest],
     match (B (B s (.startUpload repo 0)).1 (.uploadCommit repo id 0 d.size content d.digest)).2 with
     | .err e => .fail (faultOf cfg false (mar cfg e))
     | .ok (.commit _ _) => .desc d
     | .ok _ => .panic)
  | .ok _ => ((B s (.startUpload repo 0)).1, [.startUpload repo 0], .panic)

/-- The answers of the backend in that flow are ones the headers can carry. -/
def pushBlobCarriable {σ : Type} (B : SBackend σ) (s : σ) (repo : Bytes) (d : Desc) (content : Bytes) : Prop :=
  match (B s (.startUpload repo 0)).2 with
  | .err _ => True
  | .ok (.writer id _ chunk) =>
    okID id ∧ okSize chunk ∧
      (match (B (B s (.startUpload repo 0)).1 (.uploadCommit repo id 0 d.size content d.digest)).2 with
       | .err _ => True
       | .ok (.commit _ _) => True
       | .ok _ => False)
  | .ok _ => False

/-- A tag GET against a server that omits the digest, for a manifest over 128 KiB: the client asks again
with HEAD, so the backend sees `GetTag` and then `ResolveTag`; the descriptor is the second answer's, the
bytes are the first's. -/
def getTagLargeDirect {σ : Type} (cfg : Cfg) (B : SBackend σ) (s : σ) (repo tag : Bytes) : σ × List Call × Result :=
  match (B s (.getTag repo tag)).2 with
  | .err e => ((B s (.getTag repo tag)).1, [.getTag repo tag], .fail (faultOf cfg false (mar cfg e)))
  | .ok (.reader _ content) =>
    ((B (B s (.getTag repo tag)).1 (.resolveTag repo tag)).1, [.getTag repo tag, .resolveTag repo tag],
     match (B (B s (.getTag repo tag)).1 (.resolveTag repo tag)).2 with
     | .err e => .fail (faultOf cfg true (mar cfg e))
     | .ok (.desc d2) => .reader { mediaType := orOctetStream d2.mediaType, digest := d2.digest, size := d2.size } true content
     | .ok _ => .panic)
  | .ok _ => ((B s (.getTag repo tag)).1, [.getTag repo tag], .panic)

end OciModel.Wire

namespace OciModel.Wire
open OciModel OciModel.Ref OciModel.ReqCodec OciModel.RespCodec
open OciModel.ErrCodec (Err)

/-- A listing through the wire, on the backend: one call per page, each starting after the last item of the
page before; the server cuts the backend's listing to the page size `n`, the client stops at the first page
that is not full. `mk last` is the backend call (`Tags(repo, last)` / `Repositories(last)`). Result: state,
calls, items yielded, and the error the iteration ended with (if any). -/
def pagesDirect {σ : Type} (cfg : Cfg) (B : SBackend σ) (mk : Bytes → Call) (n : Int) :
    Nat → σ → Bytes → σ × List Call × List Bytes × Option Fault
  | 0, s, _ => (s, [], [], some (.cli .transport))
  | fuel + 1, s, last =>
    match (B s (mk last)).2 with
    | .err e => ((B s (mk last)).1, [mk last], [], some (faultOf cfg false (mar cfg e)))
    | .ok (.items l) =>
      if ((l.take n.toNat).length : Int) < n then ((B s (mk last)).1, [mk last], l.take n.toNat, none)
      else match (l.take n.toNat).getLast? with
        | none => ((B s (mk last)).1, [mk last], l.take n.toNat, none)
        | some x =>
          ((pagesDirect cfg B mk n fuel (B s (mk last)).1 x).1,
           mk last :: (pagesDirect cfg B mk n fuel (B s (mk last)).1 x).2.1,
           l.take n.toNat ++ (pagesDirect cfg B mk n fuel (B s (mk last)).1 x).2.2.1,
           (pagesDirect cfg B mk n fuel (B s (mk last)).1 x).2.2.2)
    | .ok _ => ((B s (mk last)).1, [mk last], [], some (.cli .badBody))

/-- every page's answer along the way is a listing or an error (Go's types guarantee it) -/
def pagesCarriable {σ : Type} (B : SBackend σ) (mk : Bytes → Call) (n : Int) : Nat → σ → Bytes → Prop
  | 0, _, _ => True
  | fuel + 1, s, last =>
    match (B s (mk last)).2 with
    | .err _ => True
    | .ok (.items l) =>
      if ((l.take n.toNat).length : Int) < n then True
      else match (l.take n.toNat).getLast? with
        | none => True
        | some x => pagesCarriable B mk n fuel (B s (mk last)).1 x
    | .ok _ => False

/-- **What a call through the wire amounts to on the backend**: the backend's state afterwards, the calls
it received (in order), and the caller's result. One call and `expect` of its answer, except for the
multi-request flows. -/
def direct {σ : Type} (cfg : Cfg) (fuel : Nat) (B : SBackend σ) (s : σ) (c : Call) : σ × List Call × Result :=
  match c with
  | .pushBlob repo d content => pushBlobDirect cfg B s repo d content
  | .getTag repo tag =>
    if cfg.o.omitDigest then
      match (B s (.getTag repo tag)).2 with
      | .ok (.reader d content) =>
        if d.size ≤ inMemThreshold then
          ((B s (.getTag repo tag)).1, [.getTag repo tag],
            if (content.length : Int) = d.size then
              .reader { mediaType := orOctetStream d.mediaType, digest := cfg.H content, size := d.size } true content
            else .fail (.cli .bodySizeMismatch))
        else getTagLargeDirect cfg B s repo tag
      | _ => getTagLargeDirect cfg B s repo tag
    else ((B s (.getTag repo tag)).1, [.getTag repo tag], expect cfg (.getTag repo tag) (B s (.getTag repo tag)).2)
  | .tags repo start =>
    ((pagesDirect cfg B (.tags repo) (Pager.effectivePageSize cfg.pageSize) fuel s start).1,
     (pagesDirect cfg B (.tags repo) (Pager.effectivePageSize cfg.pageSize) fuel s start).2.1,
     .items (pagesDirect cfg B (.tags repo) (Pager.effectivePageSize cfg.pageSize) fuel s start).2.2.1
            (pagesDirect cfg B (.tags repo) (Pager.effectivePageSize cfg.pageSize) fuel s start).2.2.2)
  | .repositories start =>
    ((pagesDirect cfg B .repositories (Pager.effectivePageSize cfg.pageSize) fuel s start).1,
     (pagesDirect cfg B .repositories (Pager.effectivePageSize cfg.pageSize) fuel s start).2.1,
     .items (pagesDirect cfg B .repositories (Pager.effectivePageSize cfg.pageSize) fuel s start).2.2.1
            (pagesDirect cfg B .repositories (Pager.effectivePageSize cfg.pageSize) fuel s start).2.2.2)
  | c => ((B s (onWire c)).1, [onWire c], expect cfg c (B s (onWire c)).2)

/-- The call is well formed and the backend's answers to it are ones the headers can carry. -/
def StepOK {σ : Type} (cfg : Cfg) (fuel : Nat) (B : SBackend σ) (s : σ) (c : Call) : Prop :=
  WF cfg c ∧
  match c with
  | .pushBlob repo d content => pushBlobCarriable B s repo d content
  | .getTag repo tag =>
    if cfg.o.omitDigest then
      (∀ x, digestHashable (cfg.H x) = true) ∧
      match (B s (.getTag repo tag)).2 with
      | .err _ => True
      | .ok (.reader d _) =>
        0 ≤ d.size ∧ d.size ≤ maxI64 ∧
          (inMemThreshold < d.size →
            match (B (B s (.getTag repo tag)).1 (.resolveTag repo tag)).2 with
            | .err _ => True
            | .ok (.desc d2) => okSize d2.size ∧ isDigest d2.digest = true
            | .ok _ => False)
      | .ok _ => False
    else Carriable cfg (.getTag repo tag) (B s (.getTag repo tag)).2
  | .tags repo start =>
    ¬ (cfg.o.maxListPageSize > 0 ∧ Pager.effectivePageSize cfg.pageSize > cfg.o.maxListPageSize) ∧
      Pager.effectivePageSize cfg.pageSize ≤ maxI64 ∧
      pagesCarriable B (.tags repo) (Pager.effectivePageSize cfg.pageSize) fuel s start
  | .repositories start =>
    ¬ (cfg.o.maxListPageSize > 0 ∧ Pager.effectivePageSize cfg.pageSize > cfg.o.maxListPageSize) ∧
      Pager.effectivePageSize cfg.pageSize ≤ maxI64 ∧
      pagesCarriable B .repositories (Pager.effectivePageSize cfg.pageSize) fuel s start
  | .referrers .. => cfg.o.disableReferrers = false ∧ Carriable cfg c (B s (onWire c)).2
  | c => Carriable cfg c (B s (onWire c)).2

/-- A history of calls, directly: the state, the calls, the results. -/
def directHist {σ : Type} (cfg : Cfg) (fuel : Nat) (B : SBackend σ) : σ → List Call → σ × List Call × List Result
  | s, [] => (s, [], [])
  | s, c :: cs =>
    ((directHist cfg fuel B (direct cfg fuel B s c).1 cs).1,
     (direct cfg fuel B s c).2.1 ++ (directHist cfg fuel B (direct cfg fuel B s c).1 cs).2.1,
     (direct cfg fuel B s c).2.2 :: (directHist cfg fuel B (direct cfg fuel B s c).1 cs).2.2)

def HistOK {σ : Type} (cfg : Cfg) (fuel : Nat) (B : SBackend σ) : σ → List Call → Prop
  | _, [] => True
  | s, c :: cs => StepOK cfg fuel B s c ∧ HistOK cfg fuel B (direct cfg fuel B s c).1 cs

end OciModel.Wire

namespace OciModel.Wire
open OciModel OciModel.Ref OciModel.ReqCodec OciModel.RespCodec
open OciModel.ErrCodec (Err)

/-! ## Histories, compared call by call -/

def EquivAll (cfg : Cfg) : List Call → List Result → List Answer → Prop
  | [], [], [] => True
  | c :: cs, r :: rs, a :: as => Equiv cfg c r a ∧ EquivAll cfg cs rs as
  | _, _, _ => False

/-- the error body `WriteError` writes for `e` is one the client decodes (finding F24 is the other case) -/
def SmallBody (cfg : Cfg) (e : Err) : Prop := (cfg.errBody (mar cfg e).2).length ≤ errorBodySizeLimit

/-- Along the direct history every answer agrees with its request (`Faithful`) and every error has a body
the client decodes. -/
def HistFaithful {σ : Type} (cfg : Cfg) (B : SBackend σ) : σ → List Call → Prop
  | _, [] => True
  | s, c :: cs =>
    Faithful cfg c (B s (onWire c)).2 ∧ (∀ e, (B s (onWire c)).2 = .err e → c.isHead = false → SmallBody cfg e) ∧
      HistFaithful cfg B (B s (onWire c)).1 cs

/-! ## A hop as a backend (for chains of hops) -/

def faultErr : Fault → Err
  | .reg e => e
  | .cli _ => .plain (strBytes "client error")

/-- What a server sees when its backend is a client: the client's result as a backend answer
(`BlobWriter.ID()` is the location, `Size()` the offset). -/
def asAnswer : Result → Answer
  | .desc d => .ok (.desc d)
  | .reader d _ body => .ok (.reader d body)
  | .writer loc cs off => .ok (.writer loc off cs)
  | .unit => .ok .unit
  | .items l none => .ok (.items l)
  | .items _ (some f) => .err (faultErr f)
  | .descs l => .ok (.descs l)
  | .fail f => .err (faultErr f)
  | .panic => .err (.plain (strBytes "panic"))

/-- A client talking to a server in front of `B`, used as the backend of another server. Its state is `B`'s
state and the calls `B` has received. -/
def hopBackend {σ : Type} (cfg : Cfg) (fuel : Nat) (B : SBackend σ) : SBackend (σ × List Call) :=
  fun st c => ((hopS cfg fuel B st c).1, asAnswer (hopS cfg fuel B st c).2)

/-- calls that name no upload session (a session's ID changes from hop to hop: it is the location), are one
request each, and whose answer needs no JSON decoder on the client -/
def Call.idFree : Call → Bool
  | .getBlob .. | .getBlobRange .. | .getManifest .. | .getTag .. | .resolveBlob .. | .resolveManifest ..
  | .resolveTag .. | .pushManifest .. | .mountBlob .. | .deleteBlob .. | .deleteManifest .. | .deleteTag .. => true
  | _ => false

end OciModel.Wire
