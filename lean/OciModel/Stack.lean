/-
Stacks of wrappers: `ocidebug.New`, `ocifilter.AccessChecker` / `Select`, `ocifilter.Sub` and
`ocifilter.ReadOnly` composed to any depth over an abstract registry.

Nothing here gives a wrapper a semantics of its own. Each layer is the wrapper's existing
model run on the next layer down:

* select   — `OciModel.Select.call` on the regenerated row of `select.go`
* sub      — `OciModel.Sub.call` on the regenerated row of `sub.go`
* debug    — `OciModel.Iter.call` on the regenerated row of `debug.go`
* readOnly — `OciModel.WrapRO.roStep` on the regenerated embedding table of `readonly.go`

What the four models do *not* share is a backend abstraction (`Select` runs over `Call → ρ`,
`Sub` answers with the call it would make, `Iter` runs over `Call V → Res V E`, `WrapRO`
over `S → Op → S × Out`).  The part of this file marked ADAPTER is the smallest glue that
lets one layer's model call the next: positional argument passing (`bindArgs`), one answer
type for the whole stack (`Out`), and the reading of each model's result in that type.
`OciModel/StackLemmas.lean` proves that each adapter agrees with the wrapper's own model
(`select_adapter_eq`, `sub_adapter_eq`, `debug_adapter_eq`, `readOnly_adapter_eq`).

A request is the scope found in the caller's context (the only part of `ctx` a wrapper
touches: `Sub` rewrites it) and a call `⟨method, arguments in the order of
ociregistry.Interface⟩`; all argument values are byte strings, no model looks inside them.

`unify` is not a layer: it needs two wrapped registries (see `Unify.lean` / C15).
-/
import OciModel.Base
import OciModel.Scope
import OciModel.Select
import OciModel.Sub
import OciModel.Iter
import OciModel.WrapRO

namespace OciModel.Stack
open OciModel.Select (Call Env Kind Policy)
open OciModel.Scope (Scope)
open OciModel.Generated

/-! ### ADAPTER: one answer type for every layer -/

inductive Res (ε ρ : Type) where
  | rejected (e : ε)     -- a wrapper's own error (a policy's refusal, ReadOnly's "unsupported")
  | returned (r : ρ)     -- the answer of the registry at the bottom, as it is
  | stuck                -- some layer's source no longer has the modelled shape, or the call is ill-formed
  | panic                -- `Sub`'s `mapScopes` would panic
  deriving DecidableEq, Repr

/-- An answer, and the calls that reached the registry at the bottom (with the scope in
their context), in order. -/
structure Out (ε ρ : Type) where
  res   : Res ε ρ
  calls : List (Scope × Call)
  deriving DecidableEq, Repr

/-- A registry as a layer sees the one it wraps. -/
abbrev Backend (ε ρ : Type) := Scope → Call → Out ε ρ

/-- Any function from requests to answers is a registry; it records that it was called. -/
def base {ε ρ : Type} (B : Scope → Call → ρ) : Backend ε ρ :=
  fun sc c => ⟨.returned (B sc c), [(sc, c)]⟩

/-! ### ADAPTER: positional arguments

Each wrapper's table names the parameters in its own way (`rd`, `repoName`, `dig`, …); a
call binds the `i`-th parameter of the row to the `i`-th argument. -/

def bindArgs (ps : List String) (args : List Bytes) : Env :=
  fun p => ((ps.zip args).lookup p).getD []

/-- Parameter names of a method in `ociregistry.Interface`. -/
def ifaceArgs (m : String) : Option (List String) := Select.ifaceParamNames m

/-- The call names a method of the interface and has as many arguments as it has parameters. -/
def wf (c : Call) : Bool :=
  match ifaceArgs c.method with
  | some ips => ips.length == c.args.length
  | none => false

def selRow (m : String) : Option Generated.Select.Row := Generated.Select.table.find? (·.method == m)
def subRow (m : String) : Option Generated.Sub.Row := Generated.Sub.table.find? (·.method == m)
def dbgRow (m : String) : Option Generated.Debug.Row := Generated.Debug.table.find? (·.method == m)

/-! ### ADAPTER: the four layers -/

section
variable {ε ρ : Type}

def stuckOut : Out ε ρ := ⟨.stuck, []⟩

/-- `AccessChecker(next, check)`: `Select.call` on the method's row, with the next layer
(under the caller's own context) as the wrapped registry. -/
def selectLayer (check : Policy ε) (next : Backend ε ρ) : Backend ε ρ := fun sc c =>
  match selRow c.method with
  | none => stuckOut
  | some r =>
    if r.params.length != c.args.length then stuckOut
    else
      match (Select.call check (next sc) (bindArgs r.params c.args) r).res with
      | .rejected e => ⟨.rejected e, []⟩
      | .returned o => o
      | .stuck => stuckOut

/-- `Sub(next, p)` for `p ≠ ""`: `Sub.call` on the method's row says which call is made on
the wrapped registry and with which scope; a method whose result is passed back unchanged
(shape "direct": every method but `Repositories`) answers what that call answers. -/
def subLayer (p : Bytes) (next : Backend ε ρ) : Backend ε ρ := fun sc c =>
  match subRow c.method with
  | none => stuckOut
  | some r =>
    if r.params.length != c.args.length || r.shape != "direct" then stuckOut
    else
      match Sub.call p (bindArgs r.params c.args) sc r with
      | .ok c' sc' => next sc' c'
      | .panic => ⟨.panic, []⟩
      | .stuck => stuckOut

/-- A row of the debug wrapper whose body is `return r.r.M(ctx, args…)` between log calls:
the result tuple passes through whole, so it can be treated as one opaque answer. (The two
chunked-upload methods wrap the writer they get, the three listing methods wrap the
iterator: those results are *not* the wrapped registry's, and are not modelled here.) -/
def plainRow (r : Generated.Debug.Row) : Bool :=
  r.guard == "" && ((r.retVal == "res0" && r.retErr == "res1") || (r.retVal == "" && r.retErr == "res0"))

def plainMethod (m : String) : Bool :=
  match dbgRow m with
  | some r => plainRow r
  | none => false

/-- `ocidebug.New(next)`: `Iter.call` on the method's row. The next layer's whole answer
travels in the error result of the wrapped call (`V := Bytes`, `E := Out ε ρ`), which a plain
row hands back as it is; the scope goes with the context when the row passes its own `ctx`. -/
def debugLayer (next : Backend ε ρ) : Backend ε ρ := fun sc c =>
  match dbgRow c.method with
  | none => stuckOut
  | some r =>
    if r.params.length != c.args.length || !plainRow r then stuckOut
    else
      match Iter.call (V := Bytes) (E := Out ε ρ)
          (fun dc => ⟨none, some (next (if dc.ctx then sc else Scope.empty) ⟨dc.method, dc.args⟩)⟩)
          (bindArgs r.params c.args) r with
      | some ⟨_, _, some (some o)⟩ => o
      | _ => stuckOut

/-- `WrapRO.roStep` looks at an operation only through `methodOf`; this is one operation per
interface method (its arguments are irrelevant). -/
def opTable : List (String × Mem.Op) := [
  ("GetBlob", .getBlob [] []), ("GetBlobRange", .getBlobRange [] [] 0 0), ("GetManifest", .getManifest [] []),
  ("GetTag", .getTag [] []), ("ResolveBlob", .resolveBlob [] []), ("ResolveManifest", .resolveManifest [] []),
  ("ResolveTag", .resolveTag [] []), ("PushBlob", .pushBlob [] ⟨[], [], 0⟩ []), ("PushBlobChunked", .pushChunked []),
  ("PushBlobChunkedResume", .resume [] [] 0), ("MountBlob", .mount [] [] []),
  ("PushManifest", .pushManifest [] [] [] [] .opaque), ("DeleteBlob", .deleteBlob [] []),
  ("DeleteManifest", .deleteManifest [] []), ("DeleteTag", .deleteTag [] []), ("Repositories", .repositories []),
  ("Tags", .tags [] []), ("Referrers", .referrers [] [])]

def opOf (m : String) : Option Mem.Op := opTable.lookup m

/-- `ReadOnly(next)`: `WrapRO.roStep` (over a dummy registry) decides from the embedding table
whether the method is the wrapped registry's — then the call goes down unchanged, one call —
or the nil `*Funcs`' — then the answer is that one's "unsupported" error (`unsupported` is the
value standing for it) and no call is made. -/
def roLayer (unsupported : ε) (next : Backend ε ρ) : Backend ε ρ := fun sc c =>
  match opOf c.method with
  | none => stuckOut
  | some op =>
    match WrapRO.roStep (S := Unit) (fun s _ => (s, .okUnit)) () op with
    | (_, some _, [_]) => next sc c
    | (_, some (.err _), []) => ⟨.rejected unsupported, []⟩
    | _ => stuckOut

end

/-! ### Stacks -/

inductive Layer (ε : Type) where
  | debug
  | select (check : Policy ε)
  | sub (pre : Bytes)
  | readOnly (unsupported : ε)

section
variable {ε ρ : Type}

/-- One wrapper around `next`. `Sub(r, "")` is `r` itself. -/
def layer : Layer ε → Backend ε ρ → Backend ε ρ
  | .debug, next => debugLayer next
  | .select chk, next => selectLayer chk next
  | .sub p, next => if p = [] then next else subLayer p next
  | .readOnly e, next => roLayer e next

/-- A stack of wrappers, outermost first, around `B`. -/
def interp : List (Layer ε) → Backend ε ρ → Backend ε ρ
  | [], B => B
  | l :: ls, B => layer l (interp ls B)

/-! ### What a stack is specified to do (positional form of the wrappers' own specifications) -/

/-- `Sub.specArgs` by position: repository arguments (and the start of a repository listing)
get the prefix. -/
def subArgs (p : Bytes) (m : String) (ips : List String) (args : List Bytes) : List Bytes :=
  (ips.zip args).map fun x => if Sub.specMapped m x.1 then Sub.mapName p x.2 else x.2

def subCall (p : Bytes) (c : Call) : Call :=
  ⟨c.method, subArgs p c.method ((ifaceArgs c.method).getD []) c.args⟩

/-- `Select.specGuards` by position: the (name, access kind) pairs the policy is asked about, in order. -/
def selChecks (m : String) (ips : List String) (args : List Bytes) : List (Bytes × Kind) :=
  match Select.groupKind m with
  | none => []
  | some k =>
    if m == "Repositories" then [(strBytes "*", .list)]
    else ((ips.zip args).filter fun x => Select.isRepoParam x.1).map fun x =>
      (x.2, if m == "MountBlob" && x.1 == "fromRepo" then .read else k)

def callChecks (c : Call) : List (Bytes × Kind) :=
  selChecks c.method ((ifaceArgs c.method).getD []) c.args

/-- The error of the first question the policy answers with a refusal. -/
def firstReject (check : Policy ε) : List (Bytes × Kind) → Option ε
  | [] => none
  | x :: rest =>
    match check x.1 x.2 with
    | some e => some e
    | none => firstReject check rest

/-- The call a layer hands down. -/
def layerCall : Layer ε → Call → Call
  | .sub p, c => if p = [] then c else subCall p c
  | _, c => c

def layerScope : Layer ε → Scope → Scope
  | .sub p, sc => if p = [] then sc else Sub.mapScopes p sc
  | _, sc => sc

/-- A layer's own refusal of a call, if any. -/
def layerVerdict : Layer ε → Call → Option ε
  | .select chk, c => firstReject chk (callChecks c)
  | .readOnly e, c => if WrapRO.isMutatorMethod c.method then some e else none
  | _, _ => none

/-- The call that reaches the bottom: the prefixes of the `sub` layers are prepended in order. -/
def stackCall : List (Layer ε) → Call → Call
  | [], c => c
  | l :: ls, c => stackCall ls (layerCall l c)

def stackScope : List (Layer ε) → Scope → Scope
  | [], sc => sc
  | l :: ls, sc => stackScope ls (layerScope l sc)

/-- The refusal of the outermost layer that refuses the call as it sees it. -/
def verdict : List (Layer ε) → Call → Option ε
  | [], _ => none
  | l :: ls, c =>
    match layerVerdict l c with
    | some e => some e
    | none => verdict ls (layerCall l c)

def isDebug : Layer ε → Bool
  | .debug => true
  | _ => false

def hasDebug (stack : List (Layer ε)) : Bool := stack.any isDebug

/-! #### Names -/

def layerName : Layer ε → Bytes → Bytes
  | .sub p, n => if p = [] then n else Sub.mapName p n
  | _, n => n

/-- The repository a name of the outermost view stands for at the bottom. -/
def stackName : List (Layer ε) → Bytes → Bytes
  | [], n => n
  | l :: ls, n => stackName ls (layerName l n)

/-- The prefixes of the `sub` layers, outermost first. -/
def prefixes : List (Layer ε) → List Bytes
  | [] => []
  | .sub p :: ls => if p = [] then prefixes ls else p :: prefixes ls
  | .debug :: ls => prefixes ls
  | .select _ :: ls => prefixes ls
  | .readOnly _ :: ls => prefixes ls

/-- `Sub(Sub(r, a), b)` is `Sub(r, a/b)`: the single prefix a list of nested prefixes
(outermost first, not empty) amounts to. -/
def joinPrefixes : List Bytes → Bytes
  | [] => []
  | [p] => p
  | p :: q :: rest => joinPrefixes (q :: rest) ++ 47 :: p

/-- Every `select` layer allows access of kind `k` to the name as that layer sees it. -/
def Allowed (k : Kind) : List (Layer ε) → Bytes → Prop
  | [], _ => True
  | .select chk :: ls, n => chk n k = none ∧ Allowed k ls n
  | l :: ls, n => Allowed k ls (layerName l n)

/-- Some `select` layer refuses access of kind `k` to the name as that layer sees it. -/
def Refused (k : Kind) : List (Layer ε) → Bytes → Prop
  | [], _ => False
  | .select chk :: ls, n => (chk n k).isSome = true ∨ Refused k ls n
  | l :: ls, n => Refused k ls (layerName l n)

/-! ### Repository listings

A listing is the list of events the iterator would push (`Select.Ev`); a layer transforms
the listing of the layer below with the function the wrapper's own model is stated in:
`Select.visible` (C12 `listing_filtered`), `Sub.visible` with the start point and the scopes
mapped (C13 `sub_listing_events`, `sub_name_map`), `Iter.cut` (C05D `debug_iter_state`);
`ReadOnly` hands the wrapped registry's iterator on. -/

abbrev Lister (ε : Type) := Scope → Bytes → List (Select.Ev ε)

def toIterEv : Select.Ev ε → Iter.Ev Bytes ε
  | .item n => ⟨n, none⟩
  | .error e => ⟨[], some e⟩

def ofIterEv (ev : Iter.Ev Bytes ε) : Select.Ev ε :=
  match ev.err with
  | some e => .error e
  | none => .item ev.item

/-- `Iter.cut` (what `logIterReturn` lets through) on `Select`'s events. -/
def debugList (evs : List (Select.Ev ε)) : List (Select.Ev ε) :=
  (Iter.cut [] (evs.map toIterEv)).map ofIterEv

def layerList : Layer ε → Lister ε → Lister ε
  | .debug, next => fun sc st => debugList (next sc st)
  | .select chk, next => fun sc st =>
    match chk (strBytes "*") .list with
    | some e => [.error e]
    | none => Select.visible chk .read (next sc st)
  | .sub p, next => if p = [] then next else fun sc st => Sub.visible p (next (Sub.mapScopes p sc) (Sub.mapName p st))
  | .readOnly _, next => next

def interpList : List (Layer ε) → Lister ε → Lister ε
  | [], L => L
  | l :: ls, L => layerList l (interpList ls L)

/-- The names of the bottom listing that show at the top, as the top names them. -/
def layerView : Layer ε → List Bytes → List Bytes
  | .select chk, ns => ns.filter fun n => (chk n .read).isNone
  | .sub p, ns => if p = [] then ns else ns.filterMap (Sub.stripName p)
  | _, ns => ns

def stackView : List (Layer ε) → List Bytes → List Bytes
  | [], ns => ns
  | l :: ls, ns => layerView l (stackView ls ns)

/-- Every `select` layer lets repositories be listed (`check("*", AccessList) == nil`). -/
def ListAllowed : List (Layer ε) → Prop
  | [] => True
  | .select chk :: ls => chk (strBytes "*") .list = none ∧ ListAllowed ls
  | _ :: ls => ListAllowed ls

end

/-! ### The in-memory registry as the registry at the bottom (for C01) -/

/-- The Reader methods of `ocimem` in state `s` as a function from calls to answers (`Mem.step`; reads do
not change the state). `dec` reads the two offsets of `GetBlobRange` from their byte-string form; any
function will do. `none`: not a Reader call of the right arity. -/
def memRead (H : Bytes → Bytes) (dec : Bytes → Int) (s : Mem.State) : Scope → Call → Option Mem.Out
  | _, ⟨"GetBlob", [r, d]⟩ => some (Mem.step H s (.getBlob r d)).2
  | _, ⟨"GetBlobRange", [r, d, o0, o1]⟩ => some (Mem.step H s (.getBlobRange r d (dec o0) (dec o1))).2
  | _, ⟨"GetManifest", [r, d]⟩ => some (Mem.step H s (.getManifest r d)).2
  | _, ⟨"GetTag", [r, t]⟩ => some (Mem.step H s (.getTag r t)).2
  | _, ⟨"ResolveBlob", [r, d]⟩ => some (Mem.step H s (.resolveBlob r d)).2
  | _, ⟨"ResolveManifest", [r, d]⟩ => some (Mem.step H s (.resolveManifest r d)).2
  | _, ⟨"ResolveTag", [r, t]⟩ => some (Mem.step H s (.resolveTag r t)).2
  | _, _ => none

/-- A method whose only repository argument is its first one, needing access of kind `k`
(every method but `MountBlob` and `Repositories`). -/
def repoFirst (m : String) (k : Kind) : Bool :=
  m != "MountBlob" && m != "Repositories" && Select.groupKind m == some k &&
  match ifaceArgs m with
  | some (i :: ips) => i == "repo" && ips.all (fun i => !Select.isRepoParam i && !Sub.specMapped m i)
  | _ => false

end OciModel.Stack
