/-
Concrete instances of the standard-library parameters of the error codec, used
by the driver: `http.StatusText` (a fixed table of Go's net/http) and the code
prefix (`appendErrorCodePrefix`, ASCII codes).
-/
import OciModel.ErrCodec

namespace OciModel.ErrCodec

/-- `http.StatusText` for every code that has one (net/http, Go 1.23). -/
def statusTexts : List (Nat × String) := [
  (100, "Continue"),
  (101, "Switching Protocols"),
  (102, "Processing"),
  (103, "Early Hints"),
  (200, "OK"),
  (201, "Created"),
  (202, "Accepted"),
  (203, "Non-Authoritative Information"),
  (204, "No Content"),
  (205, "Reset Content"),
  (206, "Partial Content"),
  (207, "Multi-Status"),
  (208, "Already Reported"),
  (226, "IM Used"),
  (300, "Multiple Choices"),
  (301, "Moved Permanently"),
  (302, "Found"),
  (303, "See Other"),
  (304, "Not Modified"),
  (305, "Use Proxy"),
  (307, "Temporary Redirect"),
  (308, "Permanent Redirect"),
  (400, "Bad Request"),
  (401, "Unauthorized"),
  (402, "Payment Required"),
  (403, "Forbidden"),
  (404, "Not Found"),
  (405, "Method Not Allowed"),
  (406, "Not Acceptable"),
  (407, "Proxy Authentication Required"),
  (408, "Request Timeout"),
  (409, "Conflict"),
  (410, "Gone"),
  (411, "Length Required"),
  (412, "Precondition Failed"),
  (413, "Request Entity Too Large"),
  (414, "Request URI Too Long"),
  (415, "Unsupported Media Type"),
  (416, "Requested Range Not Satisfiable"),
  (417, "Expectation Failed"),
  (418, "I'm a teapot"),
  (421, "Misdirected Request"),
  (422, "Unprocessable Entity"),
  (423, "Locked"),
  (424, "Failed Dependency"),
  (425, "Too Early"),
  (426, "Upgrade Required"),
  (428, "Precondition Required"),
  (429, "Too Many Requests"),
  (431, "Request Header Fields Too Large"),
  (451, "Unavailable For Legal Reasons"),
  (500, "Internal Server Error"),
  (501, "Not Implemented"),
  (502, "Bad Gateway"),
  (503, "Service Unavailable"),
  (504, "Gateway Timeout"),
  (505, "HTTP Version Not Supported"),
  (506, "Variant Also Negotiates"),
  (507, "Insufficient Storage"),
  (508, "Loop Detected"),
  (510, "Not Extended"),
  (511, "Network Authentication Required")
]

def statusText (st : Nat) : String := ((statusTexts.find? (·.1 == st)).map (·.2)).getD ""

/-- `appendHTTPStatusPrefix` -/
def S (st : Nat) : Bytes := strBytes (toString st ++ " " ++ statusText st)

def lowerByte (c : UInt8) : UInt8 := if c = 95 then 32 else if 65 ≤ c ∧ c ≤ 90 then c + 32 else c

/-- `appendErrorCodePrefix` (ASCII codes) -/
def C (code : Bytes) : Bytes := if code = [] then strBytes "(no code)" else code.map lowerByte

/-- Scanner position of `encoding/json`'s compaction: outside a string, inside one, just after a
backslash inside one, or after a byte no valid JSON has outside a string (the real code returns an
error there; the model copies the rest so that it stays total). -/
inductive CMode | out | str | esc | bad
  deriving DecidableEq, Repr

def hexDigit (n : UInt8) : UInt8 := if n < 10 then 48 + n else 87 + n

/-- The two bytes that complete U+2028 / U+2029 after 0xE2. -/
def lsAhead : Bytes → Option UInt8
  | c1 :: c2 :: _ => if c1 = 0x80 ∧ (c2 = 0xA8 ∨ c2 = 0xA9) then some c2 else none
  | _ => none

/-- `appendCompact(dst, src, escape = true)` as `json.Marshal` applies it to a `json.RawMessage`:
white space outside strings is dropped, and `<`, `>`, `&`, U+2028 and U+2029 inside strings are
written as `\u00XX` / `\u202X`.  The `Nat` counts bytes still to be skipped (the tail of a
U+2028/9 sequence already written). -/
def compactAux : CMode → Nat → Bytes → Bytes
  | _, _, [] => []
  | m, k + 1, _ :: rest => compactAux m k rest
  | .bad, 0, c :: rest => c :: compactAux .bad 0 rest
  | .out, 0, c :: rest =>
    if c ≥ 0x80 ∨ c = 60 ∨ c = 62 ∨ c = 38 then c :: compactAux .bad 0 rest
    else if c = 32 ∨ c = 9 ∨ c = 10 ∨ c = 13 then compactAux .out 0 rest
    else if c = 34 then c :: compactAux .str 0 rest
    else c :: compactAux .out 0 rest
  | .esc, 0, c :: rest => c :: compactAux .str 0 rest
  | .str, 0, c :: rest =>
    if c = 60 ∨ c = 62 ∨ c = 38 then
      92 :: 117 :: 48 :: 48 :: hexDigit (c >>> 4) :: hexDigit (c &&& 15) :: compactAux .str 0 rest
    else if c = 0xE2 then
      match lsAhead rest with
      | some c2 => 92 :: 117 :: 50 :: 48 :: 50 :: hexDigit (c2 &&& 15) :: compactAux .str 2 rest
      | none => c :: compactAux .str 0 rest
    else if c = 92 then c :: compactAux .esc 0 rest
    else if c = 34 then c :: compactAux .out 0 rest
    else c :: compactAux .str 0 rest

def compactJSON (b : Bytes) : Bytes := compactAux .out 0 b

def genTable : List (Bytes × Nat) := Generated.ErrorTable.errorStatuses.map fun (c, s) => (strBytes c, s)

def stdMsg (code : Bytes) : Bytes :=
  match Generated.ErrorTable.stdErrors.find? (fun e => strBytes e.2.1 == code) with
  | some e => strBytes e.2.2
  | none => []

def stdCodes : List Bytes := Generated.ErrorTable.stdErrors.map fun e => strBytes e.2.1

end OciModel.ErrCodec
