/-
Concrete instances of the standard-library parameters of the error codec, used
by the driver: `http.StatusText` (a fixed table of Go's net/http) and the code
prefix (`appendErrorCodePrefix`, ASCII codes).
-/
import OciModel.ErrCodec

namespace OciModel.ErrCodec

/-- `http.StatusText` for every code that has one (net/http, Go 1.23). -/
def statusTexts : List (Nat × String) := [
  (100, "Continue"),
  (101, "Switching Protocols"),
  (102, "Processing"),
  (103, "Early Hints"),
  (200, "OK"),
  (201, "Created"),
  (202, "Accepted"),
  (203, "Non-Authoritative Information"),
  (204, "No Content"),
  (205, "Reset Content"),
  (206, "Partial Content"),
  (207, "Multi-Status"),
  (208, "Already Reported"),
  (226, "IM Used"),
  (300, "Multiple Choices"),
  (301, "Moved Permanently"),
  (302, "Found"),
  (303, "See Other"),
  (304, "Not Modified"),
  (305, "Use Proxy"),
  (307, "Temporary Redirect"),
  (308, "Permanent Redirect"),
  (400, "Bad Request"),
  (401, "Unauthorized"),
  (402, "Payment Required"),
  (403, "Forbidden"),
  (404, "Not Found"),
  (405, "Method Not Allowed"),
  (406, "Not Acceptable"),
  (407, "Proxy Authentication Required"),
  (408, "Request Timeout"),
  (409, "Conflict"),
  (410, "Gone"),
  (411, "Length Required"),
  (412, "Precondition Failed"),
  (413, "Request Entity Too Large"),
  (414, "Request URI Too Long"),
  (415, "Unsupported Media Type"),
  (416, "Requested Range Not Satisfiable"),
  (417, "Expectation Failed"),
  (418, "I'm a teapot"),
  (421, "Misdirected Request"),
  (422, "Unprocessable Entity"),
  (423, "Locked"),
  (424, "Failed Dependency"),
  (425, "Too Early"),
  (426, "Upgrade Required"),
  (428, "Precondition Required"),
  (429, "Too Many Requests"),
  (431, "Request Header Fields Too Large"),
  (451, "Unavailable For Legal Reasons"),
  (500, "Internal Server Error"),
  (501, "Not Implemented"),
  (502, "Bad Gateway"),
  (503, "Service Unavailable"),
  (504, "Gateway Timeout"),
  (505, "HTTP Version Not Supported"),
  (506, "Variant Also Negotiates"),
  (507, "Insufficient Storage"),
  (508, "Loop Detected"),
  (510, "Not Extended"),
  (511, "Network Authentication Required")
]

def statusText (st : Nat) : String := ((statusTexts.find? (·.1 == st)).map (·.2)).getD ""

/-- `appendHTTPStatusPrefix` -/
def S (st : Nat) : Bytes := strBytes (toString st ++ " " ++ statusText st)

def lowerByte (c : UInt8) : UInt8 := if c = 95 then 32 else if 65 ≤ c ∧ c ≤ 90 then c + 32 else c

/-- `appendErrorCodePrefix` (ASCII codes) -/
def C (code : Bytes) : Bytes := if code = [] then strBytes "(no code)" else code.map lowerByte

/-- `json.Compact` on valid JSON: drop white space outside strings. State:
inside a string, and whether the previous byte was a backslash. -/
def compactAux : Bool → Bool → Bytes → Bytes
  | _, _, [] => []
  | true, true, c :: rest => c :: compactAux true false rest
  | true, false, c :: rest =>
    if c = 92 then c :: compactAux true true rest
    else if c = 34 then c :: compactAux false false rest
    else c :: compactAux true false rest
  | false, _, c :: rest =>
    if c = 32 ∨ c = 9 ∨ c = 10 ∨ c = 13 then compactAux false false rest
    else if c = 34 then c :: compactAux true false rest
    else c :: compactAux false false rest

def compactJSON (b : Bytes) : Bytes := compactAux false false b

def genTable : List (Bytes × Nat) := Generated.ErrorTable.errorStatuses.map fun (c, s) => (strBytes c, s)

def stdMsg (code : Bytes) : Bytes :=
  match Generated.ErrorTable.stdErrors.find? (fun e => strBytes e.2.1 == code) with
  | some e => strBytes e.2.2
  | none => []

def stdCodes : List Bytes := Generated.ErrorTable.stdErrors.map fun e => strBytes e.2.1

end OciModel.ErrCodec
