/-
C13 over the `ocimem` model: the view `ocifilter.Sub(r, p)` of an in-memory registry `r`
against the registry RESTRICTED to the repositories under `p/`, with the prefix removed.

* `restrict p s`   — the state a registry holding only the repositories `p/n` of `s`, under
                     the names `n`, would be in (everything else dropped; what a kept
                     repository holds — tags, manifests, blobs, upload sessions — kept as is;
                     the immutable-tags switch and the upload-ID counter are the registry's).
* `mapOp p op`     — what the view hands the wrapped registry when it is asked `op`: every
                     repository name `n` becomes `mapName p n = p ++ "/" ++ n`, and so does the
                     start point of a repository listing (`Generated.Sub.table`, `C13_holds`).
* `mapOut p op o`  — what the view hands back: the answer of the wrapped registry, except that
                     a repository listing keeps the names under `p/` only, stripped
                     (`stripCb`, `sub_listing_events`). A listing of TAGS is an `okList` too and
                     is passed on as it is, which is why the operation is an argument.

The theorems are in `Props/C13.lean` (`sub_equals_restriction`, `sub_frame`), the lemmas in
`SubMemLemmas.lean`.
-/
import OciModel.Mem
import OciModel.Sub

namespace OciModel.SubMem
open OciModel OciModel.Mem OciModel.Sub

/-- The repositories named `p/n`, renamed `n`, in the order they are held. -/
def restrictRepos (p : Bytes) (m : List (Bytes × Repo)) : List (Bytes × Repo) :=
  m.filterMap fun kv => (stripName p kv.1).map fun n => (n, kv.2)

/-- The registry restricted to the repositories under `p/`, the prefix stripped. -/
def restrict (p : Bytes) (s : State) : State := { s with repos := restrictRepos p s.repos }

/-- The repositories that are NOT under `p/` (the rest of the registry), in the order held. -/
def outsideRepos (p : Bytes) (m : List (Bytes × Repo)) : List (Bytes × Repo) :=
  m.filter fun kv => (stripName p kv.1).isNone

/-- The view's name mapping on every operation (all 22 operations of the model; `mount`
maps both names, `repositories` maps its start point). -/
def mapOp (p : Bytes) : Op → Op
  | .getBlob r d => .getBlob (mapName p r) d
  | .getBlobRange r d a b => .getBlobRange (mapName p r) d a b
  | .getManifest r d => .getManifest (mapName p r) d
  | .getTag r t => .getTag (mapName p r) t
  | .resolveBlob r d => .resolveBlob (mapName p r) d
  | .resolveManifest r d => .resolveManifest (mapName p r) d
  | .resolveTag r t => .resolveTag (mapName p r) t
  | .pushBlob r d x => .pushBlob (mapName p r) d x
  | .pushChunked r => .pushChunked (mapName p r)
  | .resume r i o => .resume (mapName p r) i o
  | .wWrite r i x => .wWrite (mapName p r) i x
  | .wSize r i => .wSize (mapName p r) i
  | .wCancel r i => .wCancel (mapName p r) i
  | .wCommit r i d => .wCommit (mapName p r) i d
  | .mount a b d => .mount (mapName p a) (mapName p b) d
  | .pushManifest r t x m dec => .pushManifest (mapName p r) t x m dec
  | .deleteBlob r d => .deleteBlob (mapName p r) d
  | .deleteManifest r d => .deleteManifest (mapName p r) d
  | .deleteTag r t => .deleteTag (mapName p r) t
  | .repositories s => .repositories (mapName p s)
  | .tags r s => .tags (mapName p r) s
  | .referrers r d => .referrers (mapName p r) d

/-- The view's treatment of the answer to `op`. -/
def mapOut (p : Bytes) : Op → Out → Out
  | .repositories _, .okList items => .okList (items.filterMap (stripName p))
  | _, o => o

/-- Operations that may create a repository (`makeRepo`): the only ones for which it
matters whether the name they are given is a valid repository name. -/
def creates : Op → Bool
  | .pushBlob .. | .pushChunked .. | .resume .. | .mount .. | .pushManifest .. => true
  | _ => false

/-- The answers of a history of view operations. -/
def mapOuts (p : Bytes) : List Op → List Out → List Out
  | op :: ops, o :: os => mapOut p op o :: mapOuts p ops os
  | _, _ => []

end OciModel.SubMem
