/-
Model of `ociref` (ociregistry/ociref/reference.go): the validity predicates as
hand-written recognisers of the three regular expressions and of
`checkTag`/go-digest, and `ParseRelative` as the deterministic splitting that
leftmost-first matching of `referencePat` computes.
-/
import OciModel.Base

namespace OciModel.Ref

def isLower (c : UInt8) : Bool := 97 ≤ c && c ≤ 122
def isUpper (c : UInt8) : Bool := 65 ≤ c && c ≤ 90
def isDigit (c : UInt8) : Bool := 48 ≤ c && c ≤ 57
def isAlnumLower (c : UInt8) : Bool := isLower c || isDigit c           -- [a-z0-9]
def isAlnum (c : UInt8) : Bool := isLower c || isUpper c || isDigit c   -- [a-zA-Z0-9]
/-- `isWord` in reference.go -/
def isWord (c : UInt8) : Bool := c == 95 || isAlnum c
def isHexLower (c : UInt8) : Bool := isDigit c || (97 ≤ c && c ≤ 102)    -- [a-f0-9]
def isIPv6Char (c : UInt8) : Bool := isDigit c || (97 ≤ c && c ≤ 102) || (65 ≤ c && c ≤ 70) || c == 58

def cSlash : UInt8 := 47
def cColon : UInt8 := 58
def cAt    : UInt8 := 64
def cDot   : UInt8 := 46
def cDash  : UInt8 := 45
def cUnder : UInt8 := 95
def cNL    : UInt8 := 10

/-! ### Tag: `checkTag` (with the empty tag rejected) -/

def isTag (s : Bytes) : Bool :=
  match s with
  | [] => false
  | c :: rest => s.length ≤ 128 && isWord c && rest.all (fun c => isWord c || c == cDot || c == cDash)

/-! ### Digest: go-digest `Validate` for the registered algorithms -/

def sha256 : Bytes := [115, 104, 97, 50, 53, 54]
def sha384 : Bytes := [115, 104, 97, 51, 56, 52]
def sha512 : Bytes := [115, 104, 97, 53, 49, 50]

def encodedLen (alg : Bytes) : Option Nat :=
  if alg = sha256 then some 64 else if alg = sha384 then some 96 else if alg = sha512 then some 128 else none

def isDigest (s : Bytes) : Bool :=
  let alg := s.takeWhile (· != cColon)
  match s.dropWhile (· != cColon) with
  | [] => false                       -- no colon
  | _ :: enc =>
    match encodedLen alg with
    | none => false
    | some n => enc.length == n && enc.all isHexLower

/-! ### Repository: `^(?:pathComponent(?:/pathComponent)*)$` -/

/-- A separator run between two alphanumeric runs: `[._]`, `__` or `-+`. -/
def isSeparator (r : Bytes) : Bool :=
  r == [cDot] || r == [cUnder] || r == [cUnder, cUnder] || (r != [] && r.all (· == cDash))

/-- `alphanumeric(?:separator alphanumeric)*` with `fuel ≥ length`. State: we are
inside (or just after) an alphanumeric run. -/
def pathTail : Nat → Bytes → Bool
  | _, [] => true
  | 0, _ :: _ => false
  | fuel + 1, c :: rest =>
    if isAlnumLower c then pathTail fuel rest
    else
      -- a maximal run of non-alphanumerics must be one separator, followed by an alphanumeric
      let sep := (c :: rest).takeWhile (fun c => !isAlnumLower c)
      let after := (c :: rest).dropWhile (fun c => !isAlnumLower c)
      isSeparator sep && after != [] && pathTail fuel (after.drop 1)

def isPathComponent (s : Bytes) : Bool :=
  match s with
  | [] => false
  | c :: rest => isAlnumLower c && pathTail rest.length rest

/-- Split on a byte (like `strings.Split`): always ≥ 1 part. -/
def splitOn (sep : UInt8) : Bytes → List Bytes
  | [] => [[]]
  | b :: rest =>
    if b = sep then [] :: splitOn sep rest
    else match splitOn sep rest with
      | p :: ps => (b :: p) :: ps
      | [] => [[b]]

def isRepo (s : Bytes) : Bool := (splitOn cSlash s).all isPathComponent

/-! ### Host: `^(?:domainAndPort)$` -/

/-- `[a-zA-Z0-9](?:[a-zA-Z0-9-]*[a-zA-Z0-9])?` -/
def isDomainComponent (s : Bytes) : Bool :=
  match s with
  | [] => false
  | c :: rest =>
    isAlnum c && rest.all (fun c => isAlnum c || c == cDash) &&
      (match rest.getLast? with | none => true | some l => isAlnum l)

def isPort (s : Bytes) : Bool := s != [] && s.all isDigit

def isHost (s : Bytes) : Bool :=
  match s with
  | 91 :: rest =>                                   -- '[' : ipv6address (?: ':' port)?
    let body := rest.takeWhile (· != 93)
    match rest.dropWhile (· != 93) with
    | [] => false
    | _ :: after =>
      body != [] && body.all isIPv6Char &&
        (match after with
         | [] => true
         | c :: p => c == cColon && isPort p)
  | _ =>
    let hostPart := s.takeWhile (· != cColon)
    let comps := splitOn cDot hostPart
    match s.dropWhile (· != cColon) with
    | [] => comps.length ≥ 2 && comps.all isDomainComponent            -- domainName, no port
    | _ :: p => comps.all isDomainComponent && isPort p                -- (domainName | component) ':' port

/-! ### Reference -/

structure Reference where
  host   : Bytes
  repo   : Bytes
  tag    : Bytes
  digest : Bytes
  deriving DecidableEq, Repr

/-- `Reference.String` -/
def print (r : Reference) : Bytes :=
  (if r.host ≠ [] then r.host ++ [cSlash] else []) ++ r.repo ++
  (if r.tag ≠ [] then cColon :: r.tag else []) ++
  (if r.digest ≠ [] then cAt :: r.digest else [])

/-- `repoName(?::([^@]+))?(?:@(.+))?$` — the part of `referencePat` after the
optional host. `.` does not match a newline. -/
def parseRest (s : Bytes) : Option (Bytes × Bytes × Bytes) :=
  let repo := s.takeWhile (fun c => c != cColon && c != cAt)
  let tail := s.dropWhile (fun c => c != cColon && c != cAt)
  if !isRepo repo then none
  else
    let digestOk (d : Bytes) : Bool := d != [] && d.all (· != cNL)
    match tail with
    | [] => some (repo, [], [])
    | c :: t =>
      if c == cAt then (if digestOk t then some (repo, [], t) else none)
      else
        let tag := t.takeWhile (· != cAt)
        match t.dropWhile (· != cAt) with
        | [] => if tag != [] then some (repo, tag, []) else none
        | _ :: d => if tag != [] && digestOk d then some (repo, tag, d) else none

/-- The match of `referencePat`: the optional host group is greedy, so the first
`/`-delimited segment is the host iff it is a valid host *and* the rest matches. -/
def matchRef (s : Bytes) : Option Reference :=
  let first := s.takeWhile (· != cSlash)
  let withHost : Option Reference :=
    match s.dropWhile (· != cSlash) with
    | [] => none
    | _ :: rest =>
      if isHost first then (parseRest rest).map fun (p, t, d) => ⟨first, p, t, d⟩ else none
  match withHost with
  | some r => some r
  | none => (parseRest s).map fun (p, t, d) => ⟨[], p, t, d⟩

/-- `ParseRelative`: `none` is an error return. -/
def parseRelative (s : Bytes) : Option Reference :=
  match matchRef s with
  | none => none
  | some r =>
    if r.digest ≠ [] && !isDigest r.digest then none
    else if r.tag ≠ [] && !isTag r.tag then none
    else if r.repo.length > 255 then none
    else some r

/-- `Parse`: a host is required. -/
def parse (s : Bytes) : Option Reference :=
  match parseRelative s with
  | some r => if r.host = [] then none else some r
  | none => none

end OciModel.Ref
