/-
Helper lemmas for `Props/C04W.lean`: the case analysis of `flush`, the ghost invariant
of `stepG`, and the refinement of `OciModel/Upload.lean`'s writer.
-/
import OciModel.ClientWriter
import OciModel.Upload

namespace OciModel.ClientWriter
open OciModel OciModel.ReqCodec

/-- a toy `net/url` for examples: every header value is a path, nothing is escaped -/
def toyEnv : UrlEnv :=
  { resolve := fun _ h => some { path := h }
    parseID := fun id => some ({ path := id }, true)
    qesc := fun d => d }

theorem concatBody_eq (b1 b2 : Bytes) : concatBody b1 b2 = b1 ++ b2 := by
  unfold concatBody
  split
  · rename_i h
    have h1 : b1 = [] := List.eq_nil_of_length_eq_zero (by omega)
    have h2 : b2 = [] := List.eq_nil_of_length_eq_zero (by omega)
    simp [h1, h2]
  · split
    · rename_i h; simp [List.eq_nil_of_length_eq_zero h]
    · split
      · rename_i h; simp [List.eq_nil_of_length_eq_zero h]
      · rfl

/-- the writer after an acknowledged flush of `w.chunk ++ buf` -/
def flushedW (w : W) (buf : Bytes) (loc : Loc) : W :=
  { w with location := loc
           flushed := w.flushed + ((w.chunk.length + buf.length : Nat) : Int)
           chunk := [] }

theorem flush_reqs (env : UrlEnv) (w : W) (buf c : Bytes) (a : Answer) :
    (flush env w buf c a).2 = (flushReq env w buf c).toList := by
  unfold flush
  cases flushReq env w buf c with
  | none => rfl
  | some r =>
    simp only
    cases gate (if c = [] then 202 else 201) a with
    | some e => rfl
    | none =>
      simp only
      cases locationFromResponse env r.url a <;> rfl

theorem flushReq_body (env : UrlEnv) (w : W) (buf c : Bytes) (r : Req)
    (h : flushReq env w buf c = some r) : r.body = w.chunk ++ buf := by
  unfold flushReq at h
  split at h
  · cases h
  · cases h; exact concatBody_eq _ _

theorem flushReq_range (env : UrlEnv) (w : W) (buf c : Bytes) (r : Req)
    (h : flushReq env w buf c = some r) :
    r.contentRange = some (rangeString w.flushed (w.flushed + (r.body.length : Int))) := by
  have hb := flushReq_body env w buf c r h
  unfold flushReq at h
  split at h
  · cases h
  · cases h
    simp only [concatBody_eq, List.length_append]

theorem gate_none_iff (expect : Nat) (a : Answer) (he : expect ≠ 0) :
    gate expect a = none ↔ a.status = expect := by
  unfold gate
  constructor
  · intro h
    split at h
    · cases h
    · split at h
      · assumption
      · split at h <;> cases h
  · intro h
    have h0 : a.status ≠ 0 := by omega
    rw [if_neg h0, if_pos h]

/-- `acks` on the request of a flush is exactly "the flush goes through". -/
theorem flush_cases (env : UrlEnv) (w : W) (buf c : Bytes) (a : Answer) :
    (flushReq env w buf c = none ∧ flush env w buf c a = (.ok w, [])) ∨
    (∃ r, flushReq env w buf c = some r ∧
      ((acks env r a = true ∧ ∃ loc, flush env w buf c a = (.ok (flushedW w buf loc), [r])) ∨
       (acks env r a = false ∧ ∃ e, flush env w buf c a = (.error e, [r])))) := by
  cases hr : flushReq env w buf c with
  | none => left; exact ⟨rfl, by simp [flush, hr]⟩
  | some r =>
    right
    refine ⟨r, rfl, ?_⟩
    have hm : r.method = if c = [] then Method.patch else Method.put := by
      unfold flushReq at hr
      split at hr
      · cases hr
      · cases hr; rfl
    unfold flush
    simp only [hr]
    by_cases hc : c = []
    · -- PATCH, expects 202
      simp only [hc, if_true] at hm ⊢
      by_cases hs : a.status = 202
      · have hg : gate 202 a = none := (gate_none_iff 202 a (by decide)).mpr hs
        simp only [hg]
        unfold locationFromResponse
        by_cases hl : a.location = []
        · right
          refine ⟨by simp [acks, hl], ?_⟩
          simp [hl]
        · cases hres : env.resolve r.url a.location with
          | none =>
            right
            refine ⟨by simp [acks, hres], ?_⟩
            simp [hl]
          | some u =>
            left
            refine ⟨by simp [acks, hm, hs, hl, hres], u, ?_⟩
            simp [hl, flushedW]
      · right
        refine ⟨by simp [acks, hm, hs], ?_⟩
        have hg : gate 202 a ≠ none := fun h => hs ((gate_none_iff 202 a (by decide)).mp h)
        cases hg' : gate 202 a with
        | none => exact absurd hg' hg
        | some e => exact ⟨e, rfl⟩
    · -- PUT, expects 201
      simp only [hc, if_false] at hm ⊢
      by_cases hs : a.status = 201
      · have hg : gate 201 a = none := (gate_none_iff 201 a (by decide)).mpr hs
        simp only [hg]
        unfold locationFromResponse
        by_cases hl : a.location = []
        · right
          refine ⟨by simp [acks, hl], ?_⟩
          simp [hl]
        · cases hres : env.resolve r.url a.location with
          | none =>
            right
            refine ⟨by simp [acks, hres], ?_⟩
            simp [hl]
          | some u =>
            left
            refine ⟨by simp [acks, hm, hs, hl, hres], u, ?_⟩
            simp [hl, flushedW]
      · right
        refine ⟨by simp [acks, hm, hs], ?_⟩
        have hg : gate 201 a ≠ none := fun h => hs ((gate_none_iff 201 a (by decide)).mp h)
        cases hg' : gate 201 a with
        | none => exact absurd hg' hg
        | some e => exact ⟨e, rfl⟩

/-! ### The ghost invariant -/

/-- bytes acknowledged ++ bytes still buffered = bytes accepted; `flushed` and `size` count them
(from `off`, the offset the writer started at). -/
def Inv (off : Int) (w : W) (g : Ghost) : Prop :=
  g.acked ++ w.chunk = g.accepted ∧
  w.flushed = off + (g.acked.length : Int) ∧
  w.size = off + (g.accepted.length : Int)

/-- the bytes a call hands to the writer -/
def argBytes : Call → Bytes
  | .write buf => buf
  | _ => []

/-! `write`, `commit`, `close` in terms of what their `flush` did -/

theorem write_flush_ok {env : UrlEnv} {w w1 : W} {buf : Bytes} {a : Answer} {rs : List Req}
    (hcond : ((w.chunk.length + buf.length : Nat) : Int) > w.chunkSize)
    (hf : flush env w buf [] a = (.ok w1, rs)) :
    write env w buf a =
      { out := .ok buf.length, w := { w1 with size := w1.size + (buf.length : Int) }, reqs := rs } := by
  unfold write; rw [if_pos hcond, hf]

theorem write_flush_err {env : UrlEnv} {w : W} {buf : Bytes} {a : Answer} {rs : List Req} {e : WErr}
    (hcond : ((w.chunk.length + buf.length : Nat) : Int) > w.chunkSize)
    (hf : flush env w buf [] a = (.error e, rs)) :
    write env w buf a = { out := .error e, w := w, reqs := rs } := by
  unfold write; rw [if_pos hcond, hf]

theorem write_buffered {env : UrlEnv} {w : W} {buf : Bytes} {a : Answer}
    (hcond : ¬ ((w.chunk.length + buf.length : Nat) : Int) > w.chunkSize) :
    write env w buf a =
      { out := .ok buf.length
        w := { w with allocated := true, chunk := w.chunk ++ buf, size := w.size + (buf.length : Int) }
        allocs := if w.allocated then [] else [min w.chunkSize defaultChunkSize] } := by
  unfold write; rw [if_neg hcond]

theorem commit_flush_ok {env : UrlEnv} {w w1 : W} {d : Bytes} {a : Answer} {rs : List Req}
    (hd : d ≠ []) (hf : flush env w [] d a = (.ok w1, rs)) :
    commit env w d a = { out := .ok w1.size, w := w1, reqs := rs } := by
  unfold commit; rw [if_neg hd, hf]

theorem commit_flush_err {env : UrlEnv} {w : W} {d : Bytes} {a : Answer} {rs : List Req} {e : WErr}
    (hd : d ≠ []) (hf : flush env w [] d a = (.error e, rs)) :
    commit env w d a = { out := .error e, w := w, reqs := rs } := by
  unfold commit; rw [if_neg hd, hf]

theorem close_flush_ok {env : UrlEnv} {w w1 : W} {a : Answer} {rs : List Req}
    (hc : w.closed = false) (hf : flush env w [] [] a = (.ok w1, rs)) :
    close env w a = { out := .ok (), w := { w1 with closed := true, closeErr := none }, reqs := rs } := by
  unfold close; rw [hc, hf]; rfl

theorem close_flush_err {env : UrlEnv} {w : W} {a : Answer} {rs : List Req} {e : WErr}
    (hc : w.closed = false) (hf : flush env w [] [] a = (.error e, rs)) :
    close env w a = { out := .error e, w := { w with closed := true, closeErr := some e }, reqs := rs } := by
  unfold close; rw [hc, hf]; rfl

theorem close_closed {env : UrlEnv} {w : W} {a : Answer} (hc : w.closed = true) :
    close env w a = { out := closedResult w, w := w } := by
  unfold close; rw [if_pos hc]

theorem flushReq_none_empty {env : UrlEnv} {w : W} {buf c : Bytes} (h : flushReq env w buf c = none) :
    c = [] ∧ buf = [] ∧ w.chunk = [] := by
  unfold flushReq at h; split at h
  · rename_i hh
    exact ⟨hh.1, List.eq_nil_of_length_eq_zero (by omega), List.eq_nil_of_length_eq_zero (by omega)⟩
  · cases h

theorem inv_stepG (env : UrlEnv) (off : Int) (w : W) (g : Ghost) (c : Call) (a : Answer)
    (h : Inv off w g) : Inv off (stepG env w g c a).1 (stepG env w g c a).2.1 := by
  obtain ⟨h1, h2, h3⟩ := h
  cases c with
  | cancel => simpa [stepG, step, cancel, Inv, mapOut, accOf, ackOf] using ⟨h1, h2, h3⟩
  | write buf =>
    by_cases hcond : ((w.chunk.length + buf.length : Nat) : Int) > w.chunkSize
    · rcases flush_cases env w buf [] a with ⟨hn, hf⟩ | ⟨r, hr, ⟨hack, loc, hf⟩ | ⟨hack, e, hf⟩⟩
      · obtain ⟨-, hb, hch⟩ := flushReq_none_empty hn
        simp only [stepG, step, write_flush_ok hcond hf, mapOut, accOf, ackOf, Inv, List.append_nil]
        subst hb
        exact ⟨by simpa using h1, h2, by simp [h3]⟩
      · have hbody := flushReq_body env w buf [] r hr
        simp only [stepG, step, write_flush_ok hcond hf, mapOut, accOf, ackOf, Inv, List.append_nil, hack,
          if_true, flushedW, hbody]
        refine ⟨?_, ?_, ?_⟩
        · rw [← h1]; simp
        · simp only [h2, List.length_append]; push_cast; omega
        · simp only [h3, List.length_append]; push_cast; omega
      · simp only [stepG, step, write_flush_err hcond hf, mapOut, accOf, ackOf, Inv, List.append_nil, hack]
        exact ⟨by simpa using h1, by simpa using h2, by simpa using h3⟩
    · simp only [stepG, step, write_buffered hcond, mapOut, accOf, ackOf, Inv, List.append_nil]
      refine ⟨?_, h2, ?_⟩
      · rw [← h1]; simp
      · simp only [h3, List.length_append]; push_cast; omega
  | commit d =>
    by_cases hd : d = []
    · subst hd
      simpa [stepG, step, commit, Inv, accOf, ackOf] using ⟨h1, h2, h3⟩
    · rcases flush_cases env w [] d a with ⟨hn, hf⟩ | ⟨r, hr, ⟨hack, loc, hf⟩ | ⟨hack, e, hf⟩⟩
      · exact absurd (flushReq_none_empty hn).1 hd
      · have hbody := flushReq_body env w [] d r hr
        simp only [stepG, step, commit_flush_ok hd hf, accOf, ackOf, Inv, List.append_nil, hack, if_true,
          flushedW, hbody]
        refine ⟨h1, ?_, h3⟩
        simp only [h2, List.length_append]; push_cast; simp; omega
      · simp only [stepG, step, commit_flush_err hd hf, accOf, ackOf, Inv, List.append_nil, hack]
        exact ⟨by simpa using h1, by simpa using h2, by simpa using h3⟩
  | close =>
    cases hcl : w.closed with
    | true =>
      simp only [stepG, step, close_closed hcl, accOf, ackOf, Inv, List.append_nil]
      exact ⟨h1, h2, h3⟩
    | false =>
      rcases flush_cases env w [] [] a with ⟨hn, hf⟩ | ⟨r, hr, ⟨hack, loc, hf⟩ | ⟨hack, e, hf⟩⟩
      · simp only [stepG, step, close_flush_ok hcl hf, mapOut, accOf, ackOf, Inv, List.append_nil]
        exact ⟨h1, h2, h3⟩
      · have hbody := flushReq_body env w [] [] r hr
        simp only [stepG, step, close_flush_ok hcl hf, mapOut, accOf, ackOf, Inv, List.append_nil, hack,
          if_true, flushedW, hbody]
        refine ⟨h1, ?_, h3⟩
        simp only [h2, List.length_append]; push_cast; simp; omega
      · simp only [stepG, step, close_flush_err hcl hf, mapOut, accOf, ackOf, Inv, List.append_nil, hack]
        exact ⟨by simpa using h1, by simpa using h2, by simpa using h3⟩

theorem inv_runG (env : UrlEnv) (off : Int) (script : List (Call × Answer)) (w : W) (g : Ghost)
    (h : Inv off w g) : Inv off (runG env w g script).1 (runG env w g script).2.1 := by
  induction script generalizing w g with
  | nil => simpa [runG] using h
  | cons ca rest ih =>
    obtain ⟨c, a⟩ := ca
    have h1 := inv_stepG env off w g c a h
    have := ih (stepG env w g c a).1 (stepG env w g c a).2.1 h1
    simpa [runG] using this

theorem runG_length (env : UrlEnv) (script : List (Call × Answer)) (w : W) (g : Ghost) :
    (runG env w g script).2.2.length = script.length := by
  induction script generalizing w g with
  | nil => simp [runG]
  | cons ca rest ih =>
    obtain ⟨c, a⟩ := ca
    simp [runG, ih]

/-- the writer with other `closed` / `closeErr` fields -/
def setClosed (w : W) (cl : Bool) (ce : Option WErr) : W := { w with closed := cl, closeErr := ce }

/-- `flush` neither reads nor writes `closed` and `closeErr`. -/
theorem flush_setClosed (env : UrlEnv) (w : W) (buf c : Bytes) (a : Answer) (cl : Bool) (ce : Option WErr) :
    flush env (setClosed w cl ce) buf c a =
      (match (flush env w buf c a).1 with
       | .ok w1 => .ok (setClosed w1 cl ce)
       | .error e => .error e, (flush env w buf c a).2) := by
  have hreq : flushReq env (setClosed w cl ce) buf c = flushReq env w buf c := rfl
  unfold flush
  rw [hreq]
  cases flushReq env w buf c with
  | none => rfl
  | some r =>
    simp only
    cases gate (if c = [] then 202 else 201) a with
    | some e => rfl
    | none =>
      simp only
      cases locationFromResponse env r.url a with
      | error e => rfl
      | ok loc => rfl

/-- the requests of a step, without the answer -/
def stepReq (env : UrlEnv) (w : W) : Call → Option Req
  | .write buf => if ((w.chunk.length + buf.length : Nat) : Int) > w.chunkSize then flushReq env w buf [] else none
  | .commit d => if d = [] then none else flushReq env w [] d
  | .close => if w.closed then none else flushReq env w [] []
  | .cancel => none

theorem step_reqs (env : UrlEnv) (w : W) (c : Call) (a : Answer) :
    (step env w c a).2.reqs = (stepReq env w c).toList := by
  cases c with
  | cancel => rfl
  | write buf =>
    by_cases hcond : ((w.chunk.length + buf.length : Nat) : Int) > w.chunkSize
    · have hfr := flush_reqs env w buf [] a
      cases hf : flush env w buf [] a with
      | mk o rs =>
        rw [hf] at hfr
        cases o with
        | ok w1 => simp only [step, write_flush_ok hcond hf, stepReq, if_pos hcond]; exact hfr
        | error e => simp only [step, write_flush_err hcond hf, stepReq, if_pos hcond]; exact hfr
    · simp only [step, write_buffered hcond, stepReq, if_neg hcond]; rfl
  | commit d =>
    by_cases hd : d = []
    · subst hd; simp [step, commit, stepReq]
    · have hfr := flush_reqs env w [] d a
      cases hf : flush env w [] d a with
      | mk o rs =>
        rw [hf] at hfr
        cases o with
        | ok w1 => simp only [step, commit_flush_ok hd hf, stepReq, if_neg hd]; exact hfr
        | error e => simp only [step, commit_flush_err hd hf, stepReq, if_neg hd]; exact hfr
  | close =>
    cases hcl : w.closed with
    | true => simp [step, close_closed hcl, stepReq, hcl]
    | false =>
      have hfr := flush_reqs env w [] [] a
      cases hf : flush env w [] [] a with
      | mk o rs =>
        rw [hf] at hfr
        cases o with
        | ok w1 => simp only [step, close_flush_ok hcl hf, stepReq, hcl]; simpa using hfr
        | error e => simp only [step, close_flush_err hcl hf, stepReq, hcl]; simpa using hfr

theorem stepReq_flush (env : UrlEnv) (w : W) (c : Call) (r : Req) (h : stepReq env w c = some r) :
    ∃ d, flushReq env w (argBytes c) d = some r := by
  cases c with
  | cancel => cases h
  | write buf =>
    simp only [stepReq] at h
    split at h
    · exact ⟨[], h⟩
    · cases h
  | commit d =>
    simp only [stepReq] at h
    split at h
    · cases h
    · exact ⟨d, h⟩
  | close =>
    simp only [stepReq] at h
    split at h
    · cases h
    · exact ⟨[], h⟩

/-! ### Refinement of `Upload.lean`'s writer -/

open OciModel.Upload in
/-- the writer of `Upload.lean` seen in a `W` -/
def toCW (w : W) : Upload.CW := ⟨w.chunk, w.size.toNat, w.flushed.toNat, w.chunkSize.toNat⟩

/-- the digest argument of `flush` as `Upload.lean` has it -/
def optDigest (c : Bytes) : Option Bytes := if c = [] then none else some c

open OciModel.Upload in
/-- The idealised server of `Upload.lean` put behind the requests of this model: `cw` is the
client state to report when the server accepts. -/
def viaIdeal (H : Bytes → Bytes) (sv : Srv) (co : Option Bytes) (reqs : List Req) (cw : CW) :
    Except Err (CW × Srv × List BOp) :=
  match reqs with
  | [] => .ok (cw, sv, [])
  | r :: _ =>
    match serverChunk H sv (r.contentRange.getD (0, 0)) r.body co with
    | .error e => .error e
    | .ok (sv1, log) => .ok (cw, sv1, log)

/-- an answer that lets a flush through: the expected status and a usable `Location` -/
def Accepting (env : UrlEnv) (status : Nat) (a : Answer) : Prop :=
  a.status = status ∧ a.location ≠ [] ∧ ∀ u, (env.resolve u a.location).isSome = true

theorem flush_accepting (env : UrlEnv) (w : W) (buf c : Bytes) (a : Answer)
    (ha : Accepting env (if c = [] then 202 else 201) a) (r : Req) (hr : flushReq env w buf c = some r) :
    ∃ loc, flush env w buf c a = (.ok (flushedW w buf loc), [r]) := by
  obtain ⟨hs, hl, hres⟩ := ha
  have hg : gate (if c = [] then 202 else 201) a = none :=
    (gate_none_iff _ a (by split <;> decide)).mpr hs
  unfold flush
  simp only [hr, hg]
  unfold locationFromResponse
  have := hres r.url
  cases hq : env.resolve r.url a.location with
  | none => rw [hq] at this; cases this
  | some u => exact ⟨u, by simp [hl, flushedW]⟩

open OciModel.Upload in
theorem upload_flush_send (H : Bytes → Bytes) (cw : CW) (sv : Srv) (extra : Bytes) (co : Option Bytes)
    (h : ¬ (co.isNone = true ∧ cw.chunk ++ extra = [])) :
    Upload.flush H cw sv extra co =
      match serverChunk H sv (rangeString (cw.flushed : Int) ((cw.flushed : Int) + ((cw.chunk ++ extra).length : Int)))
          (cw.chunk ++ extra) co with
      | .error e => .error e
      | .ok (sv1, log) => .ok ({ cw with flushed := cw.flushed + (cw.chunk ++ extra).length, chunk := [] }, sv1, log) := by
  unfold Upload.flush
  simp only [h, if_false]
  cases serverChunk H sv (rangeString (cw.flushed : Int) ((cw.flushed : Int) + ((cw.chunk ++ extra).length : Int)))
      (cw.chunk ++ extra) co with
  | error e => rfl
  | ok p => obtain ⟨sv1, log⟩ := p; rfl

open OciModel.Upload in
theorem flush_refines (H : Bytes → Bytes) (env : UrlEnv) (w : W) (sv : Srv) (buf c : Bytes) (a : Answer)
    (hf : 0 ≤ w.flushed) (ha : Accepting env (if c = [] then 202 else 201) a) :
    Upload.flush H (toCW w) sv buf (optDigest c) =
      viaIdeal H sv (optDigest c) (flush env w buf c a).2
        (match (flush env w buf c a).1 with
         | .ok w1 => toCW w1
         | .error _ => toCW w) := by
  have hfl : ((w.flushed.toNat : Nat) : Int) = w.flushed := Int.toNat_of_nonneg hf
  cases hr : flushReq env w buf c with
  | none =>
    have hflush : flush env w buf c a = (.ok w, []) := by simp [flush, hr]
    obtain ⟨hc, hb, hch⟩ := flushReq_none_empty hr
    subst hc; subst hb
    rw [hflush]
    simp [viaIdeal, Upload.flush, toCW, optDigest, hch]
  | some r =>
    obtain ⟨loc, hflush⟩ := flush_accepting env w buf c a ha r hr
    have hbody := flushReq_body env w buf c r hr
    have hrange := flushReq_range env w buf c r hr
    have hne : ¬ (c = [] ∧ buf.length + w.chunk.length = 0) := by
      unfold flushReq at hr; split at hr
      · cases hr
      · assumption
    have hne' : ¬ ((optDigest c).isNone = true ∧ (toCW w).chunk ++ buf = []) := by
      rintro ⟨h1, h2⟩
      apply hne
      refine ⟨?_, ?_⟩
      · unfold optDigest at h1; split at h1
        · assumption
        · cases h1
      · have h3 := List.append_eq_nil_iff.mp h2
        have h4 : w.chunk = [] := h3.1
        simp [h4, h3.2]
    rw [upload_flush_send H (toCW w) sv buf (optDigest c) hne', hflush]
    simp only [viaIdeal, hrange, Option.getD_some, hbody]
    have e1 : ((toCW w).flushed : Int) = w.flushed := hfl
    have e2 : (toCW w).chunk = w.chunk := rfl
    rw [e1, e2]
    generalize serverChunk H sv (rangeString w.flushed (w.flushed + ((w.chunk ++ buf).length : Int)))
      (w.chunk ++ buf) (optDigest c) = res
    cases res with
    | error e => rfl
    | ok p =>
      obtain ⟨sv1, log⟩ := p
      simp only [flushedW, toCW, List.length_append]
      congr 3
      omega

end OciModel.ClientWriter
