/-
Lemmas about the concurrent view `MemConc` of the in-memory registry: the digest invariant over
every interleaving of atomic steps, the snapshot taken by the first critical section of a commit
is what the second one stores, repositories are never removed, `GetTag` as one atomic step
versus a two-step variant, and the linearization order given by the atomic steps.

`H` stays a parameter; nothing is assumed about it.
-/
import OciModel.MemConc
import OciModel.MemLemmas

namespace OciModel.MemConc
open OciModel OciModel.Mem

/-! ### Snapshots -/

theorem lookupSnap_eraseSnap_eq (k : Bytes × Bytes) (sn : Snaps) : lookupSnap k (eraseSnap k sn) = none := by
  induction sn with
  | nil => rfl
  | cons p rest ih =>
    obtain ⟨k', v⟩ := p
    by_cases h : k' = k
    · simp [eraseSnap, h, ih]
    · simp [eraseSnap, lookupSnap, h, ih]

theorem lookupSnap_eraseSnap_ne {k k' : Bytes × Bytes} (hne : k ≠ k') (sn : Snaps) :
    lookupSnap k' (eraseSnap k sn) = lookupSnap k' sn := by
  induction sn with
  | nil => rfl
  | cons p rest ih =>
    obtain ⟨k'', v⟩ := p
    by_cases h : k'' = k
    · subst h
      simp only [eraseSnap, lookupSnap, if_true, if_neg hne]
      exact ih
    · by_cases h2 : k'' = k'
      · subst h2
        simp only [eraseSnap, lookupSnap, if_neg h, if_true]
      · simp only [eraseSnap, lookupSnap, if_neg h, if_neg h2]
        exact ih

theorem lookupSnap_cons_eq (k : Bytes × Bytes) (v : Bytes × Bytes) (sn : Snaps) :
    lookupSnap k ((k, v) :: sn) = some v := by
  simp [lookupSnap]

theorem lookupSnap_cons_ne {k k' : Bytes × Bytes} (hne : k ≠ k') (v : Bytes × Bytes) (sn : Snaps) :
    lookupSnap k' ((k, v) :: sn) = lookupSnap k' sn := by
  simp [lookupSnap, hne]

theorem eraseSnap_idem (k : Bytes × Bytes) (sn : Snaps) : eraseSnap k (eraseSnap k sn) = eraseSnap k sn := by
  induction sn with
  | nil => rfl
  | cons p rest ih =>
    obtain ⟨k', v⟩ := p
    by_cases h : k' = k
    · simp [eraseSnap, h, ih]
    · simp [eraseSnap, h, ih]

section
variable (H : Bytes → Bytes)

theorem snapsOk_nil : SnapsOk H [] := by
  intro k dig data h; simp [lookupSnap] at h

theorem snapsOk_erase {sn : Snaps} (k : Bytes × Bytes) (h : SnapsOk H sn) : SnapsOk H (eraseSnap k sn) := by
  intro k' dig data hl
  by_cases hk : k = k'
  · subst hk; rw [lookupSnap_eraseSnap_eq] at hl; cases hl
  · rw [lookupSnap_eraseSnap_ne hk] at hl; exact h k' dig data hl

theorem snapsOk_cons {sn : Snaps} {k : Bytes × Bytes} {dig data : Bytes} (hd : H data = dig)
    (h : SnapsOk H sn) : SnapsOk H ((k, (dig, data)) :: sn) := by
  intro k' dig' data' hl
  by_cases hk : k = k'
  · subst hk
    rw [lookupSnap_cons_eq] at hl
    cases hl; exact hd
  · rw [lookupSnap_cons_ne hk] at hl; exact h k' dig' data' hl

/-! ### `astep` in closed form -/

theorem astep_op (c : CState) (o : Op) :
    astep H c (.op o) = ({ c with st := (step H c.st o).1 }, (step H c.st o).2) := rfl

theorem astep_op_snaps (c : CState) (o : Op) : (astep H c (.op o)).1.snaps = c.snaps := rfl

theorem arun_nil (c : CState) : arun H c [] = c := rfl

theorem arun_cons (c : CState) (a : AStep) (rest : List AStep) :
    arun H c (a :: rest) = arun H (astep H c a).1 rest := rfl

theorem arun_append (c : CState) (l1 l2 : List AStep) :
    arun H c (l1 ++ l2) = arun H (arun H c l1) l2 := by
  induction l1 generalizing c with
  | nil => rfl
  | cons a rest ih => simp only [List.cons_append, arun_cons]; exact ih _

/-- The first critical section of a commit, case by case. -/
theorem commitCheck_spec (c : CState) (r id dig : Bytes) :
    (getBuffer c.st r id = none ∧ astep H c (.commitCheck r id dig) = (c, .err "NO-WRITER"))
    ∨ (∃ rp b e, getBuffer c.st r id = some (rp, b) ∧ b.commitErr = some e ∧
        astep H c (.commitCheck r id dig) = (c, .err e))
    ∨ (∃ rp b, getBuffer c.st r id = some (rp, b) ∧ b.commitErr = none ∧ H b.buf ≠ dig ∧
        astep H c (.commitCheck r id dig) =
          ({ c with st := putBuffer c.st r rp id { b with commitErr := some "DIGEST_INVALID" } },
           .err "DIGEST_INVALID"))
    ∨ (∃ rp b, getBuffer c.st r id = some (rp, b) ∧ b.commitErr = none ∧ H b.buf = dig ∧
        astep H c (.commitCheck r id dig) =
          ({ st := putBuffer c.st r rp id { b with committed := true },
             snaps := ((r, id), (dig, b.buf)) :: eraseSnap (r, id) c.snaps }, .okUnit)) := by
  cases hb : getBuffer c.st r id with
  | none => exact Or.inl ⟨rfl, by simp [astep, hb]⟩
  | some p =>
    obtain ⟨rp, b⟩ := p
    cases he : b.commitErr with
    | some e => exact Or.inr (Or.inl ⟨rp, b, e, rfl, he, by simp [astep, hb, he]⟩)
    | none =>
      by_cases hd : H b.buf = dig
      · exact Or.inr (Or.inr (Or.inr ⟨rp, b, rfl, he, hd, by simp [astep, hb, he, hd]⟩))
      · exact Or.inr (Or.inr (Or.inl ⟨rp, b, rfl, he, hd, by simp [astep, hb, he, hd]⟩))

/-- The second critical section of a commit, case by case. -/
theorem commitStore_spec (c : CState) (r id : Bytes) :
    (lookupSnap (r, id) c.snaps = none ∧ astep H c (.commitStore r id) = (c, .err "NOT-CHECKED"))
    ∨ (∃ dig data, lookupSnap (r, id) c.snaps = some (dig, data) ∧ getRepo c.st r = none ∧
        astep H c (.commitStore r id) = (c, .err "NAME_UNKNOWN"))
    ∨ (∃ dig data rp, lookupSnap (r, id) c.snaps = some (dig, data) ∧ getRepo c.st r = some rp ∧
        astep H c (.commitStore r id) =
          ({ st := putRepo c.st r { rp with blobs := ainsert dig ⟨octetStream, data, [], []⟩ rp.blobs },
             snaps := eraseSnap (r, id) c.snaps }, .okDesc ⟨octetStream, dig, data.length⟩)) := by
  cases hl : lookupSnap (r, id) c.snaps with
  | none => exact Or.inl ⟨rfl, by simp [astep, hl]⟩
  | some p =>
    obtain ⟨dig, data⟩ := p
    cases hg : getRepo c.st r with
    | none => exact Or.inr (Or.inl ⟨dig, data, rfl, rfl, by simp [astep, hl, hg]⟩)
    | some rp => exact Or.inr (Or.inr ⟨dig, data, rp, rfl, rfl, by simp [astep, hl, hg]⟩)

/-! ### K1: the digest invariant over interleavings -/

/-- The invariant of the concurrent state: the sequential digest invariant, and every pending
snapshot hashes to the digest it will be stored under. -/
def CInv (c : CState) : Prop := Mem.Inv H c.st ∧ SnapsOk H c.snaps

theorem cinv_init (imm : Bool) : CInv H ⟨Mem.init imm, []⟩ := ⟨inv_init H imm, snapsOk_nil H⟩

theorem cinv_astep (c : CState) (a : AStep) (hc : CInv H c) : CInv H (astep H c a).1 := by
  obtain ⟨hs, hsn⟩ := hc
  cases a with
  | op o => exact ⟨inv_step H c.st o hs, hsn⟩
  | commitCheck r id dig =>
    rcases commitCheck_spec H c r id dig with ⟨_, h⟩ | ⟨_, _, _, _, _, h⟩ | ⟨rp, b, hb, _, _, h⟩ | ⟨rp, b, hb, _, hd, h⟩
    · rw [h]; exact ⟨hs, hsn⟩
    · rw [h]; exact ⟨hs, hsn⟩
    · rw [h]; exact ⟨inv_putBuffer H hs (inv_getBuffer H hs hb), hsn⟩
    · rw [h]; exact ⟨inv_putBuffer H hs (inv_getBuffer H hs hb), snapsOk_cons H hd (snapsOk_erase H _ hsn)⟩
  | commitStore r id =>
    rcases commitStore_spec H c r id with ⟨_, h⟩ | ⟨_, _, _, _, h⟩ | ⟨dig, data, rp, hl, hg, h⟩
    · rw [h]; exact ⟨hs, hsn⟩
    · rw [h]; exact ⟨hs, hsn⟩
    · rw [h]
      have hrp := hs r rp hg
      have hd : H data = dig := hsn (r, id) dig data hl
      exact ⟨inv_putRepo H hs ⟨mapOK_ainsert H hd hrp.1, hrp.2⟩, snapsOk_erase H _ hsn⟩

theorem cinv_arun (c : CState) (sched : List AStep) (hc : CInv H c) : CInv H (arun H c sched) := by
  induction sched generalizing c with
  | nil => exact hc
  | cons a rest ih => exact ih _ (cinv_astep H c a hc)

/-! ### Repositories are never removed -/

/-- every repository of `s` is still a repository of `s'` -/
def Keeps (s s' : State) : Prop := ∀ r, (getRepo s r).isSome = true → (getRepo s' r).isSome = true

theorem Keeps.refl (s : State) : Keeps s s := fun _ h => h

theorem Keeps.trans {s s1 s2 : State} (h1 : Keeps s s1) (h2 : Keeps s1 s2) : Keeps s s2 :=
  fun r h => h2 r (h1 r h)

theorem Keeps.put {s s1 : State} (h : Keeps s s1) (r : Bytes) (rp : Repo) : Keeps s (putRepo s1 r rp) := by
  intro r' hr
  rw [getRepo_putRepo]
  by_cases e : r = r'
  · simp [e]
  · simp [e]; exact h r' hr

theorem Keeps.putBuf {s s1 : State} (h : Keeps s s1) (r : Bytes) (rp : Repo) (id : Bytes) (b : Buffer) :
    Keeps s (putBuffer s1 r rp id b) := h.put r _

theorem Keeps.nextID {s s1 : State} (h : Keeps s s1) (n : Nat) : Keeps s { s1 with nextID := n } := h

theorem Keeps.make {s s1 : State} {r : Bytes} {rp : Repo} (hm : makeRepo s r = some (s1, rp)) : Keeps s s1 := by
  rcases (makeRepo_spec hm).2.2 with ⟨h1, _⟩ | ⟨_, _, h1⟩
  · subst h1; exact Keeps.refl _
  · subst h1; exact (Keeps.refl _).put _ _

theorem keeps_step (s : State) (op : Op) : Keeps s (step H s op).1 := by
  cases op with
  | getBlob r d => simp only [step]; split <;> exact Keeps.refl s
  | getBlobRange r d o0 o1 => simp only [step]; repeat' split
                              all_goals exact Keeps.refl s
  | getManifest r d => simp only [step]; split <;> exact Keeps.refl s
  | getTag r t => simp only [step]; repeat' split
                  all_goals exact Keeps.refl s
  | resolveBlob r d => simp only [step]; split <;> exact Keeps.refl s
  | resolveManifest r d => simp only [step]; split <;> exact Keeps.refl s
  | resolveTag r t => simp only [step]; repeat' split
                      all_goals exact Keeps.refl s
  | pushBlob r desc data =>
    simp only [step]
    split
    · exact Keeps.refl s
    · split
      · exact Keeps.refl s
      · rename_i s1 rp hm
        exact (Keeps.make hm).put _ _
  | pushChunked r =>
    simp only [step]
    split
    · exact Keeps.refl s
    · rename_i s1 rp hm
      exact ((Keeps.make hm).putBuf _ _ _ _).nextID _
  | resume r id offset =>
    simp only [step]
    split
    · exact Keeps.refl s
    · rename_i s1 rp hm
      split
      · exact (Keeps.make hm).putBuf _ _ _ _
      · split
        · exact ((Keeps.make hm).putBuf _ _ _ _).nextID _
        · exact (Keeps.make hm).putBuf _ _ _ _
  | wWrite r id data =>
    simp only [step]
    split
    · exact Keeps.refl s
    · split
      · exact Keeps.refl s
      · exact (Keeps.refl s).putBuf _ _ _ _
  | wSize r id => simp only [step]; split <;> exact Keeps.refl s
  | wCancel r id =>
    simp only [step]
    split
    · exact Keeps.refl s
    · exact (Keeps.refl s).putBuf _ _ _ _
  | wCommit r id dig =>
    simp only [step]
    split
    · exact Keeps.refl s
    · split
      · exact Keeps.refl s
      · split
        · exact (Keeps.refl s).putBuf _ _ _ _
        · exact (Keeps.refl s).put _ _
  | mount fromR toR d =>
    simp only [step]
    split
    · exact Keeps.refl s
    · rename_i s1 rp hm
      split
      · exact Keeps.make hm
      · split
        · exact Keeps.make hm
        · exact (Keeps.make hm).put _ _
  | pushManifest r0 t data mt dec =>
    rcases pushManifest_spec H s r0 t data mt dec with
      ⟨e, s1, hst, hs1⟩ | ⟨rp, cur, _, _, _, _, _, _, _, _, hst⟩ |
      ⟨s1, rp, rs, subj, hm, _, _, _, _, _, _, hst⟩
    · rw [hst]
      rcases hs1 with rfl | ⟨rp, hm⟩
      · exact Keeps.refl _
      · exact Keeps.make hm
    · rw [hst]; exact Keeps.refl s
    · rw [hst]; exact (Keeps.make hm).put _ _
  | deleteBlob r d =>
    simp only [step]
    split
    · exact Keeps.refl s
    · split
      · exact Keeps.refl s
      · split
        · exact Keeps.refl s
        · exact (Keeps.refl s).put _ _
  | deleteManifest r d =>
    simp only [step]
    split
    · exact Keeps.refl s
    · split
      · exact Keeps.refl s
      · split
        · exact Keeps.refl s
        · exact (Keeps.refl s).put _ _
  | deleteTag r t =>
    simp only [step]
    split
    · exact Keeps.refl s
    · split
      · exact Keeps.refl s
      · split
        · exact Keeps.refl s
        · exact (Keeps.refl s).put _ _
  | repositories start => exact Keeps.refl s
  | tags r start => simp only [step]; split <;> exact Keeps.refl s
  | referrers r d => simp only [step]; split <;> exact Keeps.refl s

theorem keeps_astep (c : CState) (a : AStep) : Keeps c.st (astep H c a).1.st := by
  cases a with
  | op o => exact keeps_step H c.st o
  | commitCheck r id dig =>
    rcases commitCheck_spec H c r id dig with ⟨_, h⟩ | ⟨_, _, _, _, _, h⟩ | ⟨rp, b, _, _, _, h⟩ | ⟨rp, b, _, _, _, h⟩
    · rw [h]; exact Keeps.refl _
    · rw [h]; exact Keeps.refl _
    · rw [h]; exact (Keeps.refl _).putBuf _ _ _ _
    · rw [h]; exact (Keeps.refl _).putBuf _ _ _ _
  | commitStore r id =>
    rcases commitStore_spec H c r id with ⟨_, h⟩ | ⟨_, _, _, _, h⟩ | ⟨dig, data, rp, _, _, h⟩
    · rw [h]; exact Keeps.refl _
    · rw [h]; exact Keeps.refl _
    · rw [h]; exact (Keeps.refl _).put _ _

theorem keeps_arun (c : CState) (sched : List AStep) : Keeps c.st (arun H c sched).st := by
  induction sched generalizing c with
  | nil => exact Keeps.refl _
  | cons a rest ih => exact (keeps_astep H c a).trans (ih _)

theorem Keeps.some {s s' : State} (h : Keeps s s') {r : Bytes} {rp : Repo} (hg : getRepo s r = some rp) :
    ∃ rp', getRepo s' r = some rp' := by
  have := h r (by simp [hg])
  cases hg' : getRepo s' r with
  | none => simp [hg'] at this
  | some rp' => exact ⟨rp', rfl⟩

/-! ### K2: the snapshot survives everything but a commit of the same session -/

/-- `a` is one of the two critical sections of a commit of session `(r, id)` -/
def IsCommitOf (r id : Bytes) : AStep → Prop
  | .op _ => False
  | .commitCheck r' id' _ => r' = r ∧ id' = id
  | .commitStore r' id' => r' = r ∧ id' = id

/-- no step of `mid` is a critical section of a commit of session `(r, id)`; anything else —
writes to that very session included — is allowed -/
def NoCommitOf (r id : Bytes) (mid : List AStep) : Prop := ∀ a ∈ mid, ¬ IsCommitOf r id a

theorem snap_astep (c : CState) (a : AStep) {r id : Bytes} (ha : ¬ IsCommitOf r id a) :
    lookupSnap (r, id) (astep H c a).1.snaps = lookupSnap (r, id) c.snaps := by
  cases a with
  | op o => rfl
  | commitCheck r' id' dig =>
    have hne : (r', id') ≠ (r, id) := by
      intro e; cases e; exact ha ⟨rfl, rfl⟩
    rcases commitCheck_spec H c r' id' dig with ⟨_, h⟩ | ⟨_, _, _, _, _, h⟩ | ⟨rp, b, _, _, _, h⟩ | ⟨rp, b, _, _, _, h⟩
    · rw [h]
    · rw [h]
    · rw [h]
    · rw [h]
      show lookupSnap (r, id) (((r', id'), (dig, b.buf)) :: eraseSnap (r', id') c.snaps) = _
      rw [lookupSnap_cons_ne hne, lookupSnap_eraseSnap_ne hne]
  | commitStore r' id' =>
    have hne : (r', id') ≠ (r, id) := by
      intro e; cases e; exact ha ⟨rfl, rfl⟩
    rcases commitStore_spec H c r' id' with ⟨_, h⟩ | ⟨_, _, _, _, h⟩ | ⟨dig, data, rp, _, _, h⟩
    · rw [h]
    · rw [h]
    · rw [h]
      show lookupSnap (r, id) (eraseSnap (r', id') c.snaps) = _
      rw [lookupSnap_eraseSnap_ne hne]

theorem snap_arun (c : CState) (mid : List AStep) {r id : Bytes} (hmid : NoCommitOf r id mid) :
    lookupSnap (r, id) (arun H c mid).snaps = lookupSnap (r, id) c.snaps := by
  induction mid generalizing c with
  | nil => rfl
  | cons a rest ih =>
    rw [arun_cons, ih _ (fun x hx => hmid x (List.mem_cons_of_mem _ hx))]
    exact snap_astep H c a (hmid a (List.mem_cons_self ..))

/-! ### K5: the two-step commit against the sequential `wCommit` -/

theorem aerase_idem {β} (k : Bytes) (m : List (Bytes × β)) : aerase k (aerase k m) = aerase k m := by
  induction m with
  | nil => rfl
  | cons p rest ih =>
    obtain ⟨k', v⟩ := p
    by_cases h : k' = k
    · simp [aerase, h, ih]
    · simp [aerase, h, ih]

theorem putRepo_putRepo (s : State) (r : Bytes) (x y : Repo) : putRepo (putRepo s r x) r y = putRepo s r y := by
  simp [putRepo, ainsert, aerase, aerase_idem]

/-! ### Schedules: outputs, and predicates along a schedule -/

/-- the outputs of the steps of a schedule, in order -/
def aouts (c : CState) : List AStep → List Out
  | [] => []
  | a :: rest => (astep H c a).2 :: aouts (astep H c a).1 rest

/-- `P` holds in every state the schedule goes through (the first and the last included) -/
def Along (P : CState → Prop) (c : CState) : List AStep → Prop
  | [] => P c
  | a :: rest => P c ∧ Along P (astep H c a).1 rest

theorem along_prefix {P : CState → Prop} {c : CState} {sched : List AStep} (h : Along H P c sched)
    (pre post : List AStep) (e : sched = pre ++ post) : P (arun H c pre) := by
  induction pre generalizing c sched with
  | nil =>
    cases sched with
    | nil => exact h
    | cons a rest => exact h.1
  | cons a rest ih =>
    subst e
    exact ih h.2 rfl

theorem along_of_prefix {P : CState → Prop} {c : CState} {sched : List AStep}
    (h : ∀ pre post, sched = pre ++ post → P (arun H c pre)) : Along H P c sched := by
  induction sched generalizing c with
  | nil => exact h [] [] rfl
  | cons a rest ih =>
    refine ⟨h [] (a :: rest) rfl, ih ?_⟩
    intro pre post e
    exact h (a :: pre) post (by rw [e]; rfl)

/-- `t` points at an existing manifest of repository `r` -/
def TagOK (r t : Bytes) (c : CState) : Prop :=
  ∃ rp d b, getRepo c.st r = some rp ∧ alookup t rp.tags = some d ∧ alookup d.digest rp.manifests = some b

def tagOKb (r t : Bytes) (s : State) : Bool :=
  match getRepo s r with
  | none => false
  | some rp =>
    match alookup t rp.tags with
    | none => false
    | some d => (alookup d.digest rp.manifests).isSome

theorem tagOK_of_b {r t : Bytes} {c : CState} (h : tagOKb r t c.st = true) : TagOK r t c := by
  unfold tagOKb at h
  cases hg : getRepo c.st r with
  | none => simp [hg] at h
  | some rp =>
    cases ht : alookup t rp.tags with
    | none => simp [hg, ht] at h
    | some d =>
      cases hb : alookup d.digest rp.manifests with
      | none => simp [hg, ht, hb] at h
      | some b => exact ⟨rp, d, b, hg, ht, hb⟩

/-- `Along` for a decidable state predicate, as a `Bool` (for `decide`) -/
def alongb (P : State → Bool) (c : CState) : List AStep → Bool
  | [] => P c.st
  | a :: rest => P c.st && alongb P (astep H c a).1 rest

theorem along_of_b {P : State → Bool} {Q : CState → Prop} (hPQ : ∀ c, P c.st = true → Q c)
    {c : CState} {sched : List AStep} (h : alongb H P c sched = true) : Along H Q c sched := by
  induction sched generalizing c with
  | nil => exact hPQ c h
  | cons a rest ih =>
    simp only [alongb, Bool.and_eq_true] at h
    exact ⟨hPQ c h.1, ih h.2⟩

/-- What a successful first critical section did. -/
theorem commitCheck_ok {c c1 : CState} {r id dig : Bytes} {rp : Repo} {b : Buffer}
    (hb : getBuffer c.st r id = some (rp, b))
    (hc : astep H c (.commitCheck r id dig) = (c1, .okUnit)) :
    b.commitErr = none ∧ H b.buf = dig ∧
    c1 = { st := putBuffer c.st r rp id { b with committed := true },
           snaps := ((r, id), (dig, b.buf)) :: eraseSnap (r, id) c.snaps } := by
  rcases commitCheck_spec H c r id dig with ⟨hn, _⟩ | ⟨_, _, _, _, _, h⟩ | ⟨_, _, _, _, _, h⟩ | ⟨rp', b', hb', he, hd, h⟩
  · rw [hn] at hb; cases hb
  · rw [h] at hc; cases hc
  · rw [h] at hc; cases hc
  · rw [hb] at hb'; cases hb'
    rw [h] at hc; cases hc
    exact ⟨he, hd, rfl⟩

end

/-! ### The commit lock: what `CommitSerial` says, and what it gives -/

theorem not_isCommitOf_of_not_takes {r id : Bytes} {a : AStep} (h : ¬ TakesCommitMu r id a) :
    ¬ IsCommitOf r id a := by
  cases a with
  | op o => exact fun h' => h'
  | commitCheck r' id' dig => exact h
  | commitStore r' id' => exact h

theorem held_contains_cons_self (k : Bytes × Bytes) (held : Held) : (k :: held).contains k = true := by
  simp

theorem held_contains_cons_of {k k' : Bytes × Bytes} {held : Held} (h : held.contains k = true) :
    (k' :: held).contains k = true := by
  simp at h ⊢; exact Or.inr h

theorem held_contains_release_ne {k k' : Bytes × Bytes} {held : Held} (hne : k' ≠ k)
    (h : held.contains k = true) : (held.filter fun x => !(x == k')).contains k = true := by
  simp at h ⊢
  exact ⟨h, fun e => hne e.symm⟩

/-- While a `Commit` of session `(r, id)` holds the lock, a step that the locks allow and that is
not the `commitStore` of that session does not take that session's `commitMu`, and leaves the
lock held. -/
theorem lockStep_held {held held' : Held} {a : AStep} {out : Out} {r id : Bytes}
    (hl : lockStep held a out = some held') (hh : held.contains (r, id) = true)
    (ha : a ≠ .commitStore r id) : ¬ TakesCommitMu r id a ∧ held'.contains (r, id) = true := by
  have hm : (r, id) ∈ held := by simpa using hh
  cases a with
  | commitCheck r' id' dig =>
    by_cases e : (r', id') = (r, id)
    · cases e
      simp [lockStep, hm] at hl
    · by_cases hc : held.contains (r', id') = true
      · simp only [lockStep, hc, if_true] at hl; cases hl
      · simp only [lockStep, hc] at hl
        refine ⟨fun ⟨e1, e2⟩ => e (by rw [e1, e2]), ?_⟩
        cases hl
        split
        · exact held_contains_cons_of hh
        · exact hh
  | commitStore r' id' =>
    have e : (r', id') ≠ (r, id) := by
      intro e; cases e; exact ha rfl
    simp only [lockStep] at hl
    cases hl
    exact ⟨fun ⟨e1, e2⟩ => e (by rw [e1, e2]), held_contains_release_ne e hh⟩
  | op o =>
    cases o
    case wCommit r' id' dig =>
      by_cases e : (r', id') = (r, id)
      · cases e
        simp [lockStep, hm] at hl
      · by_cases hc : held.contains (r', id') = true
        · simp only [lockStep, hc, if_true] at hl; cases hl
        · simp only [lockStep, hc] at hl
          cases hl
          exact ⟨fun ⟨e1, e2⟩ => e (by rw [e1, e2]), hh⟩
    case wCancel r' id' =>
      by_cases e : (r', id') = (r, id)
      · cases e
        simp [lockStep, hm] at hl
      · by_cases hc : held.contains (r', id') = true
        · simp only [lockStep, hc, if_true] at hl; cases hl
        · simp only [lockStep, hc] at hl
          cases hl
          exact ⟨fun ⟨e1, e2⟩ => e (by rw [e1, e2]), hh⟩
    all_goals
      simp only [lockStep] at hl
      cases hl
      exact ⟨fun h => h, hh⟩

section
variable (H : Bytes → Bytes)

theorem commitSerialFrom_cons {c : CState} {held : Held} {a : AStep} {rest : List AStep}
    (h : commitSerialFrom H c held (a :: rest) = true) :
    ∃ held', lockStep held a (astep H c a).2 = some held' ∧
      commitSerialFrom H (astep H c a).1 held' rest = true := by
  simp only [commitSerialFrom] at h
  cases hl : lockStep held a (astep H c a).2 with
  | none => rw [hl] at h; cases h
  | some held' => rw [hl] at h; exact ⟨held', rfl, h⟩

/-- A schedule that respects the commit locks still does after any prefix of it has run (with
whatever locks are held by then). -/
theorem commitSerialFrom_append {c : CState} {held : Held} (l1 l2 : List AStep)
    (h : commitSerialFrom H c held (l1 ++ l2) = true) :
    ∃ held', commitSerialFrom H (arun H c l1) held' l2 = true := by
  induction l1 generalizing c held with
  | nil => exact ⟨held, h⟩
  | cons a rest ih =>
    obtain ⟨held', _, h'⟩ := commitSerialFrom_cons H h
    exact ih h'

/-- With the lock of `(r, id)` held: up to the next `commitStore r id`, no step takes that
session's `commitMu`. -/
theorem commitSerialFrom_window {c : CState} {held : Held} {r id : Bytes} (mid post : List AStep)
    (h : commitSerialFrom H c held (mid ++ .commitStore r id :: post) = true)
    (hh : held.contains (r, id) = true) (hmid : ∀ a ∈ mid, a ≠ .commitStore r id) :
    ∀ a ∈ mid, ¬ TakesCommitMu r id a := by
  induction mid generalizing c held with
  | nil => intro a ha; cases ha
  | cons x rest ih =>
    obtain ⟨held', hl, h'⟩ := commitSerialFrom_cons H h
    obtain ⟨hx, hh'⟩ := lockStep_held hl hh (hmid x (List.mem_cons_self ..))
    intro a ha
    rcases List.mem_cons.1 ha with rfl | ha
    · exact hx
    · exact ih h' hh' (fun a ha => hmid a (List.mem_cons_of_mem _ ha)) a ha

/-- What `CommitSerial` says, spelled out: if a `commitCheck r id dig` of the schedule succeeds,
then from there to the `commitStore r id` that belongs to it (the next one) there is no section
of another `Commit` of that session, no one-step `wCommit` of it and no `wCancel` of it. -/
theorem commitSerial_window {c : CState} {r id dig : Bytes} (pre mid post : List AStep)
    (hs : CommitSerial H c (pre ++ .commitCheck r id dig :: (mid ++ .commitStore r id :: post)))
    (hok : (astep H (arun H c pre) (.commitCheck r id dig)).2 = .okUnit)
    (hmid : ∀ a ∈ mid, a ≠ .commitStore r id) :
    ∀ a ∈ mid, ¬ TakesCommitMu r id a := by
  obtain ⟨held, h⟩ := commitSerialFrom_append H pre _ hs
  obtain ⟨held', hl, h'⟩ := commitSerialFrom_cons H h
  have hh : held'.contains (r, id) = true := by
    by_cases hc : held.contains (r, id) = true
    · simp only [lockStep, hc, if_true] at hl; cases hl
    · simp only [lockStep, hc, hok] at hl
      cases hl
      exact held_contains_cons_self _ _
  exact commitSerialFrom_window H mid post h' hh hmid

/-- outputs and final state of a schedule, split at a step -/
theorem aouts_append (c : CState) (l1 l2 : List AStep) :
    aouts H c (l1 ++ l2) = aouts H c l1 ++ aouts H (arun H c l1) l2 := by
  induction l1 generalizing c with
  | nil => rfl
  | cons a rest ih => simp only [List.cons_append, aouts, arun_cons, ih]

theorem aouts_length (c : CState) (l : List AStep) : (aouts H c l).length = l.length := by
  induction l generalizing c with
  | nil => rfl
  | cons a rest ih => simp [aouts, ih]

/-- the output of the step at position `pre.length` -/
theorem aouts_at (c : CState) (pre : List AStep) (a : AStep) (post : List AStep) :
    (aouts H c (pre ++ a :: post))[pre.length]? = some (astep H (arun H c pre) a).2 := by
  rw [aouts_append, List.getElem?_append_right (by rw [aouts_length]; exact Nat.le_refl _), aouts_length]
  simp [aouts]

/-- A successful `commitCheck` found a buffer, unpoisoned, whose bytes hash to the digest. -/
theorem commitCheck_ok_buffer {c : CState} {r id dig : Bytes}
    (hok : (astep H c (.commitCheck r id dig)).2 = .okUnit) :
    ∃ rp b, getBuffer c.st r id = some (rp, b) ∧
      astep H c (.commitCheck r id dig) = ((astep H c (.commitCheck r id dig)).1, .okUnit) := by
  rcases commitCheck_spec H c r id dig with ⟨_, h⟩ | ⟨_, _, _, _, _, h⟩ | ⟨_, _, _, _, _, h⟩ | ⟨rp, b, hb, _, _, h⟩
  · rw [h] at hok; cases hok
  · rw [h] at hok; cases hok
  · rw [h] at hok; cases hok
  · exact ⟨rp, b, hb, by rw [h]⟩

end

/-! ### Positions in a schedule -/

theorem split_at_getElem? {α} {l : List α} {i : Nat} {a : α} (h : l[i]? = some a) :
    l = l.take i ++ a :: l.drop (i + 1) ∧ (l.take i).length = i := by
  induction l generalizing i with
  | nil => simp at h
  | cons x xs ih =>
    cases i with
    | zero => simp at h; subst h; simp
    | succ k =>
      simp only [List.getElem?_cons_succ] at h
      obtain ⟨h1, h2⟩ := ih h
      refine ⟨?_, by simp [h2]⟩
      simp only [List.take_succ_cons, List.drop_succ_cons, List.cons_append]
      rw [← h1]

theorem mem_take_getElem? {α} {l : List α} {n : Nat} {a : α} (h : a ∈ l.take n) :
    ∃ k, k < n ∧ l[k]? = some a := by
  induction l generalizing n with
  | nil => simp at h
  | cons x xs ih =>
    cases n with
    | zero => simp at h
    | succ m =>
      simp only [List.take_succ_cons, List.mem_cons] at h
      rcases h with rfl | h
      · exact ⟨0, Nat.succ_pos _, rfl⟩
      · obtain ⟨k, hk, hg⟩ := ih h
        exact ⟨k + 1, Nat.succ_lt_succ hk, by simpa using hg⟩

theorem take_length_succ_append {α} (l1 : List α) (a : α) (l2 : List α) :
    (l1 ++ a :: l2).take (l1.length + 1) = l1 ++ [a] := by
  induction l1 with
  | nil => simp
  | cons x xs ih => simp only [List.cons_append, List.length_cons, List.take_succ_cons, ih]

/-! ### K4: positions in event traces -/

theorem pos_lt_length {e : Ev} {tr : List Ev} {i : Nat} (h : pos e tr = some i) : i < tr.length := by
  induction tr generalizing i with
  | nil => cases h
  | cons x xs ih =>
    unfold pos at h
    by_cases hx : x = e
    · simp [hx] at h; subst h; simp
    · simp only [hx, if_false] at h
      cases hp : pos e xs with
      | none => simp [hp] at h
      | some j =>
        simp [hp] at h; subst h
        have := ih hp
        simp; omega

theorem pos_get {e : Ev} {tr : List Ev} {i : Nat} (h : pos e tr = some i) : tr[i]? = some e := by
  induction tr generalizing i with
  | nil => cases h
  | cons x xs ih =>
    unfold pos at h
    by_cases hx : x = e
    · simp [hx] at h; subst h; simp [hx]
    · simp only [hx, if_false] at h
      cases hp : pos e xs with
      | none => simp [hp] at h
      | some j =>
        simp [hp] at h; subst h
        simpa using ih hp

/-! ### F33: two commits of one upload session without the commit lock -/

namespace DualCommit

/-- the identity as "hash": a blob's digest is its content -/
def Hid : Bytes → Bytes := fun b => b

def rD : Bytes := [97]        -- repository "a"
def uD : Bytes := [117]       -- upload session "u"
def vD : Bytes := [118]       -- another upload session "v"
def d1 : Bytes := [1]
def d2 : Bytes := [1, 2]

/-- session `u` of repository `a` holds the bytes `[1]`; session `v` holds `[9]` -/
def c0 : CState := arun Hid ⟨Mem.init false, []⟩
  [.op (.resume rD uD 0), .op (.wWrite rD uD [1]), .op (.resume rD vD 0), .op (.wWrite rD vD [9])]

/-- The F33 interleaving of two handles on session `u`: `Commit(d1)` checks; the other handle
writes and its `Commit(d2)` checks; then the two callbacks run. -/
def sched : List AStep :=
  [.commitCheck rD uD d1,          -- handle 1, Commit(d1), first section: the buffer is [1], fine
   .op (.wWrite rD uD [2]),        -- handle 2: Write
   .commitCheck rD uD d2,          -- handle 2, Commit(d2), first section: the buffer is [1,2], fine
   .commitStore rD uD,             -- a callback: stores and reports d2
   .commitStore rD uD]             -- the other callback: nothing left to store

/-- a `Cancel` landing between the two sections of a `Commit` -/
def cancelSched : List AStep :=
  [.commitCheck rD uD d1, .op (.wCancel rD uD), .commitStore rD uD]

/-- A schedule that respects the commit lock although a lot happens between the two sections of
`Commit(d1)` on session `u`: a write to that very session, a size query, a whole commit of
session `v` (both sections), a refused commit of `v`, a blob push and a delete; afterwards a
second `Commit` of `u`, now for `d2`, and a `Cancel`. -/
def serialSched : List AStep :=
  [.commitCheck rD uD d1,
   .op (.wWrite rD uD [2]),
   .op (.wSize rD uD),
   .commitCheck rD vD [9],
   .op (.wWrite rD vD [8]),
   .commitStore rD vD,
   .commitCheck rD vD [7],         -- refused (DIGEST_INVALID): releases the lock at once
   .op (.wCancel rD vD),
   .op (.deleteBlob rD [9]),
   .commitStore rD uD,             -- position 9: the second section of Commit(d1)
   .commitCheck rD uD d2,
   .op (.wWrite rD uD [3]),
   .commitStore rD uD,
   .op (.wCancel rD uD)]

end DualCommit

/-! ### K3 (negative): `GetTag` as two critical sections -/

namespace TwoStep

/-- a toy hash with well-formed `sha256:` output: `[1] ↦ sha256:11…1`, everything else `↦ sha256:22…2` -/
def Htoy : Bytes → Bytes := fun b => Ref.sha256 ++ [58] ++ List.replicate 64 (if b = [1] then 49 else 50)

def rT : Bytes := [97]        -- "a"
def tT : Bytes := [118]       -- "v"
def mtT : Bytes := [109]
def m1 : Bytes := [1]
def m2 : Bytes := [2]
def d1 : Desc := ⟨mtT, Htoy m1, 1⟩
def d2 : Desc := ⟨mtT, Htoy m2, 1⟩

/-- the registry after `m1` has been pushed under the tag -/
def c1 : CState := arun Htoy ⟨Mem.init false, []⟩ [.op (.pushManifest rT tT m1 mtT .opaque)]

/-- A two-step `GetTag` (resolve the tag in one critical section, fetch the manifest by digest
in another) interleaved with a re-tag and the deletion of the old manifest. -/
def sched : List AStep :=
  [.op (.resolveTag rT tT),                       -- reader, first section: the tag is `d1`
   .op (.pushManifest rT tT m2 mtT .opaque),      -- writer: the tag now points at `m2`
   .op (.deleteManifest rT d1.digest),            -- writer: `m1` is no longer tagged, delete it
   .op (.getManifest rT d1.digest)]               -- reader, second section: `m1` is gone

end TwoStep

end OciModel.MemConc
