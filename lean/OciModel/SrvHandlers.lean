/-
Semantics of the regenerated handler table (`OciModel/Generated/SrvHandlers.lean`, IR in
`OciModel/SrvIR.lean`): a small nondeterministic execution model of an `ociserver` handler,
and the three Bool-valued checkers behind C06's structural clauses

  * every reader/writer obtained from the backend is closed exactly once on every path
    (`releaseOk`, meaning `ClosedExactlyOnce`);
  * every repository / tag / digest / upload-ID argument of a backend call is a field of the
    classified request that the router has validated for the kind being served (`argsOk`,
    meaning `CallValid`, connected to `parse` in `OciModel/SrvHandlersLemmas.lean`);
  * every 2xx success carries the headers the distribution protocol mandates for the kind
    (`headersOk`, meaning `SuccessOk`).

The execution model (`runF`): a run of a function is a path through its `Prog`; a backend call
succeeds or fails (if its method returns an error); `err` is tracked as nil / non-nil;
conditions on `err`, on `rreq.Tag != ""` and on options are evaluated by an `Oracle`
(an *environment* oracle decides them, a *static* oracle leaves some of them open; every other
condition is open); deferred closes run, last in first out, when the function returns; a callee
that receives the response writer runs in its own frame. A run yields the trace of backend
events, the headers set before the status line, the status, and whether an error was returned.

Core Lean only (linked into the `ocimodel` driver).
-/
import OciModel.Base
import OciModel.ReqCodec
import OciModel.SrvIR
import OciModel.Generated.Iface
import OciModel.Generated.SrvHandlers

namespace OciModel.SrvHandlers
open OciModel.SrvIR OciModel.ReqCodec

/-! ### Runs -/

/-- Observable backend events of a run. `acq v` follows the successful call that bound `v`. -/
inductive Ev where
  | call (c : Call) (ok : Bool)
  | acq (v : String)
  | close (v : String)
  deriving DecidableEq, Repr

structure St where
  /-- `err != nil` -/
  err    : Bool := false
  /-- pending `defer v.Close()`, most recent first -/
  defers : List String := []
  trace  : List Ev := []
  /-- headers set before the status line was written -/
  hdrs   : List String := []
  /-- the status line, once written (explicitly, or 200 by the first body write) -/
  status : Option Nat := none
  /-- the run went through code the translator could not abstract (or ran out of call depth) -/
  bad    : Bool := false
  deriving DecidableEq, Repr

/-- How the conditions the model knows by name are decided: the possible truth values of
`rreq.Tag != ""` and of each option. -/
structure Oracle where
  tag : List Bool
  opt : String → List Bool

def both : List Bool := [true, false]

def condVals (o : Oracle) (err : Bool) : Cond → List Bool
  | .errSet => [err]
  | .tagSet => o.tag
  | .opt n => o.opt n
  | .not c => (condVals o err c).map (!·)
  | .or a b => (condVals o err a).flatMap fun x => (condVals o err b).map fun y => x || y
  | .and a b => (condVals o err a).flatMap fun x => (condVals o err b).map fun y => x && y
  | .unknown _ => both

/-- whether the returned error is non-nil -/
def retVals (err : Bool) : Ret → List Bool
  | .ok => [false]
  | .fail => [true]
  | .errVar => [err]
  | .unknown => [false, true]

def St.emit (s : St) (es : List Ev) : St := { s with trace := s.trace ++ es }

/-- One atom; `inv f s` runs the function `f` from `s` in a fresh frame and yields its final
states with the nil-ness of its result. -/
def stepAtom (inv : String → St → List (St × Bool)) : Atom → St → List St
  | .call c binds, s =>
    let ok := { s.emit [.call c true] with err := if binds then false else s.err }
    let ko := { s.emit [.call c false] with err := if binds then true else s.err }
    if c.canFail then [ok, ko] else [ok]
  | .acquire v c, s =>
    [{ s.emit [.call c true, .acq v] with err := false }, { s.emit [.call c false] with err := true }]
  | .havocErr, s => [{ s with err := false }, { s with err := true }]
  | .deferClose v, s => [{ s with defers := v :: s.defers }]
  | .close v binds, s =>
    let s' := s.emit [.close v]
    if binds then [{ s' with err := false }, { s' with err := true }] else [s']
  | .header h, s => [if s.status.isNone then { s with hdrs := s.hdrs ++ [h] } else s]
  | .status n, s => [if s.status.isNone then { s with status := some n } else s]
  | .body, s => [if s.status.isNone then { s with status := some 200 } else s]
  | .invoke f, s => (inv f s).map fun r => { r.1 with err := r.2, defers := s.defers }

/-- Result of running a statement list: the state, and `some isErr` if it returned. -/
abbrev Res := St × Option Bool

def runP (inv : String → St → List (St × Bool)) (o : Oracle) : Prog → St → List Res
  | .nil, s => [(s, none)]
  | .ret r, s => (retVals s.err r).map fun e => (s, some e)
  | .atom a k, s => (stepAtom inv a s).flatMap (runP inv o k)
  | .alt c p q k, s =>
    ((condVals o s.err c).flatMap fun b => if b then runP inv o p s else runP inv o q s).flatMap
      fun r => match r.2 with
        | some e => [(r.1, some e)]
        | none => runP inv o k r.1
  | .unknownShape _, s => [({ s with bad := true }, some true)]

/-- Function exit: the deferred closes run, last in first out; falling off the end returns nil. -/
def finish (r : Res) : St × Bool :=
  ({ r.1 with trace := r.1.trace ++ r.1.defers.map .close, defers := [] }, r.2.getD false)

def stuck (s : St) : List (St × Bool) := [({ s with bad := true }, true)]

/-- Run function `f` of table `tbl` from `s` (trace, headers and status continue; `err` and the
defer stack are the callee's own); `n` bounds the depth of `invoke`. -/
def runF (tbl : List (String × Prog)) (o : Oracle) : Nat → String → St → List (St × Bool)
  | 0, _, s => stuck s
  | n + 1, f, s =>
    match tbl.lookup f with
    | none => stuck s
    | some p => (runP (runF tbl o n) o p { s with err := false, defers := [] }).map finish

/-- Depth of `invoke` the checkers and the driver allow (handler → delegated handler → helper). -/
def depth : Nat := 3

/-- An environment: the request has a tag, and which options are on. -/
structure Env where
  tagSet : Bool
  opt    : String → Bool

def envOracle (e : Env) : Oracle := { tag := [e.tagSet], opt := fun n => [e.opt n] }

/-- A static oracle: the tag condition may be fixed, the listed options are fixed, every other
option is open. -/
def staticOracle (tag : List Bool) (known : List (String × Bool)) : Oracle :=
  { tag := tag, opt := fun n => match known.lookup n with | some b => [b] | none => both }

/-! ### The dispatch table -/

def kindName : Kind → String
  | .ping => "ReqPing" | .blobGet => "ReqBlobGet" | .blobHead => "ReqBlobHead" | .blobDelete => "ReqBlobDelete"
  | .blobStartUpload => "ReqBlobStartUpload" | .blobUploadBlob => "ReqBlobUploadBlob" | .blobMount => "ReqBlobMount"
  | .blobUploadInfo => "ReqBlobUploadInfo" | .blobUploadChunk => "ReqBlobUploadChunk" | .blobCompleteUpload => "ReqBlobCompleteUpload"
  | .manifestGet => "ReqManifestGet" | .manifestHead => "ReqManifestHead" | .manifestPut => "ReqManifestPut"
  | .manifestDelete => "ReqManifestDelete" | .tagsList => "ReqTagsList" | .referrersList => "ReqReferrersList"
  | .catalogList => "ReqCatalogList"

def allKinds : List Kind := [.ping, .blobGet, .blobHead, .blobDelete, .blobStartUpload, .blobUploadBlob, .blobMount,
  .blobUploadInfo, .blobUploadChunk, .blobCompleteUpload, .manifestGet, .manifestHead, .manifestPut, .manifestDelete,
  .tagsList, .referrersList, .catalogList]

/-- the handler `handlers[k]`; a kind without an entry is a nil function (its call panics) -/
def handlerOf (disp : List (String × String)) (k : Kind) : String := (disp.lookup (kindName k)).getD "<nil handler>"

/-- All runs of the handler serving kind `k`. -/
def serve (tbl : List (String × Prog)) (disp : List (String × String)) (o : Oracle) (k : Kind) : List (St × Bool) :=
  runF tbl o depth (handlerOf disp k) {}

/-- The dispatch facts: the kinds of `ocirequest` are the model's kinds in order, each has exactly
one entry naming a translated function, ServeHTTP/v2 classify then dispatch, handlers do not modify
the classified request, and every function touching the backend was translated. -/
def dispatchOk (kinds : List String) (disp : List (String × String)) (tbl : List (String × Prog))
    (shape immutable : Bool) (backendUsers : List String) : Bool :=
  kinds == allKinds.map kindName && disp.map (·.1) == kinds &&
  disp.all (fun d => (tbl.lookup d.2).isSome) && shape && immutable &&
  backendUsers.all (fun f => (tbl.lookup f).isSome)

/-- the reasons the translator gave for every part of a function it could not abstract -/
def progUnknowns : Prog → List String
  | .nil => []
  | .ret _ => []
  | .atom _ k => progUnknowns k
  | .alt _ p q k => progUnknowns p ++ progUnknowns q ++ progUnknowns k
  | .unknownShape why => [why]

def unknownShapes (tbl : List (String × Prog)) : List String := tbl.flatMap fun f => progUnknowns f.2

/-! ### Release: every reader/writer is closed exactly once -/

/-- number of successful acquisitions bound to `v` -/
def acqs (v : String) : List Ev → Nat
  | [] => 0
  | .acq w :: t => (if w = v then 1 else 0) + acqs v t
  | _ :: t => acqs v t

/-- number of `v.Close()` calls -/
def closes (v : String) : List Ev → Nat
  | [] => 0
  | .close w :: t => (if w = v then 1 else 0) + closes v t
  | _ :: t => closes v t

/-- The meaning of "closed exactly once": for every variable, at every moment of the run the
closes never outnumber the acquisitions and at most one acquisition is open; at the end nothing
is open. (So no reader/writer leaks, none is closed twice, nothing that was not obtained — a nil
reader after a failed call — is closed, and none is overwritten while open.) -/
def ClosedExactlyOnce (t : List Ev) : Prop :=
  ∀ v, acqs v t = closes v t ∧
    ∀ pre, pre <+: t → closes v pre ≤ acqs v pre ∧ acqs v pre ≤ closes v pre + 1

/-- per-variable automaton: `isOpen` = an acquisition of `v` is open -/
def altOk (v : String) : Bool → List Ev → Bool
  | isOpen, [] => !isOpen
  | isOpen, .acq w :: t => if w = v then (!isOpen && altOk v true t) else altOk v isOpen t
  | isOpen, .close w :: t => if w = v then (isOpen && altOk v false t) else altOk v isOpen t
  | isOpen, .call _ _ :: t => altOk v isOpen t

def traceVars : List Ev → List String
  | [] => []
  | .acq v :: t => v :: traceVars t
  | .close v :: t => v :: traceVars t
  | .call _ _ :: t => traceVars t

def balanced (t : List Ev) : Bool := (traceVars t).all fun v => altOk v false t

/-- Under the weakest oracle (every named condition open), every run of every kind's handler is
free of unknown shapes and balanced. -/
def releaseOk (tbl : List (String × Prog)) (disp : List (String × String)) : Bool :=
  allKinds.all fun k => (serve tbl disp (staticOracle both []) k).all fun f => !f.1.bad && balanced f.1.trace

/-! ### Arguments: only router-validated strings reach the backend -/

inductive Role where
  | free | repo | tag | tagOpt | digest | uploadID | descDigest
  deriving DecidableEq, Repr

/-- What a parameter of `ociregistry.Interface` (or of a reader/writer method) must be, from its
name and Go type as regenerated from interface.go. `tagOpt`: PushManifest's tag may be empty. -/
def roleOf (method name ty : String) : Role :=
  if ty == "Digest" then .digest
  else if ty == "Descriptor" then .descDigest
  else if ty == "string" then
    if name == "repo" || name == "fromRepo" || name == "toRepo" then .repo
    else if name == "tagName" || (method == "DeleteTag" && name == "name") then .tag
    else if name == "tag" then .tagOpt
    else if name == "id" then .uploadID
    else .free
  else .free

/-- the string parameters whose role `roleOf` knows (an unknown string parameter fails `rolesKnown`) -/
def knownStringParams : List String :=
  ["repo", "fromRepo", "toRepo", "tagName", "name", "tag", "id", "startAfter", "artifactType", "mediaType"]

def methodTable (iface : List (String × List (String × String)))
    (res : List (String × List (String × String) × Bool)) : List (String × List (String × String)) :=
  iface ++ res.map fun r => (r.1, r.2.1)

def roles (mt : List (String × List (String × String))) (m : String) : Option (List Role) :=
  (mt.lookup m).map fun ps => ps.map fun p => roleOf m p.1 p.2

def rolesKnown (mt : List (String × List (String × String))) : Bool :=
  mt.all fun m => m.2.all fun p => p.2 != "string" || knownStringParams.contains p.1

def repoKind : Kind → Bool
  | .ping | .catalogList => false
  | _ => true

def manifestKind : Kind → Bool
  | .manifestGet | .manifestHead | .manifestPut | .manifestDelete => true
  | _ => false

def uploadKind : Kind → Bool
  | .blobUploadInfo | .blobUploadChunk | .blobCompleteUpload => true
  | _ => false

/-- kinds whose `Digest` field is always a valid digest; for a manifest kind it is when no tag is given -/
def digestKind (k : Kind) (tag : Bool) : Bool :=
  match k with
  | .blobGet | .blobHead | .blobDelete | .blobUploadBlob | .blobMount | .blobCompleteUpload | .referrersList => true
  | .manifestGet | .manifestHead | .manifestPut | .manifestDelete => !tag
  | _ => false

/-- An argument of role `role` with provenance `p` is acceptable when serving kind `k` for a request
whose tag is (non-)empty as `tag` says. -/
def argOk (k : Kind) (tag : Bool) : Role → Prov → Bool
  | .free, _ => true
  | .repo, .field f => (f == "Repo" && repoKind k) || (f == "FromRepo" && k == .blobMount)
  | .digest, .field f => f == "Digest" && digestKind k tag
  | .tag, .field f => f == "Tag" && manifestKind k && tag
  | .tagOpt, .field f => f == "Tag"
  | .tagOpt, .fieldOrEmpty f => f == "Tag"
  | .tagOpt, .lit s => s == ""
  | .uploadID, .field f => f == "UploadID" && uploadKind k
  | .descDigest, .desc (.field f) => f == "Digest" && digestKind k tag
  | _, _ => false

def callOk (mt : List (String × List (String × String))) (k : Kind) (tag : Bool) (c : Call) : Bool :=
  match roles mt c.method with
  | none => false
  | some rs => rs.length == c.args.length && (rs.zip c.args).all fun x => argOk k tag x.1 x.2

def traceArgsOk (mt : List (String × List (String × String))) (k : Kind) (tag : Bool) : List Ev → Bool
  | [] => true
  | .call c _ :: t => callOk mt k tag c && traceArgsOk mt k tag t
  | _ :: t => traceArgsOk mt k tag t

/-- For every kind and either tag-ness, every run (options open) makes only acceptable calls. -/
def argsOk (mt : List (String × List (String × String))) (tbl : List (String × Prog))
    (disp : List (String × String)) : Bool :=
  allKinds.all fun k => [true, false].all fun tag =>
    (serve tbl disp (staticOracle [tag] []) k).all fun f => !f.1.bad && traceArgsOk mt k tag f.1.trace

/-- The value of a field of the classified request. -/
def fieldVal (r : Request) (f : String) : Option Bytes :=
  if f == "Repo" then some r.repo
  else if f == "Tag" then some r.tag
  else if f == "Digest" then some r.digest
  else if f == "FromRepo" then some r.fromRepo
  else if f == "UploadID" then some r.uploadID
  else if f == "ListLast" then some r.listLast
  else none

/-- The values an argument of the given provenance can take (none: the model does not know). -/
def provValues (r : Request) : Prov → List Bytes
  | .field f => (fieldVal r f).toList
  | .fieldOrEmpty f => match fieldVal r f with
    | some v => [v, []]
    | none => []
  | .lit s => [strBytes s]
  | .desc p => provValues r p
  | .other _ => []

/-- What "syntactically valid" means for each role (`validUTF8` is the parameter of the request
codec model: upload IDs are decoded from the path and must be valid UTF-8). -/
def RoleValid (validUTF8 : Bytes → Bool) : Role → Bytes → Prop
  | .free, _ => True
  | .repo, v => OciModel.Ref.isRepo v = true
  | .tag, v => OciModel.Ref.isTag v = true
  | .tagOpt, v => v = [] ∨ OciModel.Ref.isTag v = true
  | .digest, v => OciModel.Ref.isDigest v = true
  | .descDigest, v => OciModel.Ref.isDigest v = true
  | .uploadID, v => validUTF8 v = true

/-- An argument is valid: it is free, or the model knows its possible values and all are valid. -/
def ArgValid (validUTF8 : Bytes → Bool) (r : Request) (role : Role) (p : Prov) : Prop :=
  role = .free ∨ (provValues r p ≠ [] ∧ ∀ v ∈ provValues r p, RoleValid validUTF8 role v)

/-- Every argument of the call with a repository / tag / digest / upload-ID role is valid. -/
def CallValid (validUTF8 : Bytes → Bool) (mt : List (String × List (String × String))) (r : Request) (c : Call) : Prop :=
  ∃ rs, roles mt c.method = some rs ∧ rs.length = c.args.length ∧
    ∀ x ∈ rs.zip c.args, ArgValid validUTF8 r x.1 x.2

/-! ### Headers and status of successes -/

def hLocation := "Location"
def hDigest := "Docker-Content-Digest"
def hLength := "Content-Length"
def hRange := "Range"
def hContentRange := "Content-Range"

def optOmitDigest := "OmitDigestFromTagGetResponse"
def optSinglePost := "DisableSinglePostUpload"

/-- The headers the distribution protocol mandates on a 2xx answer to a request of kind `k`
(`tag`: named by tag; `omitD`: option OmitDigestFromTagGetResponse, which mimics registries that
leave the digest out; `single`: option DisableSinglePostUpload, under which a POST with a digest
only opens an upload session). A mount may also be answered 202 with an upload session
(the protocol's fallback when the blob cannot be mounted). -/
def mandatory (k : Kind) (status : Nat) (tag omitD single : Bool) : List String :=
  match k with
  | .blobGet => [hDigest, hLength] ++ (if status = 206 then [hContentRange] else [])
  | .blobHead => [hDigest, hLength]
  | .manifestGet => hLength :: (if omitD then [] else [hDigest])
  | .manifestHead => hLength :: (if omitD && !tag then [] else [hDigest])
  | .blobStartUpload => [hLocation, hRange]
  | .blobUploadBlob => if single then [hLocation, hRange] else [hLocation, hDigest]
  | .blobMount => if status = 202 then [hLocation, hRange] else [hLocation, hDigest]
  | .blobCompleteUpload | .manifestPut => [hLocation, hDigest]
  | .blobUploadChunk | .blobUploadInfo => [hLocation, hRange]
  | .tagsList | .catalogList | .referrersList => [hLength]
  | .ping | .blobDelete | .manifestDelete => []

/-- The 2xx statuses of a success of kind `k`. -/
def successStatus (k : Kind) (single : Bool) : List Nat :=
  match k with
  | .ping | .blobHead | .manifestGet | .manifestHead | .tagsList | .catalogList | .referrersList => [200]
  | .blobGet => [200, 206]
  | .blobDelete | .manifestDelete | .blobStartUpload | .blobUploadChunk => [202]
  | .blobUploadBlob => if single then [202] else [201]
  | .blobMount => [201, 202]
  | .blobCompleteUpload | .manifestPut => [201]
  | .blobUploadInfo => [204]

/-- the status the client sees: 200 if the handler wrote none -/
def St.finalStatus (s : St) : Nat := s.status.getD 200

/-- A final state is acceptable for kind `k`: if the handler returned nil and the status is 2xx,
the status is one of the kind's and every mandatory header was set before the status line. -/
def successOk (k : Kind) (tag omitD single : Bool) (f : St × Bool) : Bool :=
  f.2 || !(200 ≤ f.1.finalStatus && f.1.finalStatus < 300) ||
    ((successStatus k single).contains f.1.finalStatus &&
      (mandatory k f.1.finalStatus tag omitD single).all fun h => f.1.hdrs.contains h)

def headersOk (tbl : List (String × Prog)) (disp : List (String × String)) : Bool :=
  allKinds.all fun k => [true, false].all fun tag => [true, false].all fun omitD => [true, false].all fun single =>
    (serve tbl disp (staticOracle [tag] [(optOmitDigest, omitD), (optSinglePost, single)]) k).all fun f =>
      !f.1.bad && successOk k tag omitD single f

end OciModel.SrvHandlers
