/-
Model of list paging: `ociclient.pager` / `nextLink` (client), and
`ociserver.nextListResults` / `makeNextLink` (server).

Two views:
* `pagerScript` — the client loop against an arbitrary finite list of server
  answers (one answer consumed per request: the loop is structurally recursive on
  the answers, so termination for finite answers is by construction). Used for
  C18 (never panics, never loops without progress) and diffed with the real
  client behind a scripted transport.
* `pagerOver` — the client loop against the real server logic over a backend
  listing (sorted, duplicate-free list `L`; the backend returns the items strictly
  after the start point). Used for C05 (`pager_lossless`).
-/
import OciModel.Base

namespace OciModel.Pager

/-- A server answer to a list request. -/
inductive Answer where
  | fail                                   -- transport error, non-2xx status, or unparsable body
  | page (items : List Bytes) (link : Option Bool)
      -- `link`: `none` = no Link header; `some true` = a well-formed Link; `some false` = malformed Link
  deriving DecidableEq, Repr

inductive End where
  | done          -- short page: iteration complete
  | error         -- an error event was delivered to the consumer (and nothing after it)
  | stopped       -- the consumer declined further items
  | exhausted     -- the script of answers ran out (the next request would block on the peer)
  | panic         -- Go would panic (index out of range on an empty page)
  deriving DecidableEq, Repr

structure Run where
  yielded  : List Bytes
  requests : Nat
  fin      : End
  deriving DecidableEq, Repr

/-- Deliver items to a consumer that accepts `k` more items (`none` = never declines).
Returns what was delivered, the remaining budget, and whether the consumer declined. -/
def deliver : List Bytes → Option Nat → List Bytes × Option Nat × Bool
  | [], k => ([], k, false)
  | x :: xs, none => let (d, k', s) := deliver xs none; (x :: d, k', s)
  | _ :: _, some 0 => ([], some 0, true)           -- cannot happen: a consumer that declines is never called again
  | x :: xs, some (k + 1) =>
    if k = 0 then ([x], some 0, true)               -- the consumer takes this item and declines
    else let (d, k', s) := deliver xs (some k); (x :: d, k', s)

/-- `ociclient.New`: a page size ≤ 0 means the default. -/
def effectivePageSize (n : Int) : Int := if n ≤ 0 then 1000 else n

/-- The loop of `pager` with page size `n` (already defaulted by `New`), consumer
budget `k`, against scripted answers. -/
def pagerScript (n : Int) : List Answer → Option Nat → Run
  | [], _ => ⟨[], 0, .exhausted⟩
  | .fail :: _, _ => ⟨[], 1, .error⟩
  | .page items link :: rest, k =>
    let (d, k', stop) := deliver items k
    if stop then ⟨d, 1, .stopped⟩
    else if (items.length : Int) < n then ⟨d, 1, .done⟩
    else if items = [] then ⟨d, 1, .panic⟩          -- items[len(items)-1] on an empty page
    else if link = some false then ⟨d, 1, .error⟩   -- "invalid Link header in response"
    else
      let r := pagerScript n rest k'
      ⟨d ++ r.yielded, r.requests + 1, r.fin⟩

/-! ### Client over server over a backend listing -/

/-- The backend's listing: the items strictly after the start point (`none` = from the beginning). -/
def after (L : List Bytes) : Option Bytes → List Bytes
  | none => L
  | some s => L.filter fun x => compare s x == .lt

/-- `nextListResults` with `ListN = n > 0`: at most `n` items; truncated iff more remain. -/
def serverPage (L : List Bytes) (n : Nat) (last : Option Bytes) : List Bytes × Bool :=
  let l := after L last
  (l.take n, n < l.length)

/-- The pager against the real server: request, deliver, stop on a short page, else
continue after the final item (by Link or by `last=` — both name the same start point).
`fuel` bounds the number of requests; `L.length + 1` is always enough. -/
def pagerOver (L : List Bytes) (n : Nat) : Nat → Option Bytes → List Bytes
  | 0, _ => []
  | fuel + 1, last =>
    let (items, _) := serverPage L n last
    if items.length < n then items
    else match items.getLast? with
      | none => items
      | some l => items ++ pagerOver L n fuel (some l)

def StrictAsc : List Bytes → Prop
  | [] => True
  | [_] => True
  | a :: b :: rest => compare a b = .lt ∧ StrictAsc (b :: rest)

end OciModel.Pager
