/-
The link between `Wire.plan` (which backend call the handler of a classified request makes, with which
arguments) and the source: the regenerated handler table `OciModel/Generated/SrvHandlers.lean` lists, for
every handler, its call sites on `r.backend` with the provenance of every argument. `plan_site` says that
whatever call `plan` makes is one of the call sites of the handler the dispatch table names for the
request's kind, with the same method and — for every argument that is a field of the classified request —
the same field in the same position.
-/
import OciModel.Wire
import OciModel.SrvIR
import OciModel.SrvHandlers
import OciModel.Generated.SrvHandlers

namespace OciModel.Wire
open OciModel OciModel.ReqCodec OciModel.SrvIR

inductive Site where
  | call (method : String) (args : List Prov)
  | invoke (f : String)
  deriving DecidableEq, Repr

/-- a method of a reader/writer obtained from the backend (not of the backend itself) -/
def isResourceMethod (m : String) : Bool := Generated.SrvHandlers.resourceMethods.any (·.1 == m)

/-- the call sites on the backend in a handler's program, in source order (`invoke f`: the handler
delegates to `f`) -/
def progSites : Prog → List Site
  | .nil => []
  | .ret _ => []
  | .unknownShape _ => []
  | .atom a k =>
    (match a with
     | .call c _ => if isResourceMethod c.method then [] else [.call c.method c.args]
     | .acquire _ c => [.call c.method c.args]
     | .invoke f => [.invoke f]
     | _ => []) ++ progSites k
  | .alt _ p q k => progSites p ++ progSites q ++ progSites k

def handlerSites (f : String) : List Site :=
  match Generated.SrvHandlers.handlers.lookup f with
  | some p => progSites p
  | none => []

/-- the call sites of the handler serving kind `k` (and of the handlers it delegates to) -/
def sitesOf (k : Kind) : List Site :=
  let own := handlerSites (SrvHandlers.handlerOf Generated.SrvHandlers.dispatch k)
  own ++ own.flatMap fun s => match s with
    | .invoke f => handlerSites f
    | .call _ _ => []

/-- The `ociregistry.Interface` method a call is (the first one, for the compound upload steps), and its
arguments that are names (`none` for numbers, bodies and descriptors' other fields). -/
def Call.site : Call → String × List (Option Bytes)
  | .getBlob repo dg => ("GetBlob", [some repo, some dg])
  | .getBlobRange repo dg _ _ => ("GetBlobRange", [some repo, some dg, none, none])
  | .getManifest repo dg => ("GetManifest", [some repo, some dg])
  | .getTag repo tag => ("GetTag", [some repo, some tag])
  | .resolveBlob repo dg => ("ResolveBlob", [some repo, some dg])
  | .resolveManifest repo dg => ("ResolveManifest", [some repo, some dg])
  | .resolveTag repo tag => ("ResolveTag", [some repo, some tag])
  | .pushBlob repo d _ => ("PushBlob", [some repo, some d.digest, none])
  | .pushManifest repo tag _ _ => ("PushManifest", [some repo, some tag, none, none])
  | .mountBlob fromRepo toRepo dg => ("MountBlob", [some fromRepo, some toRepo, some dg])
  | .deleteBlob repo dg => ("DeleteBlob", [some repo, some dg])
  | .deleteManifest repo dg => ("DeleteManifest", [some repo, some dg])
  | .deleteTag repo tag => ("DeleteTag", [some repo, some tag])
  | .startUpload repo _ => ("PushBlobChunked", [some repo, none])
  | .uploadInfo repo id _ => ("PushBlobChunkedResume", [some repo, some id, none, none])
  | .uploadChunk repo id _ _ _ => ("PushBlobChunkedResume", [some repo, some id, none, none])
  | .uploadCommit repo id _ _ _ _ => ("PushBlobChunkedResume", [some repo, some id, none, none])
  | .tags repo start => ("Tags", [some repo, some start])
  | .repositories start => ("Repositories", [some start])
  | .referrers repo dg => ("Referrers", [some repo, some dg, some []])

/-- the value an argument of the given provenance has for the classified request `r` (`none`: not a name) -/
def provVal (r : Request) : Prov → Option Bytes
  | .field f => SrvHandlers.fieldVal r f
  | .fieldOrEmpty f => SrvHandlers.fieldVal r f
  | .lit s => some (strBytes s)
  | .desc p => provVal r p
  | .other _ => none

def siteMatches (r : Request) (site : Site) (c : Call) : Bool :=
  match site with
  | .call m args => m == c.site.1 && args.map (provVal r) == c.site.2
  | .invoke _ => false

end OciModel.Wire

namespace OciModel.Wire
open OciModel OciModel.ReqCodec OciModel.SrvIR

/-- **`plan` makes the calls the source makes.** -/
theorem plan_site (cfg : Cfg) (r : Request) (rq : HttpRequest) (c : Call) (h : plan cfg r rq = .ok (some c)) :
    ∃ site ∈ sitesOf r.kind, siteMatches r site c = true := by
  obtain ⟨kind, repo, digest, tag, fromRepo, uploadID, listN, listLast⟩ := r
  cases kind <;> simp only [plan] at h
  case ping => cases h
  case blobGet =>
    split at h
    · cases h
    · cases h
      exact ⟨.call "GetBlob" [.field "Repo", .field "Digest"], (by decide : (_ : Site) ∈ sitesOf .blobGet), by simp [siteMatches, Call.site, provVal, SrvHandlers.fieldVal]⟩
    · cases h
      exact ⟨.call "GetBlobRange" [.field "Repo", .field "Digest", .other "rng.start", .other "rng.end"], (by decide : (_ : Site) ∈ sitesOf .blobGet),
        by simp [siteMatches, Call.site, provVal, SrvHandlers.fieldVal]⟩
  case blobHead =>
    cases h
    exact ⟨.call "ResolveBlob" [.field "Repo", .field "Digest"], (by decide : (_ : Site) ∈ sitesOf .blobHead), by simp [siteMatches, Call.site, provVal, SrvHandlers.fieldVal]⟩
  case blobDelete =>
    cases h
    exact ⟨.call "DeleteBlob" [.field "Repo", .field "Digest"], (by decide : (_ : Site) ∈ sitesOf .blobDelete), by simp [siteMatches, Call.site, provVal, SrvHandlers.fieldVal]⟩
  case blobStartUpload =>
    cases h
    exact ⟨.call "PushBlobChunked" [.field "Repo", .other "0"], (by decide : (_ : Site) ∈ sitesOf .blobStartUpload), by simp [siteMatches, Call.site, provVal, SrvHandlers.fieldVal]⟩
  case blobUploadBlob =>
    split at h
    · cases h
      exact ⟨.call "PushBlobChunked" [.field "Repo", .other "0"], (by decide : (_ : Site) ∈ sitesOf .blobUploadBlob), by simp [siteMatches, Call.site, provVal, SrvHandlers.fieldVal]⟩
    · cases h
      exact ⟨.call "PushBlob" [.field "Repo", .desc (.field "Digest"), .other "req.Body"], (by decide : (_ : Site) ∈ sitesOf .blobUploadBlob),
        by simp [siteMatches, Call.site, provVal, SrvHandlers.fieldVal]⟩
  case blobMount =>
    cases h
    exact ⟨.call "MountBlob" [.field "FromRepo", .field "Repo", .field "Digest"], (by decide : (_ : Site) ∈ sitesOf .blobMount),
      by simp [siteMatches, Call.site, provVal, SrvHandlers.fieldVal]⟩
  case blobUploadInfo =>
    cases h
    exact ⟨.call "PushBlobChunkedResume" [.field "Repo", .field "UploadID", .other "-1", .other "0"], (by decide : (_ : Site) ∈ sitesOf .blobUploadInfo),
      by simp [siteMatches, Call.site, provVal, SrvHandlers.fieldVal]⟩
  case blobUploadChunk =>
    split at h
    · cases h
    · cases h
      exact ⟨.call "PushBlobChunkedResume" [.field "Repo", .field "UploadID", .other "start", .other "int(end - start)"],
        (by decide : (_ : Site) ∈ sitesOf .blobUploadChunk), by simp [siteMatches, Call.site, provVal, SrvHandlers.fieldVal]⟩
  case blobCompleteUpload =>
    split at h
    · cases h
    · cases h
      exact ⟨.call "PushBlobChunkedResume" [.field "Repo", .field "UploadID", .other "start", .other "int(end - start)"],
        (by decide : (_ : Site) ∈ sitesOf .blobCompleteUpload), by simp [siteMatches, Call.site, provVal, SrvHandlers.fieldVal]⟩
  case manifestGet =>
    split at h
    · cases h
      exact ⟨.call "GetTag" [.field "Repo", .field "Tag"], (by decide : (_ : Site) ∈ sitesOf .manifestGet), by simp [siteMatches, Call.site, provVal, SrvHandlers.fieldVal]⟩
    · cases h
      exact ⟨.call "GetManifest" [.field "Repo", .field "Digest"], (by decide : (_ : Site) ∈ sitesOf .manifestGet), by simp [siteMatches, Call.site, provVal, SrvHandlers.fieldVal]⟩
  case manifestHead =>
    split at h
    · cases h
      exact ⟨.call "ResolveTag" [.field "Repo", .field "Tag"], (by decide : (_ : Site) ∈ sitesOf .manifestHead), by simp [siteMatches, Call.site, provVal, SrvHandlers.fieldVal]⟩
    · cases h
      exact ⟨.call "ResolveManifest" [.field "Repo", .field "Digest"], (by decide : (_ : Site) ∈ sitesOf .manifestHead), by simp [siteMatches, Call.site, provVal, SrvHandlers.fieldVal]⟩
  case manifestPut =>
    split at h
    · cases h
    · cases h
      exact ⟨.call "PushManifest" [.field "Repo", .fieldOrEmpty "Tag", .other "data", .other "mediaType"], (by decide : (_ : Site) ∈ sitesOf .manifestPut),
        by simp [siteMatches, Call.site, provVal, SrvHandlers.fieldVal]⟩
  case manifestDelete =>
    split at h
    · cases h
      exact ⟨.call "DeleteTag" [.field "Repo", .field "Tag"], (by decide : (_ : Site) ∈ sitesOf .manifestDelete), by simp [siteMatches, Call.site, provVal, SrvHandlers.fieldVal]⟩
    · cases h
      exact ⟨.call "DeleteManifest" [.field "Repo", .field "Digest"], (by decide : (_ : Site) ∈ sitesOf .manifestDelete), by simp [siteMatches, Call.site, provVal, SrvHandlers.fieldVal]⟩
  case tagsList =>
    split at h
    · cases h
    cases h
    exact ⟨.call "Tags" [.field "Repo", .field "ListLast"], (by decide : (_ : Site) ∈ sitesOf .tagsList), by simp [siteMatches, Call.site, provVal, SrvHandlers.fieldVal]⟩
  case referrersList =>
    split at h
    · cases h
    · cases h
      exact ⟨.call "Referrers" [.field "Repo", .field "Digest", .lit ""], (by decide : (_ : Site) ∈ sitesOf .referrersList),
        by simp [siteMatches, Call.site, provVal, SrvHandlers.fieldVal]; decide⟩
  case catalogList =>
    split at h
    · cases h
    cases h
    exact ⟨.call "Repositories" [.field "ListLast"], (by decide : (_ : Site) ∈ sitesOf .catalogList), by simp [siteMatches, Call.site, provVal, SrvHandlers.fieldVal]⟩

end OciModel.Wire
