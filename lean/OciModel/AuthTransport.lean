/-
Model of the auth transport `ociregistry/ociauth/auth.go` (`stdTransport.RoundTrip`,
`registry.init`, `setAuthorization`, `setAuthorizationFromChallenge`,
`acquireAccessToken`, `acquireToken`, `doTokenRequest`, `deleteExpiredTokens`,
`accessTokenForScope`). One model serves C10 and C11.

What is a parameter (universally quantified in every theorem):
* the ENVIRONMENT `Env`: the registry's answer to each of the (at most two)
  forwarded requests of a call, the token server's answer to each token request
  of a call (indexed by position: phase 0 = inside `setAuthorization`, phase 1 =
  inside `setAuthorizationFromChallenge`; attempt 0 = wide scope, attempt 1 = the
  retry after a 401; method 0 = POST, 1 = GET), and whether a realm is a URL that
  `url.Parse`/`http.NewRequest` accept. Indexing by position instead of by message
  loses nothing for universally quantified statements: every run against an
  adaptive environment is a run against the position-indexed one that gives the
  same answers.
* logical time `now` (milliseconds). The code reads `time.Now()` twice per
  acquisition; the model uses the call's `now` for both.

Secrets are atoms tagged at ingress with the registry host they belong to and
with their kind (`Atom`): values read from the configuration entry of host `h`,
and values delivered by a token server in answer to a request made from host `h`'s
state, are atoms of `h`. A challenge is tagged with the host that sent it. So
"credentials of one host are never sent to another host, nor to a realm that
host did not name" is a statement about the constructors occurring in the
outgoing messages (`Props/C11.lean`).

CONCURRENCY. Everything `RoundTrip` does to the per-host state happens inside two
critical sections of `registry.mu`: `setAuthorization` (`section1`) and
`setAuthorizationFromChallenge` (`section2`); `registry.init` runs once under
`sync.Once`. The theorems are stated per section, for an ARBITRARY state that
satisfies the invariant `J`, and `J` is preserved by each section; therefore they
hold for every interleaving of the sections of concurrent calls. `roundTrip` is
the composition of the two sections of one call with nothing in between (the
sequential case); statements about `roundTrip` that relate the two sections of
the same call are about that case only.
-/
import OciModel.Scope
import OciModel.Challenge

namespace OciModel.Auth
open OciModel OciModel.Scope

inductive Kind where
  | username | password | refresh | access
  deriving DecidableEq, Repr

/-- A secret or token: the registry host it belongs to, what it is, its bytes. -/
structure Atom where
  origin : Bytes
  kind   : Kind
  val    : Bytes
  deriving DecidableEq, Repr

inductive Scheme where
  | bearer | basic
  deriving DecidableEq, Repr

/-- The challenge kept in `registry.wwwAuthenticate` (`scheme` is "basic" or
"bearer" by `challengeFromResponse`; only three parameters are ever read). `sender`
is the registry host whose 401 response carried it. -/
structure Chal where
  sender  : Bytes
  scheme  : Scheme
  realm   : Bytes
  service : Bytes
  scope   : Bytes
  deriving DecidableEq, Repr

/-- `scopedToken`. -/
structure Tok where
  scope   : Scope
  tok     : Atom
  expires : Nat
  deriving DecidableEq, Repr

/-- `var forever = time.Date(99999, …)` in logical milliseconds. -/
def forever : Nat := 3093527980800000

/-- The margin of `deleteExpiredTokens(time.Now().UTC().Add(time.Second))`. -/
def marginMs : Nat := 1000

/-- The lifetime assumed when `expires_in` is 0 or absent, in seconds. -/
def defaultExpirySec : Nat := 60

-- F41: `const maxSeconds = math.MaxInt64 / int64(time.Second)`
/-- The longest lifetime a token is given, in seconds: what fits into `int64` nanoseconds. -/
def maxExpirySec : Nat := 9223372036

/-- The fields of `registry` guarded by `registry.mu`, plus the immutable host. -/
structure HostSt where
  host      : Bytes
  challenge : Option Chal
  toks      : List Tok
  refresh   : Option Atom
  basic     : Option (Atom × Atom)
  deriving DecidableEq, Repr

/-- `ConfigEntry`. -/
structure ConfigEntry where
  refreshToken : Bytes
  accessToken  : Bytes
  username     : Bytes
  password     : Bytes
  deriving DecidableEq, Repr

/-- `registry.init` (the success branch of `inner`). -/
def initSt (host : Bytes) (e : ConfigEntry) : HostSt :=
  { host := host
    challenge := none
    toks := if e.accessToken = [] then [] else [⟨unlimitedScope, ⟨host, .access, e.accessToken⟩, forever⟩]
    refresh := if e.refreshToken = [] then none else some ⟨host, .refresh, e.refreshToken⟩
    basic := if e.username ≠ [] ∧ e.password ≠ [] then
        some (⟨host, .username, e.username⟩, ⟨host, .password, e.password⟩) else none }

/-- The `Authorization` header of a forwarded request. -/
inductive AuthHdr where
  | none
  | bearer (t : Atom)
  | basic (user pass : Atom)
  deriving DecidableEq, Repr

/-- An outgoing message. `namedBy` is the sender of the challenge whose realm the
token request goes to. An empty `service` is not sent. -/
inductive Msg where
  | registry (host : Bytes) (auth : AuthHdr)
  | tokenPOST (realm namedBy : Bytes) (refresh : Atom) (scopeText service : Bytes)
  | tokenGET (realm namedBy : Bytes) (basic : Option (Atom × Atom)) (scopeText service : Bytes)
  deriving DecidableEq, Repr

/-- The registry's answer to a forwarded request: a response with a status and
the values of its `Www-Authenticate` header, or a transport error. -/
inductive RegReply where
  | resp (status : Nat) (wwwAuth : List Bytes)
  | fail
  deriving DecidableEq, Repr

/-- The token server's answer: status 200 with a JSON `wireToken`
(`expires_in` 0 = absent), another status, a 200 with a body that is not a JSON
token, or a transport error. -/
inductive TokReply where
  | json (token accessToken refreshToken : Bytes) (expiresIn : Nat)
  | status (n : Nat)
  | malformed
  | fail
  deriving DecidableEq, Repr

structure Env where
  reg     : Nat → RegReply
  tok     : Nat → Nat → Nat → TokReply
  realmOk : Bytes → Bool

/-- What the caller of `RoundTrip` gets: a response with a status (the registry's
own), the synthesized 403 DENIED, or an error. -/
inductive Result where
  | resp (status : Nat)
  | denied
  | err
  deriving DecidableEq, Repr

/-- The request as the transport sees it: the scopes in its context. -/
structure ReqInfo where
  required : Scope
  want     : Scope
  deriving DecidableEq, Repr

/-- The result of `doTokenRequest` as `acquireToken`'s callers distinguish it. -/
inductive TokRes where
  | ok (token accessToken refreshToken : Bytes) (expiresIn : Nat)
  | httpErr (status : Nat)
  | otherErr
  deriving DecidableEq, Repr

def replyRes : TokReply → TokRes
  | .json t a r e => .ok t a r e
  | .status n => .httpErr n
  | .malformed => .otherErr
  | .fail => .otherErr

/-- `deleteExpiredTokens(now)`: `slices.DeleteFunc(…, now.After(tok.expires))`. -/
def deleteExpired (now : Nat) (toks : List Tok) : List Tok :=
  toks.filter fun t => !(decide (t.expires < now))

/-- `accessTokenForScope`. -/
def tokenFor (toks : List Tok) (required : Scope) : Option Tok :=
  toks.find? fun t => Scope.contains t.scope required

/-- The GET token request (Basic credentials attached when configured). -/
def getMsg (st : HostSt) (ch : Chal) (scope : Scope) : Msg :=
  .tokenGET ch.realm ch.sender st.basic (toStr scope) ch.service

/-- The OAuth2 POST token request carrying the refresh token `rt`. -/
def postMsg (ch : Chal) (rt : Atom) (scope : Scope) : Msg :=
  .tokenPOST ch.realm ch.sender rt (toStr scope) ch.service

/-- `acquireToken` with `r.wwwAuthenticate = ch`: the token requests it makes and
the result of the last one. It does not change the state. -/
def acquireToken (env : Env) (st : HostSt) (ch : Chal) (phase attempt : Nat) (scope : Scope) :
    List Msg × TokRes :=
  if ch.realm = [] then ([], .otherErr)
  -- `http.NewRequestWithContext` (POST) and `url.Parse` (GET) refuse the same realms
  else if env.realmOk ch.realm = false then ([], .otherErr)
  else
    match st.refresh with
    | some rt =>
      -- 404 from the POST endpoint: fall back to GET
      if replyRes (env.tok phase attempt 0) = .httpErr 404 then
        ([postMsg ch rt scope, getMsg st ch scope], replyRes (env.tok phase attempt 1))
      else ([postMsg ch rt scope], replyRes (env.tok phase attempt 0))
    | none => ([getMsg st ch scope], replyRes (env.tok phase attempt 1))

/-- `if tok.RefreshToken != "" { r.refreshToken = tok.RefreshToken }`. -/
def adoptRefresh (st : HostSt) (refresh : Bytes) : HostSt :=
  if refresh = [] then st else { st with refresh := some ⟨st.host, .refresh, refresh⟩ }

/-- `tok.Token`, or `tok.AccessToken` when that is empty. -/
def pickToken (token access : Bytes) : Bytes := if token = [] then access else token

-- F41: `min(…, maxSeconds)` — the number of seconds is clamped before it is multiplied (the lower
-- clamp does not show here: `expires_in` is a natural number in this model; `TokenDecode.lean` has both)
/-- Lifetime in seconds: `expires_in`, 60 when it is 0 or absent, at most `maxExpirySec`. -/
def lifeOf (exp : Nat) : Nat := if exp = 0 then defaultExpirySec else min exp maxExpirySec

/-- The tail of `acquireAccessToken` once the token server's final answer `r` to
the request for scope `sc` is known: adopt a new refresh token, pick the access
token, record it under `sc`. -/
def finish (now : Nat) (st : HostSt) (ms : List Msg) (sc : Scope) (r : TokRes) :
    HostSt × List Msg × Option Atom :=
  match r with
  | .ok token access refresh exp =>
    if pickToken token access = [] then (adoptRefresh st refresh, ms, none)
    else
      ({ adoptRefresh st refresh with
          toks := (adoptRefresh st refresh).toks ++
            [⟨sc, ⟨st.host, .access, pickToken token access⟩, now + lifeOf exp * 1000⟩] },
        ms, some ⟨st.host, .access, pickToken token access⟩)
  | _ => (st, ms, none)

-- F39: `requestableScope`: the part of a scope that can be named in a token
-- request. An unlimited scope has none (`Scope{}`); a limited scope is itself.
/-- `requestableScope`. -/
def requestable (s : Scope) : Scope := if s.unlimited then Scope.empty else s

-- F39: the request is formed from the requestable parts of both scopes, the retry
-- after a 401 asks for the requestable part of `first`, and the token is recorded
-- under the scope that was requested (before: `union first second` / `first`, which
-- is the unlimited scope, printed "*", as soon as one of them is unlimited).
/-- `acquireAccessToken(ctx, first, second)` with `r.wwwAuthenticate = ch`:
new state, token requests made, and the access token (`none`: an error). -/
def acquireAccessToken (env : Env) (now : Nat) (st : HostSt) (ch : Chal) (phase : Nat)
    (first second : Scope) : HostSt × List Msg × Option Atom :=
  if (acquireToken env st ch phase 0 (union (requestable first) (requestable second))).2 = .httpErr 401 then
    -- the server may be refusing the wide scope: ask for `first` alone
    finish now st
      ((acquireToken env st ch phase 0 (union (requestable first) (requestable second))).1 ++
        (acquireToken env st ch phase 1 (requestable first)).1)
      (requestable first) (acquireToken env st ch phase 1 (requestable first)).2
  else
    finish now st (acquireToken env st ch phase 0 (union (requestable first) (requestable second))).1
      (union (requestable first) (requestable second))
      (acquireToken env st ch phase 0 (union (requestable first) (requestable second))).2

/-- `deleteExpiredTokens(time.Now().UTC().Add(time.Second))` on the state. -/
def prune (now : Nat) (st : HostSt) : HostSt :=
  { st with toks := deleteExpired (now + marginMs) st.toks }

/-- First critical section: `setAuthorization`. `none` in the last component is
an error return (the request is not forwarded). -/
def section1 (env : Env) (now : Nat) (st : HostSt) (req : ReqInfo) :
    HostSt × List Msg × Option AuthHdr :=
  match tokenFor (prune now st).toks req.required with
  | some t => (prune now st, [], some (.bearer t.tok))
  | none =>
    match (prune now st).challenge with
    | none => (prune now st, [], some .none)
    | some ch =>
      if (prune now st).refresh.isSome = true ∧ ch.scheme = .bearer then
        match acquireAccessToken env now (prune now st) ch 0 req.required req.want with
        | (st1, ms, some a) => (st1, ms, some (.bearer a))
        | (st1, ms, none) => (st1, ms, none)
      else
        match ch.scheme, (prune now st).basic with
        | .basic, some (u, p) => (prune now st, [], some (.basic u p))
        | _, _ => (prune now st, [], some .none)

/-- What `setAuthorizationFromChallenge` returns. -/
inductive Sec2 where
  | added (h : AuthHdr) (tokenAcquired : Bool)
  | notAdded
  | error
  deriving DecidableEq, Repr

/-- `r.wwwAuthenticate = challenge`. -/
def setChallenge (st : HostSt) (ch : Chal) : HostSt := { st with challenge := some ch }

/-- Second critical section: `setAuthorizationFromChallenge`. -/
def section2 (env : Env) (now : Nat) (st : HostSt) (ch : Chal) (req : ReqInfo) :
    HostSt × List Msg × Sec2 :=
  match ch.scheme with
  | .bearer =>
    -- F39: `requestableScope(wantScope).Union(requestableScope(requiredScope))`
    match acquireAccessToken env now (setChallenge st ch) ch 1 (parseScope ch.scope)
        (union (requestable req.want) (requestable req.required)) with
    | (st1, ms, some a) => (st1, ms, .added (.bearer a) true)
    | (st1, ms, none) => (st1, ms, .error)
  | .basic =>
    match (setChallenge st ch).basic with
    | some (u, p) => (setChallenge st ch, [], .added (.basic u p) false)
    | none => (setChallenge st ch, [], .notAdded)

/-- `challengeFromResponse` for a response from `host`, as a `Chal`. The parser
never panics (`Props/C11.lean`); a panic is rendered as "no challenge" here. -/
def chalOf (host : Bytes) (values : List Bytes) : Option Chal :=
  match Challenge.challengeFromResponse values with
  | .ok (some h) =>
    some { sender := host
           scheme := if h.scheme = Challenge.sBearer then .bearer else .basic
           realm := Challenge.param h Challenge.kRealm
           service := Challenge.param h Challenge.kService
           scope := Challenge.param h Challenge.kScope }
  | _ => none

/-- The part of `RoundTrip` after the first response turned out to be a 401 with
challenge `ch`: second section, second attempt. `sent1` is what was sent so far. -/
def afterChallenge (env : Env) (now : Nat) (st1 : HostSt) (sent1 : List Msg) (ch : Chal) (req : ReqInfo) :
    HostSt × List Msg × Result :=
  match section2 env now st1 ch req with
  | (st2, ms2, .error) => (st2, sent1 ++ ms2, .err)
  | (st2, ms2, .notAdded) => (st2, sent1 ++ ms2, .resp 401)
  | (st2, ms2, .added h2 acquired) =>
    match env.reg 1 with
    | .fail => (st2, sent1 ++ ms2 ++ [Msg.registry st1.host h2], .err)
    | .resp status2 _ =>
      if status2 = 401 ∧ acquired = true then (st2, sent1 ++ ms2 ++ [Msg.registry st1.host h2], .denied)
      else (st2, sent1 ++ ms2 ++ [Msg.registry st1.host h2], .resp status2)

/-- `RoundTrip` after `init` succeeded, in the sequential case: the two sections
back to back. The messages are in the order they are sent. -/
def roundTrip (env : Env) (now : Nat) (st : HostSt) (req : ReqInfo) : HostSt × List Msg × Result :=
  match section1 env now st req with
  | (st1, ms1, none) => (st1, ms1, .err)
  | (st1, ms1, some h1) =>
    match env.reg 0 with
    | .fail => (st1, ms1 ++ [Msg.registry st.host h1], .err)
    | .resp status hdrs =>
      if status ≠ 401 then (st1, ms1 ++ [Msg.registry st.host h1], .resp status) else
      match chalOf st.host hdrs with
      | none => (st1, ms1 ++ [Msg.registry st.host h1], .resp 401)
      | some ch => afterChallenge env now st1 (ms1 ++ [Msg.registry st.host h1]) ch req

/-! ### The whole transport: per-host states behind `stdTransport.registries` -/

/-- `Config.EntryForRegistry`: `none` is an error. -/
abbrev Config := Bytes → Option ConfigEntry

/-- The map `stdTransport.registries` restricted to hosts whose `init` succeeded
(a failed `init` keeps failing: `initErr` is sticky and `Config` is a function). -/
abbrev Sys := List (Bytes × HostSt)

def Sys.get (cfg : Config) (sys : Sys) (host : Bytes) : Option HostSt :=
  match sys.lookup host with
  | some st => some st
  | none => (cfg host).map (initSt host)

def Sys.put (sys : Sys) (host : Bytes) (st : HostSt) : Sys :=
  (host, st) :: sys.filter (fun p => p.1 != host)

/-- One sequential call of `RoundTrip` for a request to `host`. -/
def sysStep (cfg : Config) (env : Env) (now : Nat) (sys : Sys) (host : Bytes) (req : ReqInfo) :
    Sys × List Msg × Result :=
  match sys.get cfg host with
  | none => (sys, [], .err)
  | some st =>
    let (st', ms, r) := roundTrip env now st req
    (sys.put host st', ms, r)

/-- A call: environment, time, target host, scopes. -/
structure Call where
  env : Env
  now : Nat
  host : Bytes
  req : ReqInfo

/-- Any sequence of calls against any hosts; the trace keeps, per call, the host
and what was sent. -/
def run (cfg : Config) : Sys → List Call → Sys × List (Bytes × List Msg × Result)
  | sys, [] => (sys, [])
  | sys, c :: cs =>
    let o := sysStep cfg c.env c.now sys c.host c.req
    let r := run cfg o.1 cs
    (r.1, (c.host, o.2.1, o.2.2) :: r.2)

end OciModel.Auth
