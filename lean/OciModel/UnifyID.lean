/-
The composite upload ID of `ociunify` with its REAL encoding (ociunify/writer.go):

  unifiedBlobWriter.ID        data, _ := json.Marshal([]string{w.w[0].ID(), w.w[1].ID()})
                              return base64.RawURLEncoding.EncodeToString(data)
  PushBlobChunkedResume       data, err := base64.RawURLEncoding.DecodeString(id)   → "malformed ID: …"
                              json.Unmarshal(data, &ids)   (ids a nil []string)       → "malformed ID %q: …"
                              len(ids) != 2                                           → "malformed ID %q (expected two elements)"
                              member i is resumed with ids[i]

What is mirrored here:
* `goEsc` / `goStr`: `encoding/json`'s string encoder (`appendString` with `escapeHTML` on, which is
  what `json.Marshal` uses), byte for byte: `"` `\` as `\"` `\\`; BS FF LF CR TAB as `\b \f \n \r \t`;
  every other byte below 0x20 and `<` `>` `&` as `\u00XX` (lower-case hex); every byte that does not
  start a well-formed UTF-8 sequence (`utf8.DecodeRune` = RuneError, size 1) as `\ufffd`; U+2028 and
  U+2029 as `\u2028` `\u2029`; everything else (0x7F included) copied.
* `goStrList`: a non-nil `[]string` as `[` elements separated by `,` `]`.
* `B64Url.encode/decode`: `base64.RawURLEncoding` (no padding; the decoder skips CR and LF, rejects
  `=` and everything else outside the alphabet, rejects a length of 1 mod 4, ignores trailing bits).
* `decodeStrList`: `json.Unmarshal(data, &ids)` for a nil `[]string`: a syntax error, or a document
  that is neither an array nor `null`, is an error; `null` leaves `ids` nil (length 0); in an array a
  string element is taken (ill-formed UTF-8 replaced by U+FFFD, see `Json.unquote`), a `null` element
  leaves the zero value `""`, any other element is an `UnmarshalTypeError` (the call fails).
* `decodeID`: the three checks in the order of the code; `none` is `malformed ID`.

`sanitize` is the image of a string under encoding followed by decoding (every byte that is not part
of a well-formed UTF-8 sequence becomes U+FFFD); it is the identity exactly on well-formed UTF-8.

Core Lean only (linked into the `ocimodel` driver).
-/
import OciModel.Base
import OciModel.B64Url
import OciModel.Json

namespace OciModel.UnifyID
open OciModel OciModel.Json

/-! ## `encoding/json`: the string encoder -/

/-- `appendString` on one byte below 0x80 (`escapeHTML` on). -/
def asciiEsc (c : UInt8) : Bytes :=
  let n := c.toNat
  if n = 0x22 then [0x5C, 0x22]
  else if n = 0x5C then [0x5C, 0x5C]
  else if n = 0x08 then [0x5C, 0x62]
  else if n = 0x0C then [0x5C, 0x66]
  else if n = 0x0A then [0x5C, 0x6E]
  else if n = 0x0D then [0x5C, 0x72]
  else if n = 0x09 then [0x5C, 0x74]
  else if n < 0x20 ∨ n = 0x3C ∨ n = 0x3E ∨ n = 0x26 then
    [0x5C, 0x75, 0x30, 0x30, hexDigit (n / 16), hexDigit (n % 16)]
  else [c]

/-- `\ufffd` -/
def escFFFD : Bytes := [0x5C, 0x75, 0x66, 0x66, 0x66, 0x64]

/-- `\u202` followed by the digit `d` (`8` or `9`). -/
def escSep (d : UInt8) : Bytes := [0x5C, 0x75, 0x32, 0x30, 0x32, d]

/-- Is the sequence starting with `c` followed by `bs` U+2028 (E2 80 A8) or U+2029 (E2 80 A9)?
The answer is the last hex digit of its escape. -/
def sepDigit (c : UInt8) (bs : Bytes) : Option UInt8 :=
  if c.toNat = 0xE2 then
    match bs with
    | b1 :: b2 :: _ =>
      if b1.toNat = 0x80 then
        (if b2.toNat = 0xA8 then some 0x38 else if b2.toNat = 0xA9 then some 0x39 else none)
      else none
    | _ => none
  else none

/-- The body of `appendString`: the first counter is the number of bytes still to be COPIED (the
rest of a well-formed sequence), the second the number still to be DROPPED (the rest of an escaped
U+2028/9). -/
def goEsc : Nat → Nat → Bytes → Bytes
  | _, _, [] => []
  | k + 1, d, c :: bs => c :: goEsc k d bs
  | 0, d + 1, _ :: bs => goEsc 0 d bs
  | 0, 0, c :: bs =>
    if c.toNat < 0x80 then asciiEsc c ++ goEsc 0 0 bs
    else
      match seqLen c bs with
      | 0 => escFFFD ++ goEsc 0 0 bs
      | n + 1 =>
        match sepDigit c bs with
        | some dg => escSep dg ++ goEsc 0 n bs
        | none => c :: goEsc n 0 bs

/-- The content of the literal, without the quotes. -/
def goEscape (s : Bytes) : Bytes := goEsc 0 0 s

/-- A Go string as `json.Marshal` writes it. -/
def goStr (s : Bytes) : Bytes := 0x22 :: (goEscape s ++ [0x22])

def goStrTail : List Bytes → Bytes
  | [] => [0x5D]
  | x :: xs => 0x2C :: (goStr x ++ goStrTail xs)

/-- A non-nil `[]string` as `json.Marshal` writes it. -/
def goStrList : List Bytes → Bytes
  | [] => [0x5B, 0x5D]
  | x :: xs => 0x5B :: (goStr x ++ goStrTail xs)

/-! ## What survives: ill-formed UTF-8 becomes U+FFFD -/

def sanGo : Nat → Bytes → Bytes
  | _, [] => []
  | n + 1, c :: bs => c :: sanGo n bs
  | 0, c :: bs =>
    match seqLen c bs with
    | 0 => replacement ++ sanGo 0 bs
    | n + 1 => c :: sanGo n bs

/-- Every byte that is not part of a well-formed UTF-8 sequence replaced by U+FFFD (EF BF BD), one
replacement per byte. -/
def sanitize (s : Bytes) : Bytes := sanGo 0 s

/-! ## The composite ID -/

/-- `unifiedBlobWriter.ID` for member IDs `a` and `b`. -/
def encodeID (a b : Bytes) : Bytes := B64Url.encode (goStrList [a, b])

/-- One element of a JSON array decoded into a `string`. -/
def elemStr : JVal → Option Bytes
  | .str s => some s
  | .null => some []
  | _ => none

/-- `json.Unmarshal(data, &ids)` with `ids` a nil `[]string`; `none`: it returns an error. -/
def decodeStrList (data : Bytes) : Option (List Bytes) :=
  match Json.parse data with
  | some (.arr xs) => xs.mapM elemStr
  | some .null => some []
  | _ => none

/-- Why an ID is refused. -/
inductive IDErr where
  | base64      -- `malformed ID: illegal base64 data …`
  | json        -- `malformed ID "…": <json error>`
  | length      -- `malformed ID "…" (expected two elements)`
  deriving DecidableEq, Repr

/-- The head of `PushBlobChunkedResume`, with the reason of a refusal. -/
def decodeIDE (id : Bytes) : Except IDErr (Bytes × Bytes) :=
  match B64Url.decode id with
  | none => .error .base64
  | some data =>
    match decodeStrList data with
    | none => .error .json
    | some [a, b] => .ok (a, b)
    | some _ => .error .length

/-- The head of `PushBlobChunkedResume`: the IDs members 0 and 1 are resumed with; `none` is
`malformed ID` (no member is called). -/
def decodeID (id : Bytes) : Option (Bytes × Bytes) :=
  match decodeIDE id with
  | .ok p => some p
  | .error _ => none

/-! ## The HTTP layer in front of a unifier -/

/-- All bytes are of the base64url alphabet `A–Z a–z 0–9 - _`. -/
def isB64UrlChar (c : UInt8) : Bool :=
  (65 ≤ c.toNat && c.toNat ≤ 90) || (97 ≤ c.toNat && c.toNat ≤ 122) || (48 ≤ c.toNat && c.toNat ≤ 57) ||
    c.toNat == 45 || c.toNat == 95

end OciModel.UnifyID
