/-
Concurrent HISTORIES of the in-memory registry and LINEARIZABILITY (Herlihy & Wing), stated on the
history alone, plus EXECUTIONS of the atomic-step model `MemConc` that produce histories.

  * a history is a list of `inv client op` / `ret client out` events (`HEv`);
  * an execution (`XEv`) additionally shows, for every operation, the instant `step client` at which the
    client's pending operation runs as ONE atomic step `MemConc.astep (.op op)` (what the regenerated
    lock facts say of every `*Registry` method: `Props.C08.registry_methods_atomic`); the `out` of the
    client's `ret` must be the output of that very step (`xstep`);
  * `Linearizable H s0 h` speaks of `h` only: the sequential reference semantics is `Mem.run H s0`.

`H` (the content hash) stays a parameter; nothing is assumed about it.
The theorem `MemLin.atomic_linearizable` is in `MemLinLemmas.lean` / `Props/C08.lean`.
-/
import OciModel.MemConc

namespace OciModel.MemLin
open OciModel OciModel.Mem OciModel.MemConc

abbrev Client := Nat

/-- an event of a concurrent history -/
inductive HEv where
  | inv (c : Client) (o : Op)
  | ret (c : Client) (out : Out)
  deriving Repr

abbrev History := List HEv

def HEv.client : HEv → Client
  | .inv c _ => c
  | .ret c _ => c

def setAt {α} (f : Client → α) (c : Client) (v : α) : Client → α := fun c' => if c' = c then v else f c'

/-- each client alternates `inv` / `ret`, beginning with `inv`; `busy c`: client `c` has an operation open -/
def wfFrom (busy : Client → Bool) : History → Bool
  | [] => true
  | .inv c _ :: rest => !busy c && wfFrom (setAt busy c true) rest
  | .ret c _ :: rest => busy c && wfFrom (setAt busy c false) rest

/-- A history is well formed when every client alternates invocations and responses (a client has at
most one operation open; the last one may still be open). -/
def WellFormedH (h : History) : Prop := wfFrom (fun _ => false) h = true

instance (h : History) : Decidable (WellFormedH h) := inferInstanceAs (Decidable (_ = true))

/-! ### Linearizability of a history -/

/-- The response at position `j` (`ret c out`) MATCHES the invocation at position `i` of client `c`: it is
the first event of `c` after `i`. -/
def Resp (h : History) (i : Nat) (c : Client) (j : Nat) (out : Out) : Prop :=
  i < j ∧ h[j]? = some (.ret c out) ∧ ∀ k e, i < k → k < j → h[k]? = some e → e.client ≠ c

/-- one operation of a linearization: the position of its invocation in the history, the operation, and
the output the sequential order gives it -/
structure LinOp where
  inv : Nat
  op  : Op
  out : Out
  deriving Repr

section
variable (H : Bytes → Bytes)

/-- `lin` is a linearization of the history `h` from the sequential state `s0`:
  * `nodup`, `isInv`: its entries are distinct invocations of `h`, each with the output that `h` records for it
    if `h` records one (an operation still open in `h` may be in `lin`: it may have taken effect);
  * `complete`: every COMPLETED operation of `h` is in `lin` — so when no operation is open, `lin` is a
    permutation of the operations of `h`;
  * `realtime`: if the response of `a` precedes the invocation of `b` in `h`, then `a` comes before `b` in `lin`;
  * `sequential`: running the operations of `lin` in that order through `Mem.step H` from `s0` yields exactly
    the recorded outputs. -/
structure IsLinearization (s0 : State) (h : History) (lin : List LinOp) : Prop where
  nodup : (lin.map (·.inv)).Nodup
  isInv : ∀ e ∈ lin, ∃ c, h[e.inv]? = some (.inv c e.op) ∧ ∀ j out, Resp h e.inv c j out → out = e.out
  complete : ∀ i c o j out, h[i]? = some (.inv c o) → Resp h i c j out → ⟨i, o, out⟩ ∈ lin
  realtime : ∀ (p q : Nat) (a b : LinOp), lin[p]? = some a → lin[q]? = some b →
    (∃ c j out, Resp h a.inv c j out ∧ h[a.inv]? = some (.inv c a.op) ∧ j < b.inv) → p < q
  sequential : (run H s0 (lin.map (·.op))).2 = lin.map (·.out)

/-- **Linearizability** of the history `h` with respect to the sequential semantics `Mem.step H` from `s0`. -/
def Linearizable (s0 : State) (h : History) : Prop := ∃ lin, IsLinearization H s0 h lin

end

/-! ### Executions of the atomic-step model -/

/-- an event of an execution: invocation, THE atomic step of the client's pending operation, response -/
inductive XEv where
  | inv (c : Client) (o : Op)
  | step (c : Client)
  | ret (c : Client) (out : Out)
  deriving Repr

/-- what a client is doing -/
inductive Pend where
  | idle
  | invoked (o : Op)                 -- called, critical section not yet entered
  | stepped (o : Op) (out : Out)     -- critical section done with result `out`, not yet returned
  deriving Repr

structure XState where
  c    : CState
  pend : Client → Pend

section
variable (H : Bytes → Bytes)

/-- One event of an execution; `none`: the event cannot happen now.
  * `inv c o`: client `c` is idle and calls `o`;
  * `step c`: the pending call of `c` runs, as the atomic step `astep H · (.op o)` on the shared state;
  * `ret c out`: the call of `c` has run and returns the output `out` OF THAT STEP. -/
def xstep (x : XState) : XEv → Option XState
  | .inv c o =>
    match x.pend c with
    | .idle => some { x with pend := setAt x.pend c (.invoked o) }
    | _ => none
  | .step c =>
    match x.pend c with
    | .invoked o => some { c := (astep H x.c (.op o)).1, pend := setAt x.pend c (.stepped o (astep H x.c (.op o)).2) }
    | _ => none
  | .ret c out =>
    match x.pend c with
    | .stepped _ out' => if out = out' then some { x with pend := setAt x.pend c .idle } else none
    | _ => none

def xrun (x : XState) : List XEv → Option XState
  | [] => some x
  | e :: rest => (xstep H x e).bind fun x' => xrun x' rest

/-- all clients idle -/
def xinit (c0 : CState) : XState := ⟨c0, fun _ => .idle⟩

/-- `ex` is an execution of the atomic-step model from the shared state `c0` with all clients idle. Any
number of clients, any interleaving; operations may still be open at the end. -/
def IsExec (c0 : CState) (ex : List XEv) : Prop := (xrun H (xinit c0) ex).isSome = true

instance (c0 : CState) (ex : List XEv) : Decidable (IsExec H c0 ex) := inferInstanceAs (Decidable (_ = true))

end

/-- the history of an execution: what the clients see (the `step` events are internal) -/
def hist : List XEv → History
  | [] => []
  | .inv c o :: rest => .inv c o :: hist rest
  | .step _ :: rest => hist rest
  | .ret c out :: rest => .ret c out :: hist rest

/-- The operations that take their atomic step, in the order of the `step` events (`p c`: the call client
`c` has made and not yet run). This is the schedule `(stepOps … ex).map .op` of `MemConc.arun`. -/
def stepOpsFrom (p : Client → Option Op) : List XEv → List Op
  | [] => []
  | .inv c o :: rest => stepOpsFrom (setAt p c (some o)) rest
  | .step c :: rest =>
    match p c with
    | some o => o :: stepOpsFrom (setAt p c none) rest
    | none => stepOpsFrom p rest
  | .ret _ _ :: rest => stepOpsFrom p rest

def stepOps (ex : List XEv) : List Op := stepOpsFrom (fun _ => none) ex

end OciModel.MemLin
