/-
Model of `(*ociregistry.Funcs)`: the *generated* table is the model; this file
gives a row its semantics.
-/
import OciModel.Base
import OciModel.Generated.Funcs

namespace OciModel.Funcs
open OciModel.Generated.Funcs

/-- A configuration of a `*Funcs` value. -/
structure Cfg where
  nilRecv     : Bool
  set         : String → Bool     -- which function fields are non-nil
  hasNewError : Bool

inductive Out where
  /-- the user's function in `field` was called with the method's parameters at
  these positions, and its result returned unchanged -/
  | delegated (field : String) (args : List String)
  /-- the error constructor was used: `custom` = the table's `NewError`;
  otherwise `<errName>: unsupported`; `errRepo` is what was passed as repo -/
  | unset (errName errRepo : String) (custom : Bool) (shape : String)
  | panic (site : String)
  deriving Repr, DecidableEq

/-- Semantics of one generated row: exactly the two-statement body
`if <nilGuard> f.G != nil { return f.C(ctx, args…) }; return …, f.newError(ctx, name, repo)`. -/
def call (c : Cfg) (r : Row) : Out :=
  if !r.shapeKnown then .panic "shape-unknown"
  else if c.nilRecv && !r.nilGuard then .panic "nil-receiver-deref"
  else if !c.nilRecv && c.set r.guardField then
    if c.set r.calledField then .delegated r.calledField r.callArgs
    else .panic "call-of-nil-func"
  else .unset r.errName r.errRepo (!c.nilRecv && c.hasNewError) r.unsetShape

def fieldOf (m : String) : String := m ++ "_"

/-- Decidable well-formedness of a row: it tests and calls its own field,
passes its parameters in order and names itself in the error. -/
def RowOk (r : Row) : Bool :=
  r.shapeKnown && r.nilGuard &&
  r.guardField == fieldOf r.method && r.calledField == fieldOf r.method &&
  r.callArgs == r.params && r.errName == r.method &&
  (r.params.contains r.errRepo || r.errRepo == "\"\"") &&
  r.unsetShape != "?"

def TableOk (t : List Row) : Bool := t.all RowOk

end OciModel.Funcs
