/-
Model of `(*ociregistry.Funcs)`: the *generated* table is the model; this file
gives a row its semantics.
-/
import OciModel.Base
import OciModel.Generated.Funcs

namespace OciModel.Funcs
open OciModel.Generated.Funcs

/-- A configuration of a `*Funcs` value. -/
structure Cfg where
  nilRecv     : Bool
  set         : String → Bool     -- which function fields are non-nil
  hasNewError : Bool

inductive Out where
  /-- the user's function in `field` was called with the method's parameters at
  these positions, and its result returned unchanged -/
  | delegated (field : String) (args : List String)
  /-- the error constructor was used: `custom` = the table's `NewError`;
  otherwise `<errName>: unsupported`; `errRepo` is what was passed as repo -/
  | unset (errName errRepo : String) (custom : Bool) (shape : String)
  | panic (site : String)
  deriving Repr, DecidableEq

/-- Semantics of one generated row: exactly the two-statement body
`if <nilGuard> f.G != nil { return f.C(ctx, args…) }; return …, f.newError(ctx, name, repo)`. -/
def call (c : Cfg) (r : Row) : Out :=
  if !r.shapeKnown then .panic "shape-unknown"
  else if c.nilRecv && !r.nilGuard then .panic "nil-receiver-deref"
  else if !c.nilRecv && c.set r.guardField then
    if c.set r.calledField then .delegated r.calledField r.callArgs
    else .panic "call-of-nil-func"
  else .unset r.errName r.errRepo (!c.nilRecv && c.hasNewError) r.unsetShape

def fieldOf (m : String) : String := m ++ "_"

/-- Decidable well-formedness of a row: it tests and calls its own field,
passes its parameters in order and names itself in the error. -/
def RowOk (r : Row) : Bool :=
  r.shapeKnown && r.nilGuard &&
  r.guardField == fieldOf r.method && r.calledField == fieldOf r.method &&
  r.callArgs == r.params && r.errName == r.method &&
  (r.params.contains r.errRepo || r.errRepo == "\"\"") &&
  r.unsetShape != "?"

def TableOk (t : List Row) : Bool := t.all RowOk

/-! ### What the caller gets back

`Out.delegated` records which function was called with what; it carries no result.
`result` adds the results, for arbitrary argument values (`env`) and an arbitrary
behaviour of the user's functions (`user field args`): the user's results come
back untouched exactly when the translator found the guarded branch to be the
single statement `return f.<Field>(ctx, args…)` (`returnsCallVerbatim`) and the
field declared with the method's own parameter and result types (`signatureSame`,
so that neither the call nor the `return` converts anything); otherwise the model
does not say what is returned. -/

inductive Result (ρ : Type) where
  /-- exactly the values the user's function returned -/
  | user (v : ρ)
  /-- the error constructor's error, as in `Out.unset` -/
  | error (errName errRepo : String) (custom : Bool) (shape : String)
  /-- delegated, but the source does not have the shape that passes results on -/
  | unknown
  | panic (site : String)
  deriving Repr, DecidableEq

def result {α ρ : Type} (user : String → List α → ρ) (env : String → α) (c : Cfg) (r : Row) : Result ρ :=
  match call c r with
  | .delegated f args =>
    if r.returnsCallVerbatim && r.signatureSame then .user (user f (args.map env)) else .unknown
  | .unset n rp cu sh => .error n rp cu sh
  | .panic s => .panic s

end OciModel.Funcs
