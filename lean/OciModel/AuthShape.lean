/-
The source fingerprints the auth transport model was audited against
(written by translator/authshape_expected.py; see there). `fingerprint f` looks a
function up in the facts regenerated from the working tree.
-/
import OciModel.Generated.AuthFacts
namespace OciModel.AuthShape
open OciModel.Generated.AuthFacts

/-- guards, mirrored calls, returns and state assignments of one function, in source order -/
structure Shape where
  conds : List String
  calls : List String
  returns : List String
  assigns : List String
  deriving DecidableEq, Repr

def fingerprint (f : String) : Option Shape := do
  let c ← conds.lookup f
  let k ← calls.lookup f
  let r ← returns.lookup f
  let a ← assigns.lookup f
  pure ⟨c, k, r, a⟩

def challenge_init : Shape :=
  { conds := ["for c < 256", "if strings.ContainsRune(\" \\t\\r\\n\", rune(c))", "if isChar && !isCtl && !isSeparator"]
    calls := ["strings.ContainsRune(\" \\t\\\"(),/:;<=>?@[]\\\\{}\", rune(c))", "strings.ContainsRune(\" \\t\\r\\n\", rune(c))"]
    returns := []
    assigns := [] }

def challengeFromResponse : Shape :=
  { conds := ["if h1 == nil", "if h1.scheme != \"basic\" && h1.scheme != \"bearer\"", "if h == nil", "if h1.scheme == \"basic\" && h.scheme == \"bearer\""]
    calls := ["parseWWWAuthenticate(chalStr)"]
    returns := ["h"]
    assigns := ["h = h1", "h = h1"] }

def expectToken : Shape :=
  { conds := ["for i < len(s)", "if octetTypes[s[i]]&isToken == 0"]
    calls := []
    returns := ["s[:i], s[i:]"]
    assigns := [] }

def expectTokenOrQuoted : Shape :=
  { conds := ["if !strings.HasPrefix(s, \"\\\"\")", "for i < len(s)", "switch s[i]", "case '\"'", "case '\\\\'", "for i < len(s)", "if escape", "if b == '\\\\'", "if b == '\"'"]
    calls := ["strings.HasPrefix(s, \"\\\"\")", "expectToken(s)", "make([]byte, len(s)-1)", "copy(p, s[:i])"]
    returns := ["expectToken(s)", "s[:i], s[i+1:]", "string(p[:j]), s[i+1:]", "\"\", \"\"", "\"\", \"\""]
    assigns := [] }

def parseWWWAuthenticate : Shape :=
  { conds := ["if scheme == \"\"", "for len(s) > 0", "if pkey == \"\"", "if !strings.HasPrefix(s, \"=\")", "if pvalue == \"\"", "if !strings.HasPrefix(s, \",\")", "if len(s) > 0"]
    calls := ["make(map[string]string)", "expectToken(header)", "strings.ToLower(scheme)", "skipSpace(s)", "expectToken(skipSpace(s))", "skipSpace(s)", "strings.HasPrefix(s, \"=\")", "expectTokenOrQuoted(s[1:])", "strings.ToLower(pkey)", "skipSpace(s)", "strings.HasPrefix(s, \",\")"]
    returns := ["nil", "nil", "nil", "nil", "nil", "&h"]
    assigns := [] }

def registry_accessTokenForScope : Shape :=
  { conds := ["if tok.scope.Contains(scope)"]
    calls := ["tok.scope.Contains(scope)"]
    returns := ["tok", "nil"]
    assigns := [] }

def registry_acquireAccessToken : Shape :=
  { conds := ["if err != nil", "if !errors.As(err, &herr) || herr.StatusCode() != http.StatusUnauthorized", "if err != nil", "if tok.RefreshToken != \"\"", "if accessToken == \"\"", "if accessToken == \"\"", "if tok.ExpiresIn == 0"]
    calls := ["requestableScope(requiredScope).Union(requestableScope(wantScope))", "r.acquireToken(ctx, scope)", "r.acquireToken(ctx, scope)", "now.Add(60 * time.Second)", "now.Add(time.Duration(seconds) * time.Second)"]
    returns := ["\"\", err", "\"\", err", "\"\", fmt.Errorf(\"no access token found in auth server response\")", "accessToken, nil"]
    assigns := ["scope := requestableScope(requiredScope).Union(requestableScope(wantScope))", "scope = requestableScope(requiredScope)", "r.refreshToken = tok.RefreshToken", "r.accessTokens = append(r.accessTokens, &scopedToken{scope: scope, token: accessToken, expires: expires})"] }

def registry_acquireToken : Shape :=
  { conds := ["if realm == \"\"", "if r.refreshToken != \"\"", "if service != \"\"", "if err != nil", "if err == nil", "if !errors.As(err, &herr) || herr.StatusCode() != http.StatusNotFound", "if err != nil", "if service != \"\"", "if err != nil", "if r.basic != nil"]
    calls := ["v.Set(\"scope\", scope.String())", "scope.String()", "v.Set(\"service\", service)", "v.Set(\"client_id\", oauthClientID)", "v.Set(\"grant_type\", \"refresh_token\")", "v.Set(\"refresh_token\", r.refreshToken)", "http.NewRequestWithContext(ctx, \"POST\", realm, strings.NewReader(v.Encode()))", "req.Header.Set(\"Content-Type\", \"application/x-www-form-urlencoded\")", "r.doTokenRequest(req)", "url.Parse(realm)", "scope.String()", "v.Set(\"service\", service)", "http.NewRequestWithContext(ctx, \"GET\", u.String(), nil)", "u.String()", "req.SetBasicAuth(r.basic.username, r.basic.password)", "r.doTokenRequest(req)"]
    returns := ["nil, fmt.Errorf(\"malformed Www-Authenticate header (missing realm)\")", "nil, fmt.Errorf(\"cannot form HTTP request to %q: %v\", realm, err)", "tok, nil", "tok, err", "nil, fmt.Errorf(\"malformed Www-Authenticate header (malformed realm %q): %v\", realm, err)", "nil, err", "r.doTokenRequest(req)"]
    assigns := ["req := http.NewRequestWithContext(ctx, \"POST\", realm, strings.NewReader(v.Encode()))", "req := http.NewRequestWithContext(ctx, \"GET\", u.String(), nil)"] }

def registry_deleteExpiredTokens : Shape :=
  { conds := []
    calls := ["slices.DeleteFunc(r.accessTokens, func(tok *scopedToken) bool {\n\treturn now.After(tok.expires)\n})", "now.After(tok.expires)"]
    returns := ["now.After(tok.expires)"]
    assigns := ["r.accessTokens = slices.DeleteFunc(r.accessTokens, func(tok *scopedToken) bool {\n\treturn now.After(tok.expires)\n})"] }

def registry_doTokenRequest : Shape :=
  { conds := ["if err != nil", "if resp.StatusCode != http.StatusOK", "if bodyErr != nil", "if err != nil"]
    calls := ["resp.Body.Close()"]
    returns := ["nil, err", "nil, ociregistry.NewHTTPError(nil, resp.StatusCode, resp, data)", "nil, fmt.Errorf(\"error reading response body: %v\", err)", "nil, fmt.Errorf(\"malformed JSON token in response: %v\", err)", "&tok, nil"]
    assigns := [] }

def registry_init : Shape :=
  { conds := ["if err != nil", "if info.AccessToken != \"\"", "if info.Username != \"\" && info.Password != \"\""]
    calls := ["r.config.EntryForRegistry(r.host)", "UnlimitedScope()"]
    returns := ["fmt.Errorf(\"cannot acquire auth info for registry %q: %v\", r.host, err)", "nil", "r.initErr"]
    assigns := ["r.refreshToken = info.RefreshToken", "r.accessTokens = append(r.accessTokens, &scopedToken{scope: UnlimitedScope(), token: info.AccessToken, expires: forever})", "r.basic = &userPass{username: info.Username, password: info.Password}", "r.initErr = inner()"] }

def registry_setAuthorization : Shape :=
  { conds := ["if accessToken != nil", "if r.wwwAuthenticate == nil", "if r.refreshToken != \"\" && r.wwwAuthenticate.scheme == \"bearer\"", "if err != nil", "if r.wwwAuthenticate.scheme != \"bearer\" && r.basic != nil"]
    calls := ["r.deleteExpiredTokens(time.Now().UTC().Add(time.Second))", "time.Now().UTC().Add(time.Second)", "r.accessTokenForScope(requiredScope)", "req.Header.Set(\"Authorization\", \"Bearer \"+accessToken.token)", "r.acquireAccessToken(ctx, requiredScope, wantScope)", "req.Header.Set(\"Authorization\", \"Bearer \"+accessToken)", "req.SetBasicAuth(r.basic.username, r.basic.password)"]
    returns := ["nil", "nil", "fmt.Errorf(\"cannot acquire access token: %v\", err)", "nil", "nil", "nil"]
    assigns := [] }

def registry_setAuthorizationFromChallenge : Shape :=
  { conds := ["if r.wwwAuthenticate.scheme == \"bearer\"", "if err != nil", "if r.basic != nil"]
    calls := ["ParseScope(r.wwwAuthenticate.params[\"scope\"])", "r.acquireAccessToken(ctx, scope, requestableScope(wantScope).Union(requestableScope(requiredScope)))", "requestableScope(wantScope).Union(requestableScope(requiredScope))", "req.Header.Set(\"Authorization\", \"Bearer \"+accessToken)", "req.SetBasicAuth(r.basic.username, r.basic.password)"]
    returns := ["false, false, err", "true, true, nil", "true, false, nil", "false, false, nil"]
    assigns := ["r.wwwAuthenticate = challenge", "scope := ParseScope(r.wwwAuthenticate.params[\"scope\"])"] }

def requestableScope : Shape :=
  { conds := ["if s.IsUnlimited()"]
    calls := []
    returns := ["Scope{}", "s"]
    assigns := [] }

def skipSpace : Shape :=
  { conds := ["for i < len(s)", "if octetTypes[s[i]]&isSpace == 0"]
    calls := []
    returns := ["s[i:]"]
    assigns := [] }

def stdTransport_RoundTrip : Shape :=
  { conds := ["if needBodyClose && req.Body != nil", "if r == nil", "if err != nil", "if err != nil", "if err != nil", "if resp.StatusCode != http.StatusUnauthorized", "if challenge == nil", "if err != nil", "if !authAdded", "if req.GetBody != nil", "if err != nil", "if err != nil", "if resp.StatusCode != http.StatusUnauthorized || !tokenAcquired", "if err != nil"]
    calls := ["req.Clone(req.Context())", "req.Body.Close()", "r.init()", "r.setAuthorization(ctx, req, requiredScope, wantScope)", "r.transport.RoundTrip(req)", "challengeFromResponse(resp)", "r.setAuthorizationFromChallenge(ctx, req, challenge, requiredScope, wantScope)", "resp.Body.Close()", "resp.Body.Close()", "req.GetBody()", "r.transport.RoundTrip(req)", "resp.Body.Close()", "resp.Header.Set(\"Content-Type\", \"application/json\")"]
    returns := ["nil, err", "nil, err", "nil, err", "resp, nil", "resp, nil", "nil, err", "resp, nil", "nil, err", "nil, err", "resp, nil", "nil, fmt.Errorf(\"cannot marshal response body: %v\", err)", "resp, nil"]
    assigns := ["req = req.Clone(req.Context())", "needBodyClose := true", "r := a.registries[req.URL.Host]", "r = &registry{host: req.URL.Host, config: a.config, transport: a.transport}", "a.registries[r.host] = r", "needBodyClose = false", "req.Body = req.GetBody()", "resp.ContentLength = int64(len(data))", "resp.Body = io.NopCloser(bytes.NewReader(data))", "resp.StatusCode = http.StatusForbidden", "resp.Status = http.StatusText(resp.StatusCode)"] }

end OciModel.AuthShape
