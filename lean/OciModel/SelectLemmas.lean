/-
Helper lemmas for C12 (model in `OciModel/Select.lean`).
-/
import OciModel.Select

namespace OciModel.Select
open OciModel.Generated.Select OciModel.Generated

variable {ε ρ σ : Type}

theorem firstFail_none_iff (check : Policy ε) (env : Env) (gs : List RGuard) :
    firstFail check env gs = none ↔ ∀ g ∈ gs, check (g.val env) g.kind = none := by
  induction gs with
  | nil => simp [firstFail]
  | cons g gs ih =>
    simp only [firstFail, List.mem_cons, forall_eq_or_imp]
    cases h : check (g.val env) g.kind with
    | none => simp [ih]
    | some e => simp

theorem firstFail_some (check : Policy ε) (env : Env) (gs : List RGuard) (e : ε)
    (h : firstFail check env gs = some e) : ∃ g ∈ gs, check (g.val env) g.kind = some e := by
  induction gs with
  | nil => simp [firstFail] at h
  | cons g gs ih =>
    simp only [firstFail] at h
    cases hc : check (g.val env) g.kind with
    | none =>
      rw [hc] at h
      obtain ⟨g', hm, hg'⟩ := ih h
      exact ⟨g', List.mem_cons_of_mem _ hm, hg'⟩
    | some e' =>
      rw [hc] at h
      simp at h
      exact ⟨g, List.mem_cons_self, by rw [hc, h]⟩

theorem firstFail_isSome_of_mem (check : Policy ε) (env : Env) (gs : List RGuard)
    (h : ∃ g ∈ gs, (check (g.val env) g.kind).isSome = true) : (firstFail check env gs).isSome = true := by
  cases hf : firstFail check env gs with
  | some e => rfl
  | none =>
    obtain ⟨g, hm, hg⟩ := h
    rw [(firstFail_none_iff check env gs).mp hf g hm] at hg
    simp at hg

/-- Guards the policy lets through do not influence the first failure. -/
theorem firstFail_append_of_pass (check : Policy ε) (env : Env) (pre rest : List RGuard)
    (h : ∀ g ∈ pre, check (g.val env) g.kind = none) :
    firstFail check env (pre ++ rest) = firstFail check env rest := by
  induction pre with
  | nil => rfl
  | cons g gs ih =>
    simp only [List.cons_append, firstFail, h g List.mem_cons_self]
    exact ih (fun g' hg' => h g' (List.mem_cons_of_mem _ hg'))

/-- Consuming the wrapper's iterator is consuming the visible part of the
backend's listing. -/
theorem feed_filterCb (check : Policy ε) (k : Kind) (cb : σ → Ev ε → σ × Bool) (evs : List (Ev ε)) (s : σ) :
    (feed (filterCb check k cb) evs s).1 = (feed cb (visible check k evs) s).1 := by
  induction evs generalizing s with
  | nil => simp [feed, visible]
  | cons e es ih =>
    cases e with
    | error e =>
      simp only [feed, filterCb, visible]
      cases hcb : cb s (.error e) with
      | mk s' go => cases go <;> simp
    | item n =>
      simp only [visible]
      cases hc : check n k with
      | some e' => simp [feed, filterCb, hc, ih]
      | none =>
        simp only [feed, filterCb, hc]
        cases hcb : cb s (.item n) with
        | mk s' go => cases go <;> simp [ih]

/-- The wrapper never pulls more backend events than the backend has. -/
theorem feed_count_le (cb : σ → Ev ε → σ × Bool) (evs : List (Ev ε)) (s : σ) :
    (feed cb evs s).2 ≤ evs.length := by
  induction evs generalizing s with
  | nil => simp [feed]
  | cons e es ih =>
    simp only [feed]
    cases hcb : cb s e with
    | mk s' go =>
      cases go
      · simp
      · have := ih s'
        simp
        omega

theorem feed_collect_all (evs acc : List (Ev ε)) :
    (feed (collectCb 0) evs acc).1 = acc ++ evs := by
  induction evs generalizing acc with
  | nil => simp [feed]
  | cons e es ih => simp [feed, collectCb, ih]

theorem feed_collect (k : Nat) (evs acc : List (Ev ε)) (h : acc.length < k) :
    (feed (collectCb k) evs acc).1 = acc ++ evs.take (k - acc.length) := by
  induction evs generalizing acc with
  | nil => simp [feed]
  | cons e es ih =>
    have hk : (k == 0) = false := by simp; omega
    by_cases h2 : acc.length + 1 < k
    · have ih' := ih (acc ++ [e]) (by simp; omega)
      have e1 : k - acc.length = (k - (acc ++ [e]).length) + 1 := by simp; omega
      simp only [feed, collectCb, hk, Bool.false_or, h2, decide_true, if_true]
      rw [ih', e1]
      simp
    · have e1 : k - acc.length = 1 := by omega
      simp [feed, collectCb, hk, h2, e1]

theorem visible_no_error (check : Policy ε) (k : Kind) (names : List Bytes) :
    visible check k (names.map .item) = (names.filter fun n => (check n k).isNone).map .item := by
  induction names with
  | nil => simp [visible]
  | cons n ns ih =>
    simp only [List.map_cons, visible, List.filter_cons]
    cases h : check n k <;> simp [ih]

theorem visible_error (check : Policy ε) (k : Kind) (names : List Bytes) (e : ε) (rest : List (Ev ε)) :
    visible check k (names.map .item ++ .error e :: rest) =
      (names.filter fun n => (check n k).isNone).map .item ++ [.error e] := by
  induction names with
  | nil => simp [visible]
  | cons n ns ih =>
    simp only [List.map_cons, List.cons_append, visible, List.filter_cons]
    cases h : check n k <;> simp [ih]

/-- What `RowOk` says about a row, with the interface's parameter names in hand. -/
theorem rowOk_unfold (r : Row) (h : RowOk r = true) (ips : List String)
    (hips : ifaceParamNames r.method = some ips) :
    r.shapeKnown = true ∧ r.callee = r.method ∧ r.callArgs = r.params ∧
    (∃ gs, resolve r.guards = some gs ∧ specGuards r.method ips r.params = some gs) ∧
    (if r.method = "Repositories" then r.shape = "filter" ∧ r.filterKind = "AccessRead" else r.shape = "direct") := by
  simp only [RowOk, hips, Bool.and_eq_true, beq_iff_eq] at h
  obtain ⟨⟨⟨⟨hk, hc⟩, ha⟩, ⟨⟨_, hs⟩, hg⟩⟩, hsh⟩ := h
  refine ⟨hk, hc, ha, ?_, ?_⟩
  · cases hr : resolve r.guards with
    | none => simp [hr] at hs
    | some gs => exact ⟨gs, rfl, by rw [← hg, hr]⟩
  · by_cases hm : r.method = "Repositories"
    · simpa [hm] using hsh
    · simpa [hm] using hsh

end OciModel.Select
