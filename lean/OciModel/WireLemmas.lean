/-
Lemmas about the composed model (`OciModel/Wire.lean`, `OciModel/WireSpec.lean`). The property statements
are in `OciModel/Props/C03W.lean`.
-/
import OciModel.Wire
import OciModel.WireSpec
import OciModel.ReqCodecLemmas
import OciModel.RespCodecLemmas
import OciModel.B64UrlLemmas
import OciModel.UploadLemmas
import OciModel.Props.C03R
import OciModel.Props.C07

namespace OciModel.Wire
open OciModel OciModel.Ref OciModel.ReqCodec OciModel.RespCodec
open OciModel.ErrCodec (Err)
open OciModel.Props

/-! ### Requests: what the client builds, the server classifies -/

theorem classify_mkReq {r : Request} (hv : ValidReq B64Url.validUTF8 r) (hN : r.listN ≤ maxInt64) :
    classify (mkReq r) = .ok r := by
  have h := construct_parse_aux B64Url.encode B64Url.decode B64Url.validUTF8 B64Url.decode_encode
    B64Url.encode_ne_nil B64Url.encode_no_slash r hv hN
  unfold classify mkReq
  simpa using h

theorem mkReq?_of_classify {r r' : Request} (h : classify (mkReq r) = .ok r') : mkReq? r = some (mkReq r) := by
  unfold classify at h
  have hb : (mkReq r).badQuery = false := rfl
  simp only [hb, Bool.false_eq_true, if_false] at h
  unfold mkReq?
  rw [h]

/-- headers and body do not matter to the router -/
theorem classify_congr {a b : HttpRequest} (hm : a.method = b.method) (hp : a.path = b.path) (hq : a.query = b.query)
    (hb : a.badQuery = b.badQuery) : classify a = classify b := by
  unfold classify
  rw [hm, hp, hq, hb]

theorem classify_ofTarget (m t : Bytes) : classify (ofTarget m t) = classifyTarget m t := by
  unfold ofTarget classifyTarget classify
  cases h : parseQuery (splitTarget t).2 <;> simp [h]

theorem listN_default : (({ kind := .ping } : Request).listN) ≤ maxInt64 := by decide

/-! ### The server on a classified request -/

theorem serveS_call {σ : Type} (cfg : Cfg) (B : SBackend σ) (st : σ × List Call) {rq : HttpRequest} {r : Request}
    {c : Call} (hc : classify rq = .ok r) (hp : plan cfg r rq = .ok (some c)) :
    serveS cfg B st rq = (((B st.1 c).1, st.2 ++ [c]), respOf cfg r rq (B st.1 c).2) := by
  simp [serveS, hc, hp]

theorem serveS_refuse {σ : Type} (cfg : Cfg) (B : SBackend σ) (st : σ × List Call) {rq : HttpRequest} {r : Request}
    {e : Err} (hc : classify rq = .ok r) (hp : plan cfg r rq = .error e) :
    serveS cfg B st rq = (st, errResp cfg e) := by
  simp [serveS, hc, hp]

/-! ### Error answers -/

theorem tableStatus_mem {table : List (Bytes × Nat)} {c : Bytes} {s : Nat}
    (h : ErrCodec.tableStatus table c = some s) : ∃ p ∈ table, p.2 = s := by
  unfold ErrCodec.tableStatus at h
  cases hf : table.find? (fun x => x.1 == c) with
  | none => rw [hf] at h; cases h
  | some p =>
    rw [hf] at h
    exact ⟨p, List.mem_of_find?_eq_some hf, by simpa using h⟩

/-- With the table's statuses all error statuses, so is every status `MarshalError` chooses (fix F29). -/
theorem wireStatus_error {table : List (Bytes × Nat)} (ht : TableOK table) (e : Err) :
    400 ≤ ErrCodec.wireStatus table e ∧ ErrCodec.wireStatus table e ≤ 599 := by
  unfold ErrCodec.wireStatus
  cases h : ErrCodec.tableStatus table (ErrCodec.wireCode e) with
  | some s =>
    obtain ⟨p, hp, rfl⟩ := tableStatus_mem h
    exact ht p hp
  | none => exact C07.ownStatus_error_status e

theorem gate_error {ok : List Nat} {st : Nat} (h4 : 400 ≤ st) (hok : ∀ x ∈ ok, x < 400) :
    gate ok st = some (.http st) := by
  unfold gate
  have h0 : st ≠ 0 := by omega
  have h200 : ¬ ((ok = [] ∧ st = 200) ∨ st ∈ ok) := by
    rintro (⟨_, h⟩ | h)
    · omega
    · have := hok st h; omega
  have h2 : st / 100 ≠ 2 := by omega
  simp [h0, h200, h2]

/-- An answer with an error status ends every call with `HTTPError` of that status. -/
theorem clientDecode_error (H : Bytes → Bytes) (resolve : Bytes → Option Bytes) (c : RespCodec.Call) (r : Resp)
    (rest : List Resp) (h4 : 400 ≤ r.status) (hmt : ∀ own, c = .pushManifest own → own.mediaType ≠ []) :
    clientDecode H resolve c (r :: rest) = .err (.http r.status) := by
  have g0 : gate [] r.status = some (.http r.status) := gate_error h4 (by simp)
  cases c with
  | pushManifest own =>
    have := hmt own rfl
    simp [clientDecode, this, clientPushManifest, gate_error h4 (ok := [201]) (by simp)]
  | getBlob dg => simp [clientDecode, clientRead, g0]
  | getBlobRange dg o0 o1 =>
    by_cases h : o0 = 0 ∧ o1 < 0
    · simp [clientDecode, h, clientRead, g0]
    · simp [clientDecode, h, clientGetBlobRange, gate_error h4 (ok := [200, 206]) (by simp)]
  | getManifest dg => simp [clientDecode, clientRead, g0]
  | getTag => simp [clientDecode, clientRead, g0]
  | resolveBlob dg => simp [clientDecode, clientResolve, g0]
  | resolveManifest dg => simp [clientDecode, clientResolve, g0]
  | resolveTag => simp [clientDecode, clientResolve, g0]
  | mountBlob dg => simp [clientDecode, clientMount, gate_error h4 (ok := [201, 202]) (by simp)]
  | pushBlob own => simp [clientDecode, clientPushBlob, gate_error h4 (ok := [202]) (by simp)]
  | pushBlobChunked cs => simp [clientDecode, clientPushBlobChunked, gate_error h4 (ok := [202]) (by simp)]
  | resumeAsk cs => simp [clientDecode, clientResumeAsk, gate_error h4 (ok := [204]) (by simp)]
  | flushPatch => simp [clientDecode, clientFlush, gate_error h4 (ok := [202]) (by simp)]
  | commit size dg => simp [clientDecode, clientCommit, clientFlush, gate_error h4 (ok := [201]) (by simp)]
  | delete => simp [clientDecode, clientDelete, gate_error h4 (ok := [202]) (by simp)]

/-- … and no second request is made after it. -/
theorem requestsMade_error (resolve : Bytes → Option Bytes) (c : RespCodec.Call) (r : Resp) (h4 : 400 ≤ r.status) :
    requestsMade resolve c [r] ≠ 2 := by
  have g0 : gate [] r.status = some (.http r.status) := gate_error h4 (by simp)
  have g1 : gate [202] r.status = some (.http r.status) := gate_error h4 (by simp)
  cases c <;> simp [requestsMade, g0, g1] <;> split <;> simp

theorem toResp_errResp_status (cfg : Cfg) (e : Err) :
    (toResp cfg (errResp cfg e)).status = ErrCodec.wireStatus cfg.table e := rfl

theorem makeErr_errResp (cfg : Cfg) (rq : HttpRequest) (e : Err) :
    makeErr cfg rq (errResp cfg e) = faultOf cfg (rq.method == mHEAD) (mar cfg e) := by
  unfold makeErr errResp faultOf mar
  by_cases h : rq.method = mHEAD <;> simp [h]

end OciModel.Wire

namespace OciModel.Wire
open OciModel OciModel.Ref OciModel.ReqCodec OciModel.RespCodec
open OciModel.ErrCodec (Err)
open OciModel.Props

/-! ### One request, one backend call: the generic step -/

def Call.isListing : Call → Bool
  | .tags .. | .repositories .. | .referrers .. => true
  | _ => false

theorem clientCallS_simple {σ : Type} (cfg : Cfg) (fuel : Nat) (send : σ → HttpRequest → σ × HttpResponse) (s : σ)
    (c : Call) (h : c.isListing = false) : clientCallS cfg fuel send s c = simpleCallS cfg send s c := by
  cases c <;> first | rfl | cases h

theorem hopS_one {σ : Type} (cfg : Cfg) (fuel : Nat) (B : SBackend σ) (st : σ × List Call) (c c' : Call)
    (rq : HttpRequest) (r : Request) (hl : c.isListing = false) (hreq : c.request1 cfg = some rq)
    (hcl : classify rq = .ok r) (hpl : plan cfg r rq = .ok (some c'))
    (hn : requestsMade resolveLocal (c.dec cfg) [toResp cfg (respOf cfg r rq (B st.1 c').2)] ≠ 2) :
    hopS cfg fuel B st c =
      (((B st.1 c').1, st.2 ++ [c']), finish cfg c [(rq, respOf cfg r rq (B st.1 c').2)]) := by
  unfold hopS
  rw [clientCallS_simple cfg fuel _ st c hl]
  unfold simpleCallS
  simp only [hreq, serveS_call cfg B st hcl hpl]
  rw [if_neg hn]

theorem finish_error (cfg : Cfg) (ht : TableOK cfg.table) (c : Call) (rq : HttpRequest) (e : Err)
    (hmt : ∀ own, c.dec cfg = .pushManifest own → own.mediaType ≠ []) :
    finish cfg c [(rq, errResp cfg e)] = .fail (faultOf cfg (rq.method == mHEAD) (mar cfg e)) := by
  have h4 : 400 ≤ (toResp cfg (errResp cfg e)).status := (wireStatus_error ht e).1
  unfold finish
  simp only [List.map_cons, List.map_nil]
  rw [clientDecode_error cfg.H resolveLocal (c.dec cfg) _ [] h4 hmt]
  simp [liftCRes, httpFault, makeErr_errResp]

theorem respOf_ok (cfg : Cfg) (rq : HttpRequest) (r : Request) (b : BRes) {resp : Resp}
    (hs : serverResp cfg.H cfg.o (srvReqOf cfg r rq) b = .resp resp) :
    respOf cfg r rq (.ok b) = .ok resp := by simp [respOf, hs, wireOut]

theorem respOf_serr (cfg : Cfg) (rq : HttpRequest) (r : Request) (b : BRes) {e : SErr}
    (hs : serverResp cfg.H cfg.o (srvReqOf cfg r rq) b = .err e) :
    respOf cfg r rq (.ok b) = errResp cfg (serrErr e) := by simp [respOf, hs, wireOut]

theorem finish_single_ok (cfg : Cfg) (c : Call) (rq : HttpRequest) (resp : Resp) :
    finish cfg c [(rq, .ok resp)] =
      liftCRes cfg [(rq, .ok resp)] (clientDecode cfg.H resolveLocal (c.dec cfg) [resp]) := rfl

theorem toResp_ok (cfg : Cfg) (resp : Resp) : toResp cfg (.ok resp) = resp := rfl

theorem hopS_single_core {σ : Type} (cfg : Cfg) (ht : TableOK cfg.table) (fuel : Nat) (B : SBackend σ)
    (st : σ × List Call) (c : Call) (rq : HttpRequest) (r : Request)
    (hl : c.isListing = false) (hreq : c.request1 cfg = some rq) (hcl : classify rq = .ok r)
    (hpl : plan cfg r rq = .ok (some (onWire c)))
    (hhead : (rq.method == mHEAD) = c.isHead)
    (hmt : ∀ own, c.dec cfg = .pushManifest own → own.mediaType ≠ [])
    (hok : ∀ b, Carriable cfg c (.ok b) →
      requestsMade resolveLocal (c.dec cfg) [toResp cfg (respOf cfg r rq (.ok b))] ≠ 2 ∧
      finish cfg c [(rq, respOf cfg r rq (.ok b))] = expectOk cfg c b)
    (hcar : Carriable cfg c (B st.1 (onWire c)).2) :
    hopS cfg fuel B st c = (((B st.1 (onWire c)).1, st.2 ++ [onWire c]), expect cfg c (B st.1 (onWire c)).2) := by
  cases ha : (B st.1 (onWire c)).2 with
  | err e =>
    rw [hopS_one cfg fuel B st c (onWire c) rq r hl hreq hcl hpl
      (by rw [ha]; exact requestsMade_error _ _ _ (wireStatus_error ht e).1)]
    rw [ha]
    simp only [respOf, expect]
    rw [finish_error cfg ht c rq e hmt, hhead]
  | ok b =>
    rw [ha] at hcar
    obtain ⟨h1, h2⟩ := hok b hcar
    rw [hopS_one cfg fuel B st c (onWire c) rq r hl hreq hcl hpl (by rw [ha]; exact h1)]
    rw [ha, h2]
    rfl

end OciModel.Wire

namespace OciModel.Wire
open OciModel OciModel.Ref OciModel.ReqCodec OciModel.RespCodec
open OciModel.ErrCodec (Err)
open OciModel.Props

/-! ### The calls, one by one -/

theorem mkReq_method (r : Request) : (mkReq r).method = kindMethod r.kind := construct_method B64Url.encode r

theorem hop_getBlob {σ : Type} (cfg : Cfg) (ht : TableOK cfg.table) (fuel : Nat) (B : SBackend σ)
    (st : σ × List Call) (repo dg : Bytes) (hwf : WF cfg (.getBlob repo dg))
    (hcar : Carriable cfg (.getBlob repo dg) (B st.1 (onWire (.getBlob repo dg))).2) :
    hopS cfg fuel B st (.getBlob repo dg) =
      (((B st.1 (onWire (.getBlob repo dg))).1, st.2 ++ [onWire (.getBlob repo dg)]),
        expect cfg (.getBlob repo dg) (B st.1 (onWire (.getBlob repo dg))).2) := by
  obtain ⟨hR, hD⟩ := hwf
  refine hopS_single_core cfg ht fuel B st _ (mkReq { kind := .blobGet, repo := repo, digest := dg })
    { kind := .blobGet, repo := repo, digest := dg } rfl
    (by simp [Call.request1, mkReq?_of_classify (classify_mkReq (r := { kind := .blobGet, repo := repo, digest := dg }) ⟨hR, hD, rfl⟩ listN_default)])
    (classify_mkReq ⟨hR, hD, rfl⟩ listN_default) rfl (by rw [mkReq_method]; rfl)
    (by intro own h; cases h) ?_ hcar
  intro b hb
  cases b with
  | reader d content =>
    obtain ⟨h0, hmax⟩ := hb
    have hn : ¬ d.size < 0 := by omega
    have hs : serverResp cfg.H cfg.o (srvReqOf cfg { kind := .blobGet, repo := repo, digest := dg }
        (mkReq { kind := .blobGet, repo := repo, digest := dg })) (.reader d content) =
        .resp (mkResp 200 [(hContentType, d.mediaType), (hContentLength, itoa d.size), (hDigest, dg)] content) := rfl
    rw [respOf_ok cfg _ _ _ hs, finish_single_ok, toResp_ok]
    constructor
    · simp [Call.dec, requestsMade, gate, descriptorFromResponse, mkResp, hget_cons_ne,
        parseContentLength_itoa h0 hmax, hD, isDigest_ne_nil hD, hn]
    · simp [Call.dec, clientDecode, clientRead, gate, descriptorFromResponse, mkResp, hget_cons_ne,
        parseContentLength_itoa h0 hmax, hD, isDigest_ne_nil hD, hn, newBlobReader, isDigest_hashable hD,
        liftCRes, expectOk, orOctetStream]
  | _ => exact absurd hb (by simp [Carriable])

end OciModel.Wire

namespace OciModel.Wire
open OciModel OciModel.Ref OciModel.ReqCodec OciModel.RespCodec
open OciModel.ErrCodec (Err)
open OciModel.Props

theorem orOctet_eq (mt : Bytes) : C03R.orOctet mt = orOctetStream mt := rfl

theorem hop_getBlobRange {σ : Type} (cfg : Cfg) (ht : TableOK cfg.table) (fuel : Nat) (B : SBackend σ)
    (st : σ × List Call) (repo dg : Bytes) (o0 o1 : Int) (hwf : WF cfg (.getBlobRange repo dg o0 o1))
    (hcar : Carriable cfg (.getBlobRange repo dg o0 o1) (B st.1 (onWire (.getBlobRange repo dg o0 o1))).2) :
    hopS cfg fuel B st (.getBlobRange repo dg o0 o1) =
      (((B st.1 (onWire (.getBlobRange repo dg o0 o1))).1, st.2 ++ [onWire (.getBlobRange repo dg o0 o1)]),
        expect cfg (.getBlobRange repo dg o0 o1) (B st.1 (onWire (.getBlobRange repo dg o0 o1))).2) := by
  obtain ⟨hR, hD, ⟨h0, h0max⟩, h1max, hrange⟩ := hwf
  have hcl : ∀ hdr, classify { mkReq { kind := .blobGet, repo := repo, digest := dg } with range := hdr } =
      .ok { kind := .blobGet, repo := repo, digest := dg } := fun hdr =>
    (classify_congr rfl rfl rfl rfl).trans (classify_mkReq ⟨hR, hD, rfl⟩ listN_default)
  have hm : ∀ hdr, (({ mkReq { kind := .blobGet, repo := repo, digest := dg } with range := hdr } : HttpRequest).method == mHEAD) = false := by
    intro hdr
    show ((mkReq { kind := .blobGet, repo := repo, digest := dg }).method == mHEAD) = false
    rw [mkReq_method]; rfl
  by_cases hfull : o0 = 0 ∧ o1 < 0
  · -- a plain GET
    refine hopS_single_core cfg ht fuel B st _
      { mkReq { kind := .blobGet, repo := repo, digest := dg } with range := [] }
      { kind := .blobGet, repo := repo, digest := dg } rfl (by simp [Call.request1, hfull, mkReq?_of_classify (classify_mkReq (r := { kind := .blobGet, repo := repo, digest := dg }) ⟨hR, hD, rfl⟩ listN_default)])
      (hcl []) (by simp [plan, onWire, hfull, show blobCall [] = some .full from rfl]) (hm [])
      (by intro own h; cases h) ?_ hcar
    intro b hb
    cases b with
    | reader d content =>
      obtain ⟨hs0, hsmax⟩ := hb
      have hn : ¬ d.size < 0 := by omega
      have hs : serverResp cfg.H cfg.o (srvReqOf cfg { kind := .blobGet, repo := repo, digest := dg }
          { mkReq { kind := .blobGet, repo := repo, digest := dg } with range := [] }) (.reader d content) =
          .resp (mkResp 200 [(hContentType, d.mediaType), (hContentLength, itoa d.size), (hDigest, dg)] content) := rfl
      rw [respOf_ok cfg _ _ _ hs, finish_single_ok, toResp_ok]
      constructor
      · simp [Call.dec, requestsMade, hfull, gate, descriptorFromResponse, mkResp, hget_cons_ne,
          parseContentLength_itoa hs0 hsmax, hD, isDigest_ne_nil hD, hn]
      · simp [Call.dec, clientDecode, hfull, clientRead, gate, descriptorFromResponse, mkResp, hget_cons_ne,
          parseContentLength_itoa hs0 hsmax, hD, isDigest_ne_nil hD, hn, newBlobReader, isDigest_hashable hD,
          liftCRes, expectOk, orOctetStream]
    | _ => exact absurd hb (by simp [Carriable])
  · have hone : ∀ resp, requestsMade resolveLocal (Call.dec cfg (.getBlobRange repo dg o0 o1)) [resp] ≠ 2 := by
      intro resp; simp [Call.dec, requestsMade, hfull]
    by_cases hopen : o1 < 0
    · -- open at the end
      have h0pos : 0 < o0 := by omega
      have hcall : blobCall (cliRangeHdr o0 o1) = some (.range o0 (-1)) := blobCall_cliRangeHdr_open h0 h0max hopen
      refine hopS_single_core cfg ht fuel B st _
        { mkReq { kind := .blobGet, repo := repo, digest := dg } with range := cliRangeHdr o0 o1 }
        { kind := .blobGet, repo := repo, digest := dg } rfl (by simp [Call.request1, hfull, mkReq?_of_classify (classify_mkReq (r := { kind := .blobGet, repo := repo, digest := dg }) ⟨hR, hD, rfl⟩ listN_default)])
        (hcl _) (by simp [plan, onWire, hopen, hcall, show ¬ o0 = 0 from by omega]) (hm _)
        (by intro own h; cases h) ?_ hcar
      intro b hb
      cases b with
      | reader d content =>
        obtain ⟨hs0, hsmax⟩ := hb
        by_cases hin : o0 ≤ d.size
        · obtain ⟨resp, hs, hd⟩ := C03R.blobGetRange_open_round_trip cfg.H resolveLocal cfg.o
            (srvReqOf cfg { kind := .blobGet, repo := repo, digest := dg }
              { mkReq { kind := .blobGet, repo := repo, digest := dg } with range := cliRangeHdr o0 o1 })
            d content (o0 := o0) (o1 := o1) rfl hD h0pos h0max hopen rfl hs0 hsmax hin
          rw [respOf_ok cfg _ _ _ hs, finish_single_ok, toResp_ok]
          refine ⟨hone _, ?_⟩
          have hd' : clientDecode cfg.H resolveLocal (.getBlobRange dg o0 o1) [resp] =
              .reader { mediaType := orOctetStream d.mediaType, digest := dg, size := d.size } false content := hd
          simp only [Call.dec]
          rw [hd']
          simp [liftCRes, expectOk, hfull, hin]
        · have hs : serverResp cfg.H cfg.o (srvReqOf cfg { kind := .blobGet, repo := repo, digest := dg }
              { mkReq { kind := .blobGet, repo := repo, digest := dg } with range := cliRangeHdr o0 o1 })
              (.reader d content) = .err .range416 := by
            simp only [serverResp, handleBlobGet, srvReqOf, hcall]
            simp only [true_or, if_true]
            rw [if_pos (by omega)]
          rw [respOf_serr cfg _ _ _ hs]
          refine ⟨requestsMade_error _ _ _ (wireStatus_error ht _).1, ?_⟩
          rw [finish_error cfg ht _ _ _ (by intro own h; cases h), hm]
          simp [expectOk, hfull, hin]
      | _ => exact absurd hb (by simp [Carriable])
    · -- closed, non-empty
      have h01 : o0 < o1 := by omega
      have hcall : blobCall (cliRangeHdr o0 o1) = some (.range o0 o1) := C03R.range_header_round_trip h0 h01 h1max
      refine hopS_single_core cfg ht fuel B st _
        { mkReq { kind := .blobGet, repo := repo, digest := dg } with range := cliRangeHdr o0 o1 }
        { kind := .blobGet, repo := repo, digest := dg } rfl (by simp [Call.request1, hfull, mkReq?_of_classify (classify_mkReq (r := { kind := .blobGet, repo := repo, digest := dg }) ⟨hR, hD, rfl⟩ listN_default)])
        (hcl _) (by simp [plan, onWire, hopen, hcall]) (hm _)
        (by intro own h; cases h) ?_ hcar
      intro b hb
      cases b with
      | reader d content =>
        obtain ⟨hs0, hsmax⟩ := hb
        obtain ⟨hin', hout'⟩ := C03R.blobGetRange_round_trip cfg.H resolveLocal cfg.o
            (srvReqOf cfg { kind := .blobGet, repo := repo, digest := dg }
              { mkReq { kind := .blobGet, repo := repo, digest := dg } with range := cliRangeHdr o0 o1 })
            d content (o0 := o0) (o1 := o1) rfl hD h0 h01 h1max rfl hs0 hsmax
        by_cases hin : o0 ≤ d.size
        · obtain ⟨resp, hs, hd⟩ := hin' hin
          rw [respOf_ok cfg _ _ _ hs, finish_single_ok, toResp_ok]
          refine ⟨hone _, ?_⟩
          have hd' : clientDecode cfg.H resolveLocal (.getBlobRange dg o0 o1) [resp] =
              .reader { mediaType := orOctetStream d.mediaType, digest := dg, size := d.size } false content := hd
          simp only [Call.dec]
          rw [hd']
          simp [liftCRes, expectOk, hfull, hin]
        · have hs := hout' (by omega)
          rw [respOf_serr cfg _ _ _ hs]
          refine ⟨requestsMade_error _ _ _ (wireStatus_error ht _).1, ?_⟩
          rw [finish_error cfg ht _ _ _ (by intro own h; cases h), hm]
          simp [expectOk, hfull, hin]
      | _ => exact absurd hb (by simp [Carriable])

end OciModel.Wire

namespace OciModel.Wire
open OciModel OciModel.Ref OciModel.ReqCodec OciModel.RespCodec
open OciModel.ErrCodec (Err)
open OciModel.Props

theorem hop_getManifest {σ : Type} (cfg : Cfg) (ht : TableOK cfg.table) (fuel : Nat) (B : SBackend σ)
    (st : σ × List Call) (repo dg : Bytes) (hwf : WF cfg (.getManifest repo dg))
    (hcar : Carriable cfg (.getManifest repo dg) (B st.1 (onWire (.getManifest repo dg))).2) :
    hopS cfg fuel B st (.getManifest repo dg) =
      (((B st.1 (onWire (.getManifest repo dg))).1, st.2 ++ [onWire (.getManifest repo dg)]),
        expect cfg (.getManifest repo dg) (B st.1 (onWire (.getManifest repo dg))).2) := by
  obtain ⟨hR, hD⟩ := hwf
  refine hopS_single_core cfg ht fuel B st _ (mkReq { kind := .manifestGet, repo := repo, digest := dg })
    { kind := .manifestGet, repo := repo, digest := dg } rfl
    (by simp [Call.request1, mkReq?_of_classify (classify_mkReq (r := { kind := .manifestGet, repo := repo, digest := dg }) ⟨hR, Or.inl ⟨hD, rfl⟩⟩ listN_default)])
    (classify_mkReq ⟨hR, Or.inl ⟨hD, rfl⟩⟩ listN_default) rfl (by rw [mkReq_method]; rfl)
    (by intro own h; cases h) ?_ hcar
  intro b hb
  cases b with
  | reader d content =>
    obtain ⟨⟨h0, hmax⟩, hdig⟩ := hb
    have hn : ¬ d.size < 0 := by omega
    have hs : serverResp cfg.H cfg.o (srvReqOf cfg { kind := .manifestGet, repo := repo, digest := dg }
        (mkReq { kind := .manifestGet, repo := repo, digest := dg })) (.reader d content) =
        .resp (mkResp 200 ((if !cfg.o.omitDigest then [(hDigest, d.digest)] else []) ++
          [(hContentType, d.mediaType), (hContentLength, itoa d.size)]) content) := rfl
    rw [respOf_ok cfg _ _ _ hs, finish_single_ok, toResp_ok]
    by_cases ho : cfg.o.omitDigest = true
    · constructor
      -- F32: `hD` (from `WF`: the digest named in the call is well formed) discharges the new branch; statement unchanged
      · simp [Call.dec, requestsMade, gate, descriptorFromResponse, mkResp, hget_cons_ne, ho,
          parseContentLength_itoa h0 hmax, isDigest_ne_nil hD, hD, hn]
      · simp [Call.dec, clientDecode, clientRead, gate, descriptorFromResponse, mkResp, hget_cons_ne, ho,
          parseContentLength_itoa h0 hmax, isDigest_ne_nil hD, hD, hn, newBlobReader, isDigest_hashable hD,
          liftCRes, expectOk, orOctetStream]
    · have ho' : cfg.o.omitDigest = false := by simpa using ho
      have hd := hdig ho'
      constructor
      · simp [Call.dec, requestsMade, gate, descriptorFromResponse, mkResp, hget_cons_ne, ho',
          parseContentLength_itoa h0 hmax, hd, isDigest_ne_nil hd, isDigest_ne_nil hD, hD, hn]
      · simp [Call.dec, clientDecode, clientRead, gate, descriptorFromResponse, mkResp, hget_cons_ne, ho',
          parseContentLength_itoa h0 hmax, hd, isDigest_ne_nil hd, isDigest_ne_nil hD, hD, hn, newBlobReader,
          isDigest_hashable hD, liftCRes, expectOk, orOctetStream]
  | _ => exact absurd hb (by simp [Carriable])

theorem hop_getTag {σ : Type} (cfg : Cfg) (ht : TableOK cfg.table) (fuel : Nat) (B : SBackend σ)
    (st : σ × List Call) (repo tag : Bytes) (hwf : WF cfg (.getTag repo tag)) (ho : cfg.o.omitDigest = false)
    (hcar : Carriable cfg (.getTag repo tag) (B st.1 (onWire (.getTag repo tag))).2) :
    hopS cfg fuel B st (.getTag repo tag) =
      (((B st.1 (onWire (.getTag repo tag))).1, st.2 ++ [onWire (.getTag repo tag)]),
        expect cfg (.getTag repo tag) (B st.1 (onWire (.getTag repo tag))).2) := by
  obtain ⟨hR, hT⟩ := hwf
  have htne : tag ≠ [] := by intro h; rw [h] at hT; exact absurd hT (by decide)
  refine hopS_single_core cfg ht fuel B st _ (mkReq { kind := .manifestGet, repo := repo, tag := tag })
    { kind := .manifestGet, repo := repo, tag := tag } rfl
    (by simp [Call.request1, mkReq?_of_classify (classify_mkReq (r := { kind := .manifestGet, repo := repo, tag := tag }) ⟨hR, Or.inr ⟨hT, rfl⟩⟩ listN_default)])
    (classify_mkReq ⟨hR, Or.inr ⟨hT, rfl⟩⟩ listN_default) (by simp [plan, htne, onWire]) (by rw [mkReq_method]; rfl)
    (by intro own h; cases h) ?_ hcar
  intro b hb
  cases b with
  | reader d content =>
    obtain ⟨⟨h0, hmax⟩, hdig⟩ := hb
    have hd := hdig ho
    have hn : ¬ d.size < 0 := by omega
    have hs : serverResp cfg.H cfg.o (srvReqOf cfg { kind := .manifestGet, repo := repo, tag := tag }
        (mkReq { kind := .manifestGet, repo := repo, tag := tag })) (.reader d content) =
        .resp (mkResp 200 ((if !cfg.o.omitDigest then [(hDigest, d.digest)] else []) ++
          [(hContentType, d.mediaType), (hContentLength, itoa d.size)]) content) := rfl
    rw [respOf_ok cfg _ _ _ hs, finish_single_ok, toResp_ok]
    constructor
    · simp [Call.dec, requestsMade, gate, descriptorFromResponse, mkResp, hget_cons_ne, ho,
        parseContentLength_itoa h0 hmax, hd, isDigest_ne_nil hd, hn]
    · simp [Call.dec, clientDecode, clientRead, gate, descriptorFromResponse, mkResp, hget_cons_ne, ho,
        parseContentLength_itoa h0 hmax, hd, isDigest_ne_nil hd, hn, newBlobReader, isDigest_hashable hd,
        liftCRes, expectOk, orOctetStream]
  | _ => exact absurd hb (by simp [Carriable])

theorem hop_resolveBlob {σ : Type} (cfg : Cfg) (ht : TableOK cfg.table) (fuel : Nat) (B : SBackend σ)
    (st : σ × List Call) (repo dg : Bytes) (hwf : WF cfg (.resolveBlob repo dg))
    (hcar : Carriable cfg (.resolveBlob repo dg) (B st.1 (onWire (.resolveBlob repo dg))).2) :
    hopS cfg fuel B st (.resolveBlob repo dg) =
      (((B st.1 (onWire (.resolveBlob repo dg))).1, st.2 ++ [onWire (.resolveBlob repo dg)]),
        expect cfg (.resolveBlob repo dg) (B st.1 (onWire (.resolveBlob repo dg))).2) := by
  obtain ⟨hR, hD⟩ := hwf
  refine hopS_single_core cfg ht fuel B st _ (mkReq { kind := .blobHead, repo := repo, digest := dg })
    { kind := .blobHead, repo := repo, digest := dg } rfl
    (by simp [Call.request1, mkReq?_of_classify (classify_mkReq (r := { kind := .blobHead, repo := repo, digest := dg }) ⟨hR, hD, rfl⟩ listN_default)])
    (classify_mkReq ⟨hR, hD, rfl⟩ listN_default) rfl (by rw [mkReq_method]; rfl)
    (by intro own h; cases h) ?_ hcar
  intro b hb
  cases b with
  | desc d =>
    obtain ⟨⟨h0, hmax⟩, hd⟩ := hb
    obtain ⟨resp, hs, hdec⟩ := C03R.blobHead_reports_requested cfg.H resolveLocal cfg.o
      (srvReqOf cfg { kind := .blobHead, repo := repo, digest := dg } (mkReq { kind := .blobHead, repo := repo, digest := dg }))
      d dg rfl ⟨h0, hmax, hd⟩ hD                                          -- F32: well-formedness from `WF`
    rw [respOf_ok cfg _ _ _ hs, finish_single_ok, toResp_ok]
    refine ⟨by simp [Call.dec, requestsMade], ?_⟩
    simp only [Call.dec]
    rw [hdec]
    simp [liftCRes, expectOk]
  | _ => exact absurd hb (by simp [Carriable])

theorem hop_resolveManifest {σ : Type} (cfg : Cfg) (ht : TableOK cfg.table) (fuel : Nat) (B : SBackend σ)
    (st : σ × List Call) (repo dg : Bytes) (hwf : WF cfg (.resolveManifest repo dg))
    (hcar : Carriable cfg (.resolveManifest repo dg) (B st.1 (onWire (.resolveManifest repo dg))).2) :
    hopS cfg fuel B st (.resolveManifest repo dg) =
      (((B st.1 (onWire (.resolveManifest repo dg))).1, st.2 ++ [onWire (.resolveManifest repo dg)]),
        expect cfg (.resolveManifest repo dg) (B st.1 (onWire (.resolveManifest repo dg))).2) := by
  obtain ⟨hR, hD⟩ := hwf
  refine hopS_single_core cfg ht fuel B st _ (mkReq { kind := .manifestHead, repo := repo, digest := dg })
    { kind := .manifestHead, repo := repo, digest := dg } rfl
    (by simp [Call.request1, mkReq?_of_classify (classify_mkReq (r := { kind := .manifestHead, repo := repo, digest := dg }) ⟨hR, Or.inl ⟨hD, rfl⟩⟩ listN_default)])
    (classify_mkReq ⟨hR, Or.inl ⟨hD, rfl⟩⟩ listN_default) rfl (by rw [mkReq_method]; rfl)
    (by intro own h; cases h) ?_ hcar
  intro b hb
  cases b with
  | desc d =>
    obtain ⟨⟨h0, hmax⟩, hd⟩ := hb
    obtain ⟨resp, hs, hdec⟩ := C03R.manifestHead_reports_requested cfg.H resolveLocal cfg.o
      (srvReqOf cfg { kind := .manifestHead, repo := repo, digest := dg } (mkReq { kind := .manifestHead, repo := repo, digest := dg }))
      d rfl rfl hD ⟨h0, hmax, hd⟩
    have hdec' : clientDecode cfg.H resolveLocal (.resolveManifest dg) [resp] =
        .desc { mediaType := orOctetStream d.mediaType, digest := dg, size := d.size } := by
      simpa [srvReqOf, orOctet_eq] using hdec
    rw [respOf_ok cfg _ _ _ hs, finish_single_ok, toResp_ok]
    refine ⟨by simp [Call.dec, requestsMade], ?_⟩
    simp only [Call.dec]
    rw [hdec']
    simp [liftCRes, expectOk]
  | _ => exact absurd hb (by simp [Carriable])

theorem hop_resolveTag {σ : Type} (cfg : Cfg) (ht : TableOK cfg.table) (fuel : Nat) (B : SBackend σ)
    (st : σ × List Call) (repo tag : Bytes) (hwf : WF cfg (.resolveTag repo tag))
    (hcar : Carriable cfg (.resolveTag repo tag) (B st.1 (onWire (.resolveTag repo tag))).2) :
    hopS cfg fuel B st (.resolveTag repo tag) =
      (((B st.1 (onWire (.resolveTag repo tag))).1, st.2 ++ [onWire (.resolveTag repo tag)]),
        expect cfg (.resolveTag repo tag) (B st.1 (onWire (.resolveTag repo tag))).2) := by
  obtain ⟨hR, hT⟩ := hwf
  have htne : tag ≠ [] := by intro h; rw [h] at hT; exact absurd hT (by decide)
  refine hopS_single_core cfg ht fuel B st _ (mkReq { kind := .manifestHead, repo := repo, tag := tag })
    { kind := .manifestHead, repo := repo, tag := tag } rfl
    (by simp [Call.request1, mkReq?_of_classify (classify_mkReq (r := { kind := .manifestHead, repo := repo, tag := tag }) ⟨hR, Or.inr ⟨hT, rfl⟩⟩ listN_default)])
    (classify_mkReq ⟨hR, Or.inr ⟨hT, rfl⟩⟩ listN_default) (by simp [plan, htne, onWire]) (by rw [mkReq_method]; rfl)
    (by intro own h; cases h) ?_ hcar
  intro b hb
  cases b with
  | desc d =>
    obtain ⟨⟨h0, hmax⟩, hd⟩ := hb
    obtain ⟨resp, hs, hdec⟩ := C03R.manifestHead_round_trip cfg.H resolveLocal cfg.o
      (srvReqOf cfg { kind := .manifestHead, repo := repo, tag := tag } (mkReq { kind := .manifestHead, repo := repo, tag := tag }))
      d rfl (Or.inl htne) ⟨h0, hmax, hd⟩ (fun h => absurd h htne)
    have hdec' : clientDecode cfg.H resolveLocal .resolveTag [resp] =
        .desc { mediaType := orOctetStream d.mediaType, digest := d.digest, size := d.size } := by
      simpa [srvReqOf, orOctet_eq, htne] using hdec
    rw [respOf_ok cfg _ _ _ hs, finish_single_ok, toResp_ok]
    refine ⟨by simp [Call.dec, requestsMade], ?_⟩
    simp only [Call.dec]
    rw [hdec']
    simp [liftCRes, expectOk]
  | _ => exact absurd hb (by simp [Carriable])

end OciModel.Wire

namespace OciModel.Wire
open OciModel OciModel.Ref OciModel.ReqCodec OciModel.RespCodec
open OciModel.ErrCodec (Err)
open OciModel.Props

theorem hop_pushManifest {σ : Type} (cfg : Cfg) (ht : TableOK cfg.table) (fuel : Nat) (B : SBackend σ)
    (st : σ × List Call) (repo tag content mt : Bytes) (hwf : WF cfg (.pushManifest repo tag content mt))
    (hcar : Carriable cfg (.pushManifest repo tag content mt) (B st.1 (onWire (.pushManifest repo tag content mt))).2) :
    hopS cfg fuel B st (.pushManifest repo tag content mt) =
      (((B st.1 (onWire (.pushManifest repo tag content mt))).1, st.2 ++ [onWire (.pushManifest repo tag content mt)]),
        expect cfg (.pushManifest repo tag content mt) (B st.1 (onWire (.pushManifest repo tag content mt))).2) := by
  obtain ⟨hR, hT, hmt, hH⟩ := hwf
  have hv : ValidReq B64Url.validUTF8
      { kind := .manifestPut, repo := repo, tag := tag, digest := if tag = [] then cfg.H content else [] } := by
    by_cases h : tag = []
    · subst h
      exact ⟨hR, Or.inl ⟨by simpa using hH, by simp⟩⟩
    · exact ⟨hR, Or.inr ⟨hT.resolve_left h, by simp [h]⟩⟩
  have hpl : plan cfg { kind := .manifestPut, repo := repo, tag := tag, digest := if tag = [] then cfg.H content else [] }
      { mkReq { kind := .manifestPut, repo := repo, tag := tag, digest := if tag = [] then cfg.H content else [] } with
        contentType := mt, contentLength := content.length, body := content } =
      .ok (some (.pushManifest repo tag content mt)) := by
    by_cases h : tag = [] <;> simp [plan, h, orOctetStream, hmt]
  refine hopS_single_core cfg ht fuel B st _
    { mkReq { kind := .manifestPut, repo := repo, tag := tag, digest := if tag = [] then cfg.H content else [] } with
      contentType := mt, contentLength := content.length, body := content }
    { kind := .manifestPut, repo := repo, tag := tag, digest := if tag = [] then cfg.H content else [] }
    rfl (by simp [Call.request1, hmt, mkReq?_of_classify (classify_mkReq hv listN_default)])
    ((classify_congr rfl rfl rfl rfl).trans (classify_mkReq hv listN_default)) hpl
    (by show ((mkReq _).method == mHEAD) = false; rw [mkReq_method]; rfl)
    (by intro own h; simp only [Call.dec, RespCodec.Call.pushManifest.injEq] at h; rw [← h]; exact hmt) ?_ hcar
  intro b hb
  cases b with
  | desc d =>
    have hs : ∃ hdrs, serverResp cfg.H cfg.o (srvReqOf cfg
        { kind := .manifestPut, repo := repo, tag := tag, digest := if tag = [] then cfg.H content else [] }
        { mkReq { kind := .manifestPut, repo := repo, tag := tag, digest := if tag = [] then cfg.H content else [] } with
          contentType := mt, contentLength := content.length, body := content }) (.desc d) = .resp (mkResp 201 hdrs) := by
      have h1 : ¬ (tag = [] ∧ (if tag = [] then cfg.H content else []) ≠ cfg.H content) := by
        rintro ⟨a, b⟩; simp [a] at b
      by_cases h : tag = [] <;> simp only [serverResp, handleManifestPut, srvReqOf, h] <;> simp <;> exact ⟨_, rfl⟩
    obtain ⟨hdrs, hs⟩ := hs
    rw [respOf_ok cfg _ _ _ hs, finish_single_ok, toResp_ok]
    refine ⟨by simp [Call.dec, requestsMade, hmt], ?_⟩
    simp [Call.dec, clientDecode, hmt, clientPushManifest, gate, mkResp, liftCRes, expectOk]
  | _ => exact absurd hb (by simp [Carriable])

theorem hop_mountBlob {σ : Type} (cfg : Cfg) (ht : TableOK cfg.table) (fuel : Nat) (B : SBackend σ)
    (st : σ × List Call) (fromRepo toRepo dg : Bytes) (hwf : WF cfg (.mountBlob fromRepo toRepo dg))
    (hcar : Carriable cfg (.mountBlob fromRepo toRepo dg) (B st.1 (onWire (.mountBlob fromRepo toRepo dg))).2) :
    hopS cfg fuel B st (.mountBlob fromRepo toRepo dg) =
      (((B st.1 (onWire (.mountBlob fromRepo toRepo dg))).1, st.2 ++ [onWire (.mountBlob fromRepo toRepo dg)]),
        expect cfg (.mountBlob fromRepo toRepo dg) (B st.1 (onWire (.mountBlob fromRepo toRepo dg))).2) := by
  obtain ⟨hF, hT, hD⟩ := hwf
  refine hopS_single_core cfg ht fuel B st _
    (mkReq { kind := .blobMount, repo := toRepo, digest := dg, fromRepo := fromRepo })
    { kind := .blobMount, repo := toRepo, digest := dg, fromRepo := fromRepo } rfl
    (by simp [Call.request1, mkReq?_of_classify (classify_mkReq (r := { kind := .blobMount, repo := toRepo, digest := dg, fromRepo := fromRepo }) ⟨hT, hD, hF, rfl⟩ listN_default)])
    (classify_mkReq ⟨hT, hD, hF, rfl⟩ listN_default) rfl (by rw [mkReq_method]; rfl)
    (by intro own h; cases h) ?_ hcar
  intro b hb
  cases b with
  | desc d =>
    obtain ⟨resp, hs, hdec⟩ := C03R.mount_reports_requested cfg.H resolveLocal cfg.o
      (srvReqOf cfg { kind := .blobMount, repo := toRepo, digest := dg, fromRepo := fromRepo }
        (mkReq { kind := .blobMount, repo := toRepo, digest := dg, fromRepo := fromRepo })) d dg rfl hb hD  -- F32: from `WF`
    rw [respOf_ok cfg _ _ _ hs, finish_single_ok, toResp_ok]
    refine ⟨by simp [Call.dec, requestsMade], ?_⟩
    simp only [Call.dec]
    rw [hdec]
    simp [liftCRes, expectOk]
  | _ => exact absurd hb (by simp [Carriable])

theorem hop_deleteBlob {σ : Type} (cfg : Cfg) (ht : TableOK cfg.table) (fuel : Nat) (B : SBackend σ)
    (st : σ × List Call) (repo dg : Bytes) (hwf : WF cfg (.deleteBlob repo dg))
    (hcar : Carriable cfg (.deleteBlob repo dg) (B st.1 (onWire (.deleteBlob repo dg))).2) :
    hopS cfg fuel B st (.deleteBlob repo dg) =
      (((B st.1 (onWire (.deleteBlob repo dg))).1, st.2 ++ [onWire (.deleteBlob repo dg)]),
        expect cfg (.deleteBlob repo dg) (B st.1 (onWire (.deleteBlob repo dg))).2) := by
  obtain ⟨hR, hD⟩ := hwf
  refine hopS_single_core cfg ht fuel B st _ (mkReq { kind := .blobDelete, repo := repo, digest := dg })
    { kind := .blobDelete, repo := repo, digest := dg } rfl
    (by simp [Call.request1, mkReq?_of_classify (classify_mkReq (r := { kind := .blobDelete, repo := repo, digest := dg }) ⟨hR, hD, rfl⟩ listN_default)])
    (classify_mkReq ⟨hR, hD, rfl⟩ listN_default) rfl (by rw [mkReq_method]; rfl)
    (by intro own h; cases h) ?_ hcar
  intro b hb
  cases b with
  | unit =>
    obtain ⟨resp, hs, hdec⟩ := C03R.delete_round_trip cfg.H resolveLocal cfg.o
      (srvReqOf cfg { kind := .blobDelete, repo := repo, digest := dg } (mkReq { kind := .blobDelete, repo := repo, digest := dg }))
      (Or.inl rfl)
    rw [respOf_ok cfg _ _ _ hs, finish_single_ok, toResp_ok]
    refine ⟨by simp [Call.dec, requestsMade], ?_⟩
    simp only [Call.dec]
    rw [hdec]
    simp [liftCRes, expectOk]
  | _ => exact absurd hb (by simp [Carriable])

theorem hop_deleteManifest {σ : Type} (cfg : Cfg) (ht : TableOK cfg.table) (fuel : Nat) (B : SBackend σ)
    (st : σ × List Call) (repo dg : Bytes) (hwf : WF cfg (.deleteManifest repo dg))
    (hcar : Carriable cfg (.deleteManifest repo dg) (B st.1 (onWire (.deleteManifest repo dg))).2) :
    hopS cfg fuel B st (.deleteManifest repo dg) =
      (((B st.1 (onWire (.deleteManifest repo dg))).1, st.2 ++ [onWire (.deleteManifest repo dg)]),
        expect cfg (.deleteManifest repo dg) (B st.1 (onWire (.deleteManifest repo dg))).2) := by
  obtain ⟨hR, hD⟩ := hwf
  refine hopS_single_core cfg ht fuel B st _ (mkReq { kind := .manifestDelete, repo := repo, digest := dg })
    { kind := .manifestDelete, repo := repo, digest := dg } rfl
    (by simp [Call.request1, mkReq?_of_classify (classify_mkReq (r := { kind := .manifestDelete, repo := repo, digest := dg }) ⟨hR, Or.inl ⟨hD, rfl⟩⟩ listN_default)])
    (classify_mkReq ⟨hR, Or.inl ⟨hD, rfl⟩⟩ listN_default) rfl (by rw [mkReq_method]; rfl)
    (by intro own h; cases h) ?_ hcar
  intro b hb
  cases b with
  | unit =>
    obtain ⟨resp, hs, hdec⟩ := C03R.delete_round_trip cfg.H resolveLocal cfg.o
      (srvReqOf cfg { kind := .manifestDelete, repo := repo, digest := dg } (mkReq { kind := .manifestDelete, repo := repo, digest := dg }))
      (Or.inr rfl)
    rw [respOf_ok cfg _ _ _ hs, finish_single_ok, toResp_ok]
    refine ⟨by simp [Call.dec, requestsMade], ?_⟩
    simp only [Call.dec]
    rw [hdec]
    simp [liftCRes, expectOk]
  | _ => exact absurd hb (by simp [Carriable])

theorem hop_deleteTag {σ : Type} (cfg : Cfg) (ht : TableOK cfg.table) (fuel : Nat) (B : SBackend σ)
    (st : σ × List Call) (repo tag : Bytes) (hwf : WF cfg (.deleteTag repo tag))
    (hcar : Carriable cfg (.deleteTag repo tag) (B st.1 (onWire (.deleteTag repo tag))).2) :
    hopS cfg fuel B st (.deleteTag repo tag) =
      (((B st.1 (onWire (.deleteTag repo tag))).1, st.2 ++ [onWire (.deleteTag repo tag)]),
        expect cfg (.deleteTag repo tag) (B st.1 (onWire (.deleteTag repo tag))).2) := by
  obtain ⟨hR, hT⟩ := hwf
  have htne : tag ≠ [] := by intro h; rw [h] at hT; exact absurd hT (by decide)
  refine hopS_single_core cfg ht fuel B st _ (mkReq { kind := .manifestDelete, repo := repo, tag := tag })
    { kind := .manifestDelete, repo := repo, tag := tag } rfl
    (by simp [Call.request1, mkReq?_of_classify (classify_mkReq (r := { kind := .manifestDelete, repo := repo, tag := tag }) ⟨hR, Or.inr ⟨hT, rfl⟩⟩ listN_default)])
    (classify_mkReq ⟨hR, Or.inr ⟨hT, rfl⟩⟩ listN_default) (by simp [plan, htne, onWire]) (by rw [mkReq_method]; rfl)
    (by intro own h; cases h) ?_ hcar
  intro b hb
  cases b with
  | unit =>
    obtain ⟨resp, hs, hdec⟩ := C03R.delete_round_trip cfg.H resolveLocal cfg.o
      (srvReqOf cfg { kind := .manifestDelete, repo := repo, tag := tag } (mkReq { kind := .manifestDelete, repo := repo, tag := tag }))
      (Or.inr rfl)
    rw [respOf_ok cfg _ _ _ hs, finish_single_ok, toResp_ok]
    refine ⟨by simp [Call.dec, requestsMade], ?_⟩
    simp only [Call.dec]
    rw [hdec]
    simp [liftCRes, expectOk]
  | _ => exact absurd hb (by simp [Carriable])

end OciModel.Wire

namespace OciModel.Wire
open OciModel OciModel.Ref OciModel.ReqCodec OciModel.RespCodec
open OciModel.ErrCodec (Err)
open OciModel.Props

/-! ### Uploads -/

theorem ofTarget_method (m t : Bytes) : (ofTarget m t).method = m := by
  unfold ofTarget; split <;> rfl

theorem resolveLocal_v2 (x : Bytes) : resolveLocal (sV2Slash ++ x) = some (sV2Slash ++ x) := by
  rw [sV2Slash_eq]; rfl

theorem uploadLoc_eq (repo id : Bytes) : uploadLoc repo id = sV2Slash ++ (repo ++ sUploadsSlash ++ B64Url.encode id) := by
  simp [uploadLoc]

theorem rawRange_rangeStringB {s e : Int} (hs : 0 ≤ s) (hsm : s ≤ maxI64) (hem : e ≤ maxI64) :
    rawRange (rangeStringB s e) = some (rangeString s e) := by
  unfold rangeStringB rangeString rawRange
  simp only
  have hz : (0 : Int) ≤ (if e - 1 < 0 then 0 else e - 1) := by split <;> omega
  have hzm : (if e - 1 < 0 then 0 else e - 1) ≤ maxI64 := by split <;> (unfold maxI64 at *; omega)
  rw [List.append_assoc, List.singleton_append, cutByte_append _ (itoa_no hs cDash (by decide))]
  simp only [atoi_itoa s hs hsm, atoi_itoa _ hz hzm]

theorem rangeStringB_ne_nil (s e : Int) : rangeStringB s e ≠ [] := by
  unfold rangeStringB
  simp

theorem chunkRangeOf_flush {rq : HttpRequest} {s n : Int} (hs : 0 ≤ s) (hn : 0 ≤ n) (hm : s + n ≤ maxI64)
    (hcr : rq.contentRange = rangeStringB s (s + n)) (hcl : rq.contentLength = n) :
    chunkRangeOf rq = some (s, s + n) := by
  unfold chunkRangeOf
  rw [hcr, if_neg (rangeStringB_ne_nil _ _), rawRange_rangeStringB hs (by omega) hm, hcl]
  exact Upload.chunkRange_exact hs hn

theorem hop_startUpload {σ : Type} (cfg : Cfg) (ht : TableOK cfg.table) (fuel : Nat) (B : SBackend σ)
    (st : σ × List Call) (repo : Bytes) (cs : Int) (hwf : WF cfg (.startUpload repo cs))
    (hcar : Carriable cfg (.startUpload repo cs) (B st.1 (onWire (.startUpload repo cs))).2) :
    hopS cfg fuel B st (.startUpload repo cs) =
      (((B st.1 (onWire (.startUpload repo cs))).1, st.2 ++ [onWire (.startUpload repo cs)]),
        expect cfg (.startUpload repo cs) (B st.1 (onWire (.startUpload repo cs))).2) := by
  have hR : isRepo repo = true := hwf
  refine hopS_single_core cfg ht fuel B st _ (mkReq { kind := .blobStartUpload, repo := repo })
    { kind := .blobStartUpload, repo := repo } rfl
    (by simp [Call.request1, mkReq?_of_classify (classify_mkReq (r := { kind := .blobStartUpload, repo := repo }) ⟨hR, rfl⟩ listN_default)])
    (classify_mkReq ⟨hR, rfl⟩ listN_default) rfl (by rw [mkReq_method]; rfl)
    (by intro own h; cases h) ?_ hcar
  intro b hb
  cases b with
  | writer id size chunk =>
    obtain ⟨⟨hid, hu⟩, hc0, hcmax⟩ := hb
    obtain ⟨resp, loc, hloc, hs, hdec⟩ := C03R.startUpload_round_trip cfg.H resolveLocal cfg.o
      (srvReqOf cfg { kind := .blobStartUpload, repo := repo } (mkReq { kind := .blobStartUpload, repo := repo }))
      (id := id) size chunk cs rfl hR hid hu hc0 hcmax
    have hl : loc = uploadLoc repo id := by
      have := locationForUploadID_valid hR hid hu
      simp only [srvReqOf] at hloc
      rw [this] at hloc
      exact (Option.some.inj hloc).symm
    subst hl
    rw [uploadLoc_eq, resolveLocal_v2, ← uploadLoc_eq] at hdec
    rw [respOf_ok cfg _ _ _ hs, finish_single_ok, toResp_ok]
    refine ⟨by simp [Call.dec, requestsMade], ?_⟩
    simp only [Call.dec]
    rw [hdec]
    simp [liftCRes, expectOk, ownChunk, C03R.ownChunk]
  | _ => exact absurd hb (by simp [Carriable])

theorem hop_uploadInfo {σ : Type} (cfg : Cfg) (ht : TableOK cfg.table) (fuel : Nat) (B : SBackend σ)
    (st : σ × List Call) (repo id : Bytes) (cs : Int) (hwf : WF cfg (.uploadInfo repo id cs))
    (hcar : Carriable cfg (.uploadInfo repo id cs) (B st.1 (onWire (.uploadInfo repo id cs))).2) :
    hopS cfg fuel B st (.uploadInfo repo id cs) =
      (((B st.1 (onWire (.uploadInfo repo id cs))).1, st.2 ++ [onWire (.uploadInfo repo id cs)]),
        expect cfg (.uploadInfo repo id cs) (B st.1 (onWire (.uploadInfo repo id cs))).2) := by
  obtain ⟨hR, hid0, hu0⟩ := hwf
  have hcl : classify (ofTarget mGET (uploadLoc repo id)) = .ok { kind := .blobUploadInfo, repo := repo, uploadID := id } := by
    rw [classify_ofTarget, uploadLoc, classifyTarget_location hR hid0 hu0, if_pos rfl]
  refine hopS_single_core cfg ht fuel B st _ (ofTarget mGET (uploadLoc repo id))
    { kind := .blobUploadInfo, repo := repo, uploadID := id } rfl rfl hcl rfl (by rw [ofTarget_method]; rfl)
    (by intro own h; cases h) ?_ hcar
  intro b hb
  cases b with
  | writer id' size chunk =>
    obtain ⟨⟨hid, hu⟩, hs0, hsmax⟩ := hb
    obtain ⟨resp, loc, hloc, hs, hdec⟩ := C03R.uploadInfo_round_trip cfg.H resolveLocal cfg.o
      (srvReqOf cfg { kind := .blobUploadInfo, repo := repo, uploadID := id } (ofTarget mGET (uploadLoc repo id)))
      (id := id') size chunk cs rfl hR hid hu hs0 hsmax
    have hl : loc = uploadLoc repo id' := by
      have := locationForUploadID_valid hR hid hu
      simp only [srvReqOf] at hloc
      rw [this] at hloc
      exact (Option.some.inj hloc).symm
    subst hl
    rw [uploadLoc_eq, resolveLocal_v2, ← uploadLoc_eq] at hdec
    rw [respOf_ok cfg _ _ _ hs, finish_single_ok, toResp_ok]
    refine ⟨by simp [Call.dec, requestsMade], ?_⟩
    simp only [Call.dec]
    rw [hdec]
    simp [liftCRes, expectOk, ownChunk, C03R.ownChunk]
  | _ => exact absurd hb (by simp [Carriable])

theorem hop_uploadChunk {σ : Type} (cfg : Cfg) (ht : TableOK cfg.table) (fuel : Nat) (B : SBackend σ)
    (st : σ × List Call) (repo id : Bytes) (start hint : Int) (data : Bytes)
    (hwf : WF cfg (.uploadChunk repo id start hint data))
    (hcar : Carriable cfg (.uploadChunk repo id start hint data) (B st.1 (onWire (.uploadChunk repo id start hint data))).2) :
    hopS cfg fuel B st (.uploadChunk repo id start hint data) =
      (((B st.1 (onWire (.uploadChunk repo id start hint data))).1, st.2 ++ [onWire (.uploadChunk repo id start hint data)]),
        expect cfg (.uploadChunk repo id start hint data) (B st.1 (onWire (.uploadChunk repo id start hint data))).2) := by
  obtain ⟨hR, ⟨hid0, hu0⟩, hst, hne, hmax⟩ := hwf
  have hcl : classify { ofTarget mPATCH (uploadLoc repo id) with
        contentRange := rangeStringB start (start + data.length), contentLength := data.length, body := data } =
      .ok { kind := .blobUploadChunk, repo := repo, uploadID := id } := by
    refine (classify_congr (b := ofTarget mPATCH (uploadLoc repo id)) rfl rfl rfl rfl).trans ?_
    rw [classify_ofTarget, uploadLoc, classifyTarget_location hR hid0 hu0, if_neg (by decide), if_pos rfl]
  have hpl : plan cfg { kind := .blobUploadChunk, repo := repo, uploadID := id }
      { ofTarget mPATCH (uploadLoc repo id) with
        contentRange := rangeStringB start (start + data.length), contentLength := data.length, body := data } =
      .ok (some (onWire (.uploadChunk repo id start hint data))) := by
    simp only [plan, onWire]
    rw [chunkRangeOf_flush hst (Int.natCast_nonneg _) hmax rfl rfl]
    have hsub : start + (data.length : Int) - start = data.length := by omega
    simp only [hsub]
  refine hopS_single_core cfg ht fuel B st _ _ _ rfl (by simp [Call.request1, hne]) hcl hpl
    (by show ((ofTarget mPATCH (uploadLoc repo id)).method == mHEAD) = false; rw [ofTarget_method]; rfl)
    (by intro own h; cases h) ?_ hcar
  intro b hb
  cases b with
  | writer id' size chunk =>
    obtain ⟨hid, hu⟩ := hb
    obtain ⟨resp, loc, hloc, hs, _, hdec⟩ := C03R.uploadChunk_round_trip cfg.H resolveLocal cfg.o
      (srvReqOf cfg { kind := .blobUploadChunk, repo := repo, uploadID := id }
        { ofTarget mPATCH (uploadLoc repo id) with
          contentRange := rangeStringB start (start + data.length), contentLength := data.length, body := data })
      (id := id') size chunk rfl hR hid hu
    have hl : loc = uploadLoc repo id' := by
      have := locationForUploadID_valid hR hid hu
      simp only [srvReqOf] at hloc
      rw [this] at hloc
      exact (Option.some.inj hloc).symm
    subst hl
    rw [uploadLoc_eq, resolveLocal_v2, ← uploadLoc_eq] at hdec
    rw [respOf_ok cfg _ _ _ hs, finish_single_ok, toResp_ok]
    refine ⟨by simp [Call.dec, requestsMade], ?_⟩
    simp only [Call.dec]
    rw [hdec]
    simp [liftCRes, expectOk]
  | _ => exact absurd hb (by simp [Carriable])

theorem hop_uploadCommit {σ : Type} (cfg : Cfg) (ht : TableOK cfg.table) (fuel : Nat) (B : SBackend σ)
    (st : σ × List Call) (repo id : Bytes) (start hint : Int) (data dg : Bytes)
    (hwf : WF cfg (.uploadCommit repo id start hint data dg))
    (hcar : Carriable cfg (.uploadCommit repo id start hint data dg)
      (B st.1 (onWire (.uploadCommit repo id start hint data dg))).2) :
    hopS cfg fuel B st (.uploadCommit repo id start hint data dg) =
      (((B st.1 (onWire (.uploadCommit repo id start hint data dg))).1,
        st.2 ++ [onWire (.uploadCommit repo id start hint data dg)]),
        expect cfg (.uploadCommit repo id start hint data dg)
          (B st.1 (onWire (.uploadCommit repo id start hint data dg))).2) := by
  obtain ⟨hR, ⟨hid0, hu0⟩, hst, hmax, hD⟩ := hwf
  have hcl : classify { ofTarget mPUT (urlWithDigest (uploadLoc repo id) dg) with
        contentRange := rangeStringB start (start + data.length), contentLength := data.length, body := data } =
      .ok { kind := .blobCompleteUpload, repo := repo, uploadID := id, digest := dg } := by
    refine (classify_congr (b := ofTarget mPUT (urlWithDigest (uploadLoc repo id) dg)) rfl rfl rfl rfl).trans ?_
    rw [classify_ofTarget, uploadLoc, classifyTarget_commit hR hid0 hu0 hD]
  have hpl : plan cfg { kind := .blobCompleteUpload, repo := repo, uploadID := id, digest := dg }
      { ofTarget mPUT (urlWithDigest (uploadLoc repo id) dg) with
        contentRange := rangeStringB start (start + data.length), contentLength := data.length, body := data } =
      .ok (some (onWire (.uploadCommit repo id start hint data dg))) := by
    simp only [plan, onWire]
    rw [chunkRangeOf_flush hst (Int.natCast_nonneg _) hmax rfl rfl]
    have hsub : start + (data.length : Int) - start = data.length := by omega
    simp only [hsub]
  refine hopS_single_core cfg ht fuel B st _ _ _ rfl (by simp [Call.request1, isDigest_ne_nil hD]) hcl hpl
    (by show ((ofTarget mPUT (urlWithDigest (uploadLoc repo id) dg)).method == mHEAD) = false; rw [ofTarget_method]; rfl)
    (by intro own h; cases h) ?_ hcar
  intro b hb
  cases b with
  | commit id' d =>
    obtain ⟨resp, hs, _, hdec⟩ := C03R.completeUpload_round_trip cfg.H resolveLocal cfg.o
      (srvReqOf cfg { kind := .blobCompleteUpload, repo := repo, uploadID := id, digest := dg }
        { ofTarget mPUT (urlWithDigest (uploadLoc repo id) dg) with
          contentRange := rangeStringB start (start + data.length), contentLength := data.length, body := data })
      id' d (start + data.length) dg rfl
    simp only [srvReqOf, List.append_assoc, resolveLocal_v2] at hdec
    rw [respOf_ok cfg _ _ _ hs, finish_single_ok, toResp_ok]
    refine ⟨by simp [Call.dec, requestsMade], ?_⟩
    simp only [Call.dec]
    rw [hdec]
    simp [liftCRes, expectOk]
  | _ => exact absurd hb (by simp [Carriable])

end OciModel.Wire

namespace OciModel.Wire
open OciModel OciModel.Ref OciModel.ReqCodec OciModel.RespCodec
open OciModel.ErrCodec (Err)
open OciModel.Props

/-! ### Referrers -/

theorem hop_referrers {σ : Type} (cfg : Cfg) (ht : TableOK cfg.table) (fuel : Nat)
    (B : SBackend σ) (st : σ × List Call) (repo dg : Bytes) (hwf : WF cfg (.referrers repo dg))
    (ho : cfg.o.disableReferrers = false)
    (hcar : Carriable cfg (.referrers repo dg) (B st.1 (onWire (.referrers repo dg))).2) :
    hopS cfg fuel B st (.referrers repo dg) =
      (((B st.1 (onWire (.referrers repo dg))).1, st.2 ++ [onWire (.referrers repo dg)]),
        expect cfg (.referrers repo dg) (B st.1 (onWire (.referrers repo dg))).2) := by
  obtain ⟨hR, hD⟩ := hwf
  have hcl : classify (mkReq { kind := .referrersList, repo := repo, digest := dg, listN := -1 }) =
      .ok { kind := .referrersList, repo := repo, digest := dg, listN := -1 } :=
    classify_mkReq ⟨hR, hD, rfl⟩ (by show (-1 : Int) ≤ maxInt64; decide)
  have hpl : plan cfg { kind := .referrersList, repo := repo, digest := dg, listN := -1 }
      (mkReq { kind := .referrersList, repo := repo, digest := dg, listN := -1 }) = .ok (some (.referrers repo dg)) := by
    simp [plan, ho]
  have hm : ((mkReq { kind := .referrersList, repo := repo, digest := dg, listN := -1 }).method == mHEAD) = false := by
    rw [mkReq_method]; rfl
  show referrersCallS cfg (serveS cfg B) st repo dg = _
  unfold referrersCallS
  simp only [mkReq?_of_classify hcl, Option.isNone_some, Bool.false_eq_true, if_false]
  simp only [serveS_call cfg B st hcl hpl, onWire]
  cases ha : (B st.1 (.referrers repo dg)).2 with
  | err e =>
    have h4 : 400 ≤ (toResp cfg (errResp cfg e)).status := (wireStatus_error ht e).1
    simp only [respOf, clientReferrers, gate_error h4 (ok := []) (by simp), makeErr_errResp, hm, expect, Call.isHead]
  | ok b =>
    have hcar' : Carriable cfg (.referrers repo dg) (.ok b) := by
      have : (B st.1 (onWire (.referrers repo dg))).2 = .ok b := ha
      rw [this] at hcar; exact hcar
    cases b with
    | descs ds =>
      have hs : serverResp cfg.H cfg.o (srvReqOf cfg { kind := .referrersList, repo := repo, digest := dg, listN := -1 }
          (mkReq { kind := .referrersList, repo := repo, digest := dg, listN := -1 })) (.descs ds) =
          .resp (mkResp 200 [(hContentLength, itoa (encIndex ds).length), (hContentType, mtImageIndex)] (encIndex ds)) := by
        simp only [serverResp, handleReferrersList, srvReqOf, ho]
        rfl
      have hd : clientReferrers cfg.decIndex
          (mkResp 200 [(hContentLength, itoa (encIndex ds).length), (hContentType, mtImageIndex)] (encIndex ds)) = .ok ds := by
        have hc : cfg.decIndex (encIndex ds) = some ds := hcar'
        simp [clientReferrers, gate, mkResp, hc]
      rw [respOf_ok cfg _ _ _ hs, toResp_ok, hd]
      rfl
    | _ => exact absurd hcar' (by simp [Carriable])

end OciModel.Wire

namespace OciModel.Wire
open OciModel OciModel.Ref OciModel.ReqCodec OciModel.RespCodec
open OciModel.ErrCodec (Err)
open OciModel.Props

/-! ### Two requests -/

theorem simpleCallS_one {σ : Type} (cfg : Cfg) (send : σ → HttpRequest → σ × HttpResponse) (s : σ) (c : Call)
    (rq1 : HttpRequest) (h1 : c.request1 cfg = some rq1)
    (h2 : requestsMade resolveLocal (c.dec cfg) [toResp cfg (send s rq1).2] ≠ 2) :
    simpleCallS cfg send s c = ((send s rq1).1, finish cfg c [(rq1, (send s rq1).2)]) := by
  unfold simpleCallS
  simp only [h1]
  rw [if_neg h2]

theorem simpleCallS_two {σ : Type} (cfg : Cfg) (send : σ → HttpRequest → σ × HttpResponse) (s : σ) (c : Call)
    (rq1 rq2 : HttpRequest) (h1 : c.request1 cfg = some rq1)
    (h2 : requestsMade resolveLocal (c.dec cfg) [toResp cfg (send s rq1).2] = 2)
    (h3 : c.request2 rq1 (toResp cfg (send s rq1).2) = some rq2) (h4 : c.refuse2 = none) :
    simpleCallS cfg send s c =
      ((send (send s rq1).1 rq2).1, finish cfg c [(rq1, (send s rq1).2), (rq2, (send (send s rq1).1 rq2).2)]) := by
  unfold simpleCallS
  simp only [h1]
  rw [if_pos h2]
  simp only [h3, h4]

theorem finish_two_ok (cfg : Cfg) (c : Call) (rq1 rq2 : HttpRequest) (r1 r2 : Resp) :
    finish cfg c [(rq1, .ok r1), (rq2, .ok r2)] =
      liftCRes cfg [(rq1, .ok r1), (rq2, .ok r2)] (clientDecode cfg.H resolveLocal (c.dec cfg) [r1, r2]) := rfl

theorem finish_two_err (cfg : Cfg) (c : Call) (rq1 rq2 : HttpRequest) (r1 : Resp) (e : Err) :
    finish cfg c [(rq1, .ok r1), (rq2, errResp cfg e)] =
      liftCRes cfg [(rq1, .ok r1), (rq2, errResp cfg e)]
        (clientDecode cfg.H resolveLocal (c.dec cfg) [r1, toResp cfg (errResp cfg e)]) := rfl

theorem startUpload_resp (cfg : Cfg) {repo id : Bytes} (size chunk : Int) (rq : HttpRequest)
    (hR : isRepo repo = true) (hid : okID id) :
    serverResp cfg.H cfg.o (srvReqOf cfg { kind := .blobStartUpload, repo := repo } rq) (.writer id size chunk) =
      .resp (mkResp 202 [(hLocation, uploadLoc repo id), (hRange, strBytes "0-0"), (hChunkMin, itoa chunk)]) := by
  simp only [serverResp, handleBlobStartUpload, srvReqOf, locationForUploadID_valid hR hid.1 hid.2]
  rfl

theorem uploadLoc_ne_nil (repo id : Bytes) : uploadLoc repo id ≠ [] := by
  rw [uploadLoc_eq, sV2Slash_eq]; simp

theorem hop_pushBlob {σ : Type} (cfg : Cfg) (ht : TableOK cfg.table) (fuel : Nat) (B : SBackend σ)
    (st : σ × List Call) (repo : Bytes) (d : Desc) (content : Bytes) (hwf : WF cfg (.pushBlob repo d content))
    (hcar : pushBlobCarriable B st.1 repo d content) :
    hopS cfg fuel B st (.pushBlob repo d content) =
      (((pushBlobDirect cfg B st.1 repo d content).1, st.2 ++ (pushBlobDirect cfg B st.1 repo d content).2.1),
        (pushBlobDirect cfg B st.1 repo d content).2.2) := by
  obtain ⟨hR, hD, hlen, hmax⟩ := hwf
  have hcl1 : classify (mkReq { kind := .blobStartUpload, repo := repo }) = .ok { kind := .blobStartUpload, repo := repo } :=
    classify_mkReq ⟨hR, rfl⟩ listN_default
  have hpl1 : plan cfg { kind := .blobStartUpload, repo := repo } (mkReq { kind := .blobStartUpload, repo := repo }) =
      .ok (some (.startUpload repo 0)) := rfl
  have hm1 : ((mkReq { kind := .blobStartUpload, repo := repo }).method == mHEAD) = false := by rw [mkReq_method]; rfl
  have hsend1 := serveS_call cfg B st hcl1 hpl1
  unfold hopS
  rw [clientCallS_simple cfg fuel _ st _ rfl]
  unfold pushBlobDirect
  unfold pushBlobCarriable at hcar
  cases ha : (B st.1 (.startUpload repo 0)).2 with
  | err e =>
    rw [simpleCallS_one cfg _ st _ (mkReq { kind := .blobStartUpload, repo := repo }) (by simp [Call.request1, mkReq?_of_classify hcl1]) (by rw [hsend1, ha]; exact requestsMade_error _ _ _ (wireStatus_error ht e).1)]
    rw [hsend1, ha]
    simp only [respOf]
    rw [finish_error cfg ht _ _ _ (by intro own h; cases h), hm1]
  | ok b =>
    rw [ha] at hcar
    cases b with
    | writer id size chunk =>
      obtain ⟨hid, hchunk, hcar2⟩ := hcar
      have hs1 := startUpload_resp cfg size chunk (mkReq { kind := .blobStartUpload, repo := repo }) hR hid
      have hr1 : (serveS cfg B st (mkReq { kind := .blobStartUpload, repo := repo })).2 =
          .ok (mkResp 202 [(hLocation, uploadLoc repo id), (hRange, strBytes "0-0"), (hChunkMin, itoa chunk)]) := by
        rw [hsend1, ha]; exact respOf_ok cfg _ _ _ hs1
      have hloc : locationFromResponse resolveLocal
          (mkResp 202 [(hLocation, uploadLoc repo id), (hRange, strBytes "0-0"), (hChunkMin, itoa chunk)]) =
          .ok (uploadLoc repo id) := by
        simp [locationFromResponse, mkResp, uploadLoc_ne_nil]
        rw [uploadLoc_eq, resolveLocal_v2]
      have hst202 : (mkResp 202 [(hLocation, uploadLoc repo id), (hRange, strBytes "0-0"), (hChunkMin, itoa chunk)]).status = 202 := rfl
      generalize mkResp 202 [(hLocation, uploadLoc repo id), (hRange, strBytes "0-0"), (hChunkMin, itoa chunk)] = r1
        at hr1 hloc hst202
      have hst1 : (serveS cfg B st (mkReq { kind := .blobStartUpload, repo := repo })).1 =
          ((B st.1 (.startUpload repo 0)).1, st.2 ++ [.startUpload repo 0]) := by rw [hsend1]
      -- the PUT
      have hcl2 : classify { ofTarget mPUT (urlWithDigest (uploadLoc repo id) d.digest) with
            contentType := octetStream, contentRange := rangeStringB 0 d.size, contentLength := d.size, body := content } =
          .ok { kind := .blobCompleteUpload, repo := repo, uploadID := id, digest := d.digest } := by
        refine (classify_congr (b := ofTarget mPUT (urlWithDigest (uploadLoc repo id) d.digest)) rfl rfl rfl rfl).trans ?_
        rw [classify_ofTarget, uploadLoc, classifyTarget_commit hR hid.1 hid.2 hD]
      have hsz0 : (0 : Int) ≤ d.size := by rw [← hlen]; exact Int.natCast_nonneg _
      have hpl2 : plan cfg { kind := .blobCompleteUpload, repo := repo, uploadID := id, digest := d.digest }
          { ofTarget mPUT (urlWithDigest (uploadLoc repo id) d.digest) with
            contentType := octetStream, contentRange := rangeStringB 0 d.size, contentLength := d.size, body := content } =
          .ok (some (.uploadCommit repo id 0 d.size content d.digest)) := by
        simp only [plan]
        rw [chunkRangeOf_flush (s := 0) (n := d.size) (by omega) hsz0 (by omega) (by simp) rfl]
        simp
      have hm2 : (({ ofTarget mPUT (urlWithDigest (uploadLoc repo id) d.digest) with
            contentType := octetStream, contentRange := rangeStringB 0 d.size, contentLength := d.size, body := content } :
            HttpRequest).method == mHEAD) = false := by
        show ((ofTarget mPUT (urlWithDigest (uploadLoc repo id) d.digest)).method == mHEAD) = false
        rw [ofTarget_method]; rfl
      rw [simpleCallS_two cfg _ st _ (mkReq { kind := .blobStartUpload, repo := repo })
        { ofTarget mPUT (urlWithDigest (uploadLoc repo id) d.digest) with
          contentType := octetStream, contentRange := rangeStringB 0 d.size, contentLength := d.size, body := content }
        (by simp [Call.request1, mkReq?_of_classify hcl1])
        (by rw [hr1, toResp_ok]; simp [Call.dec, requestsMade, gate, hst202, hloc])
        (by rw [hr1, toResp_ok]; simp only [Call.request2, hloc])
        (by simp [Call.refuse2, hlen])]
      rw [hr1, hst1, serveS_call cfg B _ hcl2 hpl2]
      simp only [List.append_assoc, List.singleton_append]
      cases ha2 : (B (B st.1 (.startUpload repo 0)).1 (.uploadCommit repo id 0 d.size content d.digest)).2 with
      | err e =>
        have h4 : 400 ≤ (toResp cfg (errResp cfg e)).status := (wireStatus_error ht e).1
        simp only [respOf]
        rw [finish_two_err]
        have g2 := gate_error h4 (ok := [201]) (by simp)
        simp only [Call.dec, clientDecode, clientPushBlob, List.head?, hloc, g2]
        simp [gate, hst202, liftCRes, httpFault, makeErr_errResp, hm2]
      | ok b2 =>
        rw [ha2] at hcar2
        cases b2 with
        | commit id' d' =>
          have hs2 : serverResp cfg.H cfg.o (srvReqOf cfg
              { kind := .blobCompleteUpload, repo := repo, uploadID := id, digest := d.digest }
              { ofTarget mPUT (urlWithDigest (uploadLoc repo id) d.digest) with
                contentType := octetStream, contentRange := rangeStringB 0 d.size, contentLength := d.size, body := content })
              (.commit id' d') = .resp (mkResp 201 (locationHeaders (sV2Slash ++ repo ++ strBytes "/blobs/" ++ d'.digest) d')) := rfl
          rw [respOf_ok cfg _ _ _ hs2, finish_two_ok]
          simp [Call.dec, clientDecode, clientPushBlob, gate, hst202, mkResp, hloc, liftCRes]
        | _ => exact absurd hcar2 (by simp)
    | _ => exact absurd hcar (by simp)

end OciModel.Wire

namespace OciModel.Wire
open OciModel OciModel.Ref OciModel.ReqCodec OciModel.RespCodec
open OciModel.ErrCodec (Err)
open OciModel.Props

/-! ### Tag GET against a server that omits the digest -/

/-- manifest up to 128 KiB: one request, the client hashes the body itself -/
theorem hop_getTag_omitted_small {σ : Type} (cfg : Cfg) (fuel : Nat) (B : SBackend σ)
    (st : σ × List Call) (repo tag : Bytes) (hwf : WF cfg (.getTag repo tag)) (ho : cfg.o.omitDigest = true)
    (hH : ∀ x, digestHashable (cfg.H x) = true) (d : Desc) (content : Bytes)
    (ha : (B st.1 (.getTag repo tag)).2 = .ok (.reader d content)) (h0 : 0 ≤ d.size) (hsmall : d.size ≤ inMemThreshold) :
    hopS cfg fuel B st (.getTag repo tag) =
      (((B st.1 (.getTag repo tag)).1, st.2 ++ [.getTag repo tag]),
        if (content.length : Int) = d.size then
          .reader { mediaType := orOctetStream d.mediaType, digest := cfg.H content, size := d.size } true content
        else .fail (.cli .bodySizeMismatch)) := by
  obtain ⟨hR, hT⟩ := hwf
  have htne : tag ≠ [] := by intro h; rw [h] at hT; exact absurd hT (by decide)
  have hcl := classify_mkReq (r := { kind := .manifestGet, repo := repo, tag := tag }) ⟨hR, Or.inr ⟨hT, rfl⟩⟩ listN_default
  have hpl : plan cfg { kind := .manifestGet, repo := repo, tag := tag }
      (mkReq { kind := .manifestGet, repo := repo, tag := tag }) = .ok (some (.getTag repo tag)) := by simp [plan, htne]
  obtain ⟨resp, hs, hd⟩ := C03R.tagGet_omitted_small cfg.H resolveLocal cfg.o
    (srvReqOf cfg { kind := .manifestGet, repo := repo, tag := tag } (mkReq { kind := .manifestGet, repo := repo, tag := tag }))
    d content rfl ho h0 hsmall hH
  have hmax : d.size ≤ maxI64 := by unfold inMemThreshold at hsmall; unfold maxI64; omega
  have hn : ¬ d.size < 0 := by omega
  have hs' : serverResp cfg.H cfg.o (srvReqOf cfg { kind := .manifestGet, repo := repo, tag := tag }
      (mkReq { kind := .manifestGet, repo := repo, tag := tag })) (.reader d content) =
      .resp (mkResp 200 ((if !cfg.o.omitDigest then [(hDigest, d.digest)] else []) ++
        [(hContentType, d.mediaType), (hContentLength, itoa d.size)]) content) := rfl
  have hresp : resp = mkResp 200 ((if !cfg.o.omitDigest then [(hDigest, d.digest)] else []) ++
        [(hContentType, d.mediaType), (hContentLength, itoa d.size)]) content := by
    rw [hs'] at hs; exact (SOut.resp.inj hs).symm
  have hone : requestsMade resolveLocal .getTag [resp] ≠ 2 := by
    rw [hresp]
    simp [requestsMade, gate, descriptorFromResponse, mkResp, hget_cons_ne, ho, parseContentLength_itoa h0 hmax, hn, hsmall]
  rw [hopS_one cfg fuel B st _ (.getTag repo tag) (mkReq { kind := .manifestGet, repo := repo, tag := tag }) _ rfl (by simp [Call.request1, mkReq?_of_classify hcl]) hcl hpl (by rw [ha, respOf_ok cfg _ _ _ hs, toResp_ok]; exact hone)]
  rw [ha, respOf_ok cfg _ _ _ hs, finish_single_ok]
  simp only [Call.dec]
  rw [hd]
  by_cases hl : (content.length : Int) = d.size <;> simp [hl, liftCRes, orOctet_eq]

theorem clientRead_second_error (H : Bytes → Bytes) (r1 r2 : Resp) (d : Desc)
    (h1 : gate [] r1.status = none) (hd : descriptorFromResponse r1 [] true false = .ok d) (hdg : d.digest = [])
    (hbig : ¬ d.size ≤ inMemThreshold) (h4 : 400 ≤ r2.status) :
    clientRead H .manifestGet [] r1 (some r2) = .err (.http r2.status) := by
  have g2 := gate_error h4 (ok := []) (by simp)
  unfold clientRead
  rw [h1]
  simp only [hd, hdg, hbig, g2]
  simp

theorem classify_head_of_get {repo tag : Bytes} (hR : isRepo repo = true) (hT : isTag tag = true) :
    classify { mkReq { kind := .manifestGet, repo := repo, tag := tag } with method := mHEAD } =
      .ok { kind := .manifestHead, repo := repo, tag := tag } :=
  (classify_congr (b := mkReq { kind := .manifestHead, repo := repo, tag := tag })
    (mkReq_method { kind := .manifestHead, repo := repo, tag := tag }).symm rfl rfl rfl).trans
    (classify_mkReq ⟨hR, Or.inr ⟨hT, rfl⟩⟩ listN_default)

/-- manifest over 128 KiB: GET, then HEAD -/
theorem hop_getTag_omitted_large {σ : Type} (cfg : Cfg) (ht : TableOK cfg.table) (fuel : Nat) (B : SBackend σ)
    (st : σ × List Call) (repo tag : Bytes) (hwf : WF cfg (.getTag repo tag)) (ho : cfg.o.omitDigest = true)
    (hcar : match (B st.1 (.getTag repo tag)).2 with
      | .err _ => True
      | .ok (.reader d _) => inMemThreshold < d.size ∧ d.size ≤ maxI64 ∧
          (match (B (B st.1 (.getTag repo tag)).1 (.resolveTag repo tag)).2 with
           | .err _ => True
           | .ok (.desc d2) => okSize d2.size ∧ isDigest d2.digest = true
           | .ok _ => False)
      | .ok _ => False) :
    hopS cfg fuel B st (.getTag repo tag) =
      (((getTagLargeDirect cfg B st.1 repo tag).1, st.2 ++ (getTagLargeDirect cfg B st.1 repo tag).2.1),
        (getTagLargeDirect cfg B st.1 repo tag).2.2) := by
  obtain ⟨hR, hT⟩ := hwf
  have htne : tag ≠ [] := by intro h; rw [h] at hT; exact absurd hT (by decide)
  have hcl := classify_mkReq (r := { kind := .manifestGet, repo := repo, tag := tag }) ⟨hR, Or.inr ⟨hT, rfl⟩⟩ listN_default
  have hpl : plan cfg { kind := .manifestGet, repo := repo, tag := tag }
      (mkReq { kind := .manifestGet, repo := repo, tag := tag }) = .ok (some (.getTag repo tag)) := by simp [plan, htne]
  have hm1 : ((mkReq { kind := .manifestGet, repo := repo, tag := tag }).method == mHEAD) = false := by
    rw [mkReq_method]; rfl
  have hsend1 := serveS_call cfg B st hcl hpl
  unfold hopS
  rw [clientCallS_simple cfg fuel _ st _ rfl]
  unfold getTagLargeDirect
  cases ha : (B st.1 (.getTag repo tag)).2 with
  | err e =>
    rw [simpleCallS_one cfg _ st _ (mkReq { kind := .manifestGet, repo := repo, tag := tag }) (by simp [Call.request1, mkReq?_of_classify hcl]) (by rw [hsend1, ha]; exact requestsMade_error _ _ _ (wireStatus_error ht e).1)]
    rw [hsend1, ha]
    simp only [respOf]
    rw [finish_error cfg ht _ _ _ (by intro own h; cases h), hm1]
  | ok b =>
    rw [ha] at hcar
    cases b with
    | reader d content =>
      obtain ⟨hlarge, hmax, hcar2⟩ := hcar
      have h0 : 0 ≤ d.size := by unfold inMemThreshold at hlarge; omega
      have hn : ¬ d.size < 0 := by omega
      have hbig : ¬ d.size ≤ inMemThreshold := by omega
      have hs1 : serverResp cfg.H cfg.o (srvReqOf cfg { kind := .manifestGet, repo := repo, tag := tag }
          (mkReq { kind := .manifestGet, repo := repo, tag := tag })) (.reader d content) =
          .resp (mkResp 200 ((if !cfg.o.omitDigest then [(hDigest, d.digest)] else []) ++
            [(hContentType, d.mediaType), (hContentLength, itoa d.size)]) content) := rfl
      have hr1 : (serveS cfg B st (mkReq { kind := .manifestGet, repo := repo, tag := tag })).2 =
          .ok (mkResp 200 ((if !cfg.o.omitDigest then [(hDigest, d.digest)] else []) ++
            [(hContentType, d.mediaType), (hContentLength, itoa d.size)]) content) := by
        rw [hsend1, ha]; exact respOf_ok cfg _ _ _ hs1
      have hst1 : (serveS cfg B st (mkReq { kind := .manifestGet, repo := repo, tag := tag })).1 =
          ((B st.1 (.getTag repo tag)).1, st.2 ++ [.getTag repo tag]) := by rw [hsend1]
      have hcl2 := classify_head_of_get hR hT
      have hpl2 : plan cfg { kind := .manifestHead, repo := repo, tag := tag }
          { mkReq { kind := .manifestGet, repo := repo, tag := tag } with method := mHEAD } =
          .ok (some (.resolveTag repo tag)) := by simp [plan, htne]
      rw [simpleCallS_two cfg _ st _ (mkReq { kind := .manifestGet, repo := repo, tag := tag })
        { mkReq { kind := .manifestGet, repo := repo, tag := tag } with method := mHEAD }
        (by simp [Call.request1, mkReq?_of_classify hcl])
        (by rw [hr1, toResp_ok]
            simp [Call.dec, requestsMade, gate, descriptorFromResponse, mkResp, hget_cons_ne, ho,
              parseContentLength_itoa h0 hmax, hn, hbig])
        (by rw [hr1, toResp_ok]; rfl) rfl]
      rw [hr1, hst1, serveS_call cfg B _ hcl2 hpl2]
      simp only [List.append_assoc, List.singleton_append]
      cases ha2 : (B (B st.1 (.getTag repo tag)).1 (.resolveTag repo tag)).2 with
      | err e =>
        have h4 : 400 ≤ (toResp cfg (errResp cfg e)).status := (wireStatus_error ht e).1
        simp only [respOf]
        rw [finish_two_err]
        simp only [Call.dec, clientDecode, List.head?]
        rw [clientRead_second_error cfg.H _ _ { mediaType := orOctetStream d.mediaType, digest := [], size := d.size }
          rfl (by simp [descriptorFromResponse, mkResp, hget_cons_ne, ho, parseContentLength_itoa h0 hmax, hn, orOctetStream])
          rfl hbig h4]
        simp [liftCRes, httpFault, makeErr_errResp]
      | ok b2 =>
        rw [ha2] at hcar2
        cases b2 with
        | desc d2 =>
          obtain ⟨⟨h20, h2max⟩, h2d⟩ := hcar2
          obtain ⟨r1, r2, hq1, hq2, hdec⟩ := C03R.tagGet_omitted_large cfg.H resolveLocal cfg.o
            (srvReqOf cfg { kind := .manifestGet, repo := repo, tag := tag } (mkReq { kind := .manifestGet, repo := repo, tag := tag }))
            d d2 content rfl htne ho hlarge hmax ⟨h20, h2max, h2d⟩
          have e1 : r1 = mkResp 200 ((if !cfg.o.omitDigest then [(hDigest, d.digest)] else []) ++
              [(hContentType, d.mediaType), (hContentLength, itoa d.size)]) content := by
            rw [hs1] at hq1; exact (SOut.resp.inj hq1).symm
          have hs2 : serverResp cfg.H cfg.o (srvReqOf cfg { kind := .manifestHead, repo := repo, tag := tag }
              { mkReq { kind := .manifestGet, repo := repo, tag := tag } with method := mHEAD }) (.desc d2) = .resp r2 := hq2
          rw [respOf_ok cfg _ _ _ hs2, finish_two_ok]
          simp only [Call.dec]
          rw [← e1, hdec]
          simp [liftCRes, orOctet_eq]
        | _ => exact absurd hcar2 (by simp)
    | _ => exact absurd hcar (by simp)

end OciModel.Wire

namespace OciModel.Wire
open OciModel OciModel.Ref OciModel.ReqCodec OciModel.RespCodec
open OciModel.ErrCodec (Err)
open OciModel.Props

/-! ### Every call that is one request and one backend call -/

theorem hop_single {σ : Type} (cfg : Cfg) (ht : TableOK cfg.table) (fuel : Nat)
    (B : SBackend σ) (st : σ × List Call) (c : Call) (hs : Single cfg c) (hwf : WF cfg c)
    (hcar : Carriable cfg c (B st.1 (onWire c)).2) :
    hopS cfg fuel B st c = (((B st.1 (onWire c)).1, st.2 ++ [onWire c]), expect cfg c (B st.1 (onWire c)).2) := by
  cases c with
  | getBlob repo dg => exact hop_getBlob cfg ht fuel B st repo dg hwf hcar
  | getBlobRange repo dg o0 o1 => exact hop_getBlobRange cfg ht fuel B st repo dg o0 o1 hwf hcar
  | getManifest repo dg => exact hop_getManifest cfg ht fuel B st repo dg hwf hcar
  | getTag repo tag => exact hop_getTag cfg ht fuel B st repo tag hwf hs hcar
  | resolveBlob repo dg => exact hop_resolveBlob cfg ht fuel B st repo dg hwf hcar
  | resolveManifest repo dg => exact hop_resolveManifest cfg ht fuel B st repo dg hwf hcar
  | resolveTag repo tag => exact hop_resolveTag cfg ht fuel B st repo tag hwf hcar
  | pushBlob repo d content => exact absurd hs (by simp [Single])
  | pushManifest repo tag content mt => exact hop_pushManifest cfg ht fuel B st repo tag content mt hwf hcar
  | mountBlob fromRepo toRepo dg => exact hop_mountBlob cfg ht fuel B st fromRepo toRepo dg hwf hcar
  | deleteBlob repo dg => exact hop_deleteBlob cfg ht fuel B st repo dg hwf hcar
  | deleteManifest repo dg => exact hop_deleteManifest cfg ht fuel B st repo dg hwf hcar
  | deleteTag repo tag => exact hop_deleteTag cfg ht fuel B st repo tag hwf hcar
  | startUpload repo cs => exact hop_startUpload cfg ht fuel B st repo cs hwf hcar
  | uploadInfo repo id cs => exact hop_uploadInfo cfg ht fuel B st repo id cs hwf hcar
  | uploadChunk repo id start hint data => exact hop_uploadChunk cfg ht fuel B st repo id start hint data hwf hcar
  | uploadCommit repo id start hint data dg => exact hop_uploadCommit cfg ht fuel B st repo id start hint data dg hwf hcar
  | tags repo start => exact absurd hs (by simp [Single])
  | repositories start => exact absurd hs (by simp [Single])
  | referrers repo dg => exact hop_referrers cfg ht fuel B st repo dg hwf hs hcar

end OciModel.Wire

namespace OciModel.Wire
open OciModel OciModel.Ref OciModel.ReqCodec OciModel.RespCodec
open OciModel.ErrCodec (Err)
open OciModel.Props

/-! ### What arrives is what the property calls "the same" -/

theorem faultOf_equiv (cfg : Cfg) (head : Bool) (e : Err)
    (hsmall : head = false → (cfg.errBody (mar cfg e).2).length ≤ errorBodySizeLimit) :
    ErrEquiv cfg head (faultOf cfg head (mar cfg e)) e := by
  cases head with
  | true =>
    refine ⟨ErrCodec.unmarshal cfg.stdMsg true (mar cfg e), by simp [faultOf], ?_, by simp⟩
    exact C07.hop_head_status cfg.S cfg.C cfg.compact cfg.table cfg.stdMsg e
  | false =>
    have h := hsmall rfl
    refine ⟨ErrCodec.unmarshal cfg.stdMsg false (mar cfg e), ?_, ?_, ?_⟩
    · have : ¬ (cfg.errBody (mar cfg e).2).length > errorBodySizeLimit := by omega
      simp [faultOf, this]
    · exact C07.hop_status cfg.S cfg.C cfg.compact cfg.table cfg.stdMsg e
    · intro _
      show ErrCodec.codeOf (ErrCodec.hop cfg.S cfg.C cfg.compact cfg.table cfg.stdMsg false e) = _
      rw [C07.hop_code]
      rfl

theorem expect_equiv (cfg : Cfg) (c : Call) (a : Answer) (hs : Single cfg c) (hcar : Carriable cfg c a)
    (hf : Faithful cfg c a)
    (hsmall : ∀ e, a = .err e → c.isHead = false → (cfg.errBody (mar cfg e).2).length ≤ errorBodySizeLimit) :
    Equiv cfg c (expect cfg c a) a := by
  cases a with
  | err e => exact ⟨_, rfl, faultOf_equiv cfg c.isHead e (hsmall e rfl)⟩
  | ok b =>
    cases c with
    | getBlobRange repo dg o0 o1 =>
      cases b <;> simp only [Carriable] at hcar
      rename_i d content
      obtain ⟨hd, hin⟩ := hf
      simp only [Equiv, expect, expectOk, DescEquiv, Call.carriesMediaType]
      by_cases h : o0 = 0 ∧ o1 < 0
      · exact ⟨{ mediaType := orOctetStream d.mediaType, digest := dg, size := d.size }, true, by rw [if_pos h],
          hd.symm, rfl, by simp⟩
      · exact ⟨{ mediaType := orOctetStream d.mediaType, digest := dg, size := d.size }, false,
          by rw [if_neg h, if_pos hin], hd.symm, rfl, by simp⟩
    | tags repo start => exact absurd hs (by simp [Single])
    | repositories start => exact absurd hs (by simp [Single])
    | _ =>
      cases b <;> simp only [Carriable] at hcar <;>
        simp only [Equiv, expect, expectOk, DescEquiv, Faithful, Call.carriesMediaType] at * <;>
        simp_all

end OciModel.Wire

namespace OciModel.Wire
open OciModel OciModel.Ref OciModel.ReqCodec OciModel.RespCodec
open OciModel.ErrCodec (Err)
open OciModel.Props

/-! ### Listings: one backend call per page -/

theorem listLoopS_exact {σ : Type} (cfg : Cfg) (ht : TableOK cfg.table) (B : SBackend σ)
    (dec : Bytes → Option (List Bytes)) {n : Int} (hn : 0 < n)
    (hpage : ¬ (cfg.o.maxListPageSize > 0 ∧ n > cfg.o.maxListPageSize))
    (k : Kind) (R path : Bytes) (enc : List Bytes → Bytes) (mk : Bytes → Call) (r0 : Request)
    (hdec : ∀ l, dec (enc l) = some l) (h62 : (62 : UInt8) ∉ path) (h63 : (63 : UInt8) ∉ path)
    (hsrv : ∀ q : SrvReq, q.r.kind = k → q.r.repo = R → ∀ items,
      serverResp cfg.H cfg.o q (.items items) =
        match nextListResults cfg.o q.r.listN items with
        | .error e => .err e
        | .ok (page, t) => .resp (listResp cfg.o q page t (enc page)))
    (hcls : ∀ qs last, QueryOK n qs →
      classifyTarget mGET (path ++ [63] ++ encodeQuery (querySet qs qLast last)) =
        .ok { kind := k, repo := R, listN := n, listLast := last })
    (hplan : ∀ r rq, r.kind = k → r.repo = R → r.listN = n → plan cfg r rq = .ok (some (mk r.listLast)))
    (hr0 : ∀ l, classify (mkReq { r0 with listLast := l }) = .ok { kind := k, repo := R, listN := n, listLast := l } ∧
      (mkReq { r0 with listLast := l }).path = path ∧ QueryOK n (mkReq { r0 with listLast := l }).query ∧
      (mkReq { r0 with listLast := l }).method = mGET) :
    ∀ (fuel : Nat) (s : σ) (log : List Call) (rq : HttpRequest) (r : Request),
      classify rq = .ok r → r.kind = k → r.repo = R → r.listN = n → rq.path = path → QueryOK n rq.query →
      rq.method = mGET → pagesCarriable B mk n fuel s r.listLast →
      listLoopS cfg dec n (serveS cfg B) r0 fuel (s, log) rq =
        (((pagesDirect cfg B mk n fuel s r.listLast).1, log ++ (pagesDirect cfg B mk n fuel s r.listLast).2.1),
          (pagesDirect cfg B mk n fuel s r.listLast).2.2.1, (pagesDirect cfg B mk n fuel s r.listLast).2.2.2) := by
  intro fuel
  induction fuel with
  | zero => intro s log rq r _ _ _ _ _ _ _ _; simp [listLoopS, pagesDirect]
  | succ fuel ih =>
    intro s log rq r hcl hk hR hN hp hq hm hcar
    have hsend := serveS_call cfg B (s, log) hcl (hplan r rq hk hR hN)
    have hmh : (rq.method == mHEAD) = false := by rw [hm]; rfl
    unfold listLoopS pagesDirect
    unfold pagesCarriable at hcar
    simp only [hsend]
    cases ha : (B s (mk r.listLast)).2 with
    | err e =>
      have h4 : 400 ≤ (toResp cfg (errResp cfg e)).status := (wireStatus_error ht e).1
      simp only [respOf, clientListPage, gate_error h4 (ok := []) (by simp), makeErr_errResp, hmh]
    | ok b =>
      rw [ha] at hcar
      cases b with
      | items l =>
        simp only at hcar
        have h62' : (62 : UInt8) ∉ (srvReqOf cfg r rq).path := by show (62 : UInt8) ∉ rq.path; rw [hp]; exact h62
        have hs : serverResp cfg.H cfg.o (srvReqOf cfg r rq) (.items l) =
            .resp (listResp cfg.o (srvReqOf cfg r rq) (l.take n.toNat) (decide (n.toNat < l.length)) (enc (l.take n.toNat))) := by
          rw [hsrv (srvReqOf cfg r rq) hk hR]
          show (match nextListResults cfg.o r.listN l with | .error e => _ | .ok (page, t) => _) = _
          rw [hN, nextListResults_page cfg.o hn hpage]
        rw [respOf_ok cfg _ _ _ hs, toResp_ok,
          clientListPage_listResp dec (fun _ => true) cfg.o (srvReqOf cfg r rq) _ _ _ n (hdec _) h62']
        by_cases hshort : ((l.take n.toNat).length : Int) < n
        · simp only [hshort, if_true]
        · simp only [hshort, if_false] at hcar ⊢
          cases hl : (l.take n.toNat).getLast? with
          | none => simp only
          | some x =>
            rw [hl] at hcar
            simp only at hcar ⊢
            by_cases htl : (decide (n.toNat < l.length) && !cfg.o.omitLink) = true
            · -- a Link
              simp only [htl, if_true]
              have hcl' := hcls rq.query x hq
              rw [← hp] at hcl'
              have hsp : splitTarget (rq.path ++ [63] ++ encodeQuery (querySet rq.query qLast x)) =
                  (rq.path, encodeQuery (querySet rq.query qLast x)) := by
                rw [List.append_assoc, List.singleton_append]
                exact splitTarget_query _ (hp ▸ h63)
              have hrq' : ofTarget mGET (rq.path ++ [63] ++ encodeQuery (querySet rq.query qLast x)) =
                  { method := mGET, path := rq.path, query := [(qLast, x), (qN, itoa n)] } := by
                unfold ofTarget
                rw [hsp]
                simp only [parseQuery_link hq x]
              have ih' := ih (B s (mk r.listLast)).1 (log ++ [mk r.listLast])
                (ofTarget mGET (rq.path ++ [63] ++ encodeQuery (querySet rq.query qLast x)))
                { kind := k, repo := R, listN := n, listLast := x }
                (by rw [classify_ofTarget]; exact hcl') rfl rfl rfl (by rw [hrq']; exact hp)
                (by rw [hrq']; exact queryOK_sorted n x) (ofTarget_method _ _) hcar
              show (_, _, _) = _
              simp only [srvReqOf]
              rw [ih']
              simp only [List.append_assoc, List.singleton_append]
            · -- no Link: the initial request with `last` set
              simp only [htl]
              obtain ⟨h1, h2, h3, h4⟩ := hr0 x
              have ih' := ih (B s (mk r.listLast)).1 (log ++ [mk r.listLast]) (mkReq { r0 with listLast := x })
                { kind := k, repo := R, listN := n, listLast := x } h1 rfl rfl rfl h2 h3 h4 hcar
              show (_, _, _) = _
              rw [ih']
              simp only [List.append_assoc, List.singleton_append]
      | _ => exact absurd hcar (by simp)

end OciModel.Wire

namespace OciModel.Wire
open OciModel OciModel.Ref OciModel.ReqCodec OciModel.RespCodec
open OciModel.ErrCodec (Err)
open OciModel.Props

theorem hop_tags {σ : Type} (cfg : Cfg) (ht : TableOK cfg.table) (hdec : DecodersOK cfg) (fuel : Nat)
    (B : SBackend σ) (st : σ × List Call) (repo start : Bytes) (hok : StepOK cfg fuel B st.1 (.tags repo start)) :
    hopS cfg fuel B st (.tags repo start) =
      (((direct cfg fuel B st.1 (.tags repo start)).1, st.2 ++ (direct cfg fuel B st.1 (.tags repo start)).2.1),
        (direct cfg fuel B st.1 (.tags repo start)).2.2) := by
  obtain ⟨hR, hpage, hmax, hcar⟩ := hok
  have hR : isRepo repo = true := hR
  have hn : 0 < Pager.effectivePageSize cfg.pageSize := by unfold Pager.effectivePageSize; split <;> omega
  have hloop := listLoopS_exact cfg ht B cfg.decTags hn hpage .tagsList repo (tagsPath repo) (encTags repo) (.tags repo)
    { kind := .tagsList, repo := repo, listN := Pager.effectivePageSize cfg.pageSize, listLast := start }
    (hdec.1 repo) (tagsPath_no hR (by decide)) (tagsPath_no hR (by decide))
    (by
      intro q hk hq items
      simp only [serverResp, hk, handleTagsList, hq]
      cases nextListResults cfg.o q.r.listN items with
      | error e => rfl
      | ok pt => rfl)
    (fun qs last hq => classifyTarget_tagsLink hR (by omega) hmax hq last)
    (by intro r rq hk hR' hN'; simp only [plan, hk, hR', hN']; rw [if_neg hpage])
    (by
      intro l
      refine ⟨classify_mkReq ⟨hR, by show Pager.effectivePageSize cfg.pageSize ≥ -1; omega, rfl⟩ (by exact hmax), rfl, ?_, ?_⟩
      · exact queryOK_listQuery { kind := .tagsList, repo := repo, listN := Pager.effectivePageSize cfg.pageSize, listLast := l }
          (by show 0 ≤ Pager.effectivePageSize cfg.pageSize; omega)
      · rw [mkReq_method]; rfl)
  obtain ⟨h1, h2, h3, h4⟩ : _ := (by
      refine ⟨classify_mkReq (r := { kind := .tagsList, repo := repo, listN := Pager.effectivePageSize cfg.pageSize, listLast := start })
        ⟨hR, by show Pager.effectivePageSize cfg.pageSize ≥ -1; omega, rfl⟩ (by exact hmax), rfl, ?_, ?_⟩
      · exact queryOK_listQuery { kind := .tagsList, repo := repo, listN := Pager.effectivePageSize cfg.pageSize, listLast := start }
          (by show 0 ≤ Pager.effectivePageSize cfg.pageSize; omega)
      · rw [mkReq_method]; rfl :
    classify (mkReq { kind := .tagsList, repo := repo, listN := Pager.effectivePageSize cfg.pageSize, listLast := start }) =
        .ok { kind := .tagsList, repo := repo, listN := Pager.effectivePageSize cfg.pageSize, listLast := start } ∧
      (mkReq { kind := .tagsList, repo := repo, listN := Pager.effectivePageSize cfg.pageSize, listLast := start }).path = tagsPath repo ∧
      QueryOK (Pager.effectivePageSize cfg.pageSize)
        (mkReq { kind := .tagsList, repo := repo, listN := Pager.effectivePageSize cfg.pageSize, listLast := start }).query ∧
      (mkReq { kind := .tagsList, repo := repo, listN := Pager.effectivePageSize cfg.pageSize, listLast := start }).method = mGET)
  have := hloop fuel st.1 st.2 _ _ h1 rfl rfl rfl h2 h3 h4 hcar
  show listCallS cfg cfg.decTags (serveS cfg B) fuel st _ = _
  unfold listCallS
  rw [mkReq?_of_classify h1]
  simp only [Option.isNone_some, Bool.false_eq_true, if_false]
  rw [show st = (st.1, st.2) from rfl, this]
  rfl

theorem hop_repositories {σ : Type} (cfg : Cfg) (ht : TableOK cfg.table) (hdec : DecodersOK cfg) (fuel : Nat)
    (B : SBackend σ) (st : σ × List Call) (start : Bytes) (hok : StepOK cfg fuel B st.1 (.repositories start)) :
    hopS cfg fuel B st (.repositories start) =
      (((direct cfg fuel B st.1 (.repositories start)).1, st.2 ++ (direct cfg fuel B st.1 (.repositories start)).2.1),
        (direct cfg fuel B st.1 (.repositories start)).2.2) := by
  obtain ⟨_, hpage, hmax, hcar⟩ := hok
  have hn : 0 < Pager.effectivePageSize cfg.pageSize := by unfold Pager.effectivePageSize; split <;> omega
  have hloop := listLoopS_exact cfg ht B cfg.decCatalog hn hpage .catalogList [] catalogPath encCatalog .repositories
    { kind := .catalogList, listN := Pager.effectivePageSize cfg.pageSize, listLast := start }
    hdec.2 (catalogPath_no (by decide)) (catalogPath_no (by decide))
    (by
      intro q hk hq items
      simp only [serverResp, hk, handleCatalogList]
      cases nextListResults cfg.o q.r.listN items with
      | error e => rfl
      | ok pt => rfl)
    (fun qs last hq => classifyTarget_catalogLink (by omega) hmax hq last)
    (by intro r rq hk hR' hN'; simp only [plan, hk, hN']; rw [if_neg hpage])
    (by
      intro l
      refine ⟨classify_mkReq ⟨by show Pager.effectivePageSize cfg.pageSize ≥ -1; omega, rfl⟩ (by exact hmax), rfl, ?_, ?_⟩
      · exact queryOK_listQuery { kind := .catalogList, listN := Pager.effectivePageSize cfg.pageSize, listLast := l }
          (by show 0 ≤ Pager.effectivePageSize cfg.pageSize; omega)
      · rw [mkReq_method]; rfl)
  obtain ⟨h1, h2, h3, h4⟩ : _ := (by
      refine ⟨classify_mkReq (r := { kind := .catalogList, listN := Pager.effectivePageSize cfg.pageSize, listLast := start })
        ⟨by show Pager.effectivePageSize cfg.pageSize ≥ -1; omega, rfl⟩ (by exact hmax), rfl, ?_, ?_⟩
      · exact queryOK_listQuery { kind := .catalogList, listN := Pager.effectivePageSize cfg.pageSize, listLast := start }
          (by show 0 ≤ Pager.effectivePageSize cfg.pageSize; omega)
      · rw [mkReq_method]; rfl :
    classify (mkReq { kind := .catalogList, listN := Pager.effectivePageSize cfg.pageSize, listLast := start }) =
        .ok { kind := .catalogList, listN := Pager.effectivePageSize cfg.pageSize, listLast := start } ∧
      (mkReq { kind := .catalogList, listN := Pager.effectivePageSize cfg.pageSize, listLast := start }).path = catalogPath ∧
      QueryOK (Pager.effectivePageSize cfg.pageSize)
        (mkReq { kind := .catalogList, listN := Pager.effectivePageSize cfg.pageSize, listLast := start }).query ∧
      (mkReq { kind := .catalogList, listN := Pager.effectivePageSize cfg.pageSize, listLast := start }).method = mGET)
  have := hloop fuel st.1 st.2 _ _ h1 rfl rfl rfl h2 h3 h4 hcar
  show listCallS cfg cfg.decCatalog (serveS cfg B) fuel st _ = _
  unfold listCallS
  rw [mkReq?_of_classify h1]
  simp only [Option.isNone_some, Bool.false_eq_true, if_false]
  rw [show st = (st.1, st.2) from rfl, this]
  rfl

end OciModel.Wire

namespace OciModel.Wire
open OciModel OciModel.Ref OciModel.ReqCodec OciModel.RespCodec
open OciModel.ErrCodec (Err)
open OciModel.Props

/-! ### Every call -/

theorem hop_getTag_any {σ : Type} (cfg : Cfg) (ht : TableOK cfg.table) (fuel : Nat) (B : SBackend σ)
    (st : σ × List Call) (repo tag : Bytes) (hok : StepOK cfg fuel B st.1 (.getTag repo tag)) :
    hopS cfg fuel B st (.getTag repo tag) =
      (((direct cfg fuel B st.1 (.getTag repo tag)).1, st.2 ++ (direct cfg fuel B st.1 (.getTag repo tag)).2.1),
        (direct cfg fuel B st.1 (.getTag repo tag)).2.2) := by
  obtain ⟨hwf, hcar⟩ := hok
  by_cases ho : cfg.o.omitDigest = true
  · simp only [ho, if_true] at hcar
    obtain ⟨hH, hcar⟩ := hcar
    simp only [direct, ho, if_true]
    cases ha : (B st.1 (.getTag repo tag)).2 with
    | err e =>
      rw [hop_getTag_omitted_large cfg ht fuel B st repo tag hwf ho (by rw [ha]; trivial)]
    | ok b =>
      rw [ha] at hcar
      cases b with
      | reader d content =>
        obtain ⟨h0, hmax, h2⟩ := hcar
        by_cases hsmall : d.size ≤ inMemThreshold
        · simp only [hsmall, if_true]
          exact hop_getTag_omitted_small cfg fuel B st repo tag hwf ho hH d content ha h0 hsmall
        · simp only [hsmall, if_false]
          rw [hop_getTag_omitted_large cfg ht fuel B st repo tag hwf ho
            (by rw [ha]; exact ⟨by omega, hmax, h2 (by omega)⟩)]
      | _ => exact absurd hcar (by simp)
  · have ho' : cfg.o.omitDigest = false := by simpa using ho
    simp only [ho', Bool.false_eq_true, if_false] at hcar
    simp only [direct, ho', Bool.false_eq_true, if_false]
    exact hop_getTag cfg ht fuel B st repo tag hwf ho' hcar

theorem hop_exact {σ : Type} (cfg : Cfg) (ht : TableOK cfg.table) (hdec : DecodersOK cfg) (fuel : Nat)
    (B : SBackend σ) (st : σ × List Call) (c : Call) (hok : StepOK cfg fuel B st.1 c) :
    hopS cfg fuel B st c =
      (((direct cfg fuel B st.1 c).1, st.2 ++ (direct cfg fuel B st.1 c).2.1), (direct cfg fuel B st.1 c).2.2) := by
  cases c with
  | pushBlob repo d content => exact hop_pushBlob cfg ht fuel B st repo d content hok.1 hok.2
  | getTag repo tag => exact hop_getTag_any cfg ht fuel B st repo tag hok
  | tags repo start => exact hop_tags cfg ht hdec fuel B st repo start hok
  | repositories start => exact hop_repositories cfg ht hdec fuel B st start hok
  | referrers repo dg => exact hop_referrers cfg ht fuel B st repo dg hok.1 hok.2.1 hok.2.2
  | getBlob repo dg => exact hop_getBlob cfg ht fuel B st repo dg hok.1 hok.2
  | getBlobRange repo dg o0 o1 => exact hop_getBlobRange cfg ht fuel B st repo dg o0 o1 hok.1 hok.2
  | getManifest repo dg => exact hop_getManifest cfg ht fuel B st repo dg hok.1 hok.2
  | resolveBlob repo dg => exact hop_resolveBlob cfg ht fuel B st repo dg hok.1 hok.2
  | resolveManifest repo dg => exact hop_resolveManifest cfg ht fuel B st repo dg hok.1 hok.2
  | resolveTag repo tag => exact hop_resolveTag cfg ht fuel B st repo tag hok.1 hok.2
  | pushManifest repo tag content mt => exact hop_pushManifest cfg ht fuel B st repo tag content mt hok.1 hok.2
  | mountBlob fromRepo toRepo dg => exact hop_mountBlob cfg ht fuel B st fromRepo toRepo dg hok.1 hok.2
  | deleteBlob repo dg => exact hop_deleteBlob cfg ht fuel B st repo dg hok.1 hok.2
  | deleteManifest repo dg => exact hop_deleteManifest cfg ht fuel B st repo dg hok.1 hok.2
  | deleteTag repo tag => exact hop_deleteTag cfg ht fuel B st repo tag hok.1 hok.2
  | startUpload repo cs => exact hop_startUpload cfg ht fuel B st repo cs hok.1 hok.2
  | uploadInfo repo id cs => exact hop_uploadInfo cfg ht fuel B st repo id cs hok.1 hok.2
  | uploadChunk repo id start hint data => exact hop_uploadChunk cfg ht fuel B st repo id start hint data hok.1 hok.2
  | uploadCommit repo id start hint data dg =>
    exact hop_uploadCommit cfg ht fuel B st repo id start hint data dg hok.1 hok.2

/-- **Histories.** -/
theorem hopHistory_exact {σ : Type} (cfg : Cfg) (ht : TableOK cfg.table) (hdec : DecodersOK cfg) (fuel : Nat)
    (B : SBackend σ) : ∀ (cs : List Call) (st : σ × List Call), HistOK cfg fuel B st.1 cs →
    hopHistory cfg fuel B st cs =
      (((directHist cfg fuel B st.1 cs).1, st.2 ++ (directHist cfg fuel B st.1 cs).2.1), (directHist cfg fuel B st.1 cs).2.2) := by
  intro cs
  induction cs with
  | nil => intro st _; simp [hopHistory, directHist]
  | cons c cs ih =>
    intro st hok
    obtain ⟨h1, h2⟩ := hok
    have hstep := hop_exact cfg ht hdec fuel B st c h1
    unfold hopHistory directHist
    rw [hstep]
    have := ih ((direct cfg fuel B st.1 c).1, st.2 ++ (direct cfg fuel B st.1 c).2.1) h2
    rw [this]
    simp only [List.append_assoc]

end OciModel.Wire

namespace OciModel.Wire
open OciModel OciModel.Ref OciModel.ReqCodec OciModel.RespCodec
open OciModel.ErrCodec (Err)
open OciModel.Props

/-! ### Histories of single calls: the property's equivalence, call by call -/

theorem direct_single {σ : Type} (cfg : Cfg) (fuel : Nat) (B : SBackend σ) (s : σ) (c : Call) (hs : Single cfg c) :
    direct cfg fuel B s c = ((B s (onWire c)).1, [onWire c], expect cfg c (B s (onWire c)).2) := by
  cases c with
  | pushBlob repo d content => exact hs.elim
  | tags repo start => exact hs.elim
  | repositories start => exact hs.elim
  | getTag repo tag =>
    have ho : cfg.o.omitDigest = false := hs
    simp [direct, ho, onWire]
  | _ => rfl

theorem stepOK_carriable {σ : Type} (cfg : Cfg) (fuel : Nat) (B : SBackend σ) (s : σ) (c : Call) (hs : Single cfg c)
    (hok : StepOK cfg fuel B s c) : Carriable cfg c (B s (onWire c)).2 := by
  cases c with
  | pushBlob repo d content => exact hs.elim
  | tags repo start => exact hs.elim
  | repositories start => exact hs.elim
  | getTag repo tag =>
    have ho : cfg.o.omitDigest = false := hs
    have := hok.2
    simpa [ho, onWire] using this
  | referrers repo dg => exact hok.2.2
  | _ => exact hok.2

theorem hopHistory_transparent {σ : Type} (cfg : Cfg) (ht : TableOK cfg.table) (hdec : DecodersOK cfg) (fuel : Nat)
    (B : SBackend σ) : ∀ (cs : List Call) (st : σ × List Call), (∀ c ∈ cs, Single cfg c) →
    HistOK cfg fuel B st.1 cs → HistFaithful cfg B st.1 cs →
    (hopHistory cfg fuel B st cs).1 = ((directHistory B st.1 (cs.map onWire)).1, st.2 ++ cs.map onWire) ∧
    EquivAll cfg cs (hopHistory cfg fuel B st cs).2 (directHistory B st.1 (cs.map onWire)).2 := by
  intro cs
  induction cs with
  | nil => intro st _ _ _; simp [hopHistory, directHistory, EquivAll]
  | cons c cs ih =>
    intro st hs hok hf
    obtain ⟨h1, h2⟩ := hok
    obtain ⟨f1, f2, f3⟩ := hf
    have hsc := hs c (by simp)
    have hstep := hop_exact cfg ht hdec fuel B st c h1
    rw [direct_single cfg fuel B st.1 c hsc] at hstep h2
    have ih' := ih ((B st.1 (onWire c)).1, st.2 ++ [onWire c]) (fun c' hc' => hs c' (by simp [hc'])) h2 f3
    simp only [hopHistory, hstep, List.map_cons, directHistory]
    refine ⟨?_, ?_, ih'.2⟩
    · rw [ih'.1]; simp
    · exact expect_equiv cfg c _ hsc (stepOK_carriable cfg fuel B st.1 c hsc h1) f1 f2

end OciModel.Wire

namespace OciModel.Wire
open OciModel OciModel.Ref OciModel.ReqCodec OciModel.RespCodec
open OciModel.ErrCodec (Err)
open OciModel.Props

/-! ### The exceptions -/

/-- F3: the empty range never reaches the backend. -/
theorem hop_getBlobRange_empty {σ : Type} (cfg : Cfg) (ht : TableOK cfg.table) (fuel : Nat) (B : SBackend σ)
    (st : σ × List Call) (repo dg : Bytes) (o : Int) (hR : isRepo repo = true) (hD : isDigest dg = true)
    (h0 : 0 ≤ o) (hmax : o ≤ maxI64) :
    hopS cfg fuel B st (.getBlobRange repo dg o o) =
      (st, .fail (faultOf cfg false (mar cfg (serrErr .range416)))) := by
  have hfull : ¬ (o = 0 ∧ o < 0) := by omega
  have hcl : classify { mkReq { kind := .blobGet, repo := repo, digest := dg } with range := cliRangeHdr o o } =
      .ok { kind := .blobGet, repo := repo, digest := dg } :=
    (classify_congr rfl rfl rfl rfl).trans (classify_mkReq ⟨hR, hD, rfl⟩ listN_default)
  have hcall : blobCall (cliRangeHdr o o) = none := (C03R.range_header_empty_refused h0 hmax h0 hmax).mpr (by omega)
  have hpl : plan cfg { kind := .blobGet, repo := repo, digest := dg }
      { mkReq { kind := .blobGet, repo := repo, digest := dg } with range := cliRangeHdr o o } =
      .error (serrErr .range416) := by simp [plan, hcall]
  have hsend := serveS_refuse cfg B st hcl hpl
  have hm : (({ mkReq { kind := .blobGet, repo := repo, digest := dg } with range := cliRangeHdr o o } : HttpRequest).method == mHEAD) = false := by
    show ((mkReq { kind := .blobGet, repo := repo, digest := dg }).method == mHEAD) = false
    rw [mkReq_method]; rfl
  unfold hopS
  rw [clientCallS_simple cfg fuel _ st _ rfl]
  rw [simpleCallS_one cfg _ st _ { mkReq { kind := .blobGet, repo := repo, digest := dg } with range := cliRangeHdr o o }
    (by simp [Call.request1, hfull, mkReq?_of_classify (classify_mkReq (r := { kind := .blobGet, repo := repo, digest := dg }) ⟨hR, hD, rfl⟩ listN_default)])
    (by rw [hsend]; exact requestsMade_error _ _ _ (wireStatus_error ht _).1)]
  rw [hsend, finish_error cfg ht _ _ _ (by intro own h; cases h), hm]

theorem onWire_idem (c : Call) : onWire (onWire c) = onWire c := by
  cases c with
  | getBlobRange repo dg o0 o1 =>
    by_cases h : o0 = 0 ∧ o1 < 0
    · simp [onWire, h]
    · by_cases h1 : o1 < 0
      · have h0 : ¬ o0 = 0 := fun e => h ⟨e, h1⟩
        simp [onWire, h1, h0]
      · simp [onWire, h1]
  | _ => simp [onWire]

theorem onWire_plain (c : Call) (h : c.plain = true) : onWire c = c := by
  cases c <;> first | rfl | cases h

/-- the server's answer does not depend on which calls were recorded before -/
theorem serveS_stateless (cfg : Cfg) (B : Backend) (log : List Call) (rq : HttpRequest) :
    (serveS cfg (fun (_ : Unit) c => ((), B c)) ((), log) rq).2 = (serverHandle cfg B rq).1 ∧
    (serveS cfg (fun (_ : Unit) c => ((), B c)) ((), log) rq).1.2 = log ++ (serverHandle cfg B rq).2 := by
  unfold serverHandle serveS
  cases hc : classify rq with
  | error pe => simp
  | ok r =>
    cases hp : plan cfg r rq with
    | error e => simp [hp]
    | ok oc => cases oc <;> simp [hp]

end OciModel.Wire

namespace OciModel.Wire
open OciModel OciModel.Ref OciModel.ReqCodec OciModel.RespCodec

theorem jsonChar_ne_nil (c : UInt8) : 1 ≤ (jsonChar c).length := by
  unfold jsonChar
  repeat (first | split | simp)

theorem jsonStr_length_ge (s : Bytes) : s.length ≤ (jsonStr s).length := by
  have h : ∀ s : Bytes, s.length ≤ (s.flatMap jsonChar).length := by
    intro s
    induction s with
    | nil => simp
    | cons c s ih =>
      have := jsonChar_ne_nil c
      simp only [List.flatMap_cons, List.length_append, List.length_cons]
      omega
  have := h s
  simp only [jsonStr, List.length_append, List.length_cons, List.length_nil]
  omega

/-- the marshalled error body is at least as long as the message in it -/
theorem errBodyJSON_length_ge (w : ErrCodec.Wire) (h : w.2.1 ≠ []) : w.2.1.length ≤ (errBodyJSON w).length := by
  have := jsonStr_length_ge w.2.1
  simp only [errBodyJSON, h, if_false, List.length_append]
  omega

end OciModel.Wire

namespace OciModel.Wire
open OciModel OciModel.Ref OciModel.ReqCodec OciModel.RespCodec

/-! ### The client's result depends on the answers only -/

section sim
variable {σ₁ σ₂ : Type} (cfg : Cfg) (send₁ : σ₁ → HttpRequest → σ₁ × HttpResponse)
  (send₂ : σ₂ → HttpRequest → σ₂ × HttpResponse) (R : σ₁ → σ₂ → Prop)
  (hR : ∀ s₁ s₂ rq, R s₁ s₂ → (send₁ s₁ rq).2 = (send₂ s₂ rq).2 ∧ R (send₁ s₁ rq).1 (send₂ s₂ rq).1)
include hR

theorem simpleCallS_sim (s₁ : σ₁) (s₂ : σ₂) (h : R s₁ s₂) (c : Call) :
    (simpleCallS cfg send₁ s₁ c).2 = (simpleCallS cfg send₂ s₂ c).2 := by
  unfold simpleCallS
  cases c.request1 cfg with
  | none => rfl
  | some rq1 =>
    simp only
    obtain ⟨e1, r1⟩ := hR s₁ s₂ rq1 h
    rw [e1]
    split
    · cases c.refuse2 with
      | some f => rfl
      | none =>
        cases c.request2 rq1 (toResp cfg (send₂ s₂ rq1).2) with
        | none => rfl
        | some rq2 =>
          obtain ⟨e2, _⟩ := hR _ _ rq2 r1
          simp only [e2]
    · rfl

theorem listLoopS_sim (dec : Bytes → Option (List Bytes)) (n : Int) (r0 : Request) :
    ∀ (fuel : Nat) (s₁ : σ₁) (s₂ : σ₂) (rq : HttpRequest), R s₁ s₂ →
      (listLoopS cfg dec n send₁ r0 fuel s₁ rq).2 = (listLoopS cfg dec n send₂ r0 fuel s₂ rq).2 := by
  intro fuel
  induction fuel with
  | zero => intro s₁ s₂ rq _; rfl
  | succ fuel ih =>
    intro s₁ s₂ rq h
    obtain ⟨e1, r1⟩ := hR s₁ s₂ rq h
    unfold listLoopS
    rw [e1]
    cases hp : clientListPage dec (fun _ => true) n (toResp cfg (send₂ s₂ rq).2) with
    | error e => cases e <;> rfl
    | ok p =>
      obtain ⟨items, nx⟩ := p
      cases nx with
      | none => rfl
      | some nx =>
        simp only
        cases nx with
        | viaLast l =>
          simp only
          have := ih _ _ (mkReq { r0 with listLast := l }) r1
          rw [Prod.ext_iff] at this
          simp only [this.1, this.2]
        | viaLink t =>
          simp only
          have := ih _ _ (ofTarget mGET t) r1
          rw [Prod.ext_iff] at this
          simp only [this.1, this.2]
        | bad => rfl

theorem clientCallS_sim (fuel : Nat) (s₁ : σ₁) (s₂ : σ₂) (h : R s₁ s₂) (c : Call) :
    (clientCallS cfg fuel send₁ s₁ c).2 = (clientCallS cfg fuel send₂ s₂ c).2 := by
  have hsimple := simpleCallS_sim cfg send₁ send₂ R hR s₁ s₂ h
  cases c with
  | tags repo start =>
    simp only [clientCallS, listCallS]
    split
    · rfl
    · have := listLoopS_sim cfg send₁ send₂ R hR cfg.decTags (Pager.effectivePageSize cfg.pageSize)
        { kind := .tagsList, repo := repo, listN := Pager.effectivePageSize cfg.pageSize, listLast := start }
        fuel s₁ s₂ (mkReq { kind := .tagsList, repo := repo, listN := Pager.effectivePageSize cfg.pageSize, listLast := start }) h
      rw [Prod.ext_iff] at this
      simp only [this.1, this.2]
  | repositories start =>
    simp only [clientCallS, listCallS]
    split
    · rfl
    · have := listLoopS_sim cfg send₁ send₂ R hR cfg.decCatalog (Pager.effectivePageSize cfg.pageSize)
        { kind := .catalogList, listN := Pager.effectivePageSize cfg.pageSize, listLast := start }
        fuel s₁ s₂ (mkReq { kind := .catalogList, listN := Pager.effectivePageSize cfg.pageSize, listLast := start }) h
      rw [Prod.ext_iff] at this
      simp only [this.1, this.2]
  | referrers repo dg =>
    simp only [clientCallS, referrersCallS]
    split
    · rfl
    · obtain ⟨e1, _⟩ := hR s₁ s₂ (mkReq { kind := .referrersList, repo := repo, digest := dg, listN := -1 }) h
      simp only [e1]
  | _ => exact hsimple _

end sim

/-- **The task's two functions, and the composed run**: the client's result over `serverHandle` is the result
of `hopS` over the same backend, whatever calls were recorded before. -/
theorem clientCall_serverHandle (cfg : Cfg) (fuel : Nat) (B : Backend) (log : List Call) (c : Call) :
    clientCall cfg fuel (fun rq => (serverHandle cfg B rq).1) c =
      (hopS cfg fuel (fun (_ : Unit) c => ((), B c)) ((), log) c).2 := by
  unfold clientCall hopS
  exact clientCallS_sim cfg (fun (_ : Unit) rq => ((), (serverHandle cfg B rq).1))
    (serveS cfg (fun (_ : Unit) c => ((), B c))) (fun _ _ => True)
    (fun _ s₂ rq _ => ⟨((serveS_stateless cfg B s₂.2 rq).1).symm, trivial⟩) fuel () ((), log) trivial c

/-! ### F31: a call by digest reports the digest asked for, over ANY transport -/

theorem liftCRes_desc? (cfg : Cfg) (xs : List (HttpRequest × HttpResponse)) (r : CRes) :
    (liftCRes cfg xs r).desc? = r.desc? := by
  cases r with
  | err e => cases e <;> rfl
  | _ => rfl

theorem dec_requested (cfg : Cfg) (c : Call) {dg : Bytes} (h : c.requested = some dg) :
    (c.dec cfg).requested = some dg := by
  cases c <;> simp only [Call.requested] at h <;> first | exact h | cases h

theorem finish_requested (cfg : Cfg) (c : Call) {dg : Bytes} (hc : c.requested = some dg) (hne : dg ≠ [])
    (xs : List (HttpRequest × HttpResponse)) {d : Desc} (h : (finish cfg c xs).desc? = some d) : d.digest = dg := by
  unfold finish at h
  rw [liftCRes_desc?] at h
  exact clientDecode_requested cfg.H resolveLocal _ (dec_requested cfg c hc) hne _ h

theorem clientCallS_requested {σ : Type} (cfg : Cfg) (fuel : Nat) (send : σ → HttpRequest → σ × HttpResponse) (s : σ)
    (c : Call) {dg : Bytes} (hc : c.requested = some dg) (hne : dg ≠ []) {d : Desc}
    (h : (clientCallS cfg fuel send s c).2.desc? = some d) : d.digest = dg := by
  have hl : c.isListing = false := by cases c <;> first | rfl | cases hc
  have hr : c.refuse2 = none := by cases c <;> first | rfl | cases hc
  have hnr : c.noRequest cfg = finish cfg c [] := by cases c <;> first | rfl | cases hc
  rw [clientCallS_simple cfg fuel send s c hl] at h
  unfold simpleCallS at h
  split at h
  · rw [hnr] at h; exact finish_requested cfg c hc hne _ h
  · split at h
    · rw [hr] at h
      split at h
      · rename_i hh; cases hh
      · exact finish_requested cfg c hc hne _ h
      · exact finish_requested cfg c hc hne _ h
    · exact finish_requested cfg c hc hne _ h

end OciModel.Wire
